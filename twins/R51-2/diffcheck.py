#!/usr/bin/env python
"""
Differential check for refactorings of modules/pel/peltool/peltool.py (the
directory modes and look-ups) and modules/pel/peltool/config.py.

usage: python diffcheck.py <pristine_root> <patched_root>

Builds directories of binary PELs (well-formed, truncated, corrupted, random),
then runs

  * the peltool.py CLI of both trees in subprocesses (many option
    combinations, also under `python -O` and with stdout on /dev/full), and
  * an in-process driver (one subprocess per tree, normal and -O) that calls
    the directory / look-up functions directly many times in one process,
    including option combinations main() can not produce and a simulated BMC
    environment,

and compares stdout, stderr, exit status / raised exception and the resulting
directory trees.  Prints "IDENTICAL (<n> cases)" and exits 0 if everything is
the same, exits 1 otherwise.
"""
import contextlib
import hashlib
import io
import json
import os
import random
import shutil
import struct
import subprocess
import sys
from concurrent.futures import ThreadPoolExecutor

HERE = os.path.dirname(os.path.abspath(__file__))
PY = sys.executable
BMC_PATH = "/var/lib/phosphor-logging/extensions/pels/logs/"
BMC_ARCHIVE = "/var/lib/phosphor-logging/extensions/pels/logs/archive"


# --------------------------------------------------------------------------
# PEL builder
# --------------------------------------------------------------------------
def hdr(sid: bytes, length: int, ver=1, sub=0, comp=0x2000) -> bytes:
    return sid + struct.pack('>HBBH', length & 0xFFFF, ver, sub, comp)


def bcd(y, mo, d, h, mi, s) -> bytes:
    return bytes.fromhex("%04d%02d%02d%02d%02d%02d00" % (y, mo, d, h, mi, s))


def private_header(creator=b'O', count=2, obmc=1, plid=0x50000001,
                   eid=0x50000001, comp=0x2000, day=1, sid=b'PH') -> bytes:
    body = bcd(2024, 1, day, 10, 11, 12) + bcd(2024, 1, day, 10, 11, 13)
    body += creator + b'\x00\x00' + bytes([count & 0xFF])
    body += struct.pack('>IQII', obmc, 0x0102030405060708, plid, eid)
    return hdr(sid, 48, comp=comp) + body


def user_header(sev=0x40, flags=0xA000, subsys=0x10, scope=0x03, etype=0x00,
                states=0x00000203, comp=0x2000, sid=b'UH') -> bytes:
    body = struct.pack('>BBBBIBBHI', subsys, scope, sev, etype, 0, 0x10, 0x20,
                       flags, states)
    return hdr(sid, 24, comp=comp) + body


def fru_callout(loc=b'Ufcs-P0\x00', pn=b'PN12345\x00', ccin=b'CC12',
                sn=b'SN1234567890', prio=b'H', fruflags=0x1D) -> bytes:
    fru = b'ID' + bytes([4 + 8 + 4 + 12, fruflags]) + pn + ccin + sn
    size = 4 + len(loc) + len(fru)
    return bytes([size, 0x00]) + prio + bytes([len(loc)]) + loc + fru


def proc_callout() -> bytes:
    fru = b'ID' + bytes([4 + 8, 0x32]) + b'BMC0001\x00'
    size = 4 + len(fru)
    return bytes([size, 0x00]) + b'M' + bytes([0]) + fru


def pce_mru_callout() -> bytes:
    loc = b'U1-P1\x00\x00\x00'
    pce = b'PE' + bytes([4 + 8 + 12 + 4, 0]) + b'9105-22A' + \
        b'SERIAL123456' + b'pce\x00'
    mru = b'MR' + bytes([8 + 16, 0x02]) + b'\x00' * 4 + \
        struct.pack('>IIII', ord('H'), 0x11112222, ord('L'), 0x33334444)
    size = 4 + len(loc) + len(pce) + len(mru)
    return bytes([size, 0]) + b'L' + bytes([len(loc)]) + loc + pce + mru


def src_section(ascii_str=b'BD8D1001', words=None, callouts=None, flags=0,
                wordcount=9, sid=b'PS', comp=0x2000) -> bytes:
    words = words or [0x020000F0 | 0x55, 0x2C010000, 0x00000010, 0x23000000,
                      0xAAAA0001, 0xBBBB0002, 0xCCCC0003, 0xDDDD0004]
    asc = ascii_str.ljust(32, b' ')[:32]
    cbytes = b''
    if callouts:
        payload = b''.join(callouts)
        cbytes = b'\xC0\x00' + struct.pack('>H', (4 + len(payload)) // 4) + \
            payload
        flags |= 0x01
    body = bytes([0x02, flags, 0x00, wordcount]) + b'\x00\x00' + \
        struct.pack('>H', 72 + len(cbytes))
    body += b''.join(struct.pack('>I', w & 0xFFFFFFFF) for w in words)
    body += asc + cbytes
    return hdr(sid, 8 + len(body), comp=comp) + body


def ud_section(data: bytes, sub=1, comp=0x2000, ver=1, sid=b'UD') -> bytes:
    while len(data) % 4:
        data += b'\x00'
    return hdr(sid, 8 + len(data), ver=ver, sub=sub, comp=comp) + data


def ed_section(data: bytes, creator=b'O', sub=1, comp=0x2000) -> bytes:
    while len(data) % 4:
        data += b'\x00'
    return hdr(b'ED', 12 + len(data), sub=sub, comp=comp) + creator + \
        b'\x00\x00\x00' + data


def mt_section() -> bytes:
    return hdr(b'MT', 28) + b'9105-22A' + b'13ABCDE\x00\x00\x00\x00\x00'


def eh_section(symptom=b'BD8D1001_2C010000\x00\x00\x00') -> bytes:
    body = b'9105-22A' + b'13ABCDE\x00\x00\x00\x00\x00' + \
        b'fw1050.00-1'.ljust(16, b'\x00') + b'fw-sub-1'.ljust(16, b'\x00') + \
        b'\x00' * 4 + bcd(2024, 2, 3, 4, 5, 6) + b'\x00\x00\x00' + \
        bytes([len(symptom)]) + symptom
    return hdr(b'EH', 8 + len(body)) + body


def lp_section() -> bytes:
    body = struct.pack('>HBBI', 0x0001, 8, 3, 0x90000001) + b'lpar-01\x00' + \
        struct.pack('>HHH', 1, 2, 3) + b'\x00\x00'
    return hdr(b'LP', 8 + len(body)) + body


def unknown_section(sid=b'XX', n=20) -> bytes:
    return hdr(sid, 8 + n, comp=0x1234) + bytes(range(n))


def pel(sections, count=None, **kw) -> bytes:
    ph_kw = {k: kw[k] for k in ('creator', 'obmc', 'plid', 'eid', 'day')
             if k in kw}
    uh_kw = {k: kw[k] for k in ('sev', 'flags', 'subsys', 'scope', 'etype',
                                'states') if k in kw}
    n = 2 + len(sections) if count is None else count
    return private_header(count=n, **ph_kw) + user_header(**uh_kw) + \
        b''.join(sections)


def std_sections(asc=b'BD8D1001', callouts=None):
    return [src_section(asc, callouts=callouts), eh_section(), mt_section(),
            ud_section(b'{"Key": "value", "List": [1, 2, "x:y"], '
                       b'"Quote\\"d": {"a": 1}}')]


def fname(day, eid, ext=''):
    return "202401%02d10111300_%08X%s" % (day, eid, ext)


def scenario_mixed():
    """name -> bytes / ('link', target) / ('dir', {...})"""
    f = {}
    # 1 serviceable unrecoverable
    f[fname(1, 0x50000001)] = pel(std_sections(), eid=0x50000001,
                                  plid=0x50000001, obmc=11, day=1)
    # 2 informational, not serviceable
    f[fname(2, 0x50000002)] = pel(std_sections(b'BD8D2002'), eid=0x50000002,
                                  plid=0x50000001, obmc=12, sev=0x00,
                                  flags=0x0000, day=2)
    # 3 informational + service action -> serviceable
    f[fname(3, 0x50000003, '.pel')] = pel(
        std_sections(b'BD8D3003'), eid=0x50000003, plid=0x50000003, obmc=13,
        sev=0x00, flags=0x8000, day=3)
    # 4 hidden recovered
    f[fname(4, 0x50000004)] = pel(std_sections(b'BD8D4004'), eid=0x50000004,
                                  plid=0x50000004, obmc=14, sev=0x10,
                                  flags=0x6000, day=4)
    # 5 critical system termination
    f[fname(5, 0x50000005, '.pel')] = pel(
        std_sections(b'BD8D5005'), eid=0x50000005, plid=0x50000005, obmc=15,
        sev=0x51, flags=0x2000, day=5)
    # 6 hostboot predictive with callouts
    f[fname(6, 0x90000006)] = pel(
        [src_section(b'BC8A1234', callouts=[fru_callout(), proc_callout(),
                                           pce_mru_callout()], comp=0x0100),
         ud_section(b'some text\nsecond line\x01\n', sub=3),
         ud_section(bytes(range(40)), sub=2),
         ud_section(bytes(range(17)), sub=9, comp=0x0100),
         ed_section(b'{"ed": true}'), lp_section(), unknown_section()],
        creator=b'B', eid=0x90000006, plid=0x90000006, obmc=16, sev=0x20,
        flags=0xA800, day=6)
    # 7 PHYP critical
    f[fname(7, 0x80000007, '.pel')] = pel(
        [src_section(b'B7001111', comp=0x4850), unknown_section(b'SW', 12),
         unknown_section(b'DH', 5)],
        creator=b'H', eid=0x80000007, plid=0x80000007, obmc=17, sev=0x50,
        flags=0xA000, day=7)
    # 8 no primary SRC
    f[fname(8, 0x50000008)] = pel([ud_section(b'{"only": "ud"}'),
                                   mt_section()], eid=0x50000008,
                                  plid=0x50000008, obmc=18, day=8)
    # 9 headers only
    f[fname(9, 0x50000009)] = pel([], eid=0x50000009, plid=0x50000009,
                                  obmc=19, day=9, sev=0x60, flags=0xA000)
    # 10 same EID as #1 (different name / content), symptom severity
    f[fname(10, 0x50000001, '.dup')] = pel(
        std_sections(b'BD8DAAAA'), eid=0x50000001, plid=0x5000000A, obmc=11,
        sev=0x70, flags=0xA000, day=10)
    # 11 unknown creator
    f[fname(11, 0x5000000B)] = pel(std_sections(b'11001111'), creator=b'Z',
                                   eid=0x5000000B, plid=0x50000001, obmc=21,
                                   day=11)
    # 12 creator byte not decodable
    f[fname(12, 0x5000000C)] = pel(std_sections(), creator=b'\xff',
                                   eid=0x5000000C, plid=0x5000000C, obmc=22)
    # 13 section count larger than the data
    f[fname(13, 0x5000000D)] = pel(std_sections(b'BD8D000D'), count=9,
                                   eid=0x5000000D, plid=0x5000000D, obmc=23)
    # 14 wrong first section / wrong second section
    f[fname(14, 0x5000000E)] = private_header(sid=b'QQ') + user_header()
    f[fname(15, 0x5000000F)] = private_header(eid=0x5000000F, obmc=25) + \
        user_header(sid=b'ZZ')
    # 16 SRC ascii not UTF-8
    f[fname(16, 0x50000010)] = pel([src_section(b'BD\xff\xfe1001')],
                                   eid=0x50000010, plid=0x50000010, obmc=26)
    # 17 secondary SRC before primary, two secondaries
    f[fname(17, 0x50000011)] = pel(
        [src_section(b'BD8D0011', sid=b'SS'), src_section(b'BD8D1111'),
         src_section(b'BD8D2222', sid=b'SS', wordcount=5)],
        eid=0x50000011, plid=0x50000011, obmc=27, day=17)
    # 18 truncated in the user header / in a later section
    good = f[fname(1, 0x50000001)]
    f[fname(18, 0x50000012)] = good[:60]
    f[fname(19, 0x50000013)] = good[:100]
    # misc non PEL files
    f['empty.pel'] = b''
    f['one'] = b'P'
    f['notes.txt'] = b'just some text, not a PEL\n'
    f['leftover.json'] = b'{"a": 1}\n'
    f['.hidden'] = b'PH'
    f['random.bin'] = random.Random(1234).randbytes(300)
    f['archive'] = ('dir', {
        fname(20, 0x50000014): pel(std_sections(b'BD8D0014'), eid=0x50000014,
                                   plid=0x50000014, obmc=30),
        'sub.txt': b'x'})
    f['50000014.d'] = ('dir', {})
    f['link_to_first'] = ('link', fname(1, 0x50000001))
    f['link_to_dir'] = ('link', 'archive')
    return f


def scenario_fuzz(seed):
    rnd = random.Random(seed)
    bases = [v for v in scenario_mixed().values() if isinstance(v, bytes)
             and len(v) > 100]
    f = {}
    for i in range(36):
        base = bytearray(rnd.choice(bases))
        kind = i % 4
        if kind == 0:
            base = base[:rnd.randrange(0, len(base))]
        elif kind == 1:
            for _ in range(rnd.randrange(1, 6)):
                base[rnd.randrange(len(base))] = rnd.randrange(256)
        elif kind == 2:
            # corrupt only behind the two headers
            for _ in range(rnd.randrange(1, 10)):
                base[rnd.randrange(72, len(base))] = rnd.randrange(256)
        else:
            pos = rnd.randrange(72, len(base))
            base[pos:pos] = rnd.randbytes(rnd.randrange(1, 9))
        eid = struct.unpack('>I', bytes(base[44:48]).ljust(4, b'\0'))[0] \
            if kind != 0 else rnd.randrange(1 << 32)
        ext = rnd.choice(['', '', '.pel'])
        f["20240201%08d_%08X%s" % (i, eid, ext)] = bytes(base)
    for i in range(4):
        f['rnd%d' % i] = rnd.randbytes(rnd.randrange(0, 200))
    return f


def scenario_dangling():
    f = dict(list(scenario_mixed().items())[:3])
    f['zz_dangling'] = ('link', 'does-not-exist')
    return f


def scenario_small():
    m = scenario_mixed()
    keep = [fname(1, 0x50000001), fname(4, 0x50000004),
            fname(6, 0x90000006), fname(3, 0x50000003, '.pel'), 'notes.txt']
    return {k: m[k] for k in keep}


SCENARIOS = {
    'mixed': scenario_mixed,
    'small': scenario_small,
    'empty': dict,
    'dangling': scenario_dangling,
    'fuzz1': lambda: scenario_fuzz(1),
    'fuzz2': lambda: scenario_fuzz(2),
    'fuzz3': lambda: scenario_fuzz(3),
    'fuzz4': lambda: scenario_fuzz(4),
}
_SCEN_CACHE = {}


def scenario_files(name):
    if name not in _SCEN_CACHE:
        _SCEN_CACHE[name] = SCENARIOS[name]()
    return _SCEN_CACHE[name]


def materialize(files, dest):
    os.makedirs(dest)
    for name, content in files.items():
        p = os.path.join(dest, name)
        if isinstance(content, bytes):
            with open(p, 'wb') as fd:
                fd.write(content)
        elif content[0] == 'link':
            os.symlink(content[1], p)
        else:
            materialize(content[1], p)


EXCLUDE_TEXT = "BD8D1001\nBD8D4004 BC8A1234\n# B7001111\n"


def build_workdir(work, scenario):
    """work/pels (the scenario), work/out (empty), work/misc (aux files)"""
    if os.path.lexists(work):
        shutil.rmtree(work)
    os.makedirs(work)
    materialize(scenario_files(scenario), os.path.join(work, 'pels'))
    os.makedirs(os.path.join(work, 'out'))
    misc = os.path.join(work, 'misc')
    os.makedirs(misc)
    with open(os.path.join(misc, 'exclude.txt'), 'w') as fd:
        fd.write(EXCLUDE_TEXT)
    with open(os.path.join(misc, 'exclude_empty.txt'), 'w') as fd:
        pass
    m = scenario_mixed()
    with open(os.path.join(misc, 'good.pel'), 'wb') as fd:
        fd.write(m[fname(6, 0x90000006)])
    with open(os.path.join(misc, 'info.pel'), 'wb') as fd:
        fd.write(m[fname(2, 0x50000002)])
    with open(os.path.join(misc, 'trunc.pel'), 'wb') as fd:
        fd.write(m[fname(1, 0x50000001)][:90])
    with open(os.path.join(misc, 'badph.pel'), 'wb') as fd:
        fd.write(m[fname(14, 0x5000000E)])
    with open(os.path.join(misc, 'baduh.pel'), 'wb') as fd:
        fd.write(m[fname(15, 0x5000000F)])
    with open(os.path.join(misc, 'junk.pel'), 'wb') as fd:
        fd.write(b'\x00' * 7)


def snapshot(top):
    snap = []
    for root, dirs, files in os.walk(top):
        dirs.sort()
        rel = os.path.relpath(root, top)
        for d in list(dirs):
            p = os.path.join(root, d)
            if os.path.islink(p):
                snap.append((os.path.join(rel, d), 'link', os.readlink(p)))
            else:
                snap.append((os.path.join(rel, d), 'dir', ''))
        for fn in sorted(files):
            p = os.path.join(root, fn)
            if os.path.islink(p):
                snap.append((os.path.join(rel, fn), 'link', os.readlink(p)))
            else:
                with open(p, 'rb') as fd:
                    snap.append((os.path.join(rel, fn), 'file',
                                 hashlib.sha1(fd.read()).hexdigest()))
    snap.sort()
    return snap


def normalize_err(text, root):
    text = text.replace(root, '<ROOT>')
    out = []
    in_tb = False
    for line in text.split('\n'):
        if line.startswith('Traceback (most recent call last):'):
            in_tb = True
            out.append(line)
            continue
        if in_tb:
            if line.startswith(' '):
                continue          # frames, source lines, ^^^^ markers
            in_tb = False
        out.append(line)
    return '\n'.join(out)


# --------------------------------------------------------------------------
# CLI cases
# --------------------------------------------------------------------------
FILTERS = [[], ['-E'], ['-s'], ['-N'], ['-H'], ['-t'], ['-O'], ['-H', '-O'],
           ['-sNH'], ['-N', '-O'], ['-S', 'Informational'],
           ['-O', '-S', 'Critical', 'Predictive'],
           ['-s', '-O', '-S', 'Unrecoverable'], ['-t', '-O'],
           ['-H', '-S', 'Recovered', 'Symptom', '-O'],
           ['-S', 'Diagnostic', 'Symptom'], ['-r'], ['-r', '-E'], ['-x'],
           ['-x', '-E'], ['-x', '-r', '-H'], ['-e', '.pel'],
           ['-e', '.pel', '-E', '-r'], ['-e', '.txt', '-E'],
           ['-e', 'pel'], ['-P'], ['-P', '-E', '-x'], ['-E', '-P', '-r']]


def cli_cases():
    cases = []

    def add(scen, args, pyflags=(), stdout='pipe', nopath=False):
        cases.append({'scenario': scen, 'args': list(args),
                      'pyflags': list(pyflags), 'stdout': stdout,
                      'nopath': nopath})

    for mode in ('-l', '-n', '-a'):
        for flt in FILTERS:
            add('mixed', [mode] + flt)
    for scen in ('fuzz1', 'fuzz2', 'fuzz3', 'fuzz4', 'empty', 'dangling',
                 'small'):
        for args in (['-l'], ['-l', '-E'], ['-l', '-E', '-x', '-r'],
                     ['-n'], ['-n', '-E'], ['-n', '-H', '-O'],
                     ['-a'], ['-a', '-E'], ['-a', '-E', '-x'],
                     ['-a', '-E', '-P', '-r'], ['-a', '-e', '.pel', '-E'],
                     ['-j'], ['-j', '-E', '-c'], ['-j', '-E', '-o', '{O}'],
                     ['-j', '-E', '-c', '-o', '{O}', '-e', '.pel'],
                     ['--plid', '50000001', '-E'],
                     ['--plid', '0x50000001', '-x', '-E'],
                     ['--src', 'BD', '-E'], ['--src', 'BD8D1001'],
                     ['--src', '8', '-E', '-x', '-r'],
                     ['--src-exclude', '{M}/exclude.txt', '-E'],
                     ['--src-exclude', '{M}/exclude.txt', '-x'],
                     ['--bmc-id', '11'], ['--bmc-id', '16', '-x'],
                     ['--bmc-id', '99999', '-E'],
                     ['-i', '50000001'], ['-i', '0x90000006', '-x'],
                     ['-d', '50000001'], ['-d', '0x50000004'], ['-D']):
            add(scen, args)

    # look-ups on the mixed directory
    ids = ['50000001', '0x50000001', '0X50000001', '50000003', '90000006',
           '0x90000006', '5000000c', '5000000E', '5000000F', '50000012',
           '50000014', 'FFFFFFFF', '5000000', '500000011', '', '0x', 'zzzzzzzz',
           '50000002', '50000004', '50000008', '50000009', '50000010']
    for i in ids:
        add('mixed', ['-i', i])
        add('mixed', ['-d', i])
    for i in ids[:8]:
        add('mixed', ['-i', i, '-x'])
        add('mixed', ['-i', i, '-O', '-H'])
        add('mixed', ['-i', i, '-P'])
    for b in ['11', '12', '13', '14', '15', '16', '17', '18', '19', '21',
              '22', '23', '25', '26', '27', '30', '0', '1', 'x', '011', '-1']:
        add('mixed', ['--bmc-id=' + b])
    for b in ['11', '16', '14', '999']:
        add('mixed', ['--bmc-id', b, '-x'])
        add('mixed', ['--bmc-id', b, '-O', '-s'])
    for p in ['50000001', '0x50000001', '5000000a', '90000006', '80000007',
              'FFFFFFFF', '5000000', '0x5000000', '500000011', '5000000C',
              '5000000D', '50000008']:
        add('mixed', ['--plid', p])
        add('mixed', ['--plid', p, '-E'])
        add('mixed', ['--plid', p, '-E', '-x'])
        add('mixed', ['--plid', p, '-E', '-r', '-e', '.pel'])
    for s in ['BD', 'BD8D', 'BD8D1001', 'bd8d', 'BC8A1234', 'B7', '1',
              'BD8D1001 ', 'X' * 32, 'X' * 33, ' ', 'BD8DAAAA', '11001111']:
        add('mixed', ['--src', s])
        add('mixed', ['--src', s, '-E'])
        add('mixed', ['--src', s, '-E', '-x', '-r'])
    for x in ['{M}/exclude.txt', '{M}/exclude_empty.txt', '{M}/nope.txt',
              '{M}', '{P}/notes.txt', '{P}/random.bin']:
        add('mixed', ['--src-exclude', x])
        add('mixed', ['--src-exclude', x, '-E'])
        add('mixed', ['--src-exclude', x, '-E', '-x'])
        add('mixed', ['--src-exclude', x, '--src', 'BD', '-E'])
    add('mixed', ['-D'])
    add('mixed', ['-D', '-e', '.pel'])
    add('mixed', ['-d', '50000001', '-D'])
    # --json
    for extra in ([], ['-c'], ['-E'], ['-E', '-c'], ['-o', '{O}'],
                  ['-o', '{O}', '-c', '-E'], ['-o', '{O}/missing'],
                  ['-o', '{M}/exclude.txt'], ['-e', '.pel', '-E'],
                  ['-e', '.pel', '-c', '-o', '{O}'], ['-H', '-O', '-c'],
                  ['-x', '-E'], ['-P', '-E', '-o', '{O}'], ['-l'], ['-r', '-E'],
                  ['-o', '{P}/archive', '-E', '-c']):
        add('mixed', ['-j'] + extra)
    # -f
    for fl in ['{M}/good.pel', '{M}/info.pel', '{M}/trunc.pel',
               '{M}/badph.pel', '{M}/baduh.pel', '{M}/junk.pel',
               '{M}/missing.pel', '{M}', '{P}/empty.pel']:
        for extra in ([], ['-c'], ['-x'], ['-x', '-c', '-E'], ['-E'],
                      ['-H', '-O', '-c'], ['-P']):
            add('mixed', ['-f', fl] + extra)
        add('mixed', ['-f', fl, '-c'], nopath=True)
    # argument handling
    add('mixed', [])
    add('mixed', ['-l'], nopath=True)
    add('mixed', ['--help'], nopath=True)
    add('mixed', ['-h'])
    add('mixed', ['-A', '-l'])
    add('mixed', ['--bogus'])
    add('mixed', ['-S', 'Nope', '-l'])
    add('mixed', ['-S'])
    add('mixed', ['-p'], nopath=True)
    add('mixed', ['-p', '{M}/exclude.txt', '-l'], nopath=True)
    add('mixed', ['-p', '{M}/nodir', '-a'], nopath=True)
    add('mixed', ['-p', '{P}/link_to_dir', '-l', '-E'], nopath=True)
    add('mixed', ['-p', '{P}/archive', '-a', '-E'], nopath=True)
    add('mixed', ['-p', '{P}/50000014.d', '-n', '-E'], nopath=True)
    add('mixed', ['-l', '-n', '-a'])
    add('mixed', ['-n', '-a', '-D'])
    add('mixed', ['-i', '50000001', '--bmc-id', '12', '--plid', '50000001'])
    add('mixed', ['--plid', '50000001', '--src', 'BD', '-l'])
    add('mixed', ['-e', '', '-l', '-E'])
    # python -O
    for args in (['-l', '-E'], ['-a', '-E'], ['-n', '-E'], ['-a', '-x', '-E'],
                 ['-j', '-E', '-c', '-o', '{O}'], ['--plid', '50000001', '-E'],
                 ['--src', 'BD', '-E'], ['--bmc-id', '16'],
                 ['-i', '50000001'], ['-d', '50000001'], ['-D'],
                 ['--src-exclude', '{M}/exclude.txt', '-E'],
                 ['-f', '{M}/good.pel', '-c'], ['-f', '{M}/trunc.pel'],
                 ['--help']):
        add('mixed', args, pyflags=['-O'])
        add('fuzz2', args, pyflags=['-O'])
    # stdout that can not be written
    for args in (['-l', '-E'], ['-a', '-E'], ['-a', '-E', '-x'], ['-n', '-E'],
                 ['--plid', '50000001', '-E'], ['--src', 'BD', '-E', '-x'],
                 ['--bmc-id', '16'], ['-i', '90000006'], ['-i', 'FFFFFFFF'],
                 ['-d', 'FFFFFFFF'], ['-f', '{M}/good.pel', '-c'],
                 ['-f', '{M}/good.pel', '-x', '-c'], ['-j', '-E', '-c']):
        add('mixed', args, stdout='/dev/full')
        add('mixed', args, pyflags=['-u'], stdout='/dev/full')
    return cases


def run_cli(root, case, work):
    build_workdir(work, case['scenario'])
    sub = {'{P}': os.path.join(work, 'pels'), '{O}': os.path.join(work, 'out'),
           '{M}': os.path.join(work, 'misc')}

    def subst(a):
        for k, v in sub.items():
            a = a.replace(k, v)
        return a
    args = [subst(a) for a in case['args']]
    if not case['nopath']:
        args = ['-p', sub['{P}']] + args
    env = {'PYTHONPATH': os.path.join(root, 'modules'),
           'PYTHONDONTWRITEBYTECODE': '1', 'PYTHONHASHSEED': '0',
           'COLUMNS': '80', 'LINES': '24', 'PATH': os.environ.get('PATH', ''),
           'LC_ALL': 'C.UTF-8'}
    cmd = [PY] + case['pyflags'] + \
        [os.path.join(root, 'modules', 'pel', 'peltool', 'peltool.py')] + args
    if case['stdout'] == 'pipe':
        proc = subprocess.run(cmd, env=env, cwd=work, stdin=subprocess.DEVNULL,
                              stdout=subprocess.PIPE, stderr=subprocess.PIPE,
                              timeout=120)
        out = proc.stdout.decode('utf-8', 'replace')
    else:
        with open(case['stdout'], 'w') as sink:
            proc = subprocess.run(cmd, env=env, cwd=work,
                                  stdin=subprocess.DEVNULL, stdout=sink,
                                  stderr=subprocess.PIPE, timeout=120)
        out = ''
    err = normalize_err(proc.stderr.decode('utf-8', 'replace'), root)
    out = out.replace(root, '<ROOT>')
    return [proc.returncode, out, err, snapshot(work)]


# --------------------------------------------------------------------------
# in-process driver
# --------------------------------------------------------------------------
CFG_FLAGS = ['every_pel', 'serviceable', 'non_serviceable', 'hidden',
             'critSysTerm', 'only']


def ip_cases():
    """(label, scenario, kind, payload)"""
    rnd = random.Random(77)
    cases = []

    def rnd_cfg():
        cfg = {k: True for k in CFG_FLAGS if rnd.random() < 0.3}
        sevs = rnd.choice([[], [], [0], [5, 2], [4], [1, 7, 6]])
        if sevs:
            cfg['severities'] = sevs
        if rnd.random() < 0.3:
            cfg['hex'] = True
        if rnd.random() < 0.3:
            cfg['rev'] = True
        if rnd.random() < 0.25:
            cfg['extension'] = rnd.choice(['.pel', '.txt', '.dup', 'x'])
        if rnd.random() < 0.2:
            cfg['allow_plugins'] = False
        return cfg

    cases.append(('config-defaults', 'small', 'config', None))
    for scen in ('mixed', 'fuzz1', 'fuzz3', 'small', 'empty'):
        for fn in ('listOption', 'printPELCount', 'extractAllPELsData'):
            for _ in range(60 if scen == 'mixed' else 15):
                cases.append((fn, scen, 'pathcfg', (fn, '{P}', rnd_cfg())))
    # repeat the very same decode several times in one process
    for _ in range(3):
        for fn in ('listOption', 'extractAllPELsData', 'printPELCount'):
            cases.append((fn + '-repeat', 'mixed', 'pathcfg',
                          (fn, '{P}', {'every_pel': True})))
    # getFileList
    for path in ('{P}', '{P}/', '{P}/archive', '{P}/notes.txt', '{P}/nope',
                 '{P}/link_to_dir', '{P}/50000014.d', ''):
        for ext in (None, '', '.pel', '.txt', 'pel', '.', '.json'):
            for rev in (False, True):
                cases.append(('getFileList', 'mixed', 'call',
                              ('getFileList', [path, ext, rev])))
        cases.append(('getFileList-default', 'mixed', 'call',
                      ('getFileList', [path, None])))
    # look-ups with option combinations, also ones main() never produces
    for scen in ('mixed', 'fuzz2', 'small'):
        for _ in range(40):
            cfg = rnd_cfg()
            cfg['plid'] = rnd.choice(['50000001', '0x50000001', '90000006',
                                      '5000000a', 'abc', 'FFFFFFFF'])
            cases.append(('plid', scen, 'pathcfg',
                          ('parsePelFromPLID', '{P}', cfg)))
        for _ in range(60):
            cfg = rnd_cfg()
            which = rnd.randrange(4)
            if which in (0, 2):
                cfg['src'] = rnd.choice(['BD', 'BD8D1001', 'BC', '8', 'Q',
                                         'B' * 33, ' '])
            if which in (1, 2):
                cfg['srcExcludeFile'] = rnd.choice(
                    ['{M}/exclude.txt', '{M}/exclude_empty.txt',
                     '{M}/nope.txt', '{P}/random.bin'])
            cases.append(('srcid', scen, 'pathcfg',
                          ('parsePelFromSRCID', '{P}', cfg)))
        for _ in range(40):
            cfg = rnd_cfg()
            cfg['bmcID'] = rnd.choice(['11', '12', '14', '16', '17', '22',
                                       '23', '30', '77', '', 'x'])
            cases.append(('bmcid', scen, 'pathcfg',
                          ('parsePelFromBmcID', '{P}', cfg)))
        for _ in range(40):
            cfg = rnd_cfg()
            cfg['pelID'] = rnd.choice(['50000001', '0x90000006', '50000004',
                                       '5000000c', '5000000E', '50000014',
                                       'FFFFFFFF', '123', '50000012'])
            cases.append(('pelid', scen, 'pathcfg',
                          ('parsePelFromID', '{P}', cfg)))
    for fn in ('listOption', 'printPELCount', 'extractAllPELsData',
               'parsePelFromBmcID', 'deleteAllPELs'):
        for path in ('{P}/nope', '{P}/notes.txt', '{P}/archive',
                     '{P}/50000014.d', '{P}/link_to_dir'):
            if fn == 'deleteAllPELs':
                cases.append((fn, 'mixed', 'call', (fn, [path])))
            else:
                cases.append((fn, 'mixed', 'pathcfg',
                              (fn, path, {'every_pel': True, 'bmcID': '30'})))
    for scen in ('mixed', 'fuzz1', 'dangling', 'empty'):
        cases.append(('deleteAll', scen, 'call', ('deleteAllPELs', ['{P}'])))
        for i in ('50000001', '0x50000004', '50000014', 'FFFFFFFF', '12',
                  '5000000e', 'dangling'):
            cases.append(('deleteId', scen, 'call',
                          ('deletePELFromPELId', ['{P}', i])))
        cases.append(('deleteId', scen, 'call',
                      ('deletePELFromPELId', ['{P}/nope', '50000001'])))
    # parseAndWriteOutput / parseAndPrintPELFile / extractAndSummarizePEL
    names = [n for n, v in scenario_mixed().items() if isinstance(v, bytes)]
    names += ['link_to_first', 'missing-file', 'archive']
    for n in names:
        for odir in ('{O}', '{P}', '{O}/missing'):
            for dele in (False, True):
                cfg = rnd_cfg()
                cases.append(('writeOutput', 'mixed', 'fileop',
                              ('parseAndWriteOutput',
                               ['{P}/' + n, odir, 'CFG', dele], cfg)))
        for exit_on_error in (False, True):
            cases.append(('printFile', 'mixed', 'fileop',
                          ('parseAndPrintPELFile',
                           ['{P}/' + n, 'CFG', exit_on_error], rnd_cfg())))
        cases.append(('summarize', 'mixed', 'fileop',
                      ('extractAndSummarizePEL', ['{P}/' + n, 'CFG'],
                       rnd_cfg())))
    # main() in process, also in a simulated BMC environment
    mains = [['-l'], ['-l', '-E'], ['-a', '-E', '-r'], ['-n', '-sNH'],
             ['-a', '-x', '-H'], ['-j', '-E', '-c', '-o', '{O}'], ['-j'],
             ['-i', '50000001'], ['--bmc-id', '16'],
             ['--plid', '50000001', '-E'], ['--src', 'BD', '-E'],
             ['--src-exclude', '{M}/exclude.txt', '-E'],
             ['--src-exclude', '{M}/nope'], ['-d', '50000003'], ['-D'],
             ['-f', '{M}/good.pel'], ['-f', '{M}/good.pel', '-c', '-x'],
             ['-f', '{M}/trunc.pel', '-c'], ['-f', '{M}/badph.pel'],
             ['-f', '{M}/baduh.pel', '-c'], [], ['--help'],
             ['-S', 'Critical', 'Predictive', '-O', '-l'],
             ['-S', 'Bogus', '-l'], ['-e', '.pel', '-l', '-E', '-P'],
             ['-t', '-n', '-O'], ['-N', '-a'], ['-l', '-a', '-n'],
             ['-o', '{O}', '-l'], ['-c', '-l'], ['-x'], ['-r', '-n']]
    for m in mains:
        cases.append(('main', 'mixed', 'main',
                      (['-p', '{P}'] + m, False)))
        cases.append(('main-bmc', 'mixed', 'main', (m, True)))
        cases.append(('main-bmc-archive', 'mixed', 'main',
                      (['-A'] + m, True)))
    cases.append(('main-nopath', 'mixed', 'main', (['-l'], False)))
    cases.append(('main-nodir', 'mixed', 'main',
                  (['-p', '{P}/nope', '-l'], False)))
    cases.append(('main-bmc-p', 'mixed', 'main', (['-p', '{P}', '-l'], True)))
    cases.append(('main-A', 'mixed', 'main', (['-p', '{P}', '-A', '-l'],
                                              False)))
    # odd program names end up in the usage / examples text
    for argv0 in ('pel{0}tool', '/x/y/{peltool_cmd}.py', 'a%sb', '{', '}}',
                  'pel tool', ''):
        for bmc in (False, True):
            cases.append(('main-argv0', 'small', 'main',
                          (['--help'], bmc, argv0)))
            cases.append(('main-argv0', 'small', 'main',
                          (['--nope'], bmc, argv0)))
    return cases


def driver(work, modules_root, result_file):
    import pel.peltool.peltool as pt
    import pel.peltool.config as pc
    assert os.path.realpath(pt.__file__).startswith(
        os.path.realpath(modules_root) + os.sep), pt.__file__
    assert os.path.realpath(pc.__file__).startswith(
        os.path.realpath(modules_root) + os.sep), pc.__file__

    sub = {'{P}': os.path.join(work, 'pels'), '{O}': os.path.join(work, 'out'),
           '{M}': os.path.join(work, 'misc')}

    def subst(a):
        if isinstance(a, str):
            for k, v in sub.items():
                a = a.replace(k, v)
        return a

    def make_cfg(d):
        cfg = pt.Config()
        for k, v in d.items():
            setattr(cfg, k, list(v) if isinstance(v, list) else subst(v))
        return cfg

    real_isdir = os.path.isdir
    real_walk = os.walk
    state = {'bmc': False}

    def fake_isdir(p):
        if state['bmc'] and p == BMC_PATH:
            return True
        return real_isdir(p)

    def fake_walk(top, *a, **kw):
        if state['bmc'] and top == BMC_PATH:
            top = sub['{P}']
        elif state['bmc'] and top == BMC_ARCHIVE:
            top = os.path.join(sub['{P}'], 'archive')
        return real_walk(top, *a, **kw)

    os.path.isdir = fake_isdir
    os.walk = fake_walk

    records = []
    current = None
    clean = None
    for label, scen, kind, payload in ip_cases():
        if current != scen or snapshot(work) != clean:
            build_workdir(work, scen)
            clean = snapshot(work)
            current = scen
        out, err = io.StringIO(), io.StringIO()
        result = None
        exc = None
        old_argv = sys.argv
        try:
            with contextlib.redirect_stdout(out), \
                    contextlib.redirect_stderr(err):
                if kind == 'config':
                    c = pt.Config()
                    c2 = pt.Config()
                    result = [list(vars(c).items()),
                              c.severities is c2.severities,
                              sorted(k for k in vars(pt.Config)
                                     if not k.startswith('__'))]
                elif kind == 'pathcfg':
                    fn, path, cfgd = payload
                    result = getattr(pt, fn)(subst(path), make_cfg(cfgd))
                elif kind == 'call':
                    fn, args = payload
                    result = getattr(pt, fn)(*[subst(a) for a in args])
                elif kind == 'fileop':
                    fn, args, cfgd = payload
                    cfg = make_cfg(cfgd)
                    args = [cfg if a == 'CFG' else subst(a) for a in args]
                    result = getattr(pt, fn)(*args)
                elif kind == 'main':
                    argv, bmc = payload[:2]
                    argv0 = payload[2] if len(payload) > 2 else \
                        '/usr/bin/peltool.py'
                    state['bmc'] = bmc
                    sys.argv = [argv0] + [subst(a) for a in argv]
                    result = pt.main()
        except SystemExit as e:
            exc = ['SystemExit', repr(e.code)]
        except BaseException as e:
            exc = [type(e).__name__, str(e)]
        finally:
            sys.argv = old_argv
            state['bmc'] = False
        records.append([label, repr(payload), repr(result), out.getvalue(),
                        err.getvalue(), exc, snapshot(work)])
    with open(result_file, 'w') as fd:
        json.dump(records, fd)


def run_driver(root, work, pyflags):
    result_file = work + '.result.json'
    env = {'PYTHONPATH': os.path.join(root, 'modules'),
           'PYTHONDONTWRITEBYTECODE': '1', 'PYTHONHASHSEED': '0',
           'COLUMNS': '80', 'LINES': '24', 'PATH': os.environ.get('PATH', ''),
           'LC_ALL': 'C.UTF-8'}
    cmd = [PY] + pyflags + [os.path.abspath(__file__), '--driver', work,
                            os.path.join(root, 'modules'), result_file]
    proc = subprocess.run(cmd, env=env, cwd=HERE, stdin=subprocess.DEVNULL,
                          stdout=subprocess.PIPE, stderr=subprocess.PIPE,
                          timeout=3600)
    if proc.returncode != 0:
        print("driver failed for", root, pyflags)
        print(proc.stdout.decode()[-2000:])
        print(proc.stderr.decode()[-4000:])
        sys.exit(1)
    with open(result_file) as fd:
        records = json.load(fd)
    os.remove(result_file)
    text = json.dumps(records).replace(root, '<ROOT>')
    return json.loads(text)


# --------------------------------------------------------------------------
def main():
    if len(sys.argv) >= 2 and sys.argv[1] == '--driver':
        driver(sys.argv[2], sys.argv[3], sys.argv[4])
        return 0
    if len(sys.argv) != 3:
        print(__doc__)
        return 2
    pristine = os.path.abspath(sys.argv[1])
    patched = os.path.abspath(sys.argv[2])
    workroot = os.path.join(HERE, 'work')
    if os.path.lexists(workroot):
        shutil.rmtree(workroot)
    os.makedirs(workroot)

    ncases = 0
    diffs = []
    unstable = 0

    # ---- CLI
    cases = cli_cases()

    def one(idx):
        case = cases[idx]
        work = os.path.join(workroot, 'c%04d' % idx)
        a = run_cli(pristine, case, work)
        b = run_cli(patched, case, work)
        a2 = run_cli(pristine, case, work)
        shutil.rmtree(work)
        return idx, a, b, a2

    with ThreadPoolExecutor(max_workers=os.cpu_count() or 4) as pool:
        for idx, a, b, a2 in pool.map(one, range(len(cases))):
            ncases += 1
            if a != a2:
                # the pristine tree does not even agree with itself
                unstable += 1
                diffs.append(('UNSTABLE baseline', cases[idx], a, a2))
            elif a != b:
                diffs.append(('CLI', cases[idx], a, b))

    # ---- in-process driver, normal and -O
    for pyflags in ([], ['-O']):
        work = os.path.join(workroot, 'ip')
        ra = run_driver(pristine, work, pyflags)
        rb = run_driver(patched, work, pyflags)
        if len(ra) != len(rb):
            diffs.append(('IP', 'record count', len(ra), len(rb)))
        for x, y in zip(ra, rb):
            ncases += 1
            if x != y:
                diffs.append(('IP' + ' '.join(pyflags), x[0] + ' ' + x[1],
                              x[2:], y[2:]))
    shutil.rmtree(workroot)

    if diffs:
        for kind, what, a, b in diffs[:15]:
            print('=' * 70)
            print('DIFFERENCE', kind, what)
            for i, (p, q) in enumerate(zip(a, b)):
                if p != q:
                    print('  field', i)
                    print('   pristine:', repr(p)[:1500])
                    print('   patched :', repr(q)[:1500])
        print("DIFFERENT (%d of %d cases)" % (len(diffs), ncases))
        return 1
    print("IDENTICAL (%d cases)" % ncases)
    return 0


if __name__ == '__main__':
    sys.exit(main())
