#!/usr/bin/env python3
"""
Differential check for the R53 refactorings (header-type PEL section
decoders, pel/datastream.py and parsePEL / buildOutput / prettyPrint /
sectionFun of peltool.py).

usage: diffcheck.py <pristine_root> <patched_root>

The script builds a corpus of binary PELs (well-formed, truncated, corrupted,
random) and
  * runs an in-process driver (one python process per root and per
    optimisation level, PYTHONPATH pointing into that root) that calls the
    decoders directly on every corpus entry and on many synthetic inputs and
    dumps every result / exception / captured stdout+stderr / object state as
    JSON, and
  * runs the peltool.py CLI of both roots with many option combinations on
    identical copies of a PEL directory, recording stdout, stderr, exit status
    and the resulting directory content.
Everything recorded for the pristine root must be byte-identical to what is
recorded for the patched root.
"""
import hashlib
import json
import os
import random
import shutil
import struct
import subprocess
import sys
import tempfile

PY = sys.executable

# --------------------------------------------------------------------------
# binary PEL builders
# --------------------------------------------------------------------------


def hdr(sid, length, ver=1, sub=0, comp=0x2000):
    if isinstance(sid, str):
        sid = (ord(sid[0]) << 8) | ord(sid[1])
    return struct.pack('>HHBBH', sid, length & 0xFFFF, ver, sub, comp)


def ts(y=0x2022, mo=0x03, d=0x08, h=0x18, mi=0x40, s=0x27, hs=0x55):
    return struct.pack('>HBBBBBB', y, mo, d, h, mi, s, hs)


def private_header(count, creator=b'O', obmc=0x1234, cver=0x0102030405060708,
                   plid=0x50000001, eid=0x50000001, sid='PH', ver=1, sub=0,
                   comp=0x2000, create=None, commit=None):
    body = (create or ts()) + (commit or ts(s=0x28)) + creator + b'\x00\x00' \
        + bytes([count & 0xFF]) + struct.pack('>IQII', obmc, cver, plid, eid)
    return hdr(sid, 48, ver, sub, comp) + body


def user_header(subsys=0x8D, scope=0x03, sev=0x40, etype=0x00, flags=0xA000,
                states=0x00000200, sid='UH', ver=1, sub=0, comp=0x2000,
                domain=0, vector=0):
    body = bytes([subsys, scope, sev, etype]) + b'\x00' * 4 \
        + bytes([domain, vector]) + struct.pack('>HI', flags, states)
    return hdr(sid, 24, ver, sub, comp) + body


def src_section(sid='PS', ascii_str=b'BD8D2000', words=None, wordcount=9,
                flags=0, comp=0x2000, callouts=b''):
    words = words or [0x00000055, 0x2DC10000, 0, 0x02000000, 0, 6, 7, 8]
    ascii_str = ascii_str.ljust(32, b' ')[:32]
    body = bytes([2, flags, 0, wordcount]) + struct.pack('>HH', 0, 72) \
        + b''.join(struct.pack('>I', w & 0xFFFFFFFF) for w in words[:8]) \
        + ascii_str + callouts
    return hdr(sid, 8 + len(body), 1, 1, comp) + body


def callout_section():
    loc = b'U78DA.ND1.1234567-P0\x00\x00\x00\x00'
    fru = struct.pack('>HBB', 0x4944, 4 + 8 + 4 + 12, 0x1D) \
        + b'PN12345\x00' + b'CCIN' + b'SN1234567890'
    callout = bytes([4 + len(loc) + len(fru), 0, 0x48, len(loc)]) + loc + fru
    total = 4 + len(callout)
    return struct.pack('>BBH', 0xC0, 0, total // 4) + callout


def ext_user_header(mt=b'9105-22A', sn=b'13ABCDE', fw=b'FW1060.00',
                    sub=b'fw1060.00-1', symptom=b'BD8D2000_2DC10000\x00\x00\x00',
                    symlen=None, comp=0x2000, reftime=None):
    symlen = len(symptom) if symlen is None else symlen
    body = mt.ljust(8, b'\x00')[:8] + sn.ljust(12, b'\x00')[:12] \
        + fw.ljust(16, b'\x00')[:16] + sub.ljust(16, b'\x00')[:16] \
        + b'\x00' * 4 + (reftime or ts()) + b'\x00' * 3 \
        + bytes([symlen & 0xFF]) + symptom
    return hdr('EH', 8 + len(body), 1, 0, comp) + body


def failing_mtms(mt=b'9105-22A', sn=b'13ABCDE', comp=0x2000):
    body = mt.ljust(8, b'\x00')[:8] + sn.ljust(12, b'\x00')[:12]
    return hdr('MT', 8 + len(body), 1, 0, comp) + body


def imp_partition(pid=0x0001, name=b'lpar-one\x00\x00\x00\x00', lps=(1, 2, 3),
                  logid=0xAABBCCDD, namelen=None, count=None, pad=True,
                  comp=0x2000):
    namelen = len(name) if namelen is None else namelen
    count = len(lps) if count is None else count
    body = struct.pack('>HBBI', pid, namelen & 0xFF, count & 0xFF, logid) \
        + name + b''.join(struct.pack('>H', lp) for lp in lps)
    if pad and len(lps) % 2:
        body += b'\x00\x00'
    return hdr('LP', 8 + len(body), 1, 0, comp) + body


def user_data(data=b'{"A": 1, "B": "two"}', sub=1, comp=0x2000, ver=1,
              length=None):
    length = 8 + len(data) if length is None else length
    return hdr('UD', length, ver, sub, comp) + data


def ext_user_data(data=b'some text\nmore text\n', sub=3, comp=0x2000,
                  creator=b'O'):
    body = creator + b'\x00\x00\x00' + data
    return hdr('ED', 8 + len(body), 1, sub, comp) + body


def other_section(sid='DH', data=b'\x01\x02\x03\x04\x05\x06\x07\x08' * 3,
                  length=None):
    length = 8 + len(data) if length is None else length
    return hdr(sid, length, 1, 0, 0x1234) + data


def pel(sections, ph_kwargs=None, uh_kwargs=None, count=None):
    ph_kwargs = dict(ph_kwargs or {})
    uh_kwargs = dict(uh_kwargs or {})
    count = len(sections) + 2 if count is None else count
    return private_header(count, **ph_kwargs) + user_header(**uh_kwargs) \
        + b''.join(sections)


def full_sections():
    return [src_section(), ext_user_header(), failing_mtms(),
            user_data(), user_data(b'line one\nline two\n\x00\x00', sub=3),
            user_data(b'\xde\xad\xbe\xef' * 5, sub=4, comp=0x3100),
            ext_user_data(), imp_partition(), other_section(),
            other_section('ZZ'), src_section('SS', b'BC8A1234')]


def build_corpus():
    rnd = random.Random(0x5353)
    corpus = []

    def add(name, data):
        corpus.append(('%04d_%s' % (len(corpus), name), bytes(data)))

    full = pel(full_sections())
    add('full', full)
    add('minimal', pel([]))
    add('only_src', pel([src_section()]))
    add('src_callouts', pel([src_section(flags=1, callouts=callout_section())]))
    add('src_short_words', pel([src_section(wordcount=4)]))
    add('src_power', pel([src_section(ascii_str=b'110015F0')]))
    add('dup_names', pel([user_data(), user_data(), user_data(), failing_mtms(),
                          other_section('ZZ'), other_section('QQ'),
                          other_section('DH')]))
    add('lp_variants', pel([imp_partition(lps=()),
                            imp_partition(lps=(7,)),
                            imp_partition(name=b'', lps=(1, 2)),
                            imp_partition(name=b'abc\x00', lps=(1, 2, 3, 4, 5))]))
    add('lp_nopad', pel([imp_partition(lps=(9,), pad=False)]))
    add('lp_count_big', pel([imp_partition(count=200)]))
    add('lp_name_big', pel([imp_partition(namelen=250)]))
    add('lp_bad_utf8', pel([imp_partition(name=b'\xff\xfe\xfd\xfc')]))
    add('eh_nosymptom', pel([ext_user_header(symptom=b'')]))
    add('eh_symlen_big', pel([ext_user_header(symlen=200)]))
    add('eh_bad_utf8', pel([ext_user_header(mt=b'\xff\xff\xff\xff')]))
    add('eh_bad_utf8_sym', pel([ext_user_header(symptom=b'\xc3\x28ab')]))
    add('eh_nul_inside', pel([ext_user_header(mt=b'\x00ab\x00cd\x00', sn=b'\x00\x00')]))
    add('mt_bad_utf8', pel([failing_mtms(sn=b'abc\xe2\x82')]))
    add('mt_unicode', pel([failing_mtms(mt='9105é'.encode(), sn='€1'.encode())]))
    add('ud_len_small', pel([user_data(length=8)]))
    add('ud_len_tiny', pel([user_data(length=3)]))
    add('ud_len_huge', pel([user_data(length=0xFFF0)]))
    add('dflt_len8', pel([other_section(length=8)]))
    add('dflt_len0', pel([other_section(length=0)]))
    add('count_too_big', pel([failing_mtms()], count=9))
    add('count_small', pel(full_sections(), count=4))
    add('count_zero', pel(full_sections(), count=0))
    add('count_255', pel(full_sections(), count=255))
    add('bad_ph_id', private_header(2, sid='XX') + user_header())
    add('bad_uh_id', private_header(2) + user_header(sid='XX'))
    add('bad_ph_id_num', private_header(2, sid=0x0001) + user_header())
    add('ph_bad_creator', private_header(2, creator=b'\xff') + user_header())
    add('ph_unknown_creator', pel([failing_mtms()], {'creator': b'z'}))
    add('ph_nul_creator', pel([user_data()], {'creator': b'\x00'}))
    add('empty', b'')
    add('one_byte', b'P')
    add('hdr_only', hdr('PH', 48))

    # creators / component ids
    for creator in (b'B', b'C', b'H', b'K', b'L', b'M', b'O', b'P', b'S', b'T', b'?'):
        add('creator_' + creator.decode(),
            pel(full_sections(), {'creator': creator, 'comp': 0x4142},
                {'comp': 0x4100}))
    add('phyp_comp0', pel([failing_mtms(comp=0x0041), ext_user_header(comp=0)],
                          {'creator': b'H', 'comp': 0x0000}))

    # eid / plid / obmc variants
    for i, (eid, plid, obmc) in enumerate(((0, 0, 0), (0xFFFFFFFF, 0xFFFFFFFF, 0xFFFFFFFF),
                                           (0x5000ABCD, 0x5000ABC0, 77),
                                           (0x0000000A, 0x90000001, 4660))):
        add('ids_%d' % i, pel([src_section(), failing_mtms()],
                              {'eid': eid, 'plid': plid, 'obmc': obmc,
                               'cver': (eid << 32 | plid)}))

    # user header field sweeps
    sevs = (0x00, 0x10, 0x20, 0x21, 0x40, 0x48, 0x51, 0x53, 0x60, 0x71, 0x99, 0xFF)
    flagss = (0x0000, 0x8000, 0x4000, 0x2000, 0xA000, 0x6000, 0xE000, 0xFFFF,
              0x0920, 0x0001, 0x1400)
    for sev in sevs:
        for flags in flagss:
            add('uh_s%02X_f%04X' % (sev, flags),
                pel([src_section(), failing_mtms()],
                    {'eid': 0x50000000 | (sev << 8) | (flags >> 8),
                     'plid': 0x50000000 | sev},
                    {'sev': sev, 'flags': flags,
                     'subsys': rnd.choice((0x10, 0x8D, 0x00, 0xFE, 0x76)),
                     'scope': rnd.choice((0, 1, 2, 3, 4, 5)),
                     'etype': rnd.choice((0, 1, 2, 8, 0x30, 0x31)),
                     'states': rnd.choice((0, 1, 2, 3, 0x0100, 0x0203, 0x0301,
                                           0x0404, 0xFFFFFFFF, 0x00030200))}))

    # random timestamps
    for i in range(6):
        t = bytes(rnd.randrange(256) for _ in range(8))
        t2 = bytes(rnd.randrange(256) for _ in range(8))
        add('ts_%d' % i, pel([ext_user_header(reftime=t2)],
                             {'create': t, 'commit': t2}))

    # every truncation of the full PEL (stride 1 in the headers, coarser later)
    cuts = list(range(0, 140)) + list(range(140, len(full), 3))
    for n in cuts:
        add('trunc_%04d' % n, full[:n])

    # truncations of a PEL dedicated to the header type sections
    hdrs = pel([ext_user_header(), failing_mtms(), imp_partition(lps=(1, 2, 3)),
                imp_partition(lps=(4,))])
    for n in range(72, len(hdrs)):
        add('htrunc_%04d' % n, hdrs[:n])

    # single byte corruptions
    for i in range(260):
        data = bytearray(full if i % 2 else hdrs)
        pos = rnd.randrange(len(data)) if i >= 120 else rnd.randrange(min(200, len(data)))
        data[pos] = rnd.choice((0x00, 0xFF, 0x80, rnd.randrange(256), data[pos] ^ 0x01))
        add('corrupt_%03d_at%04d' % (i, pos), data)

    # multi byte corruptions
    for i in range(80):
        data = bytearray(full)
        for _ in range(rnd.randrange(2, 12)):
            data[rnd.randrange(len(data))] = rnd.randrange(256)
        add('mcorrupt_%03d' % i, data)

    # valid PH/UH followed by random sections
    ids = ['PS', 'SS', 'EH', 'MT', 'LP', 'UD', 'ED', 'DH', 'SW', 'LR', 'HM',
           'EP', 'IE', 'MI', 'CH', 'EI', 'PH', 'UH', 'zz']
    for i in range(120):
        n = rnd.randrange(1, 6)
        secs = []
        for _ in range(n):
            body = bytes(rnd.randrange(256) if rnd.random() < 0.5 else rnd.choice(b'AZaz09 \x00')
                         for _ in range(rnd.choice((0, 1, 4, 8, 12, 20, 24, 60, 80, 100))))
            length = 8 + len(body) if rnd.random() < 0.8 else rnd.randrange(0, 120)
            secs.append(hdr(rnd.choice(ids), length, rnd.randrange(256),
                            rnd.randrange(256), rnd.randrange(0x10000)) + body)
        add('randsec_%03d' % i, pel(secs, {'creator': rnd.choice((b'O', b'B', b'H', b'q'))},
                                    {'sev': rnd.choice(sevs), 'flags': rnd.choice(flagss)}))

    # entirely random blobs, some with a plausible start
    for i in range(80):
        data = bytes(rnd.randrange(256) for _ in range(rnd.randrange(0, 300)))
        if i % 3 == 0:
            data = hdr('PH', 48) + data
        elif i % 3 == 1:
            data = private_header(rnd.randrange(0, 8)) + hdr('UH', 24) + data
        add('random_%03d' % i, data)

    return corpus


# --------------------------------------------------------------------------
# in-process driver (executed with PYTHONPATH=<root>/modules)
# --------------------------------------------------------------------------

DRIVER = r'''
import contextlib, io, json, os, random, sys
from collections import OrderedDict

corpus_dir, root = sys.argv[1], sys.argv[2]
sys.argv = ['peltool.py']
sys.path.insert(0, os.path.join(root, 'modules', 'pel', 'peltool'))

from pel.datastream import DataStream
import pel.peltool.peltool as pt
from pel.peltool.config import Config
from pel.peltool.private_header import PrivateHeader, getTimestamp
from pel.peltool.user_header import UserHeader
from pel.peltool.extend_user_header import ExtendedUserHeader
from pel.peltool.failing_mtms import FailingMTMS
from pel.peltool.imp_partition import ImpactedPartition
import pel.peltool.pel_values as pv

results = []


def norm(v):
    if isinstance(v, (bytes, bytearray)):
        return 'bytes:' + bytes(v).hex()
    if isinstance(v, memoryview):
        return 'mv:' + bytes(v).hex()
    if isinstance(v, dict):
        return [type(v).__name__, [[norm(k), norm(x)] for k, x in v.items()]]
    if isinstance(v, (list, tuple)):
        return [type(v).__name__, [norm(x) for x in v]]
    if isinstance(v, bool) or v is None or isinstance(v, (int, float, str)):
        return [type(v).__name__, v]
    if isinstance(v, DataStream):
        return ['DataStream', v.index, v.size]
    if hasattr(v, '__dict__') and type(v).__module__.startswith('pel.'):
        return [type(v).__name__, state(v)]
    return repr(v)


def state(obj):
    return [[k, norm(x)] for k, x in vars(obj).items()]


def run(label, fn):
    out, err = io.StringIO(), io.StringIO()
    res = None
    with contextlib.redirect_stdout(out), contextlib.redirect_stderr(err):
        try:
            res = ['ok', norm(fn())]
        except SystemExit as e:
            res = ['exit', repr(e.code)]
        except BaseException as e:
            res = ['exc', type(e).__name__, str(e)]
    results.append([label, res, out.getvalue(), err.getvalue()])


def mkconfig(**kw):
    c = Config()
    for k, v in kw.items():
        setattr(c, k, v)
    return c


CONFIGS = [
    ('default', {}),
    ('every', {'every_pel': True}),
    ('noplug', {'allow_plugins': False, 'every_pel': True}),
    ('hidden_only', {'hidden': True, 'only': True}),
    ('nonserv', {'non_serviceable': True}),
    ('serv_sev', {'serviceable': True, 'only': True, 'severities': [4, 5]}),
    ('sev_only', {'only': True, 'severities': [0, 2]}),
    ('term', {'critSysTerm': True, 'only': True}),
    ('plid', {'plid': '50000001', 'only': True}),
]

names = sorted(os.listdir(corpus_dir))
blobs = []
for n in names:
    with open(os.path.join(corpus_dir, n), 'rb') as fd:
        blobs.append((n, fd.read()))


def stream_of(data, mv=False):
    return DataStream(memoryview(data) if mv else data, byte_order='big',
                      is_signed=False)


# ---- whole PEL decoding -------------------------------------------------
for name, data in blobs:
    for cname, kw in CONFIGS:
        # the complete option matrix only for a part of the corpus
        if cname not in ('default', 'every') and not (
                name[5:].startswith(('uh_', 'full', 'creator', 'ids', 'dup', 'lp_', 'eh_'))):
            continue
        s = stream_of(data)
        run('parsePEL/%s/%s' % (cname, name),
            lambda: (pt.parsePEL(s, mkconfig(**kw), False), s.index))
        s2 = stream_of(data)
        run('parsePELSummary/%s/%s' % (cname, name),
            lambda: (pt.parsePELSummary(s2, mkconfig(**kw)), s2.index))
    s = stream_of(data)
    run('parsePEL/exit/%s' % name,
        lambda: (pt.parsePEL(s, mkconfig(every_pel=True), True), s.index))
    s = stream_of(data, mv=True)
    run('parsePEL/memoryview/%s' % name,
        lambda: (pt.parsePEL(s, mkconfig(every_pel=True), False), s.index))

    # generatePH / generateUH and the user header predicates
    def headers():
        s = stream_of(data)
        out = OrderedDict()
        ok, ph = pt.generatePH(s, out)
        res = [ok, ph, s.index]
        if ok:
            ok2, uh = pt.generateUH(s, ph.creatorID, out)
            res += [ok2, uh, s.index]
            if ok2:
                res += [uh.isHidden(), uh.isServiceable()]
                for cname, kw in CONFIGS:
                    res.append(pt.considerPEL(uh, mkconfig(**kw)))
        return res, out
    run('headers/%s' % name, headers)

# ---- section classes fed directly ------------------------------------------
CLASSES = [
    ('PH', PrivateHeader, False), ('UH', UserHeader, True),
    ('EH', ExtendedUserHeader, True), ('MT', FailingMTMS, True),
    ('LP', ImpactedPartition, True),
]
rnd = random.Random(99)
payloads = []
for name, data in blobs:
    if name[5:].startswith(('full', 'lp_', 'eh_', 'mt_', 'creator_H', 'ts_', 'htrunc')):
        # walk over the sections of the entry and collect their payloads
        pos = 0
        while pos + 8 <= len(data):
            length = int.from_bytes(data[pos + 2:pos + 4], 'big')
            payloads.append(data[pos + 8:pos + max(length, 8)])
            pos += max(length, 8)
for i in range(150):
    payloads.append(bytes(rnd.randrange(256) for _ in range(rnd.randrange(0, 90))))
for i in range(150):
    payloads.append(bytes(rnd.choice(b'ABCxyz019 -_\x00\x00\x00\x01\x02\x03')
                          for _ in range(rnd.randrange(0, 90))))
extra = []
for p in payloads[:60]:
    for n in range(0, len(p) + 1, 1 if len(p) < 50 else 5):
        extra.append(p[:n])
payloads += extra

for idx, payload in enumerate(payloads):
    for cname, cls, has_creator in CLASSES:
        for creator in ('O', 'H'):
            for mv in (False, True):
                if mv and idx % 7:
                    continue
                s = stream_of(payload, mv)
                args = [s, 0x1234, len(payload) + 8, idx % 5, idx % 3,
                        (0x2000, 0x4142, 0x0041, 0xBEEF)[idx % 4]]
                if has_creator:
                    args.append(creator)
                elif creator == 'H':
                    continue
                holder = {}

                def decode():
                    holder['obj'] = cls(*args)
                    try:
                        first = holder['obj'].toJSON()
                    finally:
                        holder['after'] = state(holder['obj'])
                    return first, holder['after'], s.index

                run('class/%s/%s/%d/%d' % (cname, creator, idx, mv), decode)
                # object state and stream position after a failure
                results.append(['class-state/%s/%s/%d/%d' % (cname, creator, idx, mv),
                                holder.get('after'), s.index])
                if idx % 5 == 0 and 'obj' in holder:
                    # second decode on the same object / advanced stream
                    run('class-again/%s/%s/%d/%d' % (cname, creator, idx, mv),
                        lambda: (holder['obj'].toJSON(), state(holder['obj']), s.index))

for idx, payload in enumerate(payloads[:400]):
    for mv in (False, True):
        s = stream_of(payload, mv)
        run('getTimestamp/%d/%d' % (idx, mv),
            lambda: (getTimestamp(s), getTimestamp(s), s.index))

# user header predicates, exhaustive over the interesting bits
for sev in (0x00, 0x10, 0x20, 0x40, 0x51, 0x71, 0xFF):
    for flags in range(0, 0x10000, 0x0800):
        for extra_bits in (0, 0x0021):
            payload = bytes([0x8D, 3, sev, 0, 0, 0, 0, 0, 0, 0]) + \
                (flags | extra_bits).to_bytes(2, 'big') + bytes([0, 0, 2, 1])

            def uh_case():
                uh = UserHeader(stream_of(payload), 0x5548, 24, 1, 0, 0x2000, 'O')
                before = [uh.isHidden(), uh.isServiceable()]
                js = uh.toJSON()
                return before, uh.isHidden(), uh.isServiceable(), js
            run('uhflags/%02X/%04X' % (sev, flags | extra_bits), uh_case)

# ---- sectionFun directly -----------------------------------------------------
SIDS = [0x5053, 0x5353, 0x4548, 0x4D54, 0x4544, 0x5544, 0x4C50, 0x4448, 0x5048,
        0x5548, 0x0000, 0xFFFF, 0x5A5A, 0x4549]
for idx, payload in enumerate(payloads[:260]):
    for sid in SIDS:
        for cname, kw in (('default', {}), ('noplug', {'allow_plugins': False})):
            s = stream_of(payload)
            out = OrderedDict()
            run('sectionFun/%04X/%s/%d' % (sid, cname, idx),
                lambda: (pt.sectionFun(s, out, sid, len(payload) + 8, 1, idx % 4,
                                       0x2000, 'OBH'[idx % 3], mkconfig(**kw)),
                         out, s.index))
for sid in list(range(0, 0x10000, 257)) + SIDS:
    run('getSectionName/%04X' % sid, lambda: pt.getSectionName(sid))

# ---- buildOutput -------------------------------------------------------------
rnd = random.Random(7)
pool = ['User Data', 'Failing MTMS', 'Unknown', 'Primary SRC', 'User Data 0',
        'User Data 1', 'Unknown 0', '', 'x']
for i in range(400):
    n = rnd.randrange(0, 9)
    sections = []
    for j in range(n):
        d = OrderedDict()
        d[rnd.choice(pool if i % 2 else pool[:4])] = {'n': j, 'v': [i, j]}
        if i % 37 == 0 and j == 1:
            d['second key'] = j
        sections.append(d)
    if i % 53 == 0 and sections:
        sections[rnd.randrange(len(sections))] = OrderedDict()
    if i % 59 == 0:
        sections = tuple(sections)
    pre = OrderedDict()
    if i % 5 == 0:
        pre['Private Header'] = 'ph'
        pre['User Data'] = 'pre-existing'

    def bo():
        out = OrderedDict(pre)
        ret = pt.buildOutput(sections, out)
        return ret, out, [list(s.items()) for s in sections]
    run('buildOutput/%d' % i, bo)

# ---- prettyPrint -----------------------------------------------------------------
texts = []
weird_keys = ['a', 'Section Version', 'with "quote"', 'colon: inside', 'brace { in key',
              'back\\slash', 'ends with backslash\\', 'tab\there', 'unicode €',
              'x' * 40, '', '":', '": "', 'k" : "v', 'nl\nkey']
weird_vals = [1, 'text', 'has "quotes": inside', 'brace { value', '{', ['l1', 'l2 "k": v'],
              {}, [], {'inner "q"': 'v', 'i2': [1, {'deep': 'x: y'}]}, None, True, 1.5,
              '    "fake": line', 'multi\nline "a": b', 'x' * 50]
rnd = random.Random(11)
for i in range(250):
    d = OrderedDict()
    for _ in range(rnd.randrange(0, 8)):
        d[rnd.choice(weird_keys)] = rnd.choice(weird_vals)
    for indent in (4, 2, None, 0):
        texts.append(json.dumps(d, indent=indent))
    texts.append(json.dumps(d, indent=4, ensure_ascii=False))
texts += ['', '\n', '"a": 1', '   "a":1', '"a" : 1', 'no key here', '"unterminated: 1',
          '    "k": {', '    "k": "{"', ' ' * 40 + '"deep": 1', '"a":', '"":', '"\\":',
          '"\\"":', 'x "a": 1', '\t"a": 1', '"a": 1\r\n"b": 2', '"a": "b": "c"']
for name, data in blobs[:12]:
    s = stream_of(data)
    try:
        with contextlib.redirect_stderr(io.StringIO()):
            texts.append(pt.parsePEL(s, mkconfig(every_pel=True), False)[1])
    except Exception:
        pass
for i, t in enumerate(texts):
    run('prettyPrint/%d' % i, lambda: pt.prettyPrint(t))
    for space in (29, 0, 5, 80, -3):
        if i % 4 == 0 or space == 29:
            run('prettyPrint/%d/%d' % (i, space), lambda: pt.prettyPrint(t, space))
            run('prettyPrint/kw/%d/%d' % (i, space),
                lambda: pt.prettyPrint(Mdata=t, desiredSpace=space))
run('prettyPrint/none', lambda: pt.prettyPrint(None))
run('prettyPrint/bytes', lambda: pt.prettyPrint(b'"a": 1'))
run('prettyPrint/float', lambda: pt.prettyPrint('"a": 1', 3.5))

# ---- DataStream --------------------------------------------------------------------
rnd = random.Random(3)
base = bytes(range(256))
for i in range(700):
    size = rnd.choice((0, 1, 2, 7, 8, 16, 33, 256))
    data = base[:size]
    order = rnd.choice(('big', 'little', None, 'big', 'bogus'))
    signed = rnd.choice((True, False, None, False))
    as_mv = rnd.random() < 0.5
    ops = []
    for _ in range(rnd.randrange(1, 14)):
        op = rnd.choice(('get_int', 'get_int', 'get_mem', 'inc_index', 'check_range',
                         'get_int_kw'))
        n = rnd.choice((0, 1, 1, 2, 2, 3, 4, 4, 8, 9, 16, 300, -1, -5, True, 2.0, 1.5, None, '2'))
        ops.append((op, n, rnd.choice(('big', 'little', None, None)),
                    rnd.choice((True, False, None, None))))

    def ds_case():
        if order is None and signed is None and i % 2:
            s = DataStream(memoryview(data) if as_mv else data)
        else:
            s = DataStream(memoryview(data) if as_mv else data, byte_order=order,
                           is_signed=signed)
        trace = [[s.size, s.index, s.byte_order, s.is_signed]]
        for op, n, bo, sg in ops:
            try:
                if op == 'get_int':
                    r = s.get_int(n)
                elif op == 'get_int_kw':
                    r = s.get_int(n, byte_order=bo, is_signed=sg)
                else:
                    r = getattr(s, op)(n)
                trace.append([op, repr(n), norm(r), s.index])
            except Exception as e:
                trace.append([op, repr(n), type(e).__name__, str(e), s.index])
        return trace
    run('datastream/%d' % i, ds_case)

# ---- value tables --------------------------------------------------------------------
for tname in sorted(n for n in vars(pv) if not n.startswith('_')):
    v = getattr(pv, tname)
    if isinstance(v, dict):
        results.append(['pel_values/' + tname, norm(v)])
results.append(['pel_values/names', sorted(n for n in vars(pv) if not n.startswith('__'))])

json.dump(results, sys.stdout)
'''


def run_driver(root, corpus_dir, workdir, optimise):
    env = dict(os.environ)
    env['PYTHONPATH'] = os.path.join(root, 'modules')
    env['PYTHONDONTWRITEBYTECODE'] = '1'
    env['PYTHONHASHSEED'] = '0'
    driver = os.path.join(workdir, 'driver.py')
    cmd = [PY] + (['-O'] if optimise else []) + [driver, corpus_dir, root]
    p = subprocess.run(cmd, env=env, cwd=workdir, stdout=subprocess.PIPE,
                       stderr=subprocess.PIPE)
    if p.returncode != 0:
        sys.stderr.write(p.stderr.decode(errors='replace')[-4000:])
        raise SystemExit('driver failed for %s (rc=%d)' % (root, p.returncode))
    return json.loads(p.stdout.decode()), p.stderr.decode(errors='replace')


# --------------------------------------------------------------------------
# CLI runs
# --------------------------------------------------------------------------

def snapshot(d):
    snap = []
    for base, dirs, files in os.walk(d):
        dirs.sort()
        for f in sorted(files):
            p = os.path.join(base, f)
            with open(p, 'rb') as fd:
                snap.append((os.path.relpath(p, d),
                             hashlib.sha256(fd.read()).hexdigest()))
    return snap


def scrub(text, root):
    """Drop the per-root parts of an uncaught traceback (paths, line numbers,
    source lines); everything else must match byte for byte."""
    text = text.replace(root, '<ROOT>')
    lines = text.split('\n')
    if not any(l.startswith('Traceback (most recent call last)') for l in lines):
        return text
    return '\n'.join(l for l in lines if not l.startswith('  '))


def cli_cases(corpus):
    by = dict(corpus)
    names = [n for n, _ in corpus]

    def pick(pred):
        return [n for n in names if pred(n[5:])]

    good = pick(lambda n: n.startswith(('full', 'minimal', 'only_src', 'src_', 'dup_',
                                        'lp_variants', 'creator_', 'ids_', 'eh_nos')))
    uh = pick(lambda n: n.startswith('uh_'))
    bad = pick(lambda n: n.startswith(('trunc_', 'corrupt_', 'random_', 'bad_', 'empty',
                                       'count_', 'lp_', 'eh_', 'mt_', 'ud_', 'dflt_',
                                       'ph_')))
    rnd = random.Random(5)
    rnd.shuffle(bad)
    sets = {
        'good': good,
        'uh': uh[::3],
        'mixed': good[:6] + bad[:60] + uh[:10],
        'bad': bad[60:140],
        'none': [],
    }
    cases = []
    sev_opts = [[], ['-E'], ['-s'], ['-N'], ['-H'], ['-H', '-O'], ['-t'],
                ['-S', 'Informational'], ['-O', '-S', 'Unrecoverable', 'Critical'],
                ['-N', '-O', '-S', 'Recovered', 'Predictive'], ['-s', '-H', '-O']]
    for setname in ('good', 'uh', 'mixed', 'bad', 'none'):
        for mode in (['-l'], ['-a'], ['-n']):
            for so in (sev_opts if setname in ('uh', 'mixed') else sev_opts[:2]):
                cases.append((setname, mode + so, False))
        cases.append((setname, ['-l', '-r', '-E'], False))
        cases.append((setname, ['-a', '-x', '-E'], False))
        cases.append((setname, ['-l', '-x'], False))
        cases.append((setname, ['-a', '-P', '-E', '-r'], False))
        cases.append((setname, ['-a', '-e', '.pel', '-E'], False))
        cases.append((setname, ['-l', '-e', '.bin'], False))
        cases.append((setname, ['-j', '-E'], False))
        cases.append((setname, ['-j', '-o', 'outdir', '-E'], False))
        cases.append((setname, ['-j', '-o', 'outdir', '-c'], False))
        cases.append((setname, ['-j', '-c', '-E', '-P'], False))
        cases.append((setname, ['-j', '-o', 'missing_dir'], False))
        cases.append((setname, ['--plid', '50000001'], False))
        cases.append((setname, ['--plid', '0x50000040', '-E'], False))
        cases.append((setname, ['--plid', '500'], False))
        cases.append((setname, ['--src', 'BD8D2000'], False))
        cases.append((setname, ['--src', 'BC8A', '-E', '-x'], False))
        cases.append((setname, ['--src-exclude', 'exclude.txt', '-E'], False))
        cases.append((setname, ['--bmc-id', '4660'], False))
        cases.append((setname, ['--bmc-id', '77', '-x'], False))
        cases.append((setname, ['--bmc-id', 'nope'], False))
        cases.append((setname, ['-i', '50000001'], False))
        cases.append((setname, ['-i', '0x5000ABCD', '-x'], False))
        cases.append((setname, ['-i', '5000'], False))
    # a few of them once more with python -O
    for setname in ('good', 'mixed'):
        for opts in (['-a', '-E'], ['-l', '-E'], ['-n', '-E'], ['-j', '-o', 'outdir', '-E', '-c'],
                     ['--plid', '50000001'], ['--bmc-id', '4660']):
            cases.append((setname, opts, True))
    # single file mode
    files = good[:8] + uh[:12] + bad[:70] + pick(lambda n: n.startswith(('htrunc', 'randsec')))[::4]
    fcases = []
    for f in files:
        fcases.append((f, [], False))
    for f in files[::3]:
        fcases.append((f, ['-E'], False))
        fcases.append((f, ['-E', '-x'], False))
        fcases.append((f, ['-E', '-c'], False))
        fcases.append((f, ['-P', '-H'], False))
        fcases.append((f, ['-E'], True))
    fcases.append(('does_not_exist.pel', [], False))
    return sets, cases, fcases, by


def file_name_for(name, by):
    """File name inside the PEL directory: contains the entry id like the
    files written by phosphor-logging do."""
    data = by[name]
    eid = data[44:48].hex().upper() if len(data) >= 48 else 'SHORT000'
    ext = '.pel' if int(name[:4]) % 4 else '.bin'
    return '%s_%s%s' % (name, eid, ext)


def populate(rundir, members, by):
    if os.path.exists(rundir):
        shutil.rmtree(rundir)
    os.makedirs(os.path.join(rundir, 'pels', 'subdir'))
    os.makedirs(os.path.join(rundir, 'outdir'))
    for n in members:
        with open(os.path.join(rundir, 'pels', file_name_for(n, by)), 'wb') as fd:
            fd.write(by[n])
    with open(os.path.join(rundir, 'pels', 'subdir', 'nested.pel'), 'wb') as fd:
        fd.write(by[members[0]] if members else b'')
    with open(os.path.join(rundir, 'exclude.txt'), 'w') as fd:
        fd.write('BD8D2000\nBC8A1234\n')


def run_cli(root, rundir, args, optimise):
    env = dict(os.environ)
    env['PYTHONPATH'] = os.path.join(root, 'modules')
    env['PYTHONDONTWRITEBYTECODE'] = '1'
    env['PYTHONHASHSEED'] = '0'
    tool = os.path.join(root, 'modules', 'pel', 'peltool', 'peltool.py')
    cmd = [PY] + (['-O'] if optimise else []) + [tool] + args
    p = subprocess.run(cmd, env=env, cwd=rundir, stdout=subprocess.PIPE,
                       stderr=subprocess.PIPE, stdin=subprocess.DEVNULL)
    return [p.returncode, p.stdout.decode(errors='replace'),
            scrub(p.stderr.decode(errors='replace'), root), snapshot(rundir)]


# --------------------------------------------------------------------------

def main():
    if len(sys.argv) != 3:
        raise SystemExit(__doc__)
    roots = [os.path.abspath(a) for a in sys.argv[1:3]]
    work = tempfile.mkdtemp(prefix='diffcheck_R53_')
    ncases = 0
    diffs = []
    try:
        corpus = build_corpus()
        corpus_dir = os.path.join(work, 'corpus')
        os.makedirs(corpus_dir)
        for name, data in corpus:
            with open(os.path.join(corpus_dir, name), 'wb') as fd:
                fd.write(data)
        with open(os.path.join(work, 'driver.py'), 'w') as fd:
            fd.write(DRIVER)

        # ---- in-process driver, with and without -O
        for optimise in (False, True):
            res = [run_driver(r, corpus_dir, work, optimise) for r in roots]
            (a, a_err), (b, b_err) = res
            if scrub(a_err, roots[0]) != scrub(b_err, roots[1]):
                diffs.append(('driver-stderr O=%s' % optimise, a_err[-500:], b_err[-500:]))
            if len(a) != len(b):
                diffs.append(('driver-length O=%s' % optimise, len(a), len(b)))
            for x, y in zip(a, b):
                ncases += 1
                if x != y:
                    diffs.append(('driver O=%s %s' % (optimise, x[0]), x, y))

        # ---- CLI on directories
        sets, cases, fcases, by = cli_cases(corpus)
        rundir = os.path.join(work, 'run')
        for setname, opts, optimise in cases:
            out = []
            for r in roots:
                populate(rundir, sets[setname], by)
                out.append(run_cli(r, rundir, ['-p', 'pels'] + opts, optimise))
            ncases += 1
            if out[0] != out[1]:
                diffs.append(('cli %s %s O=%s' % (setname, opts, optimise), out[0], out[1]))

        # ---- CLI on single files
        for fname, opts, optimise in fcases:
            out = []
            for r in roots:
                populate(rundir, [fname] if fname in by else [], by)
                target = os.path.join('pels', file_name_for(fname, by)) if fname in by else fname
                out.append(run_cli(r, rundir, ['-f', target] + opts, optimise))
            ncases += 1
            if out[0] != out[1]:
                diffs.append(('cli -f %s %s O=%s' % (fname, opts, optimise), out[0], out[1]))

        # ---- CLI without a path / help text
        for opts in ([], ['-l'], ['-p', 'nowhere', '-l'], ['--help'], ['-S', 'Bogus']):
            out = []
            for r in roots:
                populate(rundir, [], by)
                out.append(run_cli(r, rundir, opts, False))
            ncases += 1
            if out[0] != out[1]:
                diffs.append(('cli %s' % opts, out[0], out[1]))
    finally:
        shutil.rmtree(work, ignore_errors=True)

    if diffs:
        for d in diffs[:25]:
            print('DIFFERENT:', d[0])
            for side in d[1:]:
                print('   ', repr(side)[:1500])
        print('DIFFERENT (%d of %d cases)' % (len(diffs), ncases))
        return 1
    print('IDENTICAL (%d cases)' % ncases)
    return 0


if __name__ == '__main__':
    sys.exit(main())
