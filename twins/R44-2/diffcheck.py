#!/usr/bin/env python3
"""
Differential check for refactorings of the PEL section decoders
(private_header, user_header, extend_user_header, failing_mtms,
imp_partition, user_data, ext_user_data, default, parse_user_data) and of
pel/datastream.py and pel/hexdump.py.

    python diffcheck.py <pristine_root> <patched_root>

For both roots the very same (seeded) inputs are pushed through
  * an in-process driver (run in a subprocess with PYTHONPATH=<root>/modules,
    once normally and once with `python -O`), which records for every case
    the result or the exception (type + text), what was written to
    stdout/stderr, the stream position afterwards and the decoder object state
  * the real peltool.py command line (stdout, stderr, exit status and the
    files left behind in the PEL / output directories).
Prints "IDENTICAL (<n> cases)" and exits 0 when nothing differs.
"""

import io
import json
import os
import random
import shutil
import struct
import subprocess
import sys
import tempfile

PY = sys.executable


# --------------------------------------------------------------------------
# PEL builders (pure, independent of the code under test)
# --------------------------------------------------------------------------

def sec_hdr(sid: bytes, length: int, ver: int, sub: int, comp: int) -> bytes:
    return struct.pack('>2sHBBH', sid, length & 0xFFFF, ver & 0xFF,
                       sub & 0xFF, comp & 0xFFFF)


def bcd(rng) -> bytes:
    return bytes([0x20, rng.choice([0x19, 0x22, 0x24]),
                  rng.choice([0x01, 0x08, 0x12]), rng.choice([0x03, 0x28]),
                  rng.choice([0x00, 0x18, 0x23]), rng.choice([0x05, 0x40]),
                  rng.choice([0x27, 0x59]), rng.choice([0x00, 0x99])])


def build_ph(rng, creator=b'O', count=2, comp=0x2000, obmc=1, eid=0x50000001,
             plid=0x50000001) -> bytes:
    body = bcd(rng) + bcd(rng) + creator + b'\x00\x00' + bytes([count & 0xFF])
    body += struct.pack('>IQII', obmc, rng.choice([0, 1, 0x4142434445464748]),
                        plid, eid)
    return sec_hdr(b'PH', 8 + len(body), 1, 0, comp) + body


def build_uh(rng, sev=0x40, flags=0xA000, comp=0x2000, states=0x0201,
             subsystem=0x8D, scope=3, etype=0) -> bytes:
    body = bytes([subsystem, scope, sev, etype]) + b'\x00' * 4
    body += bytes([rng.randrange(256), rng.randrange(256)])
    body += struct.pack('>HI', flags, states)
    return sec_hdr(b'UH', 8 + len(body), 1, 0, comp) + body


def pad_to(b: bytes, n: int) -> bytes:
    return b[:n] + b'\x00' * (n - len(b[:n]))


def build_eh(rng, symptom=b'BD8D1001_00000055', comp=0x2000) -> bytes:
    body = pad_to(b'9105-22A', 8) + pad_to(b'13ABCDE', 12)
    body += pad_to(b'fw1050.00-12', 16) + pad_to(b'ss1050', 16)
    body += b'\x00' * 4 + bcd(rng) + b'\x00' * 3
    if symptom:
        sym = symptom + b'\x00' * (-len(symptom) % 4)
        body += bytes([len(sym)]) + sym
    else:
        body += b'\x00'
    return sec_hdr(b'EH', 8 + len(body), 1, 0, comp) + body


def build_mt(rng, comp=0x2000) -> bytes:
    body = pad_to(rng.choice([b'9105-22A', b'1234', b'']), 8)
    body += pad_to(rng.choice([b'13ABCDE', b'SERIALNUMBER', b'']), 12)
    return sec_hdr(b'MT', 8 + len(body), 1, 0, comp) + body


def build_lp(rng, name=b'lpar-one', targets=(1, 2, 3), comp=0x2000) -> bytes:
    body = struct.pack('>HBBI', rng.randrange(65536), len(name), len(targets),
                       rng.randrange(1 << 32))
    body += name
    for t in targets:
        body += struct.pack('>H', t)
    if len(targets) % 2:
        body += b'\x00\x00'
    return sec_hdr(b'LP', 8 + len(body), 1, 0, comp) + body


def build_ud(data: bytes, sub=1, ver=1, comp=0x2000) -> bytes:
    return sec_hdr(b'UD', 8 + len(data), ver, sub, comp) + data


def build_ed(data: bytes, creator=b'O', sub=1, ver=1, comp=0x2000) -> bytes:
    body = creator + b'\x00\x00\x00' + data
    return sec_hdr(b'ED', 8 + len(body), ver, sub, comp) + body


def build_other(rng, sid: bytes, data: bytes, comp=0x3100) -> bytes:
    return sec_hdr(sid, 8 + len(data), rng.randrange(4), rng.randrange(4),
                   comp) + data


UD_PAYLOADS = [
    b'',
    b'{"Key": "Value", "N": 3}',
    b'  {"a": [1, 2, {"b": null}]}\n\x00\x00',
    b'[1, 2, 3]',
    b'"just a string"',
    b'12',
    b'null',
    b'{"broken": ',
    b'not json at all',
    b'line one\nline two\n\nline four\n',
    b'tab\there\x01\x02\x7f~ end\n\x00\x00\x00',
    b'\n\n\n',
    b'trail\n\x00',
    b'caf\xc3\xa9 \xe2\x82\xac\nnext',
    b'\xff\xfe\xfd bad utf8',
    b'\x00\x00\x00\x00',
    bytes(range(64)),
    bytes(range(256)),
    b'A' * 16,
    b'B' * 17,
    b'   \t\r\n  ',
    b'x\r\ny\rz',
    b'{"Section Version": 99, "Data": "override"}',
]


def build_pel(rng, creator=b'O', sev=0x40, flags=0xA000, extra=None,
              count_delta=0, comp=0x2000) -> bytes:
    secs = []
    if extra is None:
        extra = []
        kinds = rng.sample(['EH', 'MT', 'LP', 'UD', 'UD', 'ED', 'DH', 'XX'],
                           rng.randrange(0, 7))
        for kind in kinds:
            if kind == 'EH':
                extra.append(build_eh(rng, rng.choice(
                    [b'BD8D1001_00000055', b'', b'X', b'SYM\x00\x00'])))
            elif kind == 'MT':
                extra.append(build_mt(rng))
            elif kind == 'LP':
                n = rng.randrange(0, 5)
                extra.append(build_lp(
                    rng, rng.choice([b'', b'lp', b'lpar-one\x00\x00\x00\x00']),
                    tuple(rng.randrange(65536) for _ in range(n))))
            elif kind == 'UD':
                extra.append(build_ud(
                    rng.choice(UD_PAYLOADS), sub=rng.choice([1, 2, 3, 4, 72]),
                    ver=rng.choice([1, 2]),
                    comp=rng.choice([0x2000, 0xE500, 0x2C00, 0x1234])))
            elif kind == 'ED':
                extra.append(build_ed(
                    rng.choice(UD_PAYLOADS),
                    creator=rng.choice([b'O', b'B', b'H', b'M', b'Z']),
                    sub=rng.choice([1, 2, 3, 4]),
                    comp=rng.choice([0x2000, 0xE500, 0x2C00, 0x4848])))
            elif kind == 'DH':
                extra.append(build_other(rng, b'DH', bytes(
                    rng.randrange(256) for _ in range(rng.randrange(0, 40)))))
            else:
                extra.append(build_other(rng, b'??', b'unknown section!'))
    secs.extend(extra)
    count = 2 + len(secs) + count_delta
    eid = rng.randrange(1 << 32)
    pel = build_ph(rng, creator=creator, count=count, comp=comp,
                   obmc=rng.randrange(1 << 16), eid=eid,
                   plid=rng.choice([eid, rng.randrange(1 << 32)]))
    pel += build_uh(rng, sev=sev, flags=flags, comp=comp,
                    states=rng.choice([0, 0x0201, 0x0303, 0xFF05, 0x01020304]),
                    subsystem=rng.choice([0x8D, 0x10, 0x00, 0xFF]),
                    scope=rng.choice([1, 3, 9]),
                    etype=rng.choice([0, 1, 2, 8, 0x77]))
    for s in secs:
        pel += s
    return pel


def pel_corpus(seed: int, n: int):
    rng = random.Random(seed)
    pels = []
    sevs = [0x00, 0x10, 0x20, 0x40, 0x41, 0x51, 0x61, 0x71, 0x99]
    flagss = [0x0000, 0x2000, 0x4000, 0x6000, 0x8000, 0xA000, 0xE000, 0xFFFF,
              0x0920, 0x1500]
    for i in range(n):
        creator = rng.choice([b'O', b'O', b'B', b'H', b'M', b'T', b'Z', b'\x00',
                              b'\xc3'])
        pels.append(build_pel(rng, creator=creator, sev=rng.choice(sevs),
                              flags=rng.choice(flagss),
                              count_delta=rng.choice([0, 0, 0, 0, 1, -1]),
                              comp=rng.choice([0x2000, 0x1000, 0x4848, 0x0041,
                                               0xE500])))
    return pels


# --------------------------------------------------------------------------
# Driver: runs inside a subprocess with PYTHONPATH=<root>/modules
# --------------------------------------------------------------------------

FAKE_PLUGINS = {
    # creator 'b', comp 0x1111.. : each a udparsers.<name>.<name> module
    'b1111': "def parseUDToJson(s, v, d):\n    return None\n",
    'b1112': "def parseUDToJson(s, v, d):\n    return 'null'\n",
    'b1113': "def parseUDToJson(s, v, d):\n    return '{not json'\n",
    'b1114': "def parseUDToJson(s, v, d):\n    raise ValueError('boom %d' % s)\n",
    'b1115': "import json\ndef parseUDToJson(s, v, d):\n"
             "    return json.dumps([s, v, len(d), bytes(d[:4]).hex()])\n",
    'b1116': "import json\ndef parseUDToJson(s, v, d):\n"
             "    return json.dumps({'Sub': s, 'Ver': v, 'Len': len(d)})\n",
    'b1117': "x = 1\n",
    'b1118': "raise ImportError('cannot load me')\n",
    'b1119': "raise RuntimeError('broken at import')\n",
    'b111a': "def parseUDToJson(s, v, d):\n    return {'a': 1}\n",
    'b111b': "def parseUDToJson(s, v, d):\n    return b'{\"bytes\": true}'\n",
    'b111c': "def parseUDToJson(s, v, d):\n    return b'bytes not json'\n",
    'b111d': "def parseUDToJson(s, v, d):\n    return ''\n",
    'b111e': "def parseUDToJson(s, v, d):\n    return '\"text\"'\n",
    'b111f': "import sys\ndef parseUDToJson(s, v, d):\n"
             "    print('plugin says hi', s)\n"
             "    print('plugin warns', v, file=sys.stderr)\n"
             "    return '{\"ok\": 1}'\n",
}


def driver(root: str, outfile: str) -> None:
    import contextlib
    import importlib

    tmp = tempfile.mkdtemp(prefix='dc_plug_')
    for name, src in FAKE_PLUGINS.items():
        os.makedirs(os.path.join(tmp, name))
        with open(os.path.join(tmp, name, name + '.py'), 'w') as f:
            f.write(src)
        with open(os.path.join(tmp, name, '__init__.py'), 'w') as f:
            f.write('')
    sys.dont_write_bytecode = True
    import udparsers
    udparsers.__path__.append(tmp)

    from pel.datastream import DataStream
    import pel.hexdump as hexdump_mod
    from pel.hexdump import hexdump, parse
    from pel.peltool.config import Config
    import pel.peltool.private_header as ph_mod
    from pel.peltool.private_header import PrivateHeader, getTimestamp
    from pel.peltool.user_header import UserHeader
    from pel.peltool.extend_user_header import ExtendedUserHeader
    from pel.peltool.failing_mtms import FailingMTMS
    from pel.peltool.imp_partition import ImpactedPartition
    from pel.peltool.user_data import UserData
    from pel.peltool.ext_user_data import ExtUserData
    from pel.peltool.default import Default
    import pel.peltool.parse_user_data as pud_mod
    from pel.peltool.parse_user_data import ParseUserData, UserDataFormat, \
        get_value
    import pel.peltool.peltool as peltool

    assert os.path.realpath(ph_mod.__file__).startswith(
        os.path.realpath(root)), (ph_mod.__file__, root)

    results = []

    def show(v):
        """A stable, type-revealing rendering of a value."""
        if isinstance(v, memoryview):
            return 'mv:' + v.tobytes().hex()
        if isinstance(v, (bytes, bytearray)):
            return type(v).__name__ + ':' + bytes(v).hex()
        if isinstance(v, dict):
            return type(v).__name__ + '{' + ', '.join(
                '%s: %s' % (show(k), show(x)) for k, x in v.items()) + '}'
        if isinstance(v, (list, tuple)):
            return type(v).__name__ + '[' + ', '.join(show(x) for x in v) + ']'
        if isinstance(v, DataStream):
            return '<DataStream index=%r size=%r>' % (v.index, v.size)
        if isinstance(v, (int, str, float, bool)) or v is None:
            return type(v).__name__ + ':' + repr(v)
        return '<' + type(v).__name__ + '>'

    def state(obj):
        # Attribute values by name; the order in which __init__ happens to
        # create the attributes is not part of the behaviour.
        return show(dict(sorted(vars(obj).items())))

    def run(case_id, fn):
        out, err = io.StringIO(), io.StringIO()
        with contextlib.redirect_stdout(out), contextlib.redirect_stderr(err):
            try:
                res = ('ok', fn())
            except SystemExit as e:
                res = ('exit', repr(e.code))
            except BaseException as e:   # noqa
                res = ('exc', type(e).__name__, str(e))
        results.append([case_id, res, out.getvalue(), err.getvalue()])

    cfg_plug = Config()
    cfg_noplug = Config()
    cfg_noplug.allow_plugins = False

    def mkstream(data):
        return DataStream(data, byte_order='big', is_signed=False)

    # ---------------- DataStream ----------------
    rng = random.Random(4401)
    for n in range(260):
        raw = bytes(rng.randrange(256) for _ in range(rng.randrange(0, 24)))
        data = raw if n % 2 else memoryview(raw)
        order = rng.choice(['big', 'little', None])
        signed = rng.choice([True, False, None])

        def seq(data=data, order=order, signed=signed, seed=n):
            r = random.Random(seed)
            s = DataStream(data, byte_order=order, is_signed=signed)
            log = [show(s)]
            for _ in range(10):
                op = r.choice(['mem', 'int', 'int2', 'inc', 'chk'])
                k = r.choice([0, -1, 1, 1, 2, 2, 3, 4, 4, 8, 30])
                try:
                    if op == 'mem':
                        v = s.get_mem(k)
                    elif op == 'int':
                        v = s.get_int(k)
                    elif op == 'int2':
                        v = s.get_int(k, byte_order=r.choice(
                            ['big', 'little', None]),
                            is_signed=r.choice([True, False, None]))
                    elif op == 'inc':
                        v = s.inc_index(k)
                    else:
                        v = s.check_range(k)
                    log.append([op, k, show(v), s.index])
                except Exception as e:
                    log.append([op, k, type(e).__name__, str(e), s.index])
            return log
        run('ds/%d' % n, seq)

    # ---------------- hexdump ----------------
    rng = random.Random(4402)
    for n in range(220):
        raw = bytes(rng.randrange(256) for _ in range(rng.randrange(0, 70)))
        if n % 5 == 0:
            raw = bytes(rng.choice(b' ~\x7f\x1f\x20Az09') for _ in range(
                rng.randrange(0, 40)))
        kind = n % 4
        data = [memoryview(raw), raw, bytearray(raw), list(raw)][kind]
        run('hd/default/%d' % n, lambda data=data: hexdump(data))
        bpl = rng.choice([1, 2, 3, 4, 7, 8, 16, 32, 256, 0, 257, -1])
        bpc = rng.choice([1, 2, 3, 4, 5, 8, 16, 256, 0, 257, -4])
        run('hd/args/%d' % n, lambda data=data, bpl=bpl, bpc=bpc:
            hexdump(data, bpl, bpc))
        run('hd/kw/%d' % n, lambda data=data, bpl=bpl, bpc=bpc:
            hexdump(data, bytes_per_chunk=bpc, bytes_per_line=bpl))
    raw = bytes(range(48))
    for fmt in ['b', 'H', 'I', 'c', '?', 'f']:
        run('hd/cast/' + fmt, lambda fmt=fmt: hexdump(memoryview(raw).cast(fmt)))
    run('hd/str', lambda: hexdump('a string'))
    run('hd/none', lambda: hexdump(None))
    run('hd/floats', lambda: hexdump([1, 2, 3.5, 4]))
    run('hd/neg', lambda: hexdump([1, -2, 300, 70000]))

    # ---------------- hexdump.parse ----------------
    rng = random.Random(4403)
    formats = [
        hexdump_mod.DEFAULT_LINE_FORMAT,
        'DD DD DD DD DD DD DD DD DD DD DD DD DD DD DD DD CCCCCCCCCCCCCCCC',
        'AAAA:  DDDDDDDD DDDDDDDD DDDDDDDD DDDDDDDD  <CCCCCCCCCCCCCCCC>',
        '[AAAA] DDDD DDDD DDDD DDDD',
        'D D',
        'AAD',
        'DDD',
        '',
        'CCCC',
        '|DD|DD|',
    ]
    alphabet = '0123456789abcdefABCDEFxX gG.:[]<>|\n\t\u0663\uff11'
    for n in range(260):
        raw = bytes(rng.randrange(256) for _ in range(rng.randrange(0, 50)))
        lines = hexdump(memoryview(raw))
        run('hp/round/%d' % n, lambda lines=lines: show(parse(lines)))
        mut = []
        for ln in lines:
            ln = list(ln)
            for _ in range(rng.randrange(0, 3)):
                if ln:
                    ln[rng.randrange(len(ln))] = rng.choice(alphabet)
            ln = ''.join(ln)
            c = rng.randrange(6)
            if c == 0:
                ln = ln[:rng.randrange(len(ln) + 1)]
            elif c == 1:
                ln = ln + rng.choice(['\n', ' ', 'x', '\n\n', '\r\n'])
            mut.append(ln)
        run('hp/mut/%d' % n, lambda mut=mut: show(parse(mut)))
        fmt = rng.choice(formats)
        rl = [''.join(rng.choice(alphabet) for _ in range(
            rng.randrange(0, len(fmt) + 3))) for _ in range(rng.randrange(4))]
        run('hp/rand/%d' % n, lambda rl=rl, fmt=fmt: show(parse(rl, fmt)))
        hl = []
        for _ in range(rng.randrange(1, 4)):
            hl.append(''.join(
                rng.choice('0123456789abcdefABCDEF') if ch in 'AD' and
                rng.random() < 0.95 else (ch if ch not in 'ADC' else
                                          rng.choice(alphabet))
                for ch in fmt[:rng.randrange(len(fmt) + 1)]))
        run('hp/fmt/%d' % n, lambda hl=hl, fmt=fmt: show(
            parse(hl, line_format=fmt)))
    run('hp/tuple', lambda: show(parse(('[0000] 0120 0142', '[0008] 20'),
                                       '[AAAA] DDDD DDDD DDDD DDDD')))
    run('hp/bytes', lambda: show(parse([b'00000000     DEADBEEF'])))
    run('hp/none', lambda: show(parse([None])))
    run('hp/gen', lambda: show(parse(iter(['00000000     DEADBEEF  0']))))
    run('hp/listfmt', lambda: show(parse(['AB CD'], list('DD DD'))))

    # ---------------- getTimestamp / get_value ----------------
    rng = random.Random(4404)
    for n in range(60):
        raw = bytes(rng.randrange(256) for _ in range(rng.randrange(0, 12)))
        data = raw if n % 2 else memoryview(raw)

        def ts(data=data):
            s = mkstream(data)
            try:
                return [getTimestamp(s), s.index]
            except Exception as e:
                return [type(e).__name__, str(e), s.index]
        run('ts/%d' % n, ts)
        run('gv/%d' % n, lambda data=data, a=rng.randrange(0, 8),
            b=rng.randrange(0, 6): get_value(data, a, b))
    run('udf', lambda: [(m.name, m.value) for m in UserDataFormat])

    # ---------------- section classes ----------------
    def section_case(cls, payload, hdr, creator, cfg, twice=False,
                     as_mv=False):
        data = memoryview(payload) if as_mv else payload
        s = mkstream(data)
        log = []
        obj = None
        try:
            if creator is None:
                obj = cls(s, *hdr)
            else:
                obj = cls(s, *hdr, creator)
            log.append(['init', s.index, state(obj)])
        except Exception as e:
            log.append(['init-exc', type(e).__name__, str(e), s.index])
            return log
        for _ in range(2 if twice else 1):
            try:
                r = obj.toJSON(cfg) if cfg is not None else obj.toJSON()
                log.append(['json', type(r).__name__, json.dumps(r), show(r),
                            s.index, state(obj)])
            except Exception as e:
                log.append(['json-exc', type(e).__name__, str(e), s.index,
                            state(obj)])
        return log

    rng = random.Random(4405)

    def hdr_for(sid, length, rng):
        return (struct.unpack('>H', sid)[0], length, rng.randrange(256),
                rng.randrange(256),
                rng.choice([0x2000, 0x1000, 0x4848, 0x0041, 0xE500, 0x4100,
                            0xFFFF, 0]))

    creators = ['O', 'B', 'H', 'M', 'Z', '', '\x00']

    def body_of(sec):
        return sec[8:]

    # PrivateHeader
    for n in range(40):
        body = body_of(build_ph(rng, creator=rng.choice(
            [b'O', b'B', b'H', b'Z', b'\x00', b'\xc3', b'\xff']),
            count=rng.randrange(256), obmc=rng.randrange(1 << 32),
            eid=rng.randrange(1 << 32), plid=rng.randrange(1 << 32)))
        if n % 4 == 0:
            body = bytes(rng.randrange(256) for _ in range(40))
        hdr = hdr_for(b'PH', 48, rng)
        cuts = list(range(len(body) + 1)) if n < 3 else \
            [len(body), len(body) + 7, rng.randrange(len(body))]
        for c in cuts:
            p = (body + b'\xaa' * 8)[:c]
            run('PH/%d/%d' % (n, c), lambda p=p, hdr=hdr: section_case(
                PrivateHeader, p, hdr, None, None, twice=(c > len(body)),
                as_mv=False))
        run('PH/mv/%d' % n, lambda body=body, hdr=hdr: section_case(
            PrivateHeader, body, hdr, None, None, as_mv=True))

    # UserHeader (+ isHidden / isServiceable)
    for n in range(40):
        body = body_of(build_uh(
            rng, sev=rng.randrange(256), flags=rng.randrange(65536),
            states=rng.randrange(1 << 32), subsystem=rng.randrange(256),
            scope=rng.randrange(8), etype=rng.randrange(256)))
        hdr = hdr_for(b'UH', 24, rng)
        creator = rng.choice(creators)
        cuts = list(range(len(body) + 1)) if n < 3 else \
            [len(body), 2 * len(body), rng.randrange(len(body))]
        for c in cuts:
            p = (body + body)[:c]
            run('UH/%d/%d' % (n, c), lambda p=p, hdr=hdr, creator=creator:
                section_case(UserHeader, p, hdr, creator, None,
                             twice=(c > len(body)), as_mv=bool(n % 2)))

    def uh_flags():
        log = []
        for sev in [0x00, 0x10, 0x20, 0x40, 0x51, 0x71]:
            for flags in [0, 0x2000, 0x4000, 0x6000, 0x8000, 0xA000, 0xC000,
                          0xE000, 0x0800, 0xFFFF]:
                body = body_of(build_uh(random.Random(1), sev=sev, flags=flags))
                u = UserHeader(mkstream(body), 0x5548, 24, 1, 0, 0x2000, 'O')
                before = [show(u.isHidden()), show(u.isServiceable())]
                u.toJSON()
                log.append([sev, flags, before, show(u.isHidden()),
                            show(u.isServiceable())])
        return log
    run('UH/flags', uh_flags)

    # ExtendedUserHeader
    for n in range(40):
        sym = rng.choice([b'BD8D1001_00000055', b'', b'X', b'SYM\x00\x00',
                          b'\xff\xfe', bytes(rng.randrange(1, 128)
                                             for _ in range(rng.randrange(40)))])
        body = body_of(build_eh(rng, sym))
        if n % 5 == 0:
            body = bytes(rng.randrange(128) for _ in range(len(body)))
        if n % 7 == 0:
            body = bytes(rng.randrange(256) for _ in range(len(body)))
        hdr = hdr_for(b'EH', 8 + len(body), rng)
        creator = rng.choice(creators)
        cuts = list(range(len(body) + 1)) if n < 3 else \
            [len(body), 2 * len(body), rng.randrange(len(body))]
        for c in cuts:
            p = (body + body)[:c]
            run('EH/%d/%d' % (n, c), lambda p=p, hdr=hdr, creator=creator:
                section_case(ExtendedUserHeader, p, hdr, creator, None,
                             twice=(c > len(body)), as_mv=False))
        run('EH/mv/%d' % n, lambda body=body, hdr=hdr, creator=creator:
            section_case(ExtendedUserHeader, body, hdr, creator, None,
                         as_mv=True))

    # FailingMTMS
    for n in range(30):
        body = body_of(build_mt(rng))
        if n % 3 == 0:
            body = bytes(rng.randrange(256) for _ in range(20))
        hdr = hdr_for(b'MT', 28, rng)
        creator = rng.choice(creators)
        cuts = list(range(len(body) + 1)) if n < 2 else \
            [len(body), 2 * len(body), rng.randrange(len(body))]
        for c in cuts:
            p = (body + body)[:c]
            run('MT/%d/%d' % (n, c), lambda p=p, hdr=hdr, creator=creator:
                section_case(FailingMTMS, p, hdr, creator, None,
                             twice=(c > len(body)), as_mv=bool(n % 4 == 1)))

    # ImpactedPartition
    for n in range(50):
        k = rng.randrange(0, 6)
        name = rng.choice([b'', b'lp', b'lpar-one\x00\x00\x00\x00',
                           b'\x00\x00', b'\xff\xff', b'name\x00mid\x00'])
        body = body_of(build_lp(rng, name, tuple(
            rng.randrange(65536) for _ in range(k))))
        if n % 6 == 0:
            body = bytes(rng.randrange(256) for _ in range(
                rng.randrange(8, 60)))
        hdr = hdr_for(b'LP', 8 + len(body), rng)
        creator = rng.choice(creators)
        cuts = list(range(len(body) + 1)) if n < 4 else \
            [len(body), 3 * len(body), rng.randrange(len(body))]
        for c in cuts:
            p = (body * 3)[:c]
            run('LP/%d/%d' % (n, c), lambda p=p, hdr=hdr, creator=creator:
                section_case(ImpactedPartition, p, hdr, creator, None,
                             twice=(c > len(body)), as_mv=False))

    # Default
    for n in range(40):
        body = bytes(rng.randrange(256) for _ in range(rng.randrange(0, 50)))
        length = 8 + len(body) + rng.choice([0, 0, 0, -1, 1, -8, -9, 5])
        hdr = hdr_for(b'DH', length, rng)
        run('DF/%d' % n, lambda body=body, hdr=hdr: section_case(
            Default, body, hdr, None, None, twice=True, as_mv=bool(n % 2)))

    # UserData / ExtUserData
    ud_comps = [0x2000, 0xE500, 0x2C00, 0x1234, 0x1111, 0x1113, 0x1114,
                0x1115, 0x1116, 0x111a, 0x111e]
    for n in range(len(UD_PAYLOADS) * 6):
        payload = UD_PAYLOADS[n % len(UD_PAYLOADS)]
        sub = rng.choice([0, 1, 2, 3, 4, 5, 72, 73, 84, 255])
        ver = rng.choice([0, 1, 2, 3])
        comp = rng.choice(ud_comps)
        creator = rng.choice(['O', 'O', 'B', 'b', 'M', 'H', 'Z'])
        length = 8 + len(payload) + rng.choice([0, 0, 0, 0, 1, -1, -8, 4])
        hdr = (0x5544, length, ver, sub, comp)
        for cfg, cn in ((cfg_plug, 'p'), (cfg_noplug, 'n')):
            run('UD/%s/%d' % (cn, n), lambda payload=payload, hdr=hdr,
                creator=creator, cfg=cfg: section_case(
                    UserData, payload, hdr, creator, cfg, twice=True,
                    as_mv=bool(n % 3 == 0)))
        edbody = creator.encode('latin-1') + b'\x00\x01\x02' + payload
        length = 12 + len(payload) + rng.choice([0, 0, 0, 0, 1, -1, -12, 4])
        hdr = (0x4544, length, ver, sub, comp)
        for cfg, cn in ((cfg_plug, 'p'), (cfg_noplug, 'n')):
            run('ED/%s/%d' % (cn, n), lambda edbody=edbody, hdr=hdr, cfg=cfg:
                section_case(ExtUserData, edbody, hdr, None, cfg, twice=True,
                             as_mv=bool(n % 3 == 1)))
    for c in range(0, 6):
        run('ED/short/%d' % c, lambda c=c: section_case(
            ExtUserData, b'O\x00\x00\x00{}'[:c], (0x4544, 14, 1, 1, 0x2000),
            None, cfg_plug))

    # ---------------- ParseUserData ----------------
    def cache_state():
        return sorted((k, v is None) for k, v in
                      pud_mod.userDataParsers.items())

    def pud_case(creator, comp, sub, ver, data, cfg):
        p = ParseUserData(creator, comp, sub, ver, data)
        log = []
        for _ in range(2):
            try:
                r = p.parse(cfg)
                log.append(['parse', show(r)])
            except Exception as e:
                log.append(['parse-exc', type(e).__name__, str(e)])
        for name in ('parseCustom', 'getBuiltinFormatJSON'):
            try:
                log.append([name, show(getattr(p, name)())])
            except Exception as e:
                log.append([name + '-exc', type(e).__name__, str(e)])
        log.append(cache_state())
        return log

    n = 0
    plugin_comps = sorted(int(k[1:], 16) for k in FAKE_PLUGINS)
    for creator in ['O', 'B', 'b', 'M', 'H', 'Z', '']:
        for comp in [0x2000, 0xE500, 0x2C00, 0x1234] + plugin_comps:
            for sub in [0, 1, 2, 3, 4, 5, 72, 84]:
                # keep the volume reasonable
                if creator not in ('O', 'b') and sub in (0, 5, 84):
                    continue
                if creator == 'b' and comp in (0x2000, 0xE500, 0x2C00) \
                        and sub > 2:
                    continue
                picks = [UD_PAYLOADS[(n + 7 * i) % len(UD_PAYLOADS)]
                         for i in range(3)]
                if creator == 'O' and comp == 0x2000:
                    picks = UD_PAYLOADS
                for data in picks:
                    for cfg, cn in ((cfg_plug, 'p'), (cfg_noplug, 'n')):
                        d = data if n % 2 else memoryview(data)
                        run('PUD/%s/%04X/%d/%s/%d' % (creator, comp, sub, cn, n),
                            lambda creator=creator, comp=comp, sub=sub, d=d,
                            cfg=cfg, ver=n % 3: pud_case(
                                creator, comp, sub, ver, d, cfg))
                        n += 1
    # odd argument types
    run('PUD/odd/1', lambda: pud_case('O', 0x2000, 1.0, 1, b'{"a": 1}',
                                      cfg_plug))
    run('PUD/odd/2', lambda: pud_case('O', 0x2000, True, 1, b'{"a": 1}',
                                      cfg_plug))
    run('PUD/odd/3', lambda: pud_case('O', 0x2000, None, 1, b'abc', cfg_plug))
    run('PUD/odd/4', lambda: pud_case('b', 0x1114, 'x', 1, b'abc', cfg_plug))
    run('PUD/odd/5', lambda: pud_case('O', 0x2000, 3, 1, b'', cfg_plug))
    run('PUD/odd/6', lambda: pud_case('O', 0x2000, [3], 1, b'abc', cfg_plug))
    run('PUD/odd/7', lambda: pud_case('b', '1114', 1, 1, b'abc', cfg_plug))
    run('PUD/odd/8', lambda: pud_case(None, 0x1114, 1, 1, b'abc', cfg_plug))
    run('PUD/odd/9', lambda: pud_case('b', 0x1111, 1, 1, None, cfg_plug))
    run('PUD/odd/10', lambda: pud_case('b', 0x1234, 1, 1, None, cfg_noplug))
    run('PUD/odd/11', lambda: pud_case('O', 0x2000, 3, 1, 'a str', cfg_plug))

    # built in text / json formats on random text
    rng = random.Random(4408)
    text_alphabet = ['\n', '\n', 'a', 'Z', ' ', '\x00', '\t', '\u00e9', '\x7f',
                     '\r', '\x0b', '\x1c', '\u0085', '\u2028', '~', '\x1f',
                     '{', '}', '"', '1']
    for n in range(400):
        text = ''.join(rng.choice(text_alphabet)
                       for _ in range(rng.randrange(0, 14)))
        data = text.encode('utf-8')
        sub = 3 if n % 4 else 1
        run('PUD/text/%d' % n, lambda data=data, sub=sub: pud_case(
            'O', 0x2000, sub, 1, data, cfg_plug))
        run('UD/text/%d' % n, lambda data=data, sub=sub: section_case(
            UserData, data, (0x5544, 8 + len(data), 1, sub, 0x2000), 'O',
            cfg_noplug))

    # ---------------- whole PELs through peltool.parsePEL ----------------
    def mkcfg(**kw):
        c = Config()
        for k, v in kw.items():
            setattr(c, k, v)
        return c

    cfgs = [
        ('every', lambda: mkcfg(every_pel=True)),
        ('default', lambda: mkcfg()),
        ('noplug', lambda: mkcfg(every_pel=True, allow_plugins=False)),
        ('hidden', lambda: mkcfg(hidden=True, only=True)),
        ('nonsvc', lambda: mkcfg(non_serviceable=True)),
        ('svc-sev', lambda: mkcfg(serviceable=True, only=True,
                                  severities=[4, 2])),
        ('term', lambda: mkcfg(critSysTerm=True)),
        ('sev', lambda: mkcfg(severities=[0, 1])),
    ]
    pels = pel_corpus(4406, 90)
    for i, pel in enumerate(pels):
        for cn, mk in (cfgs if i < 30 else cfgs[:3]):
            def whole(pel=pel, mk=mk):
                s = mkstream(pel)
                try:
                    r = peltool.parsePEL(s, mk(), False)
                    return [show(r), s.index]
                except Exception as e:
                    return [type(e).__name__, str(e), s.index]
            run('PEL/%d/%s' % (i, cn), whole)

        def summary(pel=pel):
            s = mkstream(pel)
            try:
                r = peltool.parsePELSummary(s, mkcfg(every_pel=True))
                return [show(r), s.index]
            except Exception as e:
                return [type(e).__name__, str(e), s.index]
        run('PEL/%d/summary' % i, summary)
    # truncation at every byte and random corruption
    rng = random.Random(4407)
    for i in (0, 3, 7, 11):
        pel = pels[i]
        for c in range(len(pel)):
            def trunc(p=pel[:c]):
                s = mkstream(p)
                try:
                    return [show(peltool.parsePEL(
                        s, mkcfg(every_pel=True), False)), s.index]
                except Exception as e:
                    return [type(e).__name__, str(e), s.index]
            run('PEL/trunc/%d/%d' % (i, c), trunc)
    for n in range(400):
        pel = bytearray(rng.choice(pels))
        for _ in range(rng.randrange(1, 4)):
            pos = rng.randrange(len(pel))
            pel[pos] = rng.choice([0, 1, 0xFF, 0x80, rng.randrange(256),
                                   pel[pos] ^ (1 << rng.randrange(8))])
        pel = bytes(pel)

        def corrupt(pel=pel, plug=bool(n % 2)):
            s = mkstream(pel)
            try:
                return [show(peltool.parsePEL(s, mkcfg(
                    every_pel=True, allow_plugins=plug), False)), s.index]
            except Exception as e:
                return [type(e).__name__, str(e), s.index]
        run('PEL/corrupt/%d' % n, corrupt)
    for n in range(60):
        blob = bytes(rng.randrange(256) for _ in range(rng.randrange(0, 120)))
        if n % 2:
            blob = b'PH\x00\x30\x01\x00\x20\x00' + blob

        def rnd(blob=blob):
            s = mkstream(blob)
            try:
                return [show(peltool.parsePEL(s, mkcfg(every_pel=True),
                                              False)), s.index]
            except Exception as e:
                return [type(e).__name__, str(e), s.index]
        run('PEL/random/%d' % n, rnd)
    run('cache/final', cache_state)

    shutil.rmtree(tmp, ignore_errors=True)
    with open(outfile, 'w') as f:
        json.dump(results, f)


# --------------------------------------------------------------------------
# Command line runs
# --------------------------------------------------------------------------

def snapshot(d):
    snap = {}
    for base, _, files in os.walk(d):
        for fn in sorted(files):
            p = os.path.join(base, fn)
            with open(p, 'rb') as f:
                snap[os.path.relpath(p, d)] = f.read().hex()
    return snap


def cli_cases():
    """(name, args-template, needs_fresh_dirs) ; {P} pel dir, {O} out dir"""
    cases = []
    for opt in (['-a'], ['-a', '-E'], ['-a', '-E', '-P'], ['-a', '-H', '-O'],
                ['-a', '-N'], ['-a', '-x', '-E'], ['-a', '-E', '-r'],
                ['-l'], ['-l', '-E'], ['-l', '-E', '-r'], ['-n'], ['-n', '-E'],
                ['-n', '-S', 'Informational', 'Recovered'],
                ['-a', '-O', '-S', 'Unrecoverable'], ['-a', '-t'],
                ['-a', '-E', '-e', '.pel'], ['-a', '-E', '-e', '.bin']):
        cases.append(('dir:' + ' '.join(opt), ['-p', '{P}'] + opt))
    cases.append(('json', ['-p', '{P}', '-j', '-E']))
    cases.append(('json-out', ['-p', '{P}', '-j', '-o', '{O}', '-E']))
    cases.append(('json-out-default', ['-p', '{P}', '-j', '-o', '{O}']))
    cases.append(('json-clean', ['-p', '{P}', '-j', '-o', '{O}', '-c', '-E',
                                 '-P']))
    cases.append(('bmc-id', ['-p', '{P}', '--bmc-id', '7', '-E']))
    return cases


def run_cli(root, workdir, corpus, truncs):
    """Run all CLI cases for one root; returns dict name -> observation."""
    env = dict(os.environ)
    env['PYTHONPATH'] = os.path.join(root, 'modules')
    env['PYTHONDONTWRITEBYTECODE'] = '1'
    env.pop('PYTHONOPTIMIZE', None)
    tool = os.path.join(root, 'modules', 'pel', 'peltool', 'peltool.py')
    obs = {}

    def fresh():
        pdir = os.path.join(workdir, 'pels')
        odir = os.path.join(workdir, 'out')
        for d in (pdir, odir):
            shutil.rmtree(d, ignore_errors=True)
            os.makedirs(d)
        for i, pel in enumerate(corpus):
            ext = '.pel' if i % 3 else '.bin'
            with open(os.path.join(pdir, 'pel%03d%s' % (i, ext)), 'wb') as f:
                f.write(pel)
        return pdir, odir

    def call(name, args, pyopts=()):
        pdir, odir = fresh()
        args = [a.replace('{P}', pdir).replace('{O}', odir) for a in args]
        p = subprocess.run([PY, *pyopts, tool] + args, env=env, cwd=workdir,
                           stdout=subprocess.PIPE, stderr=subprocess.PIPE,
                           timeout=600)
        obs[name] = {
            'rc': p.returncode,
            'out': p.stdout.decode('latin-1').replace(root, '<ROOT>'),
            'err': p.stderr.decode('latin-1').replace(root, '<ROOT>'),
            'pels': snapshot(pdir), 'outdir': snapshot(odir)}

    for name, args in cli_cases():
        call(name, args)
    call('O:dir -a -E', ['-p', '{P}', '-a', '-E'], pyopts=('-O',))
    call('O:json', ['-p', '{P}', '-j', '-o', '{O}', '-E'], pyopts=('-O',))

    # single files: -f on whole, truncated and corrupted PELs
    fdir = os.path.join(workdir, 'single')
    shutil.rmtree(fdir, ignore_errors=True)
    os.makedirs(fdir)
    for i, blob in enumerate(truncs):
        path = os.path.join(fdir, 'f%03d.pel' % i)
        with open(path, 'wb') as f:
            f.write(blob)
        opts = [['-E'], ['-E', '-P'], [], ['-E', '-x'], ['-E', '-c']][i % 5]
        pyopts = ('-O',) if i % 7 == 0 else ()
        p = subprocess.run([PY, *pyopts, tool, '-f', path] + opts, env=env,
                           cwd=workdir, stdout=subprocess.PIPE,
                           stderr=subprocess.PIPE, timeout=600)
        obs['file/%d %s %s' % (i, ' '.join(opts), ' '.join(pyopts))] = {
            'rc': p.returncode,
            'out': p.stdout.decode('latin-1').replace(root, '<ROOT>'),
            'err': p.stderr.decode('latin-1').replace(root, '<ROOT>'),
            'exists': os.path.exists(path)}
    return obs


def main():
    if len(sys.argv) == 4 and sys.argv[1] == '--driver':
        driver(sys.argv[2], sys.argv[3])
        return 0
    if len(sys.argv) != 3:
        print(__doc__)
        return 2
    roots = [os.path.realpath(sys.argv[1]), os.path.realpath(sys.argv[2])]
    work = tempfile.mkdtemp(prefix='diffcheck_R44_')
    diffs = 0
    cases = 0
    try:
        # ---- in-process driver, normal and -O
        for label, pyopts in (('driver', ()), ('driver -O', ('-O',))):
            outs = []
            for idx, root in enumerate(roots):
                env = dict(os.environ)
                env['PYTHONPATH'] = os.path.join(root, 'modules')
                env['PYTHONDONTWRITEBYTECODE'] = '1'
                env.pop('PYTHONOPTIMIZE', None)
                outfile = os.path.join(work, 'drv%d.json' % idx)
                p = subprocess.run(
                    [PY, *pyopts, os.path.abspath(__file__), '--driver', root,
                     outfile], env=env, cwd=work, stdout=subprocess.PIPE,
                    stderr=subprocess.PIPE, timeout=3600)
                if p.returncode != 0:
                    print('driver failed for', root)
                    print(p.stdout.decode(), p.stderr.decode())
                    return 1
                with open(outfile) as f:
                    text = f.read().replace(root, '<ROOT>')
                outs.append(json.loads(text))
            a, b = outs
            if len(a) != len(b):
                print('%s: different number of cases' % label)
                diffs += 1
            for ra, rb in zip(a, b):
                cases += 1
                if ra != rb:
                    diffs += 1
                    if diffs <= 15:
                        print('DIFF [%s] %s\n  pristine: %s\n  patched : %s' % (
                            label, ra[0], json.dumps(ra[1:])[:1500],
                            json.dumps(rb[1:])[:1500]))

        # ---- command line
        corpus = pel_corpus(4410, 36)
        # make one BMC id predictable for --bmc-id
        rng = random.Random(4411)
        pel7 = build_pel(rng, extra=[build_ud(b'{"id": 7}')])
        corpus.append(pel7[:28] + struct.pack('>I', 7) + pel7[32:])
        corpus.append(b'')
        corpus.append(b'garbage that is not a PEL at all, just some text')
        corpus.append(corpus[0][:61])
        corpus.append(corpus[1][:len(corpus[1]) - 3])
        singles = []
        base = pel_corpus(4412, 10)
        for i, pel in enumerate(base):
            singles.append(pel)
            singles.append(pel[:rng.randrange(len(pel))])
            bad = bytearray(pel)
            bad[rng.randrange(len(bad))] ^= 0xFF
            singles.append(bytes(bad))
        singles.append(b'')
        obs = []
        for idx, root in enumerate(roots):
            wd = os.path.join(work, 'cli')          # same path for both roots
            shutil.rmtree(wd, ignore_errors=True)
            os.makedirs(wd)
            obs.append(run_cli(root, wd, corpus, singles))
        a, b = obs
        for name in sorted(set(a) | set(b)):
            cases += 1
            if a.get(name) != b.get(name):
                diffs += 1
                if diffs <= 15:
                    print('DIFF [cli] %s' % name)
                    for k in (a.get(name) or {}):
                        if (a.get(name) or {}).get(k) != \
                                (b.get(name) or {}).get(k):
                            print('  field %s:\n   pristine: %s\n   patched : %s'
                                  % (k, str(a[name][k])[:800],
                                     str((b.get(name) or {}).get(k))[:800]))
    finally:
        shutil.rmtree(work, ignore_errors=True)

    if diffs:
        print('DIFFERENT (%d of %d cases differ)' % (diffs, cases))
        return 1
    print('IDENTICAL (%d cases)' % cases)
    return 0


if __name__ == '__main__':
    sys.exit(main())
