#!/usr/bin/env python
"""
Differential check for refactorings of the peltool front end
(modules/pel/peltool/peltool.py, config.py, user_header.py).

usage: diffcheck.py <pristine_root> <patched_root>

Builds a corpus of binary PEL files (well formed, truncated, corrupted,
random), then runs the very same list of cases against both source trees:

  * "cli"     peltool.main() called in-process (many calls in ONE python
              process, so state kept between decodes is exercised too), with
              a fresh copy of the corpus for every case; optionally with a
              simulated BMC environment (os.path.isdir / os.walk redirected).
  * "call"    direct calls of deleteAllPELs, deletePELFromPELId,
              parseAndWriteOutput, parseAndPrintPELFile, ...
  * "grid"    exhaustive grids over considerPEL, considerPELIfSeverityMatches,
              UserHeader.isHidden/isServiceable, Config(), prettyPrint.
  * "subproc" the real command line, `python peltool.py ...` and
              `python -O peltool.py ...`.

For every case stdout, stderr, the exit status / raised exception / return
value and a snapshot (names + content hashes) of the case directory after the
run are compared.  The in-process driver is run with and without -O.

Prints "IDENTICAL (<n> cases)" and exits 0 if everything is the same,
exits 1 otherwise.
"""
import hashlib
import itertools
import json
import os
import random
import shutil
import struct
import subprocess
import sys
import tempfile

PY = sys.executable

# --------------------------------------------------------------------------
# binary PEL builder
# --------------------------------------------------------------------------

TIME1 = bytes.fromhex('2024010112300511')
TIME2 = bytes.fromhex('2024010112300642')


def hdr(sid, length, ver=1, sub=0, comp=0x2000):
    if isinstance(sid, str):
        sid = sid.encode()
    return sid + struct.pack('>HBBH', length & 0xFFFF, ver, sub, comp)


def sec_ph(count, obmc, plid, eid, creator=b'O', comp=0x2000, sid='PH'):
    body = TIME1 + TIME2 + creator + b'\x00\x00' + bytes([count & 0xFF])
    body += struct.pack('>I', obmc) + struct.pack('>Q', 0x0102030405060708)
    body += struct.pack('>II', plid, eid)
    return hdr(sid, 8 + len(body), 1, 0, comp) + body


def sec_uh(sev, flags, subsys=0x10, scope=0x03, etype=0x00, states=0x0201,
           comp=0x2000, sid='UH'):
    body = bytes([subsys, scope, sev, etype]) + b'\x00' * 4
    body += bytes([0x00, 0x00]) + struct.pack('>H', flags)
    body += struct.pack('>I', states)
    return hdr(sid, 8 + len(body), 1, 0, comp) + body


def fru_callout(loc=b'U78DA.ND1-P0\x00\x00\x00\x00', prio=ord('H'),
                pn=b'PN12345\x00', ccin=b'2B3C', sn=b'YL1234567890'):
    fru = struct.pack('>HBB', 0x4944, 4 + 8 + 4 + 12, 0x10 | 0x08 | 0x04 | 0x01)
    fru += pn + ccin + sn
    size = 4 + len(loc) + len(fru)
    return bytes([size, 0x00, prio, len(loc)]) + loc + fru


def proc_callout(prio=ord('M'), proc=b'BMC0001\x00'):
    fru = struct.pack('>HBB', 0x4944, 4 + 8, 0x20 | 0x02) + proc
    size = 4 + len(fru)
    return bytes([size, 0x00, prio, 0]) + fru


def sec_src(ascii_str, flags=0, words=None, callouts=None, sid='PS',
            wordcount=9, comp=0x2000, ascii_raw=None):
    words = words or [0x000000E0, 0x2B3C0000, 0, 0x03000000,
                      0xDEADBEEF, 0x11223344, 0, 0x55667788]
    asc = ascii_raw if ascii_raw is not None else \
        ascii_str.encode().ljust(32, b' ')
    body = bytes([0x02, flags | (0x01 if callouts else 0), 0x00, wordcount])
    body += struct.pack('>HH', 0, 72)
    for w in words:
        body += struct.pack('>I', w)
    body += asc
    if callouts:
        cdata = b''.join(callouts)
        while len(cdata) % 4:
            cdata += b'\x00'
        body += bytes([0xC0, 0x00]) + struct.pack('>H', (4 + len(cdata)) // 4)
        body += cdata
    return hdr(sid, 8 + len(body), 1, 1, comp) + body


def sec_ud(data, sub=1, ver=1, comp=0x2000, sid='UD', length=None):
    while len(data) % 4:
        data += b'\x00'
    return hdr(sid, (8 + len(data)) if length is None else length,
               ver, sub, comp) + data


def sec_ed(data, creator=b'O', sub=1, ver=1, comp=0x2000):
    while len(data) % 4:
        data += b'\x00'
    body = creator + b'\x00\x00\x00' + data
    return hdr('ED', 8 + len(body), ver, sub, comp) + body


def sec_mt():
    body = b'9105-22A' + b'SN1234567\x00\x00\x00'
    return hdr('MT', 8 + len(body), 1, 0, 0x2000) + body


def sec_eh():
    body = b'9105-22A' + b'SN1234567\x00\x00\x00'
    body += b'fw1030.00-12'.ljust(16, b'\x00')
    body += b'fw1030.00-12-sub'.ljust(16, b'\x00')
    body += b'\x00' * 4 + TIME1 + b'\x00\x00\x00' + bytes([8]) + b'BD8D1234'
    return hdr('EH', 8 + len(body), 1, 0, 0x2000) + body


def sec_lp():
    name = b'lpar1\x00\x00\x00'
    body = struct.pack('>HBBI', 0x0001, len(name), 1, 0x50001234) + name
    body += struct.pack('>H', 0x0002) + b'\x00\x00'
    return hdr('LP', 8 + len(body), 1, 0, 0x2000) + body


TRICKY_JSON = json.dumps({
    "plain": 1,
    "quote\"key": "v",
    "back\\slash": "{brace}",
    "colon\":in": "\": x",
    "nested": {"a": [1, {"b": "c"}], "deep": {"x": {"y": 2}}},
    "empty": {},
    "emptyl": [],
    "unié": "é",
    "has{brace": 3,
    "a very long key that is longer than the desired spacing of column": 4,
    "": "empty key",
    "multi\nline": "l1\nl2",
}).encode()


def pel(eid, sev, flags, *, creator=b'O', obmc=None, plid=None, src='BD8D1234',
        sections=None, count=None, ph_sid='PH', uh_sid='UH', callouts=None,
        src_flags=0, ascii_raw=None, comp=0x2000):
    secs = []
    if src is not None:
        secs.append(sec_src(src, flags=src_flags, callouts=callouts,
                            ascii_raw=ascii_raw, comp=comp))
    secs.extend(sections or [])
    n = 2 + len(secs) if count is None else count
    data = sec_ph(n, eid & 0xFFFF if obmc is None else obmc,
                  eid if plid is None else plid, eid, creator=creator,
                  comp=comp, sid=ph_sid)
    data += sec_uh(sev, flags, comp=comp, sid=uh_sid)
    return data + b''.join(secs)


def build_corpus(top):
    """
    Creates <top>/logs (+ archive and sub directories), <top>/links, <top>/out,
    <top>/emptydir, <top>/onlydirs/x, <top>/excl.txt.
    Returns the list of file names directly below logs.
    """
    rnd = random.Random(20240917)
    logs = os.path.join(top, 'logs')
    os.makedirs(os.path.join(logs, 'archive'))
    os.makedirs(os.path.join(logs, 'subdir'))
    os.makedirs(os.path.join(top, 'out'))
    os.makedirs(os.path.join(top, 'emptydir'))
    os.makedirs(os.path.join(top, 'onlydirs', 'x'))
    files = {}

    def add(name, data):
        files[name] = data

    add('2024010100000001_50000001', pel(0x50000001, 0x40, 0xA000))
    add('2024010100000002_50000002', pel(0x50000002, 0x00, 0x0000,
                                         src='BD8D0002'))
    add('2024010100000003_50000003', pel(0x50000003, 0x00, 0x8000,
                                         src='BD8D0003'))
    add('2024010100000004_50000004', pel(0x50000004, 0x20, 0x6000,
                                         src='BD8D0004'))
    add('2024010100000005_50000005', pel(0x50000005, 0x51, 0x2000,
                                         src='BD8D0005'))
    add('2024010100000006_50000006', pel(0x50000006, 0x10, 0x0000,
                                         src='11001234'))
    add('2024010100000007_50000007', pel(0x50000007, 0x50, 0x4000,
                                         src='BD8D0007'))
    add('2024010100000008_50000008', pel(0x50000008, 0x71, 0xA000,
                                         creator=b'B', src='BC8A0008',
                                         comp=0x0100))
    add('2024010100000009_50000009', pel(0x50000009, 0x61, 0x2000,
                                         creator=b'H', src='B7001111',
                                         comp=0x4143))
    full = pel(0x5000000A, 0x40, 0xA000, plid=0x50000001,
               callouts=[fru_callout(), proc_callout()],
               sections=[sec_eh(), sec_mt(),
                         sec_ud(TRICKY_JSON, sub=1),
                         sec_ud(b'line one\nline\ttwo\x7f\nlast', sub=3),
                         sec_ud(b'\x01\x02\x03\x04' * 9, sub=2),
                         sec_ud(b'custom data here', sub=4, comp=0xE500),
                         sec_ed(b'{"ext": "data", "n": [1, 2]}'),
                         sec_lp(),
                         sec_src('BD8D9999', sid='SS'),
                         sec_src('BD8D9998', sid='SS'),
                         hdr('ZZ', 8 + 12, 2, 3, 0x1234) + b'unknown sect',
                         sec_ud(b'[1, 2, 3]', sub=1)])
    add('2024010100000010_5000000A.pel', full)
    add('2024010100000011_5000000B.txt', pel(0x5000000B, 0x40, 0xE000,
                                             src='BD8D000B'))
    add('2024010100000012_5000000C', pel(0x5000000C, 0x40, 0xA000, src=None))
    add('2024010100000013_5000000D.pel', pel(
        0x5000000D, 0x20, 0x2000, src='BD8D000D', creator=b'M',
        sections=[sec_ud(b'\x00\x01' * 10, sub=0x10, comp=0x2C00),
                  sec_ud(b'', sub=1)]))
    add('dup_50000001_copy', pel(0x50000001, 0x10, 0x4000, src='BD8D0001'))
    add('zz_50000001_third', pel(0x50000001, 0x00, 0xC000, src='BD8D0001'))

    # truncated
    for cut in (0, 1, 5, 8, 30, 47, 48, 52, 56, 64, 71, 72, 76, 80, 100, 152,
                153, 200, len(full) - 40, len(full) - 1):
        add('trunc_%04d_5000001%X' % (cut, cut % 16), full[:cut])

    # corrupted
    add('bad_phid_50000020', pel(0x50000020, 0x40, 0xA000, ph_sid='PX'))
    add('bad_uhid_50000021', pel(0x50000021, 0x40, 0xA000, uh_sid='UX'))
    add('bad_count_50000022', pel(0x50000022, 0x40, 0xA000, count=255))
    add('bad_count1_50000023', pel(0x50000023, 0x40, 0xA000, count=1,
                                   sections=[sec_ud(b'{"a": 1}')]))
    add('bad_udlen_50000024', pel(0x50000024, 0x40, 0xA000,
                                  sections=[sec_ud(b'{"a": 1}', length=0)]))
    add('bad_udlen2_50000025', pel(0x50000025, 0x40, 0xA000,
                                   sections=[sec_ud(b'{"a": 1}', length=4000)]))
    add('bad_ascii_50000026', pel(0x50000026, 0x40, 0xA000,
                                  ascii_raw=b'BD\xff\xfe' + b' ' * 28))
    add('bad_creator_50000027', pel(0x50000027, 0x40, 0xA000,
                                    creator=b'\xff'))
    add('bad_json_50000028', pel(0x50000028, 0x00, 0x0000, src='BD8D0028',
                                 sections=[sec_ud(b'{not json at all')]))
    add('bad_callout_50000029', pel(0x50000029, 0x40, 0xA000,
                                    callouts=[fru_callout()[:20]]))
    add('unk_creator_5000002A', pel(0x5000002A, 0x40, 0xA000, creator=b'?',
                                    sections=[sec_ud(b'abcdefgh', sub=9,
                                                     comp=0xABCD)]))
    flipped = bytearray(full)
    for _ in range(12):
        flipped[rnd.randrange(len(flipped))] ^= 1 << rnd.randrange(8)
    add('bitflip_5000002B', bytes(flipped))
    for i in range(6):
        fl = bytearray(full)
        for _ in range(3):
            fl[rnd.randrange(72, len(fl))] = rnd.randrange(256)
        add('mutant%d_5000003%d' % (i, i), bytes(fl))

    # random
    for i, ln in enumerate((1, 7, 48, 49, 100, 300)):
        add('random%d_5000004%d' % (i, i),
            bytes(rnd.randrange(256) for _ in range(ln)))
    add('random_tail_50000046', sec_ph(5, 70, 0x50000046, 0x50000046) +
        bytes(rnd.randrange(256) for _ in range(90)))
    add('random_tail2_50000047', sec_ph(4, 71, 0x50000047, 0x50000047) +
        sec_uh(0x40, 0xA000) +
        bytes(rnd.randrange(256) for _ in range(120)))
    add('notapel.txt', b'just some text\n')
    add('{odd} "name".pel', pel(0x50000050, 0x40, 0xA000, src='BD8D0050'))

    for name, data in files.items():
        with open(os.path.join(logs, name), 'wb') as f:
            f.write(data)

    with open(os.path.join(logs, 'archive', '2023010100000001_5000A001'),
              'wb') as f:
        f.write(pel(0x5000A001, 0x40, 0xA000, src='BD8DA001'))
    with open(os.path.join(logs, 'archive', '2023010100000002_5000A002'),
              'wb') as f:
        f.write(pel(0x5000A002, 0x00, 0x0000, src='BD8DA002'))
    with open(os.path.join(logs, 'archive', 'garbage_5000A003'), 'wb') as f:
        f.write(b'\x00' * 17)
    with open(os.path.join(logs, 'subdir', 'nested_5000B001'), 'wb') as f:
        f.write(pel(0x5000B001, 0x40, 0xA000, src='BD8DB001'))
    with open(os.path.join(top, 'onlydirs', 'x', 'deep_5000C001'), 'wb') as f:
        f.write(pel(0x5000C001, 0x40, 0xA000))
    os.symlink('2024010100000002_50000002',
               os.path.join(logs, 'link_to_5000000E'))
    links = os.path.join(top, 'links')
    os.makedirs(os.path.join(links, 'sub'))
    os.symlink('does-not-exist', os.path.join(links, 'broken_5000000F'))
    os.symlink('../logs/2024010100000002_50000002',
               os.path.join(links, 'link_5000000E'))
    os.symlink('sub', os.path.join(links, 'dirlink_50000061'))
    with open(os.path.join(links, 'plain_50000060'), 'wb') as f:
        f.write(pel(0x50000060, 0x40, 0xA000, src='BD8D0060'))
    with open(os.path.join(links, 'sub', 'inner_50000062'), 'wb') as f:
        f.write(pel(0x50000062, 0x40, 0xA000, src='BD8D0062'))
    os.symlink('subdir', os.path.join(logs, 'dirlink_50000010'))

    with open(os.path.join(top, 'excl.txt'), 'w') as f:
        f.write('BD8D1234\nBD8D0004 BC8A0008\n\n11001234\n')
    with open(os.path.join(top, 'excl_empty.txt'), 'w') as f:
        pass
    return sorted(files)


# --------------------------------------------------------------------------
# the driver: executed with PYTHONPATH=<root>/modules for each tree
# --------------------------------------------------------------------------

DRIVER = r'''
import contextlib, hashlib, io, itertools, json, os, random, shutil, sys

spec = json.load(open(sys.argv[1]))
TEMPLATE = spec['template']
WORK = spec['work']

import pel.peltool.peltool as pt
from pel.peltool.config import Config
from pel.peltool.user_header import UserHeader

BMC_PREFIX = "/var/lib/phosphor-logging/extensions/pels/logs"
real_isdir = os.path.isdir
real_walk = os.walk


def snapshot(top):
    out = []
    for root, dirs, files in real_walk(top):
        dirs.sort()
        rel = os.path.relpath(root, top)
        for d in dirs:
            p = os.path.join(root, d)
            if os.path.islink(p):
                out.append([os.path.join(rel, d), 'LINK ' + os.readlink(p)])
            else:
                out.append([os.path.join(rel, d), 'DIR'])
        for f in sorted(files):
            p = os.path.join(root, f)
            if os.path.islink(p):
                out.append([os.path.join(rel, f), 'LINK ' + os.readlink(p)])
            else:
                with open(p, 'rb') as fd:
                    out.append([os.path.join(rel, f),
                                hashlib.sha1(fd.read()).hexdigest()])
    out.sort()
    return out


@contextlib.contextmanager
def fake_bmc(casedir):
    def mapped(p):
        if isinstance(p, str) and p.startswith(BMC_PREFIX):
            return casedir + '/logs' + p[len(BMC_PREFIX):]
        return p

    def isdir(p):
        return real_isdir(mapped(p))

    def walk(p, *a, **k):
        return real_walk(mapped(p), *a, **k)

    os.path.isdir = isdir
    os.walk = walk
    try:
        yield
    finally:
        os.path.isdir = real_isdir
        os.walk = real_walk


def make_config(d):
    c = Config()
    for k, v in d.items():
        setattr(c, k, v)
    return c


def sub(x, casedir):
    if isinstance(x, str):
        return x.replace('@D', casedir)
    if isinstance(x, list):
        return [sub(i, casedir) for i in x]
    return x


def run_captured(fn):
    out, err = io.StringIO(), io.StringIO()
    with contextlib.redirect_stdout(out), contextlib.redirect_stderr(err):
        try:
            rv = fn()
            status = 'return %r' % (rv,)
        except SystemExit as e:
            status = 'SystemExit %r' % (e.code,)
        except BaseException as e:
            status = 'EXC %s: %s' % (type(e).__name__, e)
    return out.getvalue(), err.getvalue(), status


def do_cli(case, casedir):
    argv = sub(case['argv'], casedir)
    saved = sys.argv
    sys.argv = [case.get('prog', 'peltool.py')] + argv
    try:
        if case.get('bmc'):
            def fn():
                with fake_bmc(casedir):
                    return pt.main()
        else:
            fn = pt.main
        return run_captured(fn)
    finally:
        sys.argv = saved


def do_call(case, casedir):
    name = case['func']
    args = sub(case['args'], casedir)
    if name == 'deleteAllPELs':
        fn = lambda: pt.deleteAllPELs(*args)
    elif name == 'deletePELFromPELId':
        fn = lambda: pt.deletePELFromPELId(*args)
    elif name == 'parseAndWriteOutput':
        fn = lambda: pt.parseAndWriteOutput(args[0], args[1],
                                            make_config(args[2]), args[3])
    elif name == 'parseAndPrintPELFile':
        fn = lambda: pt.parseAndPrintPELFile(args[0], make_config(args[1]),
                                             args[2])
    elif name == 'parsePelFromID':
        fn = lambda: pt.parsePelFromID(args[0], make_config(args[1]))
    elif name == 'parsePelFromBmcID':
        fn = lambda: pt.parsePelFromBmcID(args[0], make_config(args[1]))
    elif name == 'getFileList':
        fn = lambda: pt.getFileList(*args)
    elif name == 'processId':
        fn = lambda: pt.processId(*args)
    else:
        raise ValueError(name)
    return run_captured(fn)


def grid_consider():
    lines = []
    uh = UserHeader(None, 0x5548, 24, 1, 0, 0x2000, 'O')
    sevs = [0x00, 0x01, 0x10, 0x20, 0x21, 0x40, 0x50, 0x51, 0x61, 0x71, 0xFF]
    flags = [0x0000, 0x8000, 0x4000, 0x2000, 0x6000, 0xA000, 0xC000, 0xE000,
             0xFFFF, 0x1FFF]
    sevlists = [[], [0], [2, 4], [5, 7, 1], [15]]
    lookups = [{}, {'plid': '50000001'}, {'src': 'BD'}, {'bmcID': '1'},
               {'pelID': '50000001'}, {'src': ''}, {'plid': '', 'pelID': 'x'}]
    names = ['every_pel', 'critSysTerm', 'serviceable', 'non_serviceable',
             'hidden', 'only']
    for bits in itertools.product([False, True], repeat=6):
        for sl in sevlists:
            for lk in lookups:
                c = Config()
                for n, b in zip(names, bits):
                    setattr(c, n, b)
                c.severities = list(sl)
                for k, v in lk.items():
                    setattr(c, k, v)
                row = []
                for s in sevs:
                    uh.eventSeverity = s
                    for f in flags:
                        uh.actionFlags = f
                        row.append(repr(pt.considerPEL(uh, c)))
                lines.append('considerPEL %r %r %r: %s' % (
                    bits, sl, sorted(lk.items()), ' '.join(row)))
    return lines


def grid_severity():
    lines = []
    uh = UserHeader(None, 0x5548, 24, 1, 0, 0x2000, 'O')
    for sl in ([], [0], [1], [2, 4], [7, 6, 5, 4, 2, 1, 0], [4, 4], [16],
               [0.0], [True], [2.0, 5]):
        c = Config()
        c.severities = sl
        row = []
        for s in range(256):
            uh.eventSeverity = s
            row.append(repr(pt.considerPELIfSeverityMatches(uh, c)))
        lines.append('sevmatch %r: %s' % (sl, ' '.join(row)))
    return lines


def grid_userheader():
    lines = []
    rnd = random.Random(7)
    flags = [a << 12 for a in range(16)] + [0x0FFF, 0xFFFF, 0x4001, 0x2002,
                                            0x8004] + \
        [rnd.randrange(0x10000) for _ in range(40)]
    for s in range(256):
        uh = UserHeader(None, 0x5548, 24, 1, 0, 0x2000, 'O')
        row = []
        for f in flags:
            uh.eventSeverity = s
            uh.actionFlags = f
            row.append('%r/%r' % (uh.isHidden(), uh.isServiceable()))
        lines.append('uh sev=%d: %s' % (s, ' '.join(row)))
    uh = UserHeader(None, 1, 2, 3, 4, 5, 'B')
    lines.append('uh fresh: %r %r %r' % (uh.isHidden(), uh.isServiceable(),
                                         sorted(vars(uh).items(),
                                                key=lambda kv: kv[0])))
    return lines


def grid_config():
    a, b = Config(), Config()
    lines = ['config vars %r' % (list(vars(a).items()),)]
    lines.append('config distinct lists %r' % (a.severities is not b.severities))
    a.severities.append(3)
    a.hex = True
    lines.append('config b after a changed %r' % (list(vars(b).items()),))
    lines.append('config c fresh %r' % (list(vars(Config()).items()),))
    lines.append('config class attrs %r' % (sorted(
        k for k in vars(Config) if not k.startswith('__')),))
    lines.append('config doc %r' % (Config.__doc__,))
    return lines


def grid_pretty():
    rnd = random.Random(99)
    lines = []
    keys = ['a', 'Section Version', 'quote"k', 'back\\s', 'c":x', '{', '}',
            'with { brace', '', ' ', 'k' * 40, 'unié', 'tab\t', 'nl\n',
            '": ', 'x": "y', '\\"', '\\\\', '\\']
    vals = [0, -1, 1.5, True, None, '', 'str', 'has { brace', '": x', '{',
            'a": "b', [], {}, [1, 2], ['{'], 'multi\nline', '\\', '"']

    def rand_obj(depth):
        d = {}
        for _ in range(rnd.randrange(0, 6)):
            k = rnd.choice(keys)
            r = rnd.random()
            if depth < 3 and r < 0.25:
                d[k] = rand_obj(depth + 1)
            elif depth < 3 and r < 0.4:
                d[k] = [rand_obj(depth + 1), rnd.choice(vals)]
            else:
                d[k] = rnd.choice(vals)
        return d

    texts = []
    for i in range(250):
        o = rand_obj(0)
        texts.append(json.dumps(o, indent=4))
        if i % 5 == 0:
            texts.append(json.dumps(o, indent=2))
            texts.append(json.dumps(o))
            texts.append(json.dumps(o, indent=4, ensure_ascii=False))
    texts += ['', '\n', '\n\n', '"a": 1', '    "a": 1,', '"a":1', '"a" : 1',
              ' "a": {', ' "a": "{"', '"a":', '":', '"":', '    "":  ',
              'no key here', '"unterminated: 1', '"a\\": 1', '"a\\\\": 1',
              '"a": 1\r\n"b": 2\r\n', '\t"a": 1', 'x "a": 1',
              '"a": 1\n  "b": 2\n      "c": {\n"d": "}"',
              ' ' * 50 + '"far": 1', '"k": "v"' * 3]
    for _ in range(150):
        alphabet = '":{} \\\nab,1'
        texts.append(''.join(rnd.choice(alphabet)
                             for _ in range(rnd.randrange(0, 60))))
    for t in texts:
        lines.append('pp default %r -> %r' % (t, pt.prettyPrint(t)))
        for sp in (29, 0, 1, 2, 3, 7, 100, -5):
            lines.append('pp %d %r -> %r' % (sp, t, pt.prettyPrint(t, sp)))
            lines.append('pp kw %d -> %r' % (
                sp, pt.prettyPrint(t, desiredSpace=sp)))
    lines.append('pp posarg name %r' % (pt.prettyPrint(Mdata='"a": 1'),))
    return lines


def do_grid(case):
    fn = {'consider': grid_consider, 'severity': grid_severity,
          'userheader': grid_userheader, 'config': grid_config,
          'pretty': grid_pretty}[case['grid']]
    return fn()


def quicksig(top):
    sig = []
    for root, dirs, files in real_walk(top):
        dirs.sort()
        for n in sorted(files) + dirs:
            st = os.lstat(os.path.join(root, n))
            sig.append((os.path.join(root, n), st.st_mode, st.st_size,
                        st.st_mtime_ns, st.st_ino))
        st = os.lstat(root)
        sig.append((root, st.st_mode, st.st_mtime_ns, st.st_ino))
    return sig


results = []
casedir = os.path.join(WORK, 'case')
fresh_sig = None
fresh_tree = None
for idx, case in enumerate(spec['cases']):
    if case['kind'] == 'grid':
        lines = do_grid(case)
        results.append({'n': len(lines), 'lines': lines})
        continue
    if fresh_sig is None:
        # (re)create a fresh copy of the corpus; it is reused for the
        # following cases for as long as nothing in it has been touched.
        if os.path.lexists(casedir):
            shutil.rmtree(casedir)
        shutil.copytree(TEMPLATE, casedir, symlinks=True)
        fresh_sig = quicksig(casedir)
        fresh_tree = snapshot(casedir)
    for p, mode in case.get('chmod', []):
        os.chmod(sub(p, casedir), mode)
    if case['kind'] == 'cli':
        out, err, status = do_cli(case, casedir)
    else:
        out, err, status = do_call(case, casedir)
    for p, mode in case.get('chmod', []):
        if os.path.lexists(sub(p, casedir)):
            os.chmod(sub(p, casedir), 0o755)
    if not case.get('chmod') and quicksig(casedir) == fresh_sig:
        tree = fresh_tree
    else:
        tree = snapshot(casedir)
        fresh_sig = None
    results.append({'stdout': out, 'stderr': err, 'status': status,
                    'tree': tree})
if os.path.lexists(casedir):
    shutil.rmtree(casedir)

json.dump(results, open(sys.argv[2], 'w'))
'''


# --------------------------------------------------------------------------
# case list
# --------------------------------------------------------------------------

def build_cases(names):
    cases = []
    P = ['-p', '@D/logs']

    def cli(argv, **kw):
        c = {'kind': 'cli', 'argv': list(argv)}
        c.update(kw)
        cases.append(c)

    def call(func, *args, **kw):
        c = {'kind': 'call', 'func': func, 'args': list(args)}
        c.update(kw)
        cases.append(c)

    filters = [
        [], ['-E'], ['-s'], ['-N'], ['-H'], ['-t'], ['-O'],
        ['-s', '-O'], ['-N', '-O'], ['-H', '-O'], ['-t', '-O'], ['-E', '-O'],
        ['-sNH'], ['-sNH', '-O'], ['-N', '-H'], ['-s', '-t'],
        ['-S', 'Informational'], ['-S', 'Critical', 'Symptom'],
        ['-S', 'Recovered', 'Diagnostic', 'Predictive'],
        ['-O', '-S', 'Unrecoverable'], ['-O', '-S', 'Predictive', 'Recovered'],
        ['-s', '-O', '-S', 'Unrecoverable'],
        ['-s', '-O', '-S', 'Informational'],
        ['-N', '-O', '-S', 'Informational'],
        ['-N', '-O', '-S', 'Recovered', 'Critical'],
        ['-H', '-O', '-S', 'Predictive'], ['-H', '-S', 'Critical'],
        ['-s', '-S', 'Diagnostic'], ['-N', '-S', 'Symptom'],
        ['-N', '-H', '-O', '-S', 'Recovered', 'Critical'],
        ['-t', '-S', 'Informational'], ['-t', '-O', '-S', 'Informational'],
        ['-sNHt', '-O', '-S', 'Unrecoverable', 'Informational'],
    ]
    extras = [[], ['-x'], ['-r'], ['-e', '.pel'],
              ['-r', '-x', '-e', '.txt'], ['-P']]
    for mode in (['-l'], ['-n'], ['-a']):
        for f in filters:
            for e in extras:
                cli(P + mode + f + e)

    # look-up modes
    lookups = [
        ['-i', '50000001'], ['-i', '0x5000000a'], ['-i', '0X50000004'],
        ['-i', '5000'], ['-i', '5FFFFFFF'], ['-i', '5000A001'],
        ['-i', '5000B001'], ['-i', '50000020'], ['-i', '50000024'],
        ['-i', '5000000F'], ['-i', '50000002'], ['-i', '50000010'],
        ['--bmc-id', '1'], ['--bmc-id', '10'], ['--bmc-id', '4'],
        ['--bmc-id', '999999'], ['--bmc-id', '70'], ['--bmc-id', 'abc'],
        ['--plid', '50000001'], ['--plid', '0x50000004'], ['--plid', '5000'],
        ['--plid', '5FFFFFFF'], ['--plid', '5000000c'],
        ['--src', 'BD8D'], ['--src', 'BD8D1234'], ['--src', 'bd8d'],
        ['--src', 'X' * 32], ['--src', 'X' * 33], ['--src', '1100'],
        ['--src-exclude', '@D/excl.txt'],
        ['--src-exclude', '@D/excl_empty.txt'],
        ['--src-exclude', '@D/nope.txt'], ['--src-exclude', '@D/out'],
        ['--src', 'BC8A', '--src-exclude', '@D/excl.txt'],
    ]
    lfilters = [[], ['-H'], ['-O'], ['-x'], ['-N', '-O'], ['-E'],
                ['-E', '-x', '-r'], ['-e', '.pel'], ['-S', 'Informational']]
    for lk in lookups:
        for f in lfilters:
            cli(P + lk + f)

    # delete modes
    for d in (['-d', '50000001'], ['-d', '0x5000000a'], ['-d', '5000A001'],
              ['-d', '5000B001'], ['-d', '5000'], ['-d', '5FFFFFFF'],
              ['-d', '5000000F'], ['-d', '5000000E'], ['-d', '50000010'],
              ['-d', '0X50000050'], ['-d', '500000011'], ['-D'],
              ['-D', '-e', '.pel'], ['-D', '-E'], ['-d', '50000002', '-D']):
        cli(P + d)
    cli(['-p', '@D/emptydir', '-D'])
    cli(['-p', '@D/onlydirs', '-D'])
    cli(['-p', '@D/emptydir', '-d', '50000001'])
    cli(['-p', '@D/onlydirs', '-d', '5000C001'])
    cli(['-p', '@D/logs/archive', '-D'])
    cli(['-p', '@D/logs/archive', '-d', '5000a002'])
    cli(['-p', '@D/logs/dirlink_50000010', '-D'])
    cli(['-p', '@D/logs/', '-D'])
    cli(['-p', '@D/links', '-D'])
    for pid in ('5000000F', '5000000E', '50000060', '50000061', '50000062'):
        cli(['-p', '@D/links', '-d', pid])
    for m in (['-l'], ['-n'], ['-a'], ['-j'], ['-i', '50000001'],
              ['--bmc-id', '1'], ['--plid', '50000001'], ['--src', 'BD']):
        cli(['-p', '@D/emptydir'] + m)
        cli(['-p', '@D/onlydirs'] + m)
        cli(['-p', '@D/logs/archive'] + m + ['-E'])
        cli(['-p', '@D/links'] + m + ['-E'])

    # single file mode
    fvariants = [[], ['-x'], ['-c'], ['-c', '-H'], ['-N'], ['-O'], ['-E', '-c'],
                 ['-c', '-x', '-O', '-S', 'Unrecoverable'], ['-P']]
    for n in names + ['link_to_5000000E', '../links/broken_5000000F',
                      'subdir', 'nope',
                      'archive/2023010100000001_5000A001']:
        for v in fvariants:
            cli(['-f', '@D/logs/' + n] + v)
    cli(['-f', '@D/logs/2024010100000001_50000001', '-j', '-l'])
    cli(['-f', '@D/logs/2024010100000001_50000001'] + P + ['-D'])
    cli(['-f', ''] + P + ['-l'])

    # json mode
    for j in (['-j'], ['-j', '-o', '@D/out'], ['-j', '-o', '@D/nonexistent'],
              ['-j', '-c', '-o', '@D/out'], ['-j', '-c'],
              ['-j', '-e', '.pel', '-o', '@D/out'],
              ['-j', '-e', '.pel', '-c'],
              ['-j', '-E', '-o', '@D/out'], ['-j', '-E', '-c', '-o', '@D/out'],
              ['-j', '-H', '-O', '-c', '-o', '@D/out'],
              ['-j', '-x', '-o', '@D/out'],
              ['-j', '-o', '@D/logs/2024010100000001_50000001'],
              ['-j', '-o', ''], ['-j', '-o', '@D/logs'],
              ['-j', '-o', '@D/logs/subdir', '-c', '-N'],
              ['-j', '-l', '-a', '-o', '@D/out'],
              ['-j', '-P', '-o', '@D/out', '-S', 'Informational', '-O'],
              ['-o', '@D/out', '-l'], ['-c', '-l'], ['-c', '-a', '-E']):
        cli(P + j)
    cli(P + ['-j', '-o', '@D/out'], chmod=[['@D/out', 0o555]])
    cli(P + ['-j', '-c', '-E'], chmod=[['@D/logs', 0o555]])

    # option handling / dispatch order
    misc = [
        [], ['-l'], ['-n'], ['-a'], ['-D'], ['-j'], ['-d', '50000001'],
        ['-p', '@D/nope', '-l'], ['-p', '', '-l'],
        ['-p', '@D/logs/2024010100000001_50000001', '-l'],
        P, P + ['-x'], P + ['-E', '-O', '-r'], P + ['-e', '.pel'],
        ['--help'], ['-h'], P + ['-h'], ['--bogus'], P + ['-S'],
        P + ['-S', 'Bogus', '-l'], ['-p'], P + ['-A', '-l'], P + ['-i'],
        P + ['-l', '-n', '-a'], P + ['-n', '-a'], P + ['-a', '-D'],
        P + ['-n', '-d', '50000001'], P + ['-l', '-D'],
        P + ['-i', '50000001', '--bmc-id', '2'],
        P + ['--bmc-id', '2', '--plid', '50000001'],
        P + ['--plid', '50000001', '--src', 'BD8D'],
        P + ['--src', 'BD8D0004', '-l'],
        P + ['--src-exclude', '@D/excl.txt', '-n'],
        P + ['-l', '-e', ''], P + ['-l', '-e', 'pel'], P + ['-l', '-e', '.'],
        P + ['--list', '--every-pel', '--reverse'],
        P + ['--all-pels', '--hidden', '--only', '--hex'],
        P + ['--show-pel-count', '--termination', '--non-serviceable'],
        P + ['--delete-all'], P + ['--delete', '50000003'],
        P + ['--id', '50000003', '--skip-parser-plugins'],
        P + ['--json', '--output-dir', '@D/out', '--clean',
             '--extension', '.txt'],
        P + ['--severities', 'Critical', 'Unrecoverable', '--list',
             '--serviceable'],
        P + ['-l', '-S', 'Critical', '-S', 'Informational'],
        P + ['-lEx'], P + ['-nHO'], P + ['-asNH'], P + ['-lr'],
        ['--path', '@D/logs', '--list'], ['--pa', '@D/logs', '--li'],
        P + ['--file', '@D/logs/2024010100000003_50000003', '--clean'],
        P + ['-l', 'positional'],
    ]
    for m in misc:
        cli(m)
        cli(m, prog='/usr/bin/peltool')

    # simulated BMC environment
    bmc = [
        [], ['-l'], ['-l', '-A'], ['-a', '-A', '-E'], ['-a'], ['-n'],
        ['-n', '-A', '-N'], ['-D'], ['-D', '-A'], ['-d', '50000001'],
        ['-d', '5000A001'], ['-d', '5000A001', '-A'],
        ['-j', '-o', '@D/out'], ['-j'], ['-j', '-A', '-o', '@D/out', '-c'],
        ['-j', '-o', '@D/nope'], ['-p', '@D/logs', '-l'], ['--help'],
        ['--archive', '--list', '--hex'],
        ['-f', '@D/logs/2024010100000001_50000001', '-c'],
        ['-f', '@D/logs/bad_phid_50000020', '-c', '-A'],
        ['-i', '5000A002', '-A', '-E'], ['-i', '5000A002'],
        ['--bmc-id', '40961', '-A'], ['--plid', '5000A001', '-A'],
        ['--src', 'BD8DA0', '-A', '-E'],
        ['--src-exclude', '@D/excl.txt', '-A', '-E'], ['-A'],
        ['-l', '-H', '-O', '-x'], ['-S', 'Critical', '-n', '-O'],
    ]
    for m in bmc:
        cli(m, bmc=True)
    cli(['-l', '-A'], bmc=True, prog='/usr/bin/peltool')
    cli(['-h'], bmc=True, prog='/usr/bin/peltool')

    # direct calls
    for path in ('@D/logs', '@D/logs/', '@D/emptydir', '@D/onlydirs',
                 '@D/nope', '@D/excl.txt', '@D/logs/archive', '@D', '',
                 '@D/links'):
        call('deleteAllPELs', path)
        for pid in ('50000001', '0x50000001', '0X5000000a', '5000000A',
                    '5000', '', '5000A001', '5000C001', '5FFFFFFF',
                    '5000000F', '50000010', '0x0x5000', '5000000E',
                    '50000060', '50000061'):
            call('deletePELFromPELId', path, pid)
    call('deleteAllPELs', '@D/logs', chmod=[['@D/logs', 0o555]])
    call('deletePELFromPELId', '@D/logs', '50000001',
         chmod=[['@D/logs', 0o555]])
    for pid in ('50000001', '0x5000000a', '0X5000000A', '1234567', '123456789',
                '', '0x', '0X12345678', 'abcdefgh', '  500000'):
        call('processId', pid)
    for path in ('@D/logs', '@D/emptydir', '@D/nope'):
        for ext in (None, '', '.pel', '.txt', 'pel'):
            for rev in (False, True):
                call('getFileList', path, ext, rev)

    cfgs = [{}, {'every_pel': True}, {'hex': True}, {'hidden': True,
                                                     'only': True},
            {'every_pel': True, 'hex': True},
            {'non_serviceable': True, 'allow_plugins': False},
            {'severities': [0], 'only': True}]
    targets = names + ['link_to_5000000E', '../links/broken_5000000F',
                       'subdir', 'nope']
    for n in targets:
        for cfg in cfgs:
            for flag in (False, True):
                call('parseAndPrintPELFile', '@D/logs/' + n, cfg, flag)
    wcfgs = [{}, {'every_pel': True}, {'hidden': True, 'only': True},
             {'every_pel': True, 'hex': True}]
    for n in targets:
        for cfg in wcfgs:
            for outdir in ('@D/out', '@D/nope', '@D/logs'):
                for delete in (False, True):
                    call('parseAndWriteOutput', '@D/logs/' + n, outdir, cfg,
                         delete)
    call('parseAndWriteOutput', '@D/logs/2024010100000001_50000001', '@D/out',
         {}, True, chmod=[['@D/out', 0o555]])
    call('parseAndWriteOutput', '@D/logs/2024010100000001_50000001', '@D/out',
         {}, True, chmod=[['@D/logs', 0o555]])
    for pid in ('50000001', '5000000A', '5000', '5FFFFFFF', '50000020',
                '5000000F'):
        for cfg in ({}, {'hex': True}, {'every_pel': True}):
            c = dict(cfg)
            c['pelID'] = pid
            call('parsePelFromID', '@D/logs', c)
    for bid in ('1', '10', '999', '70'):
        for cfg in ({}, {'hex': True}, {'hidden': True, 'only': True}):
            c = dict(cfg)
            c['bmcID'] = bid
            call('parsePelFromBmcID', '@D/logs', c)

    for g in ('consider', 'severity', 'userheader', 'config', 'pretty'):
        cases.append({'kind': 'grid', 'grid': g})
    return cases


SUBPROC_ARGS = [
    ['-p', '@D/logs', '-l'], ['-p', '@D/logs', '-l', '-E', '-r'],
    ['-p', '@D/logs', '-n', '-H', '-O'], ['-p', '@D/logs', '-a'],
    ['-p', '@D/logs', '-a', '-E', '-x'],
    ['-p', '@D/logs', '-a', '-N', '-O', '-S', 'Informational'],
    ['-p', '@D/logs', '-j', '-o', '@D/out', '-c', '-E'],
    ['-p', '@D/logs', '-j'], ['-p', '@D/logs', '-D'],
    ['-p', '@D/logs', '-d', '0x5000000a'], ['-p', '@D/logs', '-d', '12'],
    ['-p', '@D/logs', '-d', '5FFFFFFF'],
    ['-p', '@D/logs', '-i', '5000000A'], ['-p', '@D/logs', '--bmc-id', '10'],
    ['-p', '@D/logs', '--plid', '50000001'],
    ['-p', '@D/logs', '--src', 'BD8D', '-E'],
    ['-p', '@D/logs', '--src-exclude', '@D/excl.txt'],
    ['-p', '@D/logs', '--src-exclude', '@D/nope'],
    ['-f', '@D/logs/2024010100000010_5000000A.pel'],
    ['-f', '@D/logs/2024010100000010_5000000A.pel', '-c', '-x'],
    ['-f', '@D/logs/bad_phid_50000020', '-c'],
    ['-f', '@D/logs/bad_uhid_50000021'],
    ['-f', '@D/logs/trunc_0030_5000001E', '-c'],
    ['-f', '@D/logs/2024010100000002_50000002', '-c'],
    ['-f', '@D/nope'], [], ['-l'], ['-p', '@D/nope', '-a'], ['--help'],
    ['-p', '@D/logs'], ['-p', '@D/logs', '-S', 'Nope', '-l'],
    ['-p', '@D/logs', '-j', '-o', '@D/nope'],
]


# --------------------------------------------------------------------------

def norm_stderr(text, root):
    text = text.replace(root, '<ROOT>')
    out = []
    in_tb = False
    for line in text.split('\n'):
        if line.startswith('Traceback (most recent call last)'):
            in_tb = True
            out.append(line)
            continue
        if in_tb and line.startswith(' '):
            continue
        in_tb = False
        out.append(line)
    return '\n'.join(out)


def snapshot(top):
    out = []
    for root, dirs, files in os.walk(top):
        dirs.sort()
        rel = os.path.relpath(root, top)
        for f in sorted(files) + dirs:
            p = os.path.join(root, f)
            if os.path.islink(p):
                out.append([os.path.join(rel, f), 'LINK ' + os.readlink(p)])
            elif os.path.isdir(p):
                out.append([os.path.join(rel, f), 'DIR'])
            else:
                with open(p, 'rb') as fd:
                    out.append([os.path.join(rel, f),
                                hashlib.sha1(fd.read()).hexdigest()])
    out.sort()
    return out


def run_driver(root, tmp, cases, optimize):
    spec = os.path.join(tmp, 'spec.json')
    outp = os.path.join(tmp, 'result.json')
    work = os.path.join(tmp, 'work')
    if os.path.lexists(work):
        shutil.rmtree(work)
    os.makedirs(work)
    if os.path.exists(outp):
        os.remove(outp)
    with open(spec, 'w') as f:
        json.dump({'template': os.path.join(tmp, 'template'), 'work': work,
                   'cases': cases}, f)
    env = dict(os.environ)
    env['PYTHONPATH'] = os.path.join(root, 'modules')
    env['COLUMNS'] = '80'
    env['PYTHONDONTWRITEBYTECODE'] = '1'
    env.pop('LINES', None)
    cmd = [PY] + (['-O'] if optimize else []) + \
        [os.path.join(tmp, 'driver.py'), spec, outp]
    p = subprocess.run(cmd, env=env, cwd=work, stdout=subprocess.PIPE,
                       stderr=subprocess.PIPE, text=True)
    if p.returncode != 0 or not os.path.exists(outp):
        return {'driver_failed': p.returncode,
                'stdout': p.stdout[-3000:],
                'stderr': norm_stderr(p.stderr, root)[-3000:]}
    with open(outp) as f:
        res = json.load(f)
    for r in res:
        if 'stderr' in r:
            r['stderr'] = r['stderr'].replace(root, '<ROOT>')
            r['status'] = r['status'].replace(root, '<ROOT>')
    return res


def run_subproc(root, tmp, argv, optimize):
    work = os.path.join(tmp, 'work')
    casedir = os.path.join(work, 'case')
    if os.path.lexists(work):
        shutil.rmtree(work)
    os.makedirs(work)
    shutil.copytree(os.path.join(tmp, 'template'), casedir, symlinks=True)
    env = dict(os.environ)
    env['PYTHONPATH'] = os.path.join(root, 'modules')
    env['COLUMNS'] = '80'
    env['PYTHONDONTWRITEBYTECODE'] = '1'
    env.pop('LINES', None)
    script = os.path.join(root, 'modules', 'pel', 'peltool', 'peltool.py')
    cmd = [PY] + (['-O'] if optimize else []) + [script] + \
        [a.replace('@D', casedir) for a in argv]
    p = subprocess.run(cmd, env=env, cwd=work, stdout=subprocess.PIPE,
                       stderr=subprocess.PIPE)
    res = {'stdout': p.stdout.decode('utf-8', 'replace'),
           'stderr': norm_stderr(p.stderr.decode('utf-8', 'replace'), root),
           'status': p.returncode, 'tree': snapshot(casedir)}
    shutil.rmtree(work)
    return res


def describe(case):
    return json.dumps(case)[:300]


def first_diff(a, b):
    if isinstance(a, str) and isinstance(b, str):
        for i, (x, y) in enumerate(zip(a, b)):
            if x != y:
                return 'at char %d: %r vs %r' % (i, a[max(0, i - 60):i + 60],
                                                  b[max(0, i - 60):i + 60])
        return 'length %d vs %d: %r vs %r' % (len(a), len(b), a[-80:], b[-80:])
    return '%r vs %r' % (a, b)


def main():
    if len(sys.argv) != 3:
        sys.exit(__doc__)
    pristine = os.path.abspath(sys.argv[1])
    patched = os.path.abspath(sys.argv[2])
    here = os.path.dirname(os.path.abspath(__file__))
    tmp = tempfile.mkdtemp(prefix='diffcheck_',
                           dir=here if os.access(here, os.W_OK) else None)
    total = 0
    bad = 0
    try:
        names = build_corpus(os.path.join(tmp, 'template'))
        with open(os.path.join(tmp, 'driver.py'), 'w') as f:
            f.write(DRIVER)
        cases = build_cases(names)

        for optimize in (False, True):
            if optimize:
                # every 3rd mutating / cli case plus all grids under -O
                sel = [c for i, c in enumerate(cases)
                       if c['kind'] == 'grid' or i % 3 == 0]
            else:
                sel = cases
            a = run_driver(pristine, tmp, sel, optimize)
            b = run_driver(patched, tmp, sel, optimize)
            if isinstance(a, dict) or isinstance(b, dict):
                print('DRIVER FAILURE (optimize=%s)\npristine: %r\npatched: %r'
                      % (optimize, a, b))
                return 1
            if len(a) != len(sel) or len(b) != len(sel):
                print('result count mismatch')
                return 1
            for case, ra, rb in zip(sel, a, b):
                if case['kind'] == 'grid':
                    total += ra['n']
                    if ra != rb:
                        bad += 1
                        print('DIFF grid %s (optimize=%s)' % (case['grid'],
                                                            optimize))
                        for la, lb in zip(ra['lines'], rb['lines']):
                            if la != lb:
                                print('   ', first_diff(la, lb))
                                break
                    continue
                total += 1
                if ra != rb:
                    bad += 1
                    print('DIFF (optimize=%s) %s' % (optimize, describe(case)))
                    for k in ('status', 'stdout', 'stderr', 'tree'):
                        if ra[k] != rb[k]:
                            print('   %s: %s' % (k, first_diff(ra[k], rb[k])))

        for optimize in (False, True):
            for argv in SUBPROC_ARGS:
                ra = run_subproc(pristine, tmp, argv, optimize)
                rb = run_subproc(patched, tmp, argv, optimize)
                total += 1
                if ra != rb:
                    bad += 1
                    print('DIFF subprocess (optimize=%s) %r' % (optimize, argv))
                    for k in ('status', 'stdout', 'stderr', 'tree'):
                        if ra[k] != rb[k]:
                            print('   %s: %s' % (k, first_diff(ra[k], rb[k])))
    finally:
        shutil.rmtree(tmp, ignore_errors=True)

    if bad:
        print('DIFFERENT (%d of %d cases differ)' % (bad, total))
        return 1
    print('IDENTICAL (%d cases)' % total)
    return 0


if __name__ == '__main__':
    sys.exit(main())
