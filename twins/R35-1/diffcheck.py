#!/usr/bin/env python3
"""
Differential check for refactorings of the OpenPOWER parser plug-ins:

    modules/pel/hwdiags/parserdata.py
    modules/udparsers/oe500, modules/udparsers/m2c00
    modules/srcparsers/osrc, modules/srcparsers/oe500
    modules/calloutparsers/ocallouts

usage: diffcheck.py <pristine_root> <patched_root>

The same driver (see DRIVER below) is run in a subprocess for both trees, with
and without `python -O`, with and without hw-diags JSON data files. It feeds
well-formed, truncated, corrupted and random inputs to the plug-ins and writes
one JSON line per case (return value or exception type + text, plus anything
printed). In addition binary PELs are built and decoded with the peltool CLI
of both trees using several option combinations; stdout, stderr, exit status
and the files left behind are compared.

Prints "IDENTICAL (<n> cases)" and exits 0 when everything is the same.
"""

import json
import os
import shutil
import struct
import subprocess
import sys
import tempfile

PY = sys.executable

# --------------------------------------------------------------------------
# hw-diags data files used for the runs "with data"
# --------------------------------------------------------------------------

HWDIAGS_DATA = {
    "p10_20.json": {
        "model_ec": {"id": "20da0020", "type": "proc", "desc": "P10 2.0"},
        "attn_types": {"1": "system checkstop", "2": "unit checkstop",
                       "3": "recoverable", "68": "sixty-eight"},
        "registers": {
            "abcdef": ["SHORT_REG", {"0": "0x1234", "1": "00ff00ff",
                                     "2": "zz", "255": "FFFFFFFF"}],
            "000001": ["A_VERY_LONG_REGISTER_NAME_THAT_IS_CROPPED_FOR_SURE",
                       {"0": "0"}],
            "000002": ["EXACTLY_TWENTY_FIVE_CHARS", {}],
            "000003": [["not", "a", "string"], {"0": "10"}],
            "000004": ["ONLY_NAME"],
            "000005": {"0": "KEYED_NAME"},
            "000006": ["NAME6", {"0": 17}],
            "000007": [None, {"0": "7"}],
        },
        "signatures": {
            "1234": ["SIG_NAME", {"5": "some description", "0": "bit zero",
                                  "255": "last bit"}],
            "abcd": ["OTHER_SIG", {}],
            "0001": ["SHORT_ENTRY"],
            "0002": {"0": "KEYED"},
            "0003": [17, {"1": 42}],
            "5555": ["FIVES", {"119": "bit 119"}],
        },
    },
    "explorer.json": {
        "model_ec": {"id": "160d2000", "type": "ocmb"},
        "registers": {},
        "signatures": {"ffff": ["ALL_F", {"1": "one"}]},
    },
    "nodesc.json": {
        "model_ec": {"id": "11111111", "desc": "only a description"},
        "attn_types": {},
    },
    "minimal.json": {
        "model_ec": {"id": "22222222"},
    },
}

# --------------------------------------------------------------------------
# The driver that is run against each tree
# --------------------------------------------------------------------------

DRIVER = r'''
import contextlib, io, json, os, random, struct, sys

ROOT = os.environ['DC_ROOT']
DATADIR = os.environ.get('DC_DATADIR', '')
EXTRA = os.environ['DC_EXTRA']
SECTION = os.environ['DC_SECTION']

import pel.hwdiags.data
if DATADIR:
    pel.hwdiags.data.__file__ = os.path.join(DATADIR, '__init__.py')

N = [0]

def norm(s):
    return s.replace(ROOT, '<ROOT>')

def show(v):
    if isinstance(v, memoryview):
        return 'memoryview:' + v.tobytes().hex()
    return repr(v)

def case(cid, fn, *args, **kwargs):
    out = io.StringIO()
    err = io.StringIO()
    try:
        with contextlib.redirect_stdout(out), contextlib.redirect_stderr(err):
            r = fn(*args, **kwargs)
        res = ['ok', type(r).__name__, show(r)]
    except BaseException as e:
        res = ['exc', type(e).__name__, str(e)]
    N[0] += 1
    print(norm(json.dumps([cid, res, out.getvalue(), err.getvalue()])))

rnd = random.Random(20240611)

def rbytes(n):
    return bytes(rnd.getrandbits(8) for _ in range(n))

def views(b):
    """ the ways a parser may get its data """
    yield 'mv', memoryview(b)

def variants(name, sample, nmut=40):
    """ well formed sample, all truncations, corruptions, extensions """
    yield name, sample
    for n in range(len(sample)):
        yield '%s/trunc%d' % (name, n), sample[:n]
    yield name + '/ext', sample + b'\x00\x01\x02\x03\x04'
    for k in range(nmut):
        if not sample:
            break
        b = bytearray(sample)
        for _ in range(rnd.choice((1, 1, 1, 2, 3))):
            b[rnd.randrange(len(b))] = rnd.choice((0, 1, 2, 0xff, 0x7f, 0x80,
                                                   rnd.getrandbits(8)))
        yield '%s/mut%d' % (name, k), bytes(b)

KNOWN = bytes.fromhex('20da0020')
KNOWN2 = bytes.fromhex('160d2000')
MODELS = [KNOWN, KNOWN2, bytes.fromhex('11111111'), bytes.fromhex('22222222'),
          bytes.fromhex('deadbeef'), bytes.fromhex('ABCDEF01')]
REGIDS = [bytes.fromhex(x) for x in ('abcdef', '000001', '000002', '000003',
                                     '000004', '000005', '000006', '000007',
                                     '123456', 'ffffff')]
SIGIDS = [bytes.fromhex(x) for x in ('1234', 'abcd', '0001', '0002', '0003',
                                     '5555', 'ffff', '9999')]

# ------------------------------------------------------------------ hwdiags
def sec_parserdata():
    from pel.hwdiags.parserdata import ParserData
    case('pd/ctor', lambda: sorted(ParserData()._data.keys()))
    p = ParserData()
    hexes = ['20da0020', '20DA0020', '20Da0020', '160d2000', '11111111',
             '22222222', '23ABcdEf', 'deadbeef', '', '1234567', '123456789',
             '0123ABcdEf', 'some_string', '1234567g', '1234567\n', ' 2345678',
             '0x345678', '١٢٣٤٥٦٧٨', None, 12345678, b'20da0020',
             ['2'], '12 45678', bytearray(b'20da0020'), '20da0020ff']
    for m in hexes:
        case('pd/query/%r' % (m,), p.query_model_ec, m)
    ints = [0, 1, 2, 3, 5, 68, 0x44, 255, 256, 65535, 65536, -1, 1 << 40,
            True, 1.0, 1.5, '1', None]
    for m in hexes:
        for a in ints:
            case('pd/attn/%r/%r' % (m, a), p.get_attn_desc, m, a)
    for m in hexes:
        for n_ in ints:
            for c in (0, 7, 65535, 65536, -1, '3', None):
                case('pd/chip/%r/%r/%r' % (m, n_, c), p.get_chip_desc, m,
                     n_, c)
    sigs = ['1234', 'ABCD', 'abcd', '0001', '0002', '0003', '5555', 'ffff',
            '9999', '', '123', '12345', 'wxyz', None, 1234, b'1234',
            bytearray(b'1234'), '1234ff']
    for m in hexes[:10] + [None, b'20da0020']:
        for s in sigs:
            for i in (0, 5, 255, 256, -1, None):
                for b in (0, 1, 5, 119, 255, 256, -1, '5', None):
                    case('pd/sig/%r/%r/%r/%r' % (m, s, i, b), p.get_sig_desc,
                         m, s, i, b)
    regs = ['abcdef', 'ABCDEF', '000001', '000002', '000003', '000004',
            '000005', '000006', '000007', '123456', '', '12345', '1234567',
            'ghijkl', None, 1, b'abcdef', bytearray(b'abcdef'), 'abcdef00']
    for m in hexes[:10] + [None, b'20da0020']:
        for r in regs:
            for i in (0, 1, 2, 3, 255, 256, -1, '0', None):
                case('pd/reg/%r/%r/%r' % (m, r, i), p.get_reg_data, m, r, i)
    words = ['20da0020', '20DA0020', '160d2000', '11111111', '22222222',
             '00010101', '22223344', '55556677', '12340505', 'abcd00ff',
             'ABCD0000', '00010000', '00020000', '00030001', 'ffffffff',
             '00000000', '', '1234567', 'zzzzzzzz', '123456789', None, 7,
             b'20da0020', '20da002012340505', bytearray(b'12340505')]
    for a in words:
        for b in words:
            for c in words:
                if rnd.random() < 0.35 or (a in words[:3] and c in words[8:14]):
                    case('pd/signature/%r/%r/%r' % (a, b, c), p.get_signature,
                         a, b, c)
    for _ in range(300):
        a, b, c = (rbytes(4).hex() for _ in range(3))
        if rnd.random() < 0.5:
            a = rnd.choice(MODELS).hex()
        if rnd.random() < 0.5:
            c = rnd.choice(SIGIDS).hex() + rbytes(2).hex()
        if rnd.random() < 0.3:
            a = a.upper(); c = c.upper()
        case('pd/signature/rnd/%s/%s/%s' % (a, b, c), p.get_signature, a, b, c)
    # several instances, repeated use
    q = ParserData()
    for _ in range(3):
        case('pd/again', q.get_signature, '20da0020', '00010203', '12340005')
        case('pd/again2', p.get_reg_data, '20DA0020', 'ABCDEF', 1)

# ------------------------------------------------------------------ oe500 UD
def sig_list(sigs, count=None):
    b = struct.pack('>I', len(sigs) if count is None else count)
    for m, chip, node, attn, sid, inst, bit in sigs:
        b += m + struct.pack('>HBB', chip, node, attn) + sid + \
            struct.pack('>BB', inst, bit)
    return b

def reg_dump(chips, count=None):
    b = struct.pack('>I', len(chips) if count is None else count)
    for m, chip, node, regs, nregs in chips:
        b += m + struct.pack('>HBI', chip, node,
                             len(regs) if nregs is None else nregs)
        for rid, inst, dat, size in regs:
            b += rid + struct.pack('>BB', inst,
                                   len(dat) if size is None else size) + dat
    return b

def oe500_samples():
    s = []
    s.append(('sig0', 1, sig_list([])))
    s.append(('sig1', 1, sig_list([(KNOWN, 3, 1, 1, SIGIDS[0], 2, 5)])))
    s.append(('sig3', 1, sig_list([(KNOWN, 3, 1, 1, SIGIDS[0], 2, 5),
                                   (KNOWN2, 0xffff, 0xff, 68, SIGIDS[6], 0, 1),
                                   (MODELS[4], 1, 2, 3, SIGIDS[7], 4, 5)])))
    s.append(('sigshort', 1, sig_list([(KNOWN, 3, 1, 1, SIGIDS[0], 2, 5)],
                                      count=2)))
    s.append(('sighuge', 1, sig_list([(KNOWN, 3, 1, 1, SIGIDS[1], 2, 5)],
                                     count=0xffffffff)))
    s.append(('sigbad1', 1, sig_list([(KNOWN, 0, 0, 0, SIGIDS[2], 0, 0)])))
    s.append(('sigbad2', 1, sig_list([(KNOWN, 0, 0, 0, SIGIDS[3], 0, 0),
                                      (KNOWN, 0, 0, 0, SIGIDS[0], 0, 0)])))
    s.append(('sigbad3', 1, sig_list([(KNOWN, 0, 0, 0, SIGIDS[4], 0, 1)])))
    s.append(('reg0', 2, reg_dump([])))
    s.append(('reg1', 2, reg_dump([(KNOWN, 2, 1, [], None)])))
    s.append(('reg2', 2, reg_dump([
        (KNOWN, 2, 1, [(REGIDS[0], 0, bytes(range(8)), None),
                       (REGIDS[0], 1, b'\xde\xad\xbe\xef', None),
                       (REGIDS[1], 0, bytes(range(16)), None),
                       (REGIDS[2], 0, b'\x01', None),
                       (REGIDS[8], 9, b'\x01\x02\x03', None)], None),
        (MODELS[4], 0xffff, 0xff, [(REGIDS[9], 255, bytes(255), None)], None),
        (KNOWN2, 0, 0, [], None),
        (MODELS[2], 5, 6, [(REGIDS[0], 0, b'\xaa\xbb\xcc\xdd\xee', None)],
         None),
    ])))
    s.append(('regzero', 2, reg_dump([(KNOWN, 2, 1,
                                       [(REGIDS[0], 0, b'', None)], None)])))
    s.append(('regzero2', 2, reg_dump([(KNOWN, 2, 1,
                                        [(REGIDS[0], 0, b'', None)], None)])
              + b'\x00' * 8))
    s.append(('regover', 2, reg_dump([(KNOWN, 2, 1,
                                       [(REGIDS[0], 0, b'\x01\x02', 9)],
                                       None)])))
    s.append(('regmany', 2, reg_dump([(KNOWN, 2, 1,
                                       [(REGIDS[0], 0, b'\x01\x02', None)],
                                       7)])))
    s.append(('regchips', 2, reg_dump([(KNOWN, 2, 1, [], None)], count=3)))
    s.append(('reghuge', 2, reg_dump([(KNOWN, 2, 1, [], 0xffffffff)],
                                     count=0xffffffff)))
    for i, rid in enumerate(REGIDS):
        s.append(('regid%d' % i, 2, reg_dump([
            (KNOWN, 1, 0, [(REGIDS[0], 255, b'\x11\x22', None),
                           (rid, 0, b'\x01\x02\x03\x04\x05\x06', None),
                           (REGIDS[0], 0, b'\x33', None)], None)])))
        s.append(('regidB%d' % i, 2, reg_dump([
            (KNOWN, 1, 0, [(rid, 2, b'\x01\x02\x03\x04\x05\x06', None)],
             None)])))
    s.append(('ffdc', 3, b'{"Callout List": [{"a": 1}, "b", null], "x": 2.5}\0'))
    s.append(('ffdc2', 3, b'[1, 2, 3]\0\0\0'))
    s.append(('ffdcbad', 3, b'{"Callout List": \xff\xfe}\0'))
    s.append(('scratch', 4, bytes(range(1, 25))))
    s.append(('scratchsame', 4, b'\x00' * 24))
    s.append(('scratchdup', 4, b'\x00\x00\x00\x01' + b'\xaa' * 4 +
              b'\x00\x00\x00\x01' * 2 + b'\xbb' * 8))
    s.append(('regsig', 5, bytes(range(0x10, 0x18))))
    return s

def sec_oe500ud():
    from udparsers.oe500 import oe500
    for name, sub, sample in oe500_samples():
        for vid, b in variants(name, sample):
            for st in sorted({sub, 1, 2}):
                case('oe500ud/%s/st%d' % (vid, st), oe500.parseUDToJson, st,
                     1, memoryview(b))
    for name, sub, sample in oe500_samples():
        for st in range(0, 8):
            case('oe500ud/x/%s/st%d' % (name, st), oe500.parseUDToJson, st,
                 rnd.randrange(4), memoryview(sample))
        case('oe500ud/bytes/%s' % name, oe500.parseUDToJson, sub, 1, sample)
        case('oe500ud/bytearray/%s' % name, oe500.parseUDToJson, sub, 1,
             bytearray(sample))
    for st in range(0, 8):
        case('oe500ud/none/st%d' % st, oe500.parseUDToJson, st, 1, None)
        case('oe500ud/str/st%d' % st, oe500.parseUDToJson, st, 1, 'abcdefgh' * 4)
        case('oe500ud/empty/st%d' % st, oe500.parseUDToJson, st, 1,
             memoryview(b''))
    # random structured data
    for k in range(400):
        chips = []
        for _ in range(rnd.randrange(4)):
            regs = []
            for _ in range(rnd.randrange(5)):
                dat = rbytes(rnd.choice((0, 1, 2, 3, 4, 5, 8, 8, 8, 16, 33)))
                size = None if rnd.random() < 0.85 else rnd.randrange(256)
                regs.append((rnd.choice(REGIDS), rnd.choice((0, 1, 2, 255,
                                                             rnd.randrange(256))),
                             dat, size))
            nregs = None if rnd.random() < 0.85 else rnd.randrange(8)
            chips.append((rnd.choice(MODELS), rnd.randrange(65536),
                          rnd.randrange(256), regs, nregs))
        count = None if rnd.random() < 0.85 else rnd.randrange(6)
        b = reg_dump(chips, count)
        if rnd.random() < 0.2:
            b = b[:rnd.randrange(len(b) + 1)]
        case('oe500ud/rndreg%d' % k, oe500.parseUDToJson, 2, 1, memoryview(b))
    for k in range(300):
        sigs = [(rnd.choice(MODELS), rnd.randrange(65536), rnd.randrange(256),
                 rnd.choice((1, 2, 3, 68, rnd.randrange(256))),
                 rnd.choice(SIGIDS),
                 rnd.randrange(256), rnd.choice((0, 1, 5, 119, 255)))
                for _ in range(rnd.randrange(6))]
        count = None if rnd.random() < 0.85 else rnd.randrange(8)
        b = sig_list(sigs, count)
        if rnd.random() < 0.2:
            b = b[:rnd.randrange(len(b) + 1)]
        case('oe500ud/rndsig%d' % k, oe500.parseUDToJson, 1, 1, memoryview(b))
    # pure noise (small counts so that something gets decoded)
    for k in range(400):
        b = rbytes(rnd.randrange(0, 90))
        if rnd.random() < 0.7 and len(b) >= 4:
            b = b'\x00\x00\x00' + bytes([rnd.randrange(4)]) + b[4:]
        for st in (1, 2, 3, 4, 5):
            case('oe500ud/noise%d/st%d' % (k, st), oe500.parseUDToJson, st, 1,
                 memoryview(b))
    # the private parsers that other code could reach through the module
    for nm in ('_parse_signature_list', '_parse_register_dump',
               '_parse_callout_ffdc', '_parse_hb_scratch_regs',
               '_parse_scratch_reg_sig', '_parse_default'):
        for name, sub, sample in oe500_samples()[:12]:
            case('oe500ud/priv/%s/%s' % (nm, name),
                 lambda: getattr(oe500, nm)(1, memoryview(sample)))

# ------------------------------------------------------------------ m2c00 UD
def m2c00_samples():
    s = []
    s.append(('hlog3', 72, b'\x00\xDE\xAD'))
    s.append(('hlog', 72, bytes((i * 7 + 3) & 0xff for i in range(64))))
    s.append(('ilog1', 73, b'\x8A\xDF\x0F\x19\x01\x00\x00\xDE'))
    s.append(('ilog3', 73, b'\x8A\xDF\x0F\x19\x01\x00\x00\xDE'
                            b'\x00\x10\x00\x01\x00\x00\x00\x01'
                            b'\xff\xff\xff\xff\x02\x03\x00\x10'))
    hdr = (b'\x02\x20\x01\x42' b'IICS' + b'\x00' * 12 +
           b'\x00\x00\x00\x20' b'\x00\x00\x00\x00' b'\x00\x00\x00\x20')
    s.append(('tracehdr', 84, hdr))
    e1 = (b'\x8A\xDF\x01\x23\x00\x00\x46\x54' b'FANS' b'\x00\x00\x00\xFE'
          b'\x00\x00\x00\x14')
    e2 = (b'\x8A\xDF\x01\x24\x00\x10\x46\x54' b'\x46\x41\x4e\xFF'
          b'\x00\x00\x02\x32' b'\x01\x02\x03\x04\xDE\xAD\xBE\xEF'
          b'\xBA\xDC\x0F\xFE\x04\x03\x02\x01' b'\x00\x00\x00\x24')
    e3 = (b'\x8A\xAB\x01\x25\x00\x07\x46\x44' b'\x46\x41\x4e\xFF'
          b'\x00\x00\x02\x32' b'\x01\x02\x03\x04\xDE\xAD\xBE\x00'
          b'\x00\x00\x00\x1C')
    body = e1 + e2 + e3
    size = 32 + len(body)
    hdr2 = (b'\x01\x20\x01\x42' b'FANS' + b' ' * 8 + b'\x00' * 4 +
            struct.pack('>III', size, 0, size))
    s.append(('trace', 84, hdr2 + body))
    hdr3 = (b'\x01\x20\x01\x42' b'FANS' + b' ' * 8 + b'\x00' * 4 +
            struct.pack('>III', size, 254, 32 + len(e1)))
    s.append(('tracewrap', 84, hdr3 + body))
    s.append(('other', 85, b'\xde\xad\xbe\xef'))
    s.append(('other2', 1, bytes(range(40))))
    return s

def sec_m2c00ud():
    from udparsers.m2c00 import m2c00
    case('m2c00/consts', lambda: (m2c00.SUB_TYPE_HLOG, m2c00.SUB_TYPE_ILOG,
                                  m2c00.SUB_TYPE_TRACE))
    for v in (-1, 0, 1, 2, 3, 1.0, True, '1', None):
        case('m2c00/drawer/%r' % (v,),
             lambda: m2c00._get_drawer_type(v).name)
    samples = m2c00_samples()
    for name, sub, sample in samples:
        for vid, b in variants(name, sample, nmut=60):
            for ver in (1, 2, 3):
                case('m2c00/%s/v%d' % (vid, ver), m2c00.parseUDToJson, sub,
                     ver, memoryview(b))
    privs = ('_parse_hlog', '_parse_ilog', '_parse_trace',
             '_parse_unsupported')
    for name, sub, sample in samples:
        for st in (0, 71, 72, 73, 74, 83, 84, 85, 255, '72', None, 72.0):
            for ver in (0, 1, 2, 3, None):
                case('m2c00/x/%s/%r/%r' % (name, st, ver),
                     m2c00.parseUDToJson, st, ver, memoryview(sample))
        for nm in privs:
            for ver in (0, 1, 2, 3, None):
                for b in (sample, b'', sample[:5]):
                    case('m2c00/priv/%s/%s/%r/%d' % (nm, name, ver, len(b)),
                         lambda: getattr(m2c00, nm)(ver, memoryview(b)))
        case('m2c00/bytes/%s' % name, m2c00.parseUDToJson, sub, 1, sample)
        case('m2c00/bytearray/%s' % name, m2c00.parseUDToJson, sub, 2,
             bytearray(sample))
    for st in (72, 73, 84, 85):
        for ver in (1, 2, 3):
            case('m2c00/none/%d/%d' % (st, ver), m2c00.parseUDToJson, st, ver,
                 None)
            case('m2c00/str/%d/%d' % (st, ver), m2c00.parseUDToJson, st, ver,
                 'text')
            case('m2c00/empty/%d/%d' % (st, ver), m2c00.parseUDToJson, st,
                 ver, memoryview(b''))
    for k in range(250):
        b = rbytes(rnd.randrange(0, 120))
        for st in (72, 73, 84, 99):
            case('m2c00/noise%d/%d' % (k, st), m2c00.parseUDToJson, st,
                 rnd.choice((1, 2, 2, 3)), memoryview(b))

# --------------------------------------------------------------------- SRC
def cache_state(mod):
    return sorted((k, None if v is None else v.__name__)
                  for k, v in mod.osrcParsers.items())

def sec_src():
    import srcparsers
    srcparsers.__path__.append(os.path.join(EXTRA, 'srcparsers'))
    from srcparsers.osrc import osrc
    from srcparsers.oe500 import oe500 as srcoe500
    W = ['00000002', '00000003', '00000004', '00000005',
         '20da0020', '00030101', '12340205', '00000009']
    refcodes = ['BD8DE500', 'BD8DE510', 'BD8DE5FF', 'bd8de510', 'BD8De500',
                'BD8D2C00', 'BD8D1234', 'BC8A1234', 'BC', 'BCxxE500',
                'bc8ae500', 'BD', '', 'BD8D', 'BD8DE', 'BD8D..00', 'BD8D  00',
                'BD8DAA00', 'BD8DAB00', 'BD8DAC00', 'BD8DAD00', 'BD8DAE00',
                '11002600', 'BD8DE500        ', 'BD8D/x00', 'BD8D\x0000']
    case('src/cache0', cache_state, osrc)
    for rnd_ in range(3):
        for rc in refcodes:
            case('src/osrc/%d/%r' % (rnd_, rc), osrc.parseSRCToJson, rc, *W)
            case('src/cache/%d/%r' % (rnd_, rc), cache_state, osrc)
    # a hostboot parser that appears later on is not picked up (cached)
    srcparsers.__path__.append(os.path.join(EXTRA, 'late'))
    import importlib
    importlib.invalidate_caches()
    for rc in ('BC8A1234', 'BD8DAF00', 'BD8DAF00', 'BC000000'):
        case('src/late/%r' % rc, osrc.parseSRCToJson, rc, *W)
        case('src/latecache/%r' % rc, cache_state, osrc)
    for rc in (None, 12345678, b'BD8DE500', ['B', 'D'], ('B', 'D', '8', 'D',
                                                         'E', '5', '0', '0')):
        case('src/osrc/type/%r' % (rc,), osrc.parseSRCToJson, rc, *W)
        case('src/cache/type/%r' % (rc,), cache_state, osrc)
    case('src/osrc/kw', lambda: osrc.parseSRCToJson(
        refcode='BD8DE510', word2=W[0], word3=W[1], word4=W[2], word5=W[3],
        word6=W[4], word7=W[5], word8=W[6], word9=W[7]))
    case('src/osrc/few', lambda: osrc.parseSRCToJson('BD8DE510', *W[:5]))
    words = ['20da0020', '20DA0020', '160d2000', '11111111', 'deadbeef',
             '00030101', 'ffffff44', '12340205', 'abcd00ff', '00010000',
             '00020000', '00030001', '5555ff77', '', '1234567', 'zzzzzzzz',
             None]
    for rc in ('BD8DE500', 'BD8DE510', 'BD8DE51', 'BD8DE5', '', 'XXXXXX10',
               'BD8DE510  ', None):
        for a in words:
            for b in words[5:9] + words[13:]:
                for c in words[7:]:
                    if rnd.random() < 0.4:
                        w = list(W)
                        w[4], w[5], w[6] = a, b, c
                        case('src/oe500/%r/%r/%r/%r' % (rc, a, b, c),
                             srcoe500.parseSRCToJson, rc, *w)
                        if rc and rnd.random() < 0.3:
                            case('src/via/%r/%r/%r/%r' % (rc, a, b, c),
                                 osrc.parseSRCToJson, rc, *w)
    case('src/cacheN', cache_state, osrc)

# ---------------------------------------------------------------- callouts
def sec_callouts():
    from calloutparsers.ocallouts import ocallouts
    case('co/procedures', lambda: json.dumps(ocallouts.procedures))
    names = list(ocallouts.procedures) + [
        'BMC0000', 'BMC0009', 'BMC0010', 'bmc0001', 'BMC0001 ', ' BMC0001',
        '', 'BMC', 'BMC00011', 'FSPSP04', 'BMC0001\x00', None, 1, 1.5,
        ('BMC0001',), b'BMC0001', ['BMC0001'], {'a': 1}]
    for rep in range(2):
        for n_ in names:
            case('co/%d/%r' % (rep, n_), ocallouts.getMaintProcDesc, n_)
    case('co/kw', lambda: ocallouts.getMaintProcDesc(procedure='BMC0002'))
    case('co/noarg', lambda: ocallouts.getMaintProcDesc())
    # what peltool does with it
    for n_ in names[:12]:
        def use():
            d = ocallouts.getMaintProcDesc(n_)
            return json.loads(d) if d else None
        case('co/use/%r' % (n_,), use)
    case('co/procedures2', lambda: json.dumps(ocallouts.procedures))

SECTIONS = {
    'parserdata': sec_parserdata,
    'oe500ud': sec_oe500ud,
    'm2c00ud': sec_m2c00ud,
    'src': sec_src,
    'callouts': sec_callouts,
}
SECTIONS[SECTION]()
print(json.dumps(['#cases', N[0]]))
'''

# Extra SRC parser plug-ins (appended to srcparsers.__path__ by the driver)
EXTRA_MODULES = {
    'srcparsers/oaa00/__init__.py': '',
    'srcparsers/oaa00/oaa00.py': 'raise ImportError("oaa00 is broken")\n',
    'srcparsers/oab00/__init__.py': '',
    'srcparsers/oab00/oab00.py': 'import a_module_that_does_not_exist_xyz\n',
    'srcparsers/oac00/__init__.py': '',
    'srcparsers/oac00/oac00.py':
        'def parseSRCToJson(*a):\n'
        '    raise ModuleNotFoundError("raised while parsing")\n',
    'srcparsers/oad00/__init__.py': '',
    'srcparsers/oad00/oad00.py':
        'import json\nCALLS = []\n'
        'def parseSRCToJson(*a):\n'
        '    CALLS.append(a)\n'
        '    return json.dumps({"args": a, "n": len(CALLS)})\n',
    'srcparsers/oae00/__init__.py': '',
    'srcparsers/oae00/oae00.py': 'parseSRCToJson = None\n',
    'late/bsrc/__init__.py': '',
    'late/bsrc/bsrc.py':
        'import json\n'
        'def parseSRCToJson(*a):\n'
        '    return json.dumps({"hostboot": a})\n',
    'late/oaf00/__init__.py': '',
    'late/oaf00/oaf00.py':
        'import json\n'
        'def parseSRCToJson(*a):\n'
        '    return json.dumps({"late": a[0]})\n',
}

# Wrapper to run the peltool CLI with the hw-diags data directory redirected
CLI_WRAPPER = r'''
import os, runpy, sys
import pel.hwdiags.data
if os.environ.get('DC_DATADIR'):
    pel.hwdiags.data.__file__ = os.path.join(os.environ['DC_DATADIR'],
                                             '__init__.py')
tool = sys.argv[1]
sys.argv = [tool] + sys.argv[2:]
runpy.run_path(tool, run_name='__main__')
'''

# --------------------------------------------------------------------------
# Building binary PELs
# --------------------------------------------------------------------------

def section(sid: bytes, ver: int, subtype: int, comp: int, body: bytes,
            length=None) -> bytes:
    n = 8 + len(body) if length is None else length
    return sid + struct.pack('>HBBH', n, ver, subtype, comp) + body


def bcd_time() -> bytes:
    return bytes.fromhex('2024061112300500')


def private_header(creator: bytes, nsections: int, eid: int) -> bytes:
    body = bcd_time() + bcd_time() + creator + b'\x00\x00' + \
        bytes([nsections]) + struct.pack('>I', eid & 0xffff) + \
        b'\x00' * 8 + struct.pack('>II', eid, eid)
    return section(b'PH', 1, 0, 0xE500 if creator == b'O' else 0x2C00, body)


def user_header(comp: int) -> bytes:
    body = struct.pack('>BBBBIBBHI', 0x10, 0x03, 0x40, 0x00, 0, 0, 0,
                       0xA000, 0)
    return section(b'UH', 1, 0, comp, body)


def callout(priority: bytes, loc: bytes, proc: bytes) -> bytes:
    fru = b'ID' + bytes([12, 0x02]) + proc.ljust(8, b'\0')[:8]
    size = 4 + len(loc) + len(fru)
    return bytes([size, 0x20]) + priority + bytes([len(loc)]) + loc + fru


def primary_src(refcode: bytes, words, procs=(), comp=0xE500) -> bytes:
    flags = 0x01 if procs else 0x00
    body = bytes([2, flags, 0, 9]) + b'\x00\x00' + struct.pack('>H', 72)
    for w in words:
        body += struct.pack('>I', w)
    body += refcode.ljust(32, b' ')[:32]
    if procs:
        cos = b''.join(callout(b'H', b'U78DA.ND1-P0', p) for p in procs)
        assert len(cos) % 4 == 0, len(cos)
        body += bytes([0xC0, 0]) + struct.pack('>H', (4 + len(cos)) // 4) + cos
    return section(b'PS', 1, 0, comp, body)


def user_data(comp: int, subtype: int, ver: int, data: bytes) -> bytes:
    return section(b'UD', ver, subtype, comp, data)


def build_pel(creator: bytes, eid: int, sections) -> bytes:
    comp = 0xE500 if creator == b'O' else 0x2C00
    return private_header(creator, 2 + len(sections), eid) + \
        user_header(comp) + b''.join(sections)


def oe500_payloads():
    known = bytes.fromhex('20da0020')
    sig = struct.pack('>I', 2) + known + bytes.fromhex('00030101') + \
        bytes.fromhex('12340205') + bytes.fromhex('deadbeef00010244abcd0077')
    reg = struct.pack('>I', 2) + known + struct.pack('>HBI', 2, 1, 3) + \
        bytes.fromhex('abcdef') + bytes([0, 8]) + bytes(range(8)) + \
        bytes.fromhex('000001') + bytes([0, 5]) + bytes(range(5)) + \
        bytes.fromhex('123456') + bytes([7, 1]) + b'\xff' + \
        bytes.fromhex('deadbeef') + struct.pack('>HBI', 9, 8, 0)
    ffdc = b'{"Callout List": [{"Priority": "H", "x": [1, 2]}]}\0'
    scratch = bytes(range(1, 25))
    regsig = bytes(range(0x10, 0x18))
    return [(1, sig), (2, reg), (3, ffdc), (4, scratch), (5, regsig),
            (6, b'\x01\x02\x03\x04\x05')]


def m2c00_payloads():
    hlog = bytes((i * 7 + 3) & 0xff for i in range(64))
    ilog = b'\x8A\xDF\x0F\x19\x01\x00\x00\xDE\x00\x10\x00\x01\x00\x00\x00\x01'
    e1 = (b'\x8A\xDF\x01\x23\x00\x00\x46\x54' b'FANS' b'\x00\x00\x00\xFE'
          b'\x00\x00\x00\x14')
    size = 32 + len(e1)
    trace = (b'\x01\x20\x01\x42' b'FANS' + b' ' * 8 + b'\x00' * 4 +
             struct.pack('>III', size, 0, size)) + e1
    return [(72, hlog), (73, ilog), (84, trace), (85, b'\xde\xad\xbe\xef')]


def build_pel_files(peldir: str) -> None:
    import random
    rnd = random.Random(77)
    words_ok = [0x00000055, 0x12340000, 0, 0x20000000,
                0x20da0020, 0x00030101, 0x12340205, 9]
    words_unknown = [0x55, 0, 0, 0, 0xdeadbeef, 0xffffff44, 0x5555ff77, 0]
    files = {}

    def add(name, data):
        files[name] = data

    procs = [b'BMC0001', b'BMC0002', b'BMC0008', b'BMC0099', b'FSPSP04']
    eid = 0x50000001
    # BMC hw-diags PELs: SRC parser + callout parser + all UD sub-types
    for rc in (b'BD8DE500', b'BD8DE510', b'BD8D2C00', b'BC8A1234',
               b'BD8DE5', b'11002600'):
        for words in (words_ok, words_unknown):
            secs = [primary_src(rc, words, procs)]
            for sub, data in oe500_payloads():
                secs.append(user_data(0xE500, sub, 1, data))
            add('pel_%08X' % eid, build_pel(b'O', eid, secs))
            eid += 1
    # truncated / corrupted UD payloads
    for sub, data in oe500_payloads():
        for cut in sorted({0, 1, 3, 4, 7, len(data) // 2, len(data) - 1}):
            if cut < 0 or cut > len(data):
                continue
            secs = [primary_src(b'BD8DE510', words_ok),
                    user_data(0xE500, sub, 1, data[:cut])]
            add('pel_%08X' % eid, build_pel(b'O', eid, secs))
            eid += 1
        for _ in range(6):
            b = bytearray(data)
            for _ in range(rnd.choice((1, 2))):
                b[rnd.randrange(len(b))] = rnd.choice((0, 1, 0xff,
                                                       rnd.getrandbits(8)))
            secs = [user_data(0xE500, sub, 1, bytes(b)),
                    user_data(0xE500, sub, 1, data)]
            add('pel_%08X' % eid, build_pel(b'O', eid, secs))
            eid += 1
    # I/O drawer PELs
    for ver in (1, 2, 3):
        secs = [primary_src(b'BD8D2C00', words_ok, comp=0x2C00)]
        for sub, data in m2c00_payloads():
            secs.append(user_data(0x2C00, sub, ver, data))
            secs.append(user_data(0x2C00, sub, ver, data[:len(data) // 2]))
            secs.append(user_data(0x2C00, sub, ver, b''))
        add('pel_%08X' % eid, build_pel(b'M', eid, secs))
        eid += 1
    for sub, data in m2c00_payloads():
        for _ in range(6):
            b = bytearray(data)
            for _ in range(rnd.choice((1, 2, 3))):
                b[rnd.randrange(len(b))] = rnd.choice((0, 1, 0xff,
                                                       rnd.getrandbits(8)))
            secs = [user_data(0x2C00, sub, rnd.choice((1, 2)), bytes(b))]
            add('pel_%08X' % eid, build_pel(b'M', eid, secs))
            eid += 1
    # whole-file damage
    good = files['pel_50000001']
    add('pel_trunc_a', good[:len(good) - 11])
    add('pel_trunc_b', good[:200])
    add('pel_trunc_c', good[:60])
    add('pel_empty', b'')
    add('pel_noise', bytes(rnd.getrandbits(8) for _ in range(300)))
    for name, data in files.items():
        with open(os.path.join(peldir, name), 'wb') as f:
            f.write(data)


# --------------------------------------------------------------------------
# Running
# --------------------------------------------------------------------------

def run(cmd, env, cwd):
    p = subprocess.run(cmd, env=env, cwd=cwd, stdout=subprocess.PIPE,
                       stderr=subprocess.PIPE, timeout=3600)
    return p.returncode, p.stdout, p.stderr


def base_env(root, extra, datadir):
    env = {k: v for k, v in os.environ.items()
           if not k.startswith('PYTHON') and not k.startswith('DC_')}
    env['PYTHONPATH'] = os.path.join(root, 'modules')
    env['PYTHONDONTWRITEBYTECODE'] = '1'
    env['PYTHONHASHSEED'] = '0'
    env['DC_ROOT'] = root
    env['DC_EXTRA'] = extra
    if datadir:
        env['DC_DATADIR'] = datadir
    return env


def snapshot(directory):
    snap = {}
    for dirpath, _, names in os.walk(directory):
        for n in names:
            p = os.path.join(dirpath, n)
            with open(p, 'rb') as f:
                snap[os.path.relpath(p, directory)] = f.read()
    return snap


def main():
    if len(sys.argv) != 3:
        sys.exit(__doc__)
    roots = [os.path.abspath(a) for a in sys.argv[1:3]]
    work = tempfile.mkdtemp(prefix='diffcheck_')
    cases = 0
    diffs = []
    try:
        driver = os.path.join(work, 'driver.py')
        with open(driver, 'w') as f:
            f.write(DRIVER)
        wrapper = os.path.join(work, 'cliwrap.py')
        with open(wrapper, 'w') as f:
            f.write(CLI_WRAPPER)
        extra = os.path.join(work, 'extra')
        for rel, text in EXTRA_MODULES.items():
            p = os.path.join(extra, rel)
            os.makedirs(os.path.dirname(p), exist_ok=True)
            with open(p, 'w') as f:
                f.write(text)
        datadir = os.path.join(work, 'hwdiags_data')
        os.makedirs(datadir)
        for name, content in HWDIAGS_DATA.items():
            with open(os.path.join(datadir, name), 'w') as f:
                json.dump(content, f)
        pelsrc = os.path.join(work, 'pels_src')
        os.makedirs(pelsrc)
        build_pel_files(pelsrc)

        # ---- unit level -------------------------------------------------
        sections = ['parserdata', 'oe500ud', 'm2c00ud', 'src', 'callouts']
        for sec in sections:
            for opt in ([], ['-O']):
                for dd in ('', datadir):
                    if sec in ('m2c00ud', 'callouts') and dd:
                        continue
                    outs = []
                    for root in roots:
                        env = base_env(root, extra, dd)
                        env['DC_SECTION'] = sec
                        rc, so, se = run([PY] + opt + [driver], env, work)
                        se = se.decode('utf8', 'replace').replace(root,
                                                                  '<ROOT>')
                        outs.append((rc, so.decode('utf8', 'replace')
                                     .splitlines(), se))
                    tag = '%s%s%s' % (sec, ' -O' if opt else '',
                                      ' +data' if dd else '')
                    (rc0, l0, e0), (rc1, l1, e1) = outs
                    if rc0 != 0:
                        diffs.append('%s: driver failed on pristine: %s'
                                     % (tag, e0[-2000:]))
                        continue
                    n = json.loads(l0[-1])[1]
                    cases += n
                    if (rc0, e0) != (rc1, e1):
                        diffs.append('%s: rc/stderr differ: %r %r\n%s\n%s'
                                     % (tag, rc0, rc1, e0[-1500:], e1[-1500:]))
                    if l0 != l1:
                        shown = 0
                        for a, b in zip(l0, l1):
                            if a != b:
                                diffs.append('%s:\n  pristine: %s\n  patched:  %s'
                                             % (tag, a[:600], b[:600]))
                                shown += 1
                                if shown >= 5:
                                    break
                        if len(l0) != len(l1):
                            diffs.append('%s: %d vs %d lines'
                                         % (tag, len(l0), len(l1)))
                    print('  %-28s %6d cases %s' % (
                        tag, n, 'same' if outs[0] == outs[1] else 'DIFFERENT'),
                        file=sys.stderr)

        # ---- CLI level --------------------------------------------------
        names = sorted(os.listdir(pelsrc))
        single = [n for n in names if n.startswith('pel_5')][::3] + \
            [n for n in names if not n.startswith('pel_5')]
        cli_runs = []
        for n in single:
            cli_runs.append(('file', ['-f', n], '', []))
            cli_runs.append(('file', ['-f', n], 'data', []))
        for n in single[::4]:
            cli_runs.append(('file', ['-f', n, '-P'], 'data', []))
            cli_runs.append(('file', ['-f', n, '-x'], '', []))
            cli_runs.append(('file', ['-f', n], 'data', ['-O']))
            cli_runs.append(('file', ['-f', n, '-c'], '', []))
        for args in (['-a'], ['-a', '-E'], ['-a', '-r'], ['-l'], ['-l', '-E'],
                     ['-n'], ['-a', '-P'], ['-a', '-x'], ['-j'],
                     ['-j', '-o', 'OUT'], ['-j', '-c', '-o', 'OUT'],
                     ['-j', '-P', '-o', 'OUT'], ['-i', '0x50000003'],
                     ['--src', 'BD8DE510'], ['-a', '-S', 'Informational']):
            for dd in ('', 'data'):
                for opt in ([], ['-O']):
                    if opt and args[0] != '-a':
                        continue
                    cli_runs.append(('dir', args, dd, opt))

        for kind, args, dd, opt in cli_runs:
            results = []
            for root in roots:
                cwd = os.path.join(work, 'run')
                shutil.rmtree(cwd, ignore_errors=True)
                shutil.copytree(pelsrc, os.path.join(cwd, 'pels'))
                os.makedirs(os.path.join(cwd, 'OUT'))
                tool = os.path.join(root, 'modules', 'pel', 'peltool',
                                    'peltool.py')
                if kind == 'file':
                    a = [os.path.join('pels', x) if x.startswith('pel_')
                         else x for x in args]
                else:
                    a = ['-p', 'pels'] + args
                env = base_env(root, extra, datadir if dd else '')
                rc, so, se = run([PY] + opt + [wrapper, tool] + a, env, cwd)
                so = so.replace(root.encode(), b'<ROOT>')
                se = se.replace(root.encode(), b'<ROOT>')
                results.append((rc, so, se, snapshot(cwd)))
            cases += 1
            if results[0] != results[1]:
                what = [w for w, x, y in zip(('rc', 'stdout', 'stderr',
                                              'files'), *results) if x != y]
                diffs.append('CLI %s %s %s: %s differ' % (args, dd, opt, what))
                for w, x, y in zip(('rc', 'stdout', 'stderr'), *results):
                    if x != y and w != 'rc':
                        xl, yl = x.splitlines(), y.splitlines()
                        for p, q in zip(xl, yl):
                            if p != q:
                                diffs.append('   %r\n   %r' % (p[:300],
                                                               q[:300]))
                                break
        print('  %-28s %6d runs' % ('peltool CLI', len(cli_runs)),
              file=sys.stderr)
    finally:
        shutil.rmtree(work, ignore_errors=True)

    if diffs:
        for d in diffs[:40]:
            print(d)
        print('DIFFERENT (%d differences, %d cases)' % (len(diffs), cases))
        sys.exit(1)
    print('IDENTICAL (%d cases)' % cases)
    sys.exit(0)


if __name__ == '__main__':
    main()
