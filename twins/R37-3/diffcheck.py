#!/usr/bin/env python3
"""
Differential check for refactorings of
    modules/pel/peltool/{src,registry,parse_user_data,user_data,ext_user_data,default}.py

usage: python diffcheck.py <pristine_root> <patched_root>

Both trees are exercised by the very same driver script that is run in separate
python processes (PYTHONPATH=<root>/modules), in four flavours each:
    {python, python -O}  x  {fake pel_registry package available, not available}
The driver decodes a large number of generated PELs (well formed, truncated,
corrupted, random) in ONE process (so that the plugin caches are exercised),
twice, with several Config combinations, calls the public classes of the
focus area directly (unit level, including object state after failures) and
dumps everything as JSON.  In addition the peltool CLI is run on a directory
of generated PEL files with several option combinations.

Prints "IDENTICAL (<n> cases)" and exits 0 when everything is identical,
otherwise prints the first differences and exits 1.
"""
import json
import os
import shutil
import subprocess
import sys
import tempfile

DRIVER = r'''
import sys, os, io, json, struct, random, contextlib, builtins, traceback

FAKE = os.environ["DC_FAKE"]
MODE = os.environ["DC_MODE"]          # "reg" or "noreg"
if MODE == "reg":
    sys.path.insert(0, os.path.join(FAKE, "regpkg"))

import udparsers, srcparsers, calloutparsers
udparsers.__path__.append(os.path.join(FAKE, "udparsers"))
srcparsers.__path__.append(os.path.join(FAKE, "srcparsers"))
calloutparsers.__path__.append(os.path.join(FAKE, "calloutparsers"))

from pel.datastream import DataStream
from pel.peltool import peltool
from pel.peltool import src as srcmod
from pel.peltool import registry as regmod
from pel.peltool import parse_user_data as pudmod
from pel.peltool import user_data as udmod
from pel.peltool import ext_user_data as edmod
from pel.peltool import default as defmod
from pel.peltool.config import Config

RESULTS = []

# ---------------------------------------------------------------- helpers

def snap(obj, depth=0):
    """JSON-able snapshot of (public) object state."""
    if depth > 6:
        return "<deep>"
    if obj is None or isinstance(obj, (bool, int, float, str)):
        return obj
    if isinstance(obj, (bytes, bytearray)):
        return "bytes:" + bytes(obj).hex()
    if isinstance(obj, memoryview):
        return "mv:" + bytes(obj).hex()
    if isinstance(obj, (list, tuple)):
        return [snap(x, depth + 1) for x in obj]
    if isinstance(obj, dict):
        return [[snap(k, depth + 1), snap(v, depth + 1)] for k, v in obj.items()]
    if isinstance(obj, DataStream):
        return "stream@%d" % obj.index
    if isinstance(obj, Config):
        return "config"
    mod = type(obj).__module__ or ""
    if mod.startswith("pel."):
        d = {}
        try:
            items = vars(obj).items()
        except TypeError:
            # e.g. a tuple like record
            return [type(obj).__name__, repr(obj)]
        for k, v in sorted(items):
            if k.startswith("_"):
                continue
            d[k] = snap(v, depth + 1)
        return {type(obj).__name__: d}
    if type(obj).__name__ == "module":
        return "module:" + obj.__name__
    return "obj:" + type(obj).__name__


def run(label, fn):
    out, err = io.StringIO(), io.StringIO()
    rec = {"label": label}
    try:
        with contextlib.redirect_stdout(out), contextlib.redirect_stderr(err):
            res = fn()
        rec["result"] = snap(res)
    except BaseException as e:      # SystemExit included on purpose
        rec["exc"] = type(e).__name__ + ": " + str(e)
    rec["stdout"] = out.getvalue()
    rec["stderr"] = err.getvalue()
    RESULTS.append(rec)
    return rec


def mkconfig(plugins=True, every=True):
    c = Config()
    c.allow_plugins = plugins
    c.every_pel = every
    return c

# ---------------------------------------------------------------- builders

def hdr(sid, length, ver, subtype, comp):
    return struct.pack(">HHBBH", sid & 0xFFFF, length & 0xFFFF, ver & 0xFF,
                       subtype & 0xFF, comp & 0xFFFF)

TS = bytes.fromhex("2024031218402755")


def PH(creator=b"O", nsec=3, comp=0x2000, obmc=7, plid=0x50000123,
       eid=0x50000124):
    body = TS + TS + creator + b"\0\0" + bytes([nsec & 0xFF]) + \
        struct.pack(">I", obmc) + struct.pack(">Q", 0x0102030405060708) + \
        struct.pack(">II", plid, eid)
    return hdr(0x5048, 48, 1, 0, comp) + body


def UH(comp=0x2000, sev=0x40, actions=0xA000):
    body = struct.pack(">BBBBIBBHI", 0x10, 3, sev, 0, 0, 0, 0, actions, 0)
    return hdr(0x5548, 24, 1, 0, comp) + body


def fru(flags, pn=b"PN12345\0", ccin=b"CC1N", sn=b"SN0123456789", size=None):
    body = b""
    if flags & 0x08 or flags & 0x02:
        body += pn
    if flags & 0x04:
        body += ccin
    if flags & 0x01:
        body += sn
    if size is None:
        size = 4 + len(body)
    return struct.pack(">HBB", 0x4944, size & 0xFF, flags & 0xFF) + body


def pce(name=b"PCENAME\0", mt=b"9105-22A", sn=b"SERIAL123456", size=None, flags=0):
    if size is None:
        size = 4 + 8 + 12 + len(name)
    return struct.pack(">HBB", 0x5045, size & 0xFF, flags) + mt + sn + name


def mru(ids, size=None, flags=None):
    body = struct.pack(">I", 0)
    for i, v in enumerate(ids):
        body += struct.pack(">II", 0x48 + i, v)
    if size is None:
        size = 4 + len(body)
    if flags is None:
        flags = len(ids)
    return struct.pack(">HBB", 0x4D52, size & 0xFF, flags & 0xFF) + body


def callout(subs, loc=b"U78DA.ND0.WZS0001-P0\0\0\0\0", prio=0x48, size=None, flags=0x7F,
            loclen=None):
    body = b"".join(subs)
    if loclen is None:
        loclen = len(loc)
    if size is None:
        size = 4 + len(loc) + len(body)
    return bytes([size & 0xFF, flags & 0xFF, prio & 0xFF, loclen & 0xFF]) + loc + body


def callouts(cos, wordlen=None, sid=0xC0, flags=0):
    body = b"".join(cos)
    if wordlen is None:
        wordlen = (4 + len(body)) // 4
    return struct.pack(">BBH", sid, flags, wordlen & 0xFFFF) + body


def SRCsec(ascii=b"BD8D2030", words=None, flags=0, wordcount=9, cosec=b"",
           sid=0x5053, ver=1, subtype=1, comp=0x2000, srcver=2, length=None):
    if words is None:
        words = [0x00000055, 0x2E2D0010, 0x00000000, 0x23000000,
                 0xAABBCCDD, 0x11223344, 0x55667788, 0x99AABBCC]
    a = ascii.ljust(32, b" ")[:32] if len(ascii) <= 32 else ascii
    body = bytes([srcver & 0xFF, flags & 0xFF, 0, wordcount & 0xFF]) + \
        struct.pack(">HH", 0, 72 + len(cosec))
    for w in words:
        body += struct.pack(">I", w & 0xFFFFFFFF)
    body += a + cosec
    if length is None:
        length = 8 + len(body)
    return hdr(sid, length, ver, subtype, comp) + body


def UD(data, subtype=1, ver=1, comp=0x2000, length=None):
    if length is None:
        length = 8 + len(data)
    return hdr(0x5544, length, ver, subtype, comp) + data


def ED(data, creator=b"O", subtype=1, ver=1, comp=0x2000, length=None):
    if length is None:
        length = 12 + len(data)
    return hdr(0x4544, length, ver, subtype, comp) + creator + b"\0\0\0" + data


def OTHER(data, sid=0x4D49, subtype=0, ver=1, comp=0x0100, length=None):
    if length is None:
        length = 8 + len(data)
    return hdr(sid, length, ver, subtype, comp) + data


def PEL(sections, creator=b"O", nsec=None, **kw):
    if nsec is None:
        nsec = 2 + len(sections)
    return PH(creator=creator, nsec=nsec, **kw) + UH() + b"".join(sections)

# ---------------------------------------------------------------- registries

REG_MAIN = None
if MODE == "reg":
    with open(os.path.join(FAKE, "regpkg", "pel_registry", "message_registry.json")) as f:
        REG_MAIN = json.load(f)["PELs"]

REG_VARIANTS = {
    "empty": [],
    "nosrc": [{"Documentation": {"Message": "x"}}],
    "nodoc": [{"SRC": {"ReasonCode": "0x2030"}}],
    "nomsg": [{"SRC": {"ReasonCode": "0x2030"}, "Documentation": {}}],
    "typed": [
        {"SRC": {"ReasonCode": "0x2030", "Type": "11"},
         "Documentation": {"Message": "power %1", "MessageArgSources": ["SRCWord6"]}},
        {"SRC": {"ReasonCode": "0x2030", "Type": "BC"},
         "Documentation": {"Message": "hostboot"}},
        {"SRC": {"Type": "BD"}, "Documentation": {"Message": "no reason code"}},
        {"SRC": {"ReasonCode": "0x2030", "Words6To9": {}},
         "Documentation": {"Message": "bmc %1 %2 %9 %0", "MessageArgSources": ["SRCWord6", "SRCWord9"]}},
        {"SRC": {"ReasonCode": "0x2030"}, "Documentation": {"Message": "shadowed"}},
    ],
    "braces": [{"SRC": {"ReasonCode": "0x2030"},
                "Documentation": {"Message": "bad {brace} %1", "MessageArgSources": ["SRCWord6"]}}],
    "braces2": [{"SRC": {"ReasonCode": "0x2030"},
                 "Documentation": {"Message": "bad {0} {1} %1", "MessageArgSources": ["SRCWord6"]}}],
    "toomany": [{"SRC": {"ReasonCode": "0x2030"},
                 "Documentation": {"Message": "%1 %2 %3", "MessageArgSources": ["SRCWord6"]}}],
    "badarg": [{"SRC": {"ReasonCode": "0x2030"},
                "Documentation": {"Message": "%1", "MessageArgSources": ["SRCWordX"]}}],
    "arg0": [{"SRC": {"ReasonCode": "0x2030"},
              "Documentation": {"Message": "%1 %2", "MessageArgSources": ["SRCWord0", "SRCWord1"]}}],
    "argstr": [{"SRC": {"ReasonCode": "0x2030"},
                "Documentation": {"Message": "%1 %2 %3", "MessageArgSources": "679"}}],
    "emptymsg": [{"SRC": {"ReasonCode": "0x2030", "Words6To9": {"6": {"Description": "d", "AdditionalDataPropSource": "p"}}},
                  "Documentation": {"Message": ""}}],
    "words": [{"SRC": {"ReasonCode": "0x2030", "Words6To9": {
        "6": {"Description": "six", "AdditionalDataPropSource": "PROP6"},
        "7": {"AdditionalDataPropSource": "PROP7"},
        "8": {"Description": "eight", "AdditionalDataPropSource": "Message"},
        "9": {"Description": "nine", "AdditionalDataPropSource": "PROP9"}}},
        "Documentation": {"Message": "with words"}}],
    "wordsbadnum": [{"SRC": {"ReasonCode": "0x2030", "Words6To9": {
        "6": {"Description": "six", "AdditionalDataPropSource": "PROP6"},
        "x": {"Description": "bad", "AdditionalDataPropSource": "PROPX"}}},
        "Documentation": {"Message": "with words"}}],
    "wordsbignum": [{"SRC": {"ReasonCode": "0x2030", "Words6To9": {
        "12": {"Description": "bad"}}},
        "Documentation": {"Message": "with words"}}],
    "wordsnoprop": [{"SRC": {"ReasonCode": "0x2030", "Words6To9": {
        "6": {"Description": "six"}}},
        "Documentation": {"Message": "with words"}}],
    "wordsstr": [{"SRC": {"ReasonCode": "0x2030", "Words6To9": {
        "6": "a Description string"}},
        "Documentation": {"Message": "with words"}}],
    "wordslist": [{"SRC": {"ReasonCode": "0x2030", "Words6To9": ["6"]},
                   "Documentation": {"Message": "with words"}}],
    "substr": [{"SRC": {"ReasonCode": "0x12030"}, "Documentation": {"Message": "substring match"}}],
    "rclist": [{"SRC": {"ReasonCode": ["0x2030", "0x2031"]}, "Documentation": {"Message": "list match"}}],
    "rcint": [{"SRC": {"ReasonCode": 5}, "Documentation": {"Message": "int"}}],
    "srclist": [{"SRC": ["ReasonCode"], "Documentation": {"Message": "int"}}],
    "argsnone": [{"SRC": {"ReasonCode": "0x2030"},
                  "Documentation": {"Message": "m %1", "MessageArgSources": None}}],
}

# ---------------------------------------------------------------- PEL corpus

def corpus():
    pels = {}
    co_full = callouts([
        callout([fru(0x2F)]),
        callout([fru(0x18, pn=b"PARTNUM\0")], loc=b"", prio=0x4D),
        callout([fru(0x32 | 0x00, pn=b"BMC0001\0")], loc=b"Ufcs-P0\0"),
        callout([fru(0x22, pn=b"BMC9999\0")], prio=0x00),
        callout([fru(0x14, ccin=b"AB\0\0")]),
        callout([fru(0x11)], loc=b"U1\0\0"),
        callout([fru(0x10)]),
        callout([fru(0x0A, pn=b"BOTHFLG\0")]),
        callout([fru(0x2F), pce(), mru([0x10, 0x20, 0xDEADBEEF])]),
        callout([pce(name=b"N\0\0\0")]),
        callout([mru([])]),
        callout([mru([1])], loc=b"ABCD"),
    ])
    pels["src_plain"] = PEL([SRCsec()])
    pels["src_callouts"] = PEL([SRCsec(flags=0x01, cosec=co_full)])
    pels["src_flags"] = PEL([SRCsec(flags=0x9C, ascii=b"11001234", wordcount=5)])
    pels["src_bc"] = PEL([SRCsec(ascii=b"BC8A2030", flags=0x04,
                                 words=[0x1, 0x12345678, 0, 0x23000000, 5, 6, 7, 8])])
    pels["src_bd_status"] = PEL([SRCsec(ascii=b"BD8D2031",
                                        words=[0xE0, 0x2E2D0010, 0, 0x23000000 | 0x20000000, 5, 6, 7, 8])])
    pels["src_e500"] = PEL([SRCsec(ascii=b"BDE50010", words=[0x55, 0, 0, 0, 0x12345678, 0x9ABCDEF0, 0x0FEDCBA9, 0])])
    pels["src_wc0"] = PEL([SRCsec(wordcount=0)])
    pels["src_wc1"] = PEL([SRCsec(wordcount=1)])
    pels["src_wc2"] = PEL([SRCsec(wordcount=2)])
    pels["src_wc10"] = PEL([SRCsec(wordcount=10)])
    pels["src_wc255"] = PEL([SRCsec(wordcount=255)])
    pels["src_nonascii"] = PEL([SRCsec(ascii=b"BD\xff\xfe2030")])
    pels["src_utf8"] = PEL([SRCsec(ascii="BD8D20éé x".encode("utf-8"))])
    pels["src_short_ascii"] = PEL([SRCsec(ascii=b"B")])
    pels["src_secondary"] = PEL([SRCsec(), SRCsec(sid=0x5353, ascii=b"BD8D2032", flags=0x01,
                                                    cosec=callouts([callout([fru(0x22, pn=b"BMC0002\0")])])),
                                 SRCsec(sid=0x5353, ascii=b"BD112033")])
    pels["co_dupe_fru"] = PEL([SRCsec(flags=1, cosec=callouts([
        callout([fru(0x21), fru(0x28, pn=b"SECOND1\0")]), callout([fru(0x10)])]))])
    pels["co_dupe_fru_padded"] = PEL([SRCsec(flags=1, cosec=callouts([
        callout([fru(0x21), fru(0x28, pn=b"SECOND1\0")])]) + bytes(64))])
    pels["co_pce_small"] = PEL([SRCsec(flags=1, cosec=callouts([callout([pce(size=10)])]))])
    pels["co_pce_noname"] = PEL([SRCsec(flags=1, cosec=callouts([callout([pce(name=b"")])]))])
    pels["co_pce_empty_mt"] = PEL([SRCsec(flags=1, cosec=callouts([callout([pce(mt=b"\0" * 8, name=b"\0\0\0\0")])]))])
    pels["co_unknown_sub"] = PEL([SRCsec(flags=1, cosec=callouts([callout([b"ZZ\x08\x00ABCD"])]))])
    pels["co_size_short"] = PEL([SRCsec(flags=1, cosec=callouts([callout([fru(0x2F)], size=8)]))])
    pels["co_size_long"] = PEL([SRCsec(flags=1, cosec=callouts([callout([fru(0x2F)], size=200)]))])
    pels["co_wordlen_long"] = PEL([SRCsec(flags=1, cosec=callouts([callout([fru(0x2F)])], wordlen=100))])
    pels["co_wordlen_zero"] = PEL([SRCsec(flags=1, cosec=callouts([callout([fru(0x2F)])], wordlen=0))])
    pels["co_wordlen_one"] = PEL([SRCsec(flags=1, cosec=callouts([callout([fru(0x2F)])], wordlen=1))])
    pels["co_loc_nonutf8"] = PEL([SRCsec(flags=1, cosec=callouts([callout([fru(0x2F)], loc=b"\xff\xfeAB")]))])
    pels["co_pn_nonutf8"] = PEL([SRCsec(flags=1, cosec=callouts([callout([fru(0x28, pn=b"\xff\xfeABCDEF")])]))])
    pels["co_sn_nonutf8"] = PEL([SRCsec(flags=1, cosec=callouts([callout([fru(0x21, sn=b"\xc3(ABCDEFGHIJ")])]))])
    pels["co_mru15"] = PEL([SRCsec(flags=1, cosec=callouts([callout([mru(list(range(15)))])]))])
    pels["co_mru_flags_hi"] = PEL([SRCsec(flags=1, cosec=callouts([callout([mru([5, 6], flags=0xF2)])]))])
    pels["co_mru_short"] = PEL([SRCsec(flags=1, cosec=callouts([callout([mru([5], flags=3)])]))])
    pels["co_noflag_but_data"] = PEL([SRCsec(flags=0, cosec=co_full)])
    pels["co_flag_no_data"] = PEL([SRCsec(flags=1)])
    pels["co_then_ud"] = PEL([SRCsec(flags=1, cosec=co_full), UD(b'{"A": 1}')])

    for cr in b"QRSTUVWXYZB":
        c = bytes([cr])
        pels["src_creator_" + c.decode()] = PEL(
            [SRCsec(flags=1, ascii=b"BD8D2030", cosec=callouts([
                callout([fru(0x22, pn=b"PROC001\0")]),
                callout([fru(0x22, pn=b"PROC002\0")])]))], creator=c)

    # user data
    pels["ud_json"] = PEL([UD(b'{"Key": "Value", "N": [1, 2, 3]}\0\0\0')])
    pels["ud_json_list"] = PEL([UD(b'[1, 2, "x"]')])
    pels["ud_json_bad"] = PEL([UD(b'{"Key": ')])
    pels["ud_json_override"] = PEL([UD(b'{"Section Version": "hijack", "Created by": 5}')])
    pels["ud_json_empty"] = PEL([UD(b'   \0\0')])
    pels["ud_json_nonutf8"] = PEL([UD(b'{"a": "\xff"}')])
    pels["ud_json_scalar"] = PEL([UD(b'42'), UD(b'"str"'), UD(b'null'), UD(b'true')])
    pels["ud_cbor"] = PEL([UD(bytes(range(40)), subtype=2)])
    pels["ud_text"] = PEL([UD(b"line one\nline two\x01\x7f~ \n\n\nlast\n\0\0", subtype=3)])
    pels["ud_text2"] = PEL([UD(b"\n\n  a\tb\r\nc\n \n", subtype=3)])
    pels["ud_text3"] = PEL([UD("café €\nx\n\0\n".encode("utf-8"), subtype=3)])
    pels["ud_text_only_nul"] = PEL([UD(b"\0\0\0\0", subtype=3)])
    pels["ud_text_inner_nul"] = PEL([UD(b"ab\0cd\n\0\n\0", subtype=3)])
    pels["ud_text_nonutf8"] = PEL([UD(b"abc\xff\n", subtype=3)])
    pels["ud_custom4"] = PEL([UD(b"custom data here", subtype=4)])
    pels["ud_sub0"] = PEL([UD(b"zero", subtype=0), UD(b"ff", subtype=0xFF)])
    pels["ud_len8"] = PEL([UD(b"")])
    pels["ud_len_short"] = PEL([UD(b"abcdef", length=4)])
    pels["ud_len_long"] = PEL([UD(b"abcdef", length=400)])
    pels["ud_other_comp"] = PEL([UD(b"\x01\x02\x03\x04hello", comp=0x1000),
                                 UD(b"\x01\x02\x03\x04hello", comp=0xE500, subtype=1),
                                 UD(b"\x00\x00\x00\x01" + bytes(12), comp=0xE500, subtype=1),
                                 UD(b"\x00\x00\x00\x01" + bytes(12), comp=0xE500, subtype=99)])
    pels["ud_multi"] = PEL([UD(b'{"a": 1}'), UD(b'{"b": 2}'), UD(b"t\n", subtype=3), OTHER(b"x" * 20)])
    # extended user data
    pels["ed_json"] = PEL([ED(b'{"Key": "ED"}')])
    pels["ed_text"] = PEL([ED(b"ed text\nline2", subtype=3)])
    pels["ed_other_creator"] = PEL([ED(b"\x01\x02hello ed", creator=b"B", comp=0x0100),
                                    ED(b"\x01\x02hello ed", creator=b"Q", comp=0x1111),
                                    ED(b"\x01\x02hello ed", creator=b"\xff", comp=0x1111),
                                    ED(b'{"x": 1}', creator=b"o", comp=0x2000)])
    pels["ed_len12"] = PEL([ED(b"")])
    pels["ed_len_short"] = PEL([ED(b"abc", length=9)])
    pels["ed_len_long"] = PEL([ED(b"abc", length=999)])
    # plugin variety through creator Q (PH creator)
    for comp in (0x1111, 0x2222, 0x3333, 0x4444, 0x5555, 0x6666, 0x7777,
                 0x8888, 0x9999, 0xAAAA, 0xBBBB, 0xCCCC, 0xDDDD, 0xEEEE, 0x0ABC):
        pels["ud_plugin_%04X" % comp] = PEL(
            [UD(b"plugin payload \x00\x01\x02", comp=comp, subtype=7, ver=3),
             UD(b"second", comp=comp, subtype=8, ver=4),
             ED(b"ed payload", creator=b"Q", comp=comp, subtype=9, ver=5)], creator=b"Q")
    # default sections
    pels["def_sections"] = PEL([OTHER(bytes(range(33))),
                                OTHER(b"ABCDEFGH", sid=0x4549, comp=0xABCD),
                                OTHER(b"zz", sid=0x0000, comp=5), OTHER(b"q" * 16, sid=0xFFFF)])
    pels["def_len8"] = PEL([OTHER(b"", sid=0x4348), OTHER(b"after")])
    pels["def_len_short"] = PEL([OTHER(b"abcdef", length=3)])
    pels["def_len_long"] = PEL([OTHER(b"abcdef", length=70)])
    pels["mixed"] = PEL([SRCsec(flags=1, cosec=co_full), UD(b'{"A": 1}'), ED(b"t\nu", subtype=3),
                         OTHER(b"mfg info"), UD(b"\x00\x00\x00\x00", comp=0xE500),
                         SRCsec(sid=0x5353, ascii=b"11002030")])
    pels["nsec_more"] = PEL([SRCsec()], nsec=6)
    pels["nsec_less"] = PEL([SRCsec(), UD(b"{}")], nsec=3)
    pels["phyp"] = PEL([SRCsec(ascii=b"B7001234", comp=0x4142), UD(b"phyp", comp=0x4142)], creator=b"H")
    return pels

# ---------------------------------------------------------------- case runners

def decode(data, config):
    stream = DataStream(data, byte_order="big", is_signed=False)
    return peltool.parsePEL(stream, config, False)


def summary(data, config):
    stream = DataStream(data, byte_order="big", is_signed=False)
    return peltool.parsePELSummary(stream, config)


def whole_pel_cases(tag, pels):
    for name, data in pels.items():
        for plugins in (True, False):
            run("%s/pel/%s/plugins=%s" % (tag, name, plugins),
                lambda: decode(data, mkconfig(plugins)))
        run("%s/summary/%s" % (tag, name), lambda: summary(data, mkconfig(True)))
        run("%s/pel-default-config/%s" % (tag, name), lambda: decode(data, Config()))


def truncation_cases(tag, pels, names, step):
    for name in names:
        data = pels[name]
        for n in range(0, len(data), step):
            for plugins in (True, False):
                run("%s/trunc/%s/%d/%s" % (tag, name, n, plugins),
                    lambda: decode(data[:n], mkconfig(plugins)))


def corruption_cases(tag, pels, names, count, seed):
    rnd = random.Random(seed)
    for name in names:
        data = pels[name]
        for i in range(count):
            b = bytearray(data)
            for _ in range(rnd.randint(1, 4)):
                # keep PH/UH (first 72 bytes) mostly intact so that the
                # sections of the focus area are reached
                pos = rnd.randrange(72, len(b)) if rnd.random() < 0.9 else rnd.randrange(len(b))
                b[pos] = rnd.choice([0, 1, 0xFF, 0x7F, rnd.randrange(256)])
            plugins = bool(i & 1)
            run("%s/corrupt/%s/%d" % (tag, name, i),
                lambda: decode(bytes(b), mkconfig(plugins)))


def random_cases(tag, count, seed):
    rnd = random.Random(seed)
    sids = [0x5053, 0x5353, 0x5544, 0x4544, 0x4D49, 0x1234]
    for i in range(count):
        secs = []
        for _ in range(rnd.randint(1, 3)):
            n = rnd.randint(0, 120)
            body = bytes(rnd.randrange(256) for _ in range(n))
            sid = rnd.choice(sids)
            ln = 8 + n if rnd.random() < 0.7 else rnd.randrange(0, 200)
            secs.append(hdr(sid, ln, rnd.randrange(4), rnd.randrange(6),
                            rnd.choice([0x2000, 0xE500, 0x1111, rnd.randrange(65536)])) + body)
        data = PEL(secs, creator=rnd.choice([b"O", b"Q", b"B", b"H"]))
        run("%s/random/%d" % (tag, i), lambda: decode(data, mkconfig(bool(i & 1))))
    # random but structurally valid SRC callout sections
    for i in range(count):
        cos = []
        for _ in range(rnd.randint(0, 4)):
            subs = []
            for _ in range(rnd.randint(0, 3)):
                k = rnd.randrange(4)
                if k == 0:
                    subs.append(fru(rnd.randrange(256)))
                elif k == 1:
                    subs.append(pce(name=bytes(rnd.choice(b"AB\0") for _ in range(rnd.randint(0, 6))),
                                    size=None if rnd.random() < 0.8 else rnd.randrange(40)))
                elif k == 2:
                    subs.append(mru([rnd.randrange(1 << 32) for _ in range(rnd.randint(0, 4))]))
                else:
                    subs.append(bytes(rnd.randrange(256) for _ in range(rnd.randint(0, 8))))
            loc = bytes(rnd.choice(b"UP-0123\0") for _ in range(rnd.choice([0, 4, 8, 12])))
            cos.append(callout(subs, loc=loc, prio=rnd.choice([0x48, 0x4D, 0x41, 0x42, 0x43, 0x4C, 0])))
        sec = SRCsec(flags=rnd.choice([1, 1, 1, 0x81, 0x15]),
                     ascii=rnd.choice([b"BD8D2030", b"11002030", b"BC8A2030", b"B7001111", b"BDE50010"]),
                     wordcount=rnd.choice([9, 9, 9, 4, 0, 12]),
                     words=[rnd.randrange(1 << 32) for _ in range(8)],
                     cosec=callouts(cos, wordlen=None if rnd.random() < 0.8 else rnd.randrange(64)))
        data = PEL([sec, UD(b'{"k": 1}')], creator=rnd.choice([b"O", b"Q", b"R", b"V"]))
        run("%s/randsrc/%d" % (tag, i), lambda: decode(data, mkconfig(bool(i & 1) or i % 3 == 0)))

# ---------------------------------------------------------------- unit level

def unit_registry(tag):
    for vname, pels in REG_VARIANTS.items():
        r = regmod.Registry()
        r.pels = pels
        for code in ("0x2030", "0x2031", "0x", "0x203", "", "0x1203"):
            for t in ("BD", "11", "BC", "XX"):
                run("%s/reg/%s/%s/%s" % (tag, vname, code, t),
                    lambda: r.getErrorMessage(code, t))
    run(tag + "/reg/ctor", lambda: (lambda r: [type(r.pels).__name__, len(r.pels)])(regmod.Registry()))
    if MODE == "reg":
        p = os.path.join(FAKE, "regpkg", "pel_registry", "message_registry.json")
        run(tag + "/reg/loadJson", lambda: len(regmod.Registry().loadJson(p)))
    run(tag + "/reg/loadJson-missing", lambda: regmod.Registry().loadJson(os.path.join(FAKE, "nope.json")))
    run(tag + "/reg/loadJson-nopels", lambda: regmod.Registry().loadJson(os.path.join(FAKE, "nopels.json")))
    run(tag + "/reg/loadJson-bad", lambda: regmod.Registry().loadJson(os.path.join(FAKE, "bad.json")))


def mksrc(data, creator="O", mv=False):
    d = memoryview(data) if mv else data
    stream = DataStream(d, byte_order="big", is_signed=False)
    return srcmod.SRC(stream, 0x5053, len(data) + 8, 1, 1, 0x2000, creator)


def unit_src(tag, pels):
    saved = srcmod.registry.pels
    body = SRCsec(flags=1, cosec=callouts([callout([fru(0x2F), pce(), mru([1, 2])])]))[8:]
    try:
        for vname, variant in REG_VARIANTS.items():
            srcmod.registry.pels = variant
            for ascii in (b"BD8D2030", b"11002030", b"BC8A2030", b"B7002030"):
                data = SRCsec(ascii=ascii)[8:]
                def f():
                    s = mksrc(data)
                    try:
                        return [s.toJSON(mkconfig(False)), None]
                    except Exception as e:
                        return ["EXC " + type(e).__name__ + ": " + str(e), s]
                run("%s/src-reg/%s/%s" % (tag, vname, ascii.decode()), f)
            # direct helper calls
            s = mksrc(b"")
            s.hexData = [10, 11, 12, 13, 14, 15, 16, 17]
            for det in (variant[0].get("Documentation", {}) if variant and isinstance(variant[0], dict) else {},
                        {}, {"Message": "plain"}, {"Message": "%1-%1", "MessageArgSources": ["w9", "w2"]},
                        {"Message": "{}", "MessageArgSources": []},
                        {"MessageArgSources": ["SRCWord6"]}):
                run("%s/src-buildMessage/%s/%s" % (tag, vname, json.dumps(det, sort_keys=True)),
                    lambda: s.buildMessage(det))
            for det in (variant[0].get("SRC", {}) if variant and isinstance(variant[0], dict) and isinstance(variant[0].get("SRC"), dict) else {},
                        {}, {"Words6To9": None}, {"Words6To9": {}},
                        {"Words6To9": {"9": {"Description": "n", "AdditionalDataPropSource": "a"},
                                       "2": {"Description": "m", "AdditionalDataPropSource": "a"}}}):
                run("%s/src-buildHexwordDescs/%s/%s" % (tag, vname, json.dumps(det, sort_keys=True)),
                    lambda: s.buildHexwordDescs(det))
            short = mksrc(b"")
            run("%s/src-getErrorDetails-nohex/%s" % (tag, vname),
                lambda: (lambda o: [short.getErrorDetails(o, "2030", "BD"), o])({}))
    finally:
        srcmod.registry.pels = saved

    # state after toJSON (success, failure, twice)
    for n in list(range(0, 80, 3)) + [len(body) - 1, len(body)]:
        for mv in (False, True):
            def f():
                s = mksrc(body[:n], mv=mv)
                try:
                    r = s.toJSON(mkconfig(True))
                except Exception as e:
                    r = "EXC " + type(e).__name__ + ": " + str(e)
                return [r, s]
            run("%s/src-state/%d/mv=%s" % (tag, n, mv), f)

    def twice():
        s = mksrc(body + body)
        a = s.toJSON(mkconfig(False))
        try:
            b = s.toJSON(mkconfig(False))
        except Exception as e:
            b = "EXC " + type(e).__name__ + ": " + str(e)
        return [a, b, s]
    run(tag + "/src-twice", twice)

    # SRC.parse directly
    for creator in "OQRSTUVWXYZ":
        for words in ([], ["1"] * 7, ["%08X" % i for i in range(8)], ["A"] * 12):
            def f():
                s = mksrc(b"", creator=creator)
                s.asciiString = "BD8D2030    trailing   "
                return s.parse(words)
            run("%s/src-parse/%s/%d" % (tag, creator, len(words)), f)
    # getProcedureDesc directly
    for creator in "OQRSTUVWO":
        for proc in ("BMC0001", "BMC0008", "NOPE", "", "PROC001"):
            def f():
                s = mksrc(b"", creator=creator)
                o = {}
                r = s.getProcedureDesc(proc, o)
                return [r, o]
            run("%s/src-procdesc/%s/%s" % (tag, creator, proc), f)
    # getCallouts directly
    cosecs = {
        "one": callouts([callout([fru(0x2F)])]),
        "none": callouts([]),
        "proc": callouts([callout([fru(0x22, pn=b"BMC0003\0")]), callout([pce(), mru([7])])]),
        "pce_small": callouts([callout([pce(size=5)])]),
        "trunc": callouts([callout([fru(0x2F), pce(), mru([1, 2])])])[:-5],
    }
    for cname, cs in cosecs.items():
        for plugins in (True, False):
            for mv in (False, True):
                def f():
                    s = mksrc(cs, mv=mv)
                    o = {}
                    try:
                        r = s.getCallouts(o, mkconfig(plugins))
                    except Exception as e:
                        r = "EXC " + type(e).__name__ + ": " + str(e)
                    return [r, o, s.stream.index]
                run("%s/src-getCallouts/%s/%s/%s" % (tag, cname, plugins, mv), f)
    # sub structures directly, with object snapshots
    blobs = {
        "fru_all": fru(0x2F), "fru_none": fru(0x10), "fru_pn": fru(0x08), "fru_mp": fru(0x02),
        "fru_ccin": fru(0x04), "fru_sn": fru(0x01), "fru_ff": fru(0xFF),
        "pce": pce(), "pce_small": pce(size=3), "pce_exact": pce(name=b""), "pce_big": pce(size=255),
        "mru0": mru([]), "mru3": mru([1, 2, 3]), "mru_short": mru([1], flags=2),
        "callout": callout([fru(0x2F), pce(), mru([9])]),
        "callout_noloc": callout([fru(0x2F)], loc=b""),
        "callout_dupe": callout([fru(0x21), fru(0x28), mru([1]), mru([2, 3])]),
        "callout_unknown": callout([b"\x12\x34\x08\x00"]),
        "callout_sizezero": callout([fru(0x2F)], size=0),
        "callout_peek_end": callout([], size=60, loc=b"ABCD"),
        "callout_peek_1": callout([], size=60, loc=b"ABCD") + b"I",
        "empty": b"",
    }
    ctors = {"FRUIdentity": srcmod.FRUIdentity, "PCEIdentity": srcmod.PCEIdentity,
             "MRU": srcmod.MRU, "Callout": srcmod.Callout}
    for bname, blob in blobs.items():
        for cname, ctor in ctors.items():
            for cut in (None, 3, 7, 13, 21):
                for mv in (False, True):
                    b = blob if cut is None else blob[:cut]
                    def f():
                        st = DataStream(memoryview(b) if mv else b, byte_order="big", is_signed=False)
                        try:
                            o = ctor(st)
                        except Exception as e:
                            return ["EXC " + type(e).__name__ + ": " + str(e), st.index]
                        extra = o.flattenedSize() if cname == "Callout" else None
                        return [o, st.index, extra]
                    run("%s/sub/%s/%s/%s/%s" % (tag, cname, bname, cut, mv), f)
    run(tag + "/src-get_value", lambda: [srcmod.get_value(b"\x01\x02\x03\x04", 1, 2),
                                         srcmod.get_value(b"\x01\x02", 1, 4),
                                         srcmod.get_value(memoryview(b"\x01\x02\x03"), 0, 3)])
    run(tag + "/src-enums", lambda: [[e.name, e.value] for E in (srcmod.HeaderFlags, srcmod.ErrorStatusFlags, srcmod.Flags) for e in E])
    run(tag + "/src-mrucallout", lambda: srcmod.MRUCallout(3, 4))


def unit_userdata(tag):
    datas = {
        "empty": b"", "json": b'{"a": 1}\0\0', "badjson": b"{oops", "text": b"a\nb\x02\n\nc\n\0",
        "bin": bytes(range(48)), "nonutf8": b"\xff\xfe\n", "null": b"null", "nulls": b"\0\0\0",
        "ws": b" \n\t ", "nl": b"\n", "tilde": b"~\x7f\x1f \n", "long": b"x" * 100 + b"\n" + b"y" * 50,
    }
    creators = ["O", "o", "B", "Q", "H", "", "ÿ", "OO"]
    comps = [0x2000, 0x1111, 0x2222, 0x3333, 0x4444, 0x5555, 0x6666, 0x7777, 0xE500, 0x0001, 0x12345]
    for dname, data in datas.items():
        for mv in (False, True):
            d = memoryview(data) if mv else data
            for creator in creators:
                for comp in comps:
                    if creator not in ("O", "Q") and comp not in (0x2000, 0x1111):
                        continue
                    for st in ((1, 2, 3, 4, 0, 5) if creator == "O" and comp == 0x2000 else (1, 7)):
                        for plugins in (True, False):
                            def f():
                                p = pudmod.ParseUserData(creator, comp, st, 2, d)
                                return p.parse(mkconfig(plugins))
                            run("%s/pud/%s/%s/%s/%04X/%d/%s" % (tag, dname, mv, creator, comp, st, plugins), f)
            for st in (1, 2, 3, 4, 0, 5, 255):
                run("%s/pud-builtin/%s/%s/%d" % (tag, dname, mv, st),
                    lambda: pudmod.ParseUserData("X", 1, st, 1, d).getBuiltinFormatJSON())
            run("%s/pud-custom/%s/%s" % (tag, dname, mv),
                lambda: pudmod.ParseUserData("Q", 0x1111, 1, 1, d).parseCustom())
    run(tag + "/pud-get_value", lambda: pudmod.get_value(b"\x01\x02\x03\x04", 1, 2))
    run(tag + "/pud-enum", lambda: [[e.name, e.value] for e in pudmod.UserDataFormat])
    run(tag + "/pud-attrs", lambda: pudmod.ParseUserData("A", 1, 2, 3, b"d"))
    # section classes directly
    for dname, data in datas.items():
        for mv in (False, True):
            for creator, comp, st in (("O", 0x2000, 1), ("O", 0x2000, 3), ("Q", 0x1111, 1),
                                      ("Q", 0x7777, 1), ("Q", 0x9999, 1), ("Q", 0x8888, 1),
                                      ("Q", 0xAAAA, 1), ("Q", 0xDDDD, 1), ("Q", 0x4444, 1), ("B", 0x0100, 1)):
                for plugins in (True, False):
                    def ud():
                        b = data
                        st_ = DataStream(memoryview(b) if mv else b, byte_order="big", is_signed=False)
                        o = udmod.UserData(st_, 0x5544, len(b) + 8, 1, st, comp, creator)
                        return [o.toJSON(mkconfig(plugins)), o, st_.index]
                    run("%s/UserData/%s/%s/%s/%04X/%d/%s" % (tag, dname, mv, creator, comp, st, plugins), ud)
                    def ed():
                        b = creator.encode("latin-1", "replace")[:1].ljust(1, b"?") + b"\x01\x02\x03" + data
                        st_ = DataStream(memoryview(b) if mv else b, byte_order="big", is_signed=False)
                        o = edmod.ExtUserData(st_, 0x4544, len(b) + 8, 1, st, comp)
                        return [o.toJSON(mkconfig(plugins)), o, st_.index]
                    run("%s/ExtUserData/%s/%s/%s/%04X/%d/%s" % (tag, dname, mv, creator, comp, st, plugins), ed)
            def df():
                st_ = DataStream(memoryview(data) if mv else data, byte_order="big", is_signed=False)
                o = defmod.Default(st_, 0x4D49, len(data) + 8, 1, 2, 0xAB)
                return [o.toJSON(), o, st_.index]
            run("%s/Default/%s/%s" % (tag, dname, mv), df)
    # bad section lengths
    for ln in (-5, 0, 7, 8, 9, 11, 12, 13, 20, 1000):
        for cls, args in ((udmod.UserData, (1, 1, 0x2000, "O")), (edmod.ExtUserData, (1, 1, 0x2000)),
                          (defmod.Default, (1, 1, 0x2000))):
            def f():
                st_ = DataStream(b'O\0\0\0{"a": 5}  ', byte_order="big", is_signed=False)
                try:
                    o = cls(st_, 0x1111, ln, *args)
                except Exception as e:
                    return ["EXC " + type(e).__name__ + ": " + str(e), st_.index]
                return [o, st_.index]
            run("%s/seclen/%s/%d" % (tag, cls.__name__, ln), f)


def unit_text_fuzz(tag, count, seed):
    rnd = random.Random(seed)
    alphabet = ["\n", "\n", "a", "b", " ", "\x00", "\x01", "~", "\x7f", "\u00e9", "\t",
                "\r", "\u2028", "\x0b", "\x1f", "\x85", "\u20ac", "{", '"']
    for i in range(count):
        text = "".join(rnd.choice(alphabet) for _ in range(rnd.randint(0, 12)))
        data = text.encode("utf-8")
        for st in (3, 1):
            run("%s/textfuzz/%d/%d" % (tag, i, st),
                lambda: pudmod.ParseUserData("O", 0x2000, st, 1, data).parse(mkconfig(True)))
        def f():
            st_ = DataStream(data or b"x", byte_order="big", is_signed=False)
            return udmod.UserData(st_, 0x5544, len(data or b"x") + 8, 1, 3, 0x2000, "O").toJSON(mkconfig(False))
        run("%s/textfuzz-ud/%d" % (tag, i), f)


def caches(tag):
    def f():
        return {
            "callout": sorted((k, v is None) for k, v in srcmod.calloutParsers.items()),
            "src": sorted((k, v is None) for k, v in srcmod.srcParsers.items()),
            "ud": sorted((k, v is None) for k, v in pudmod.userDataParsers.items()),
            "imports": sorted((k, v) for k, v in vars(builtins).items() if k.startswith("_dc_count_")),
        }
    run(tag + "/caches", f)

# ---------------------------------------------------------------- main

def main():
    pels = corpus()
    if os.environ.get("DC_WRITE_DIR"):
        d = os.environ["DC_WRITE_DIR"]
        for name, data in pels.items():
            with open(os.path.join(d, name + ".pel"), "wb") as f:
                f.write(data)
        return
    if REG_MAIN is not None:
        assert srcmod.registry.pels == REG_MAIN
    for tag in ("pass1", "pass2"):
        whole_pel_cases(tag, pels)
        caches(tag + "/after-whole")
        if tag == "pass1":
            truncation_cases(tag, pels, ["src_callouts", "mixed", "ud_plugin_1111", "src_creator_Q"], 1)
            truncation_cases(tag, pels, ["src_secondary", "ud_text", "ed_other_creator", "def_sections",
                                         "ud_other_comp"], 3)
            corruption_cases(tag, pels, ["src_callouts", "mixed", "src_secondary", "ud_multi",
                                         "ed_other_creator", "src_creator_Q", "ud_plugin_1111",
                                         "def_sections"], 150, 12345)
            random_cases(tag, 250, 777)
        unit_registry(tag)
        unit_src(tag, pels)
        unit_userdata(tag)
        if tag == "pass1":
            unit_text_fuzz(tag, 400, 4242)
        caches(tag + "/end")
    sys.__stdout__.write(json.dumps(RESULTS))

main()
'''

# --------------------------------------------------------------------------
# fake packages: pel_registry, plugin modules
# --------------------------------------------------------------------------

REGISTRY = {"PELs": [
    {"Name": "a", "SRC": {"ReasonCode": "0x2030", "Words6To9": {
        "6": {"Description": "Failure count", "AdditionalDataPropSource": "COUNT"},
        "7": {"AdditionalDataPropSource": "NODESC"},
        "9": {"Description": "Last word", "AdditionalDataPropSource": "LAST"}}},
     "Documentation": {"Message": "Something failed with %1 and %2 (100%)",
                       "MessageArgSources": ["SRCWord6", "SRCWord9"]}},
    {"Name": "b", "SRC": {"ReasonCode": "0x2031", "Words6To9": {}},
     "Documentation": {"Message": "Plain message"}},
    {"Name": "c", "SRC": {"ReasonCode": "0x2032", "Type": "BD"},
     "Documentation": {"Message": "Secondary {oops} %1", "MessageArgSources": ["SRCWord3"]}},
    {"Name": "d", "SRC": {"ReasonCode": "0x2030", "Type": "11"},
     "Documentation": {"Message": "Power fault %1", "MessageArgSources": ["SRCWord7"]}},
    {"Name": "e", "SRC": {"ReasonCode": "0x2030", "Type": "BC"},
     "Documentation": {"Message": "Hostboot error"}},
    {"Name": "f", "SRC": {"ReasonCode": "0x2033", "Type": "11", "Words6To9": {
        "8": {"Description": "w8", "AdditionalDataPropSource": "W8"}}},
     "Documentation": {"Message": "Power %1 %2 %3", "MessageArgSources": ["SRCWord6", "SRCWord7", "SRCWord8"]}},
    {"Name": "g", "SRC": {"Type": "BD"}, "Documentation": {"Message": "never"}},
    {"Name": "h", "SRC": {"ReasonCode": "0x0010"},
     "Documentation": {"Message": "e500 analysis"}},
]}

COMPIDS = {"2000": "bmc-fake-logging", "E500": "hw-diags-fake"}

COUNT = ("import builtins\n"
         "builtins._dc_count_{0} = getattr(builtins, '_dc_count_{0}', 0) + 1\n")

UD_PLUGINS = {
    "q1111": "import json\ndef parseUDToJson(subType, version, data):\n"
             "    return json.dumps({'sub': subType, 'ver': version, 'len': len(data), 'hex': bytes(data).hex(), 'type': type(data).__name__})\n",
    "q2222": "def parseUDToJson(subType, version, data):\n    return 'null'\n",
    "q3333": "def parseUDToJson(subType, version, data):\n    return None\n",
    "q4444": "def parseUDToJson(subType, version, data):\n    raise ValueError('boom %d %d' % (subType, version))\n",
    "q5555": "raise ImportError('nope q5555')\n",
    "q6666": "raise ValueError('import blew up q6666')\n",
    "q7777": "def parseUDToJson(subType, version, data):\n    return 'not json { \"'\n",
    "q8888": "def parseUDToJson(subType, version, data):\n    return '[1, 2, {\"a\": null}]'\n",
    "q9999": "def parseUDToJson(subType, version, data):\n    return '{\"Section Version\": \"x\", \"Data\": 1, \"Zed\": [1]}'\n",
    "qaaaa": "def parseUDToJson(subType, version, data):\n    return 5\n",
    "qbbbb": "x = 1\n",
    "qcccc": "def parseUDToJson(subType, version, data):\n    raise SystemExit(7)\n",
    "qdddd": "def parseUDToJson(subType, version, data):\n    return 'bad \\ud800 surrogate {'\n",
    "qeeee": "def parseUDToJson(subType, version, data):\n    print('plugin chatter'); import sys; print('plugin err', file=sys.stderr); return '\"\"'\n",
    "q0abc": "raise ModuleNotFoundError('mnf')\n",
}

SRC_PLUGINS = {
    "qsrc": "import json\ndef parseSRCToJson(refcode, w2, w3, w4, w5, w6, w7, w8, w9):\n"
            "    return json.dumps({'ref': refcode, 'w': [w2, w3, w4, w5, w6, w7, w8, w9]})\n",
    "rsrc": "def parseSRCToJson(*a):\n    raise RuntimeError('src plugin failed %d' % len(a))\n",
    "ssrc": "raise SystemExit(3)\n",
    "tsrc": "def parseSRCToJson(*a):\n    return 'null'\n",
    "usrc": "def parseSRCToJson(*a):\n    return ''\n",
    "vsrc": "def parseSRCToJson(*a):\n    return '{invalid'\n",
    "wsrc": "def parseSRCToJson(*a):\n    return None\n",
    "xsrc": "raise ValueError('xsrc import')\n",
    "ysrc": "def parseSRCToJson(a, b):\n    return '1'\n",
    "zsrc": "def parseSRCToJson(*a):\n    raise SystemExit(9)\n",
}

CO_PLUGINS = {
    "qcallouts": "import json\ndef getMaintProcDesc(p):\n    return json.dumps(['desc for ' + p])\n",
    "rcallouts": "def getMaintProcDesc(p):\n    raise RuntimeError('x')\n",
    "scallouts": "raise ValueError('scallouts import')\n",
    "tcallouts": "raise SystemExit(4)\n",
    "ucallouts": "def getMaintProcDesc(p):\n    return '{bad json'\n",
    "vcallouts": "def getMaintProcDesc(p):\n    return ''\n",
    "wcallouts": "def getMaintProcDesc(p):\n    raise SystemExit(5)\n",
}


def build_fake(fake):
    reg = os.path.join(fake, "regpkg", "pel_registry")
    os.makedirs(reg)
    with open(os.path.join(reg, "__init__.py"), "w") as f:
        f.write("import os\n"
                "def get_registry_path():\n"
                "    return os.path.join(os.path.dirname(__file__), 'message_registry.json')\n")
    with open(os.path.join(reg, "message_registry.json"), "w") as f:
        json.dump(REGISTRY, f)
    with open(os.path.join(reg, "O_component_ids.json"), "w") as f:
        json.dump(COMPIDS, f)
    with open(os.path.join(fake, "nopels.json"), "w") as f:
        f.write('{"Other": []}')
    with open(os.path.join(fake, "bad.json"), "w") as f:
        f.write('{"PELs": [')
    for pkg, plugins in (("udparsers", UD_PLUGINS), ("srcparsers", SRC_PLUGINS),
                         ("calloutparsers", CO_PLUGINS)):
        for name, code in plugins.items():
            d = os.path.join(fake, pkg, name)
            os.makedirs(d)
            open(os.path.join(d, "__init__.py"), "w").close()
            with open(os.path.join(d, name + ".py"), "w") as f:
                f.write(COUNT.format(pkg + "_" + name) + code)


def run_driver(root, fake, driver, mode, opt, extra_env=None):
    env = dict(os.environ)
    env["PYTHONPATH"] = os.path.join(root, "modules")
    env["PYTHONDONTWRITEBYTECODE"] = "1"
    env["PYTHONHASHSEED"] = "0"
    env["DC_FAKE"] = fake
    env["DC_MODE"] = mode
    if extra_env:
        env.update(extra_env)
    cmd = [sys.executable] + (["-O"] if opt else []) + [driver]
    p = subprocess.run(cmd, env=env, stdout=subprocess.PIPE, stderr=subprocess.PIPE,
                       cwd=fake)
    return p.returncode, p.stdout.decode("utf-8", "replace"), p.stderr.decode("utf-8", "replace")


def norm_err(text, root):
    text = text.replace(root, "<ROOT>")
    if "Traceback (most recent call last)" in text:
        lines = [l for l in text.splitlines()
                 if not l.startswith("  ") and not l.startswith("Traceback")]
        text = "\n".join(lines)
    return text


def listing(d):
    out = {}
    for r, _, files in os.walk(d):
        for fn in files:
            p = os.path.join(r, fn)
            with open(p, "rb") as f:
                out[os.path.relpath(p, d)] = f.read().hex()
    return out


CLI_RUNS = [
    ["-a"], ["-a", "-P"], ["-a", "-E"], ["-a", "-x"], ["-a", "-r", "-E", "-P"],
    ["-l"], ["-l", "-E"], ["-l", "-P"], ["-n"], ["-n", "-E"],
    ["--src", "BD8D2030"], ["--src", "BD8D2030", "-P"], ["--plid", "0x50000123"],
    ["-i", "0x50000124"], ["--bmc-id", "7"], ["-a", "-e", ".pel", "-S", "Unrecoverable"],
]
CLI_FILES = ["src_callouts", "mixed", "ud_plugin_1111", "co_pce_small", "src_creator_Q",
             "src_wc10", "ud_text", "ed_other_creator", "def_sections", "ud_json_bad",
             "src_nonascii", "ud_len_short"]


def run_cli(root, work, fake, mode, opt):
    """Runs the peltool CLI; returns a list of (label, observation)."""
    results = []
    peltool = os.path.join(root, "modules", "pel", "peltool", "peltool.py")
    env = dict(os.environ)
    pp = [os.path.join(root, "modules")]
    if mode == "reg":
        pp.append(os.path.join(fake, "regpkg"))
    env["PYTHONPATH"] = os.pathsep.join(pp)
    env["PYTHONDONTWRITEBYTECODE"] = "1"
    env["PYTHONHASHSEED"] = "0"
    base = [sys.executable] + (["-O"] if opt else []) + [peltool]

    def one(label, args, watch=()):
        p = subprocess.run(base + args, env=env, stdout=subprocess.PIPE,
                           stderr=subprocess.PIPE, cwd=work)
        obs = {"rc": p.returncode, "stdout": p.stdout.decode("utf-8", "replace"),
               "stderr": norm_err(p.stderr.decode("utf-8", "replace"), root),
               "files": {w: listing(os.path.join(work, w)) for w in watch}}
        results.append((label, obs))

    pdir = "pels"
    for args in CLI_RUNS:
        one("cli/" + " ".join(args), ["-p", pdir] + args, watch=(pdir,))
    for name in CLI_FILES:
        f = os.path.join(pdir, name + ".pel")
        one("cli/-f " + name, ["-f", f])
        one("cli/-f -P " + name, ["-f", f, "-P"])
    one("cli/-f -x", ["-f", os.path.join(pdir, "mixed.pel"), "-x"])
    one("cli/-f missing", ["-f", os.path.join(pdir, "missing.pel")])
    # JSON output into a directory, then with clean (on a copy)
    os.makedirs(os.path.join(work, "out1"))
    one("cli/-j -o", ["-p", pdir, "-j", "-o", "out1"], watch=(pdir, "out1"))
    shutil.copytree(os.path.join(work, pdir), os.path.join(work, "pels2"))
    os.makedirs(os.path.join(work, "out2"))
    one("cli/-j -o -c -P", ["-p", "pels2", "-j", "-o", "out2", "-c", "-P"], watch=("pels2", "out2"))
    shutil.copytree(os.path.join(work, pdir), os.path.join(work, "pels3"))
    one("cli/-j inplace -E", ["-p", "pels3", "-j", "-E"], watch=("pels3",))
    shutil.copy(os.path.join(work, pdir, "mixed.pel"), os.path.join(work, "single.pel"))
    one("cli/-f -c", ["-f", "single.pel", "-c"])
    results.append(("cli/-f -c exists", os.path.exists(os.path.join(work, "single.pel"))))
    return results


def main():
    if len(sys.argv) != 3:
        print(__doc__)
        return 2
    roots = [os.path.abspath(sys.argv[1]), os.path.abspath(sys.argv[2])]
    top = tempfile.mkdtemp(prefix="dc_R37_")
    try:
        fake = os.path.join(top, "fake")
        os.makedirs(fake)
        build_fake(fake)
        driver = os.path.join(top, "driver.py")
        with open(driver, "w") as f:
            f.write(DRIVER)

        total = 0
        diffs = []
        flavours = [(m, o) for m in ("reg", "noreg") for o in (False, True)]
        for mode, opt in flavours:
            outs = []
            for root in roots:
                rc, so, se = run_driver(root, fake, driver, mode, opt)
                if rc != 0:
                    print("driver failed for %s (%s, -O=%s): rc=%d\n%s" % (root, mode, opt, rc, se[-3000:]))
                    return 1
                outs.append((json.loads(so), norm_err(se, root)))
            (a, ea), (b, eb) = outs
            if ea != eb:
                diffs.append(("driver-stderr/%s/%s" % (mode, opt), ea[-500:], eb[-500:]))
            if len(a) != len(b):
                diffs.append(("record-count/%s/%s" % (mode, opt), len(a), len(b)))
            for ra, rb in zip(a, b):
                total += 1
                if ra != rb:
                    diffs.append(("%s/-O=%s/%s" % (mode, opt, ra.get("label")), ra, rb))

        # CLI level
        for mode, opt in (("reg", False), ("noreg", True)):
            obs = []
            for root in roots:
                # the very same work directory path is used for both trees
                work = os.path.join(top, "work")
                if os.path.exists(work):
                    shutil.rmtree(work)
                os.makedirs(os.path.join(work, "pels"))
                rc, so, se = run_driver(root, fake, driver, mode, False,
                                        {"DC_WRITE_DIR": os.path.join(work, "pels")})
                if rc != 0:
                    print("corpus writer failed: " + se[-2000:])
                    return 1
                obs.append(run_cli(root, work, fake, mode, opt))
            a, b = obs
            if len(a) != len(b):
                diffs.append(("cli-count", len(a), len(b)))
            for (la, oa), (lb, ob) in zip(a, b):
                total += 1
                if la != lb or oa != ob:
                    diffs.append(("%s/-O=%s/%s" % (mode, opt, la), oa, ob))

        if diffs:
            print("DIFFERENT: %d of %d cases differ" % (len(diffs), total))
            for label, x, y in diffs[:15]:
                print("---- " + str(label))
                print("  pristine: " + json.dumps(x)[:1500])
                print("  patched : " + json.dumps(y)[:1500])
            return 1
        print("IDENTICAL (%d cases)" % total)
        return 0
    finally:
        shutil.rmtree(top, ignore_errors=True)


if __name__ == "__main__":
    sys.exit(main())
