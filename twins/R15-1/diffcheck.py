#!/usr/bin/env python
"""
Differential check for refactorings of modules/pel/peltool/src.py and
modules/pel/peltool/registry.py.

usage: diffcheck.py <pristine_root> <patched_root>

Every case is executed against both trees (in separate subprocesses, the tree
is selected with PYTHONPATH) and everything observable is compared:
decoded JSON, stdout, stderr, exceptions (type + text), exit status, the
stream position after decoding, the attributes of the decoded objects, the
state of the plugin import caches and the files created by the CLI.

Prints "IDENTICAL (<n> cases)" and exits 0 when nothing differs, exits 1
otherwise.
"""
import json
import os
import random
import shutil
import struct
import subprocess
import sys
import tempfile

PY = sys.executable

# --------------------------------------------------------------------------
# binary builders
# --------------------------------------------------------------------------


def pad(b: bytes, n: int, fill: bytes = b'\x00') -> bytes:
    return (b + fill * n)[:n]


def fru(flags=0x18, pn=b'PN12345', ccin=b'2B3F',
        sn=b'YA1934567890', size=None) -> bytes:
    body = b''
    if flags & 0x08 or flags & 0x02:
        body += pad(pn, 8)
    if flags & 0x04:
        body += pad(ccin, 4)
    if flags & 0x01:
        body += pad(sn, 12)
    if size is None:
        size = 4 + len(body)
    return b'ID' + bytes([size & 0xFF, flags & 0xFF]) + body


def pce(mtm=b'9105-22A', sn=b'SN1234567890', name=b'pcename\x00', size=None,
        flags=0) -> bytes:
    body = pad(mtm, 8) + pad(sn, 12) + name
    if size is None:
        size = 4 + len(body)
    return b'PE' + bytes([size & 0xFF, flags & 0xFF]) + body


def mru(ids=((0x48, 0x00010001), (0x4C, 0xDEADBEEF)), size=None,
        flags=None) -> bytes:
    body = b'\x00\x00\x00\x00'
    for prio, ident in ids:
        body += struct.pack('>II', prio, ident)
    if size is None:
        size = 4 + len(body)
    if flags is None:
        flags = len(ids) & 0x0F
    return b'MR' + bytes([size & 0xFF, flags & 0xFF]) + body


def callout(priority=0x48, loc=b'U78DA.ND1.1234567-P0\x00\x00\x00\x00',
            subs=(), size=None, flags=0x30, locsize=None) -> bytes:
    body = b''.join(subs)
    if locsize is None:
        locsize = len(loc)
    if size is None:
        size = 4 + len(loc) + len(body)
    return bytes([size & 0xFF, flags & 0xFF, priority & 0xFF,
                  locsize & 0xFF]) + loc + body


def callouts(cos=(), wordlen=None, sid=0xC0, sflags=0) -> bytes:
    body = b''.join(cos)
    if wordlen is None:
        wordlen = (4 + len(body) + 3) // 4
    return bytes([sid, sflags]) + struct.pack('>H', wordlen & 0xFFFF) + body


def src_body(version=2, flags=0, wordcount=9, hexdata=None,
             ascii=b'BD8D2030', co=b'', size=None, r1=0, r2=0) -> bytes:
    if hexdata is None:
        hexdata = [0x020000E0, 0x2B3F0000, 0x11223344, 0x23000000,
                   0xAABBCCDD, 0x00000055, 0x0BADC0DE, 0xFFFFFFFF]
    hexdata = (list(hexdata) + [0] * 8)[:8]
    if size is None:
        size = 72 + len(co)
    out = bytes([version & 0xFF, flags & 0xFF, r1 & 0xFF, wordcount & 0xFF])
    out += struct.pack('>HH', r2 & 0xFFFF, size & 0xFFFF)
    for w in hexdata:
        out += struct.pack('>I', w & 0xFFFFFFFF)
    out += pad(ascii, 32, b' ')
    return out + co


def sec_hdr(sid: bytes, length: int, ver=1, sub=0, comp=0x1000) -> bytes:
    return sid + struct.pack('>HBBH', length & 0xFFFF, ver, sub, comp)


def private_header(creator=b'B', count=3, obmc=0x12, plid=0x50000012,
                   eid=0x50000012, comp=0x1000) -> bytes:
    t = bytes.fromhex('2023101512304455')
    body = t + t + creator + b'\x00\x00' + bytes([count & 0xFF])
    body += struct.pack('>IQII', obmc, 0x0102030405060708, plid, eid)
    return sec_hdr(b'PH', 48, comp=comp) + body


def user_header(sev=0x40, action=0xA000, comp=0x1000) -> bytes:
    body = bytes([0x10, 0x03, sev, 0x00]) + b'\x00' * 4
    body += bytes([0x00, 0x00]) + struct.pack('>HI', action, 0)
    return sec_hdr(b'UH', 24, comp=comp) + body


def user_data(payload=b'hello world data') -> bytes:
    return sec_hdr(b'UD', 8 + len(payload), sub=0x55, comp=0xFFFF) + payload


def pel(creator=b'B', srcs=(), extra=(), eid=0x50000012, sev=0x40,
        action=0xA000, count=None, comp=0x1000) -> bytes:
    secs = []
    for i, body in enumerate(srcs):
        secs.append(sec_hdr(b'PS' if i == 0 else b'SS', 8 + len(body),
                            comp=comp) + body)
    secs.extend(extra)
    if count is None:
        count = 2 + len(secs)
    return private_header(creator, count, plid=eid, eid=eid, comp=comp) + \
        user_header(sev, action, comp=comp) + b''.join(secs)


# --------------------------------------------------------------------------
# fixtures: fake registry package and parser plugins
# --------------------------------------------------------------------------

REGISTRY = {"PELs": [
    {"Name": "a.no.reason", "SRC": {"Type": "BD"},
     "Documentation": {"Message": "never"}},
    {"Name": "a.first", "SRC": {
        "ReasonCode": "0x2030",
        "Words6To9": {
            "6": {"Description": "Failing unit",
                  "AdditionalDataPropSource": "FAIL_UNIT"},
            "7": {"AdditionalDataPropSource": "NODESC"},
            "9": {"Description": "Last word",
                  "AdditionalDataPropSource": "LAST"}}},
     "Documentation": {"Message": "Error %1 and %2 happened, 100% sure",
                       "MessageArgSources": ["SRCWord6", "SRCWord7"]}},
    {"Name": "a.shadowed", "SRC": {"ReasonCode": "0x2030"},
     "Documentation": {"Message": "shadowed"}},
    {"Name": "a.power", "SRC": {"Type": "11", "ReasonCode": "0x1100",
                                "Words6To9": {}},
     "Documentation": {"Message": "Power fault"}},
    {"Name": "a.hb", "SRC": {"Type": "BC", "ReasonCode": "0xBC01"},
     "Documentation": {"Message": "Hostboot %1",
                       "MessageArgSources": ["SRCWord9"]}},
    {"Name": "a.list", "SRC": {"ReasonCode": ["0x2031", "0x2032"]},
     "Documentation": {"Message": "From list"}},
    {"Name": "a.nomsg", "SRC": {"ReasonCode": "0x2033"},
     "Documentation": {"Description": "no message"}},
    {"Name": "a.nodoc", "SRC": {"ReasonCode": "0x2034"}},
    {"Name": "a.emptymsg", "SRC": {"ReasonCode": "0x2035",
                                   "Words6To9": {"6": {
                                       "Description": "d",
                                       "AdditionalDataPropSource": "X"}}},
     "Documentation": {"Message": ""}},
    {"Name": "a.word1", "SRC": {"ReasonCode": "0x2036"},
     "Documentation": {"Message": "w %1 %2 %3",
                       "MessageArgSources": ["SRCWord1", "SRCWord3",
                                             "SRCWord9"]}},
    {"Name": "a.wordx", "SRC": {"ReasonCode": "0x2037"},
     "Documentation": {"Message": "w %1", "MessageArgSources": ["SRCWordX"]}},
    {"Name": "a.braces", "SRC": {"ReasonCode": "0x2038"},
     "Documentation": {"Message": "{oops} %1",
                       "MessageArgSources": ["SRCWord6"]}},
    {"Name": "a.word10", "SRC": {"ReasonCode": "0x2039", "Words6To9": {
        "10": {"Description": "d", "AdditionalDataPropSource": "X"}}},
     "Documentation": {"Message": "m"}},
    {"Name": "a.nodescsrc", "SRC": {"ReasonCode": "0x203A", "Words6To9": {
        "6": {"Description": "d"}}},
     "Documentation": {"Message": "m"}},
    {"Name": "a.intreason", "SRC": {"Type": "ZZ", "ReasonCode": 5},
     "Documentation": {"Message": "m"}},
    {"Name": "a.argsempty", "SRC": {"ReasonCode": "0x203B",
                                    "Words6To9": None},
     "Documentation": {"Message": "plain %1", "MessageArgSources": []}},
    {"Name": "a.toomany", "SRC": {"ReasonCode": "0x203C"},
     "Documentation": {"Message": "plain %1 %2",
                       "MessageArgSources": ["SRCWord6"]}},
]}

PLUGINS = {
    'pel_registry/__init__.py': '''
import os
def get_registry_path():
    return os.path.join(os.path.dirname(__file__), "message_registry.json")
''',
    'pel_registry/B_component_ids.json': json.dumps(
        {"1000": "bmc-comp", "2000": "other"}),
    'pel_registry/O_component_ids.json': json.dumps({"1000": "obmc"}),
    'pel_registry/message_registry.json': json.dumps(REGISTRY),
    'calloutparsers/__init__.py': '''
# fixture package shadowing the one of the tree under test: make the real
# parser modules of the tree reachable as well
import os, sys
for _p in list(sys.path):
    _d = os.path.join(_p, __name__)
    if os.path.isdir(_d) and _d not in __path__:
        __path__.append(_d)
''',
    'srcparsers/__init__.py': '''
# fixture package shadowing the one of the tree under test: make the real
# parser modules of the tree reachable as well
import os, sys
for _p in list(sys.path):
    _d = os.path.join(_p, __name__)
    if os.path.isdir(_d) and _d not in __path__:
        __path__.append(_d)
''',
    # good callout parser (creator 'B')
    'calloutparsers/bcallouts/__init__.py': '',
    'calloutparsers/bcallouts/bcallouts.py': '''
import json
print("IMPORT bcallouts")
def getMaintProcDesc(name):
    print("CALL getMaintProcDesc %r" % (name,))
    if name.startswith("BMC"):
        return json.dumps({"text": "do " + name, "n": [1, 2]})
    if name.startswith("EMPTY"):
        return ""
    if name.startswith("NONE"):
        return None
    if name.startswith("BADJS"):
        return "{not json"
    if name.startswith("RAISE"):
        raise RuntimeError("maint proc failure " + name)
    if name.startswith("EXIT"):
        raise SystemExit(7)
    if name.startswith("DICT"):
        return {"a": 1}
    if name.startswith("NULL"):
        return "null"
    return json.dumps("desc of " + name)
''',
    # import fails with ImportError (creator 'P')
    'calloutparsers/pcallouts/__init__.py': '',
    'calloutparsers/pcallouts/pcallouts.py': '''
print("IMPORT pcallouts")
import module_that_does_not_exist_xyz
''',
    # module without the expected function (creator 'H')
    'calloutparsers/hcallouts/__init__.py': '',
    'calloutparsers/hcallouts/hcallouts.py': '''
print("IMPORT hcallouts")
''',
    # import raises SystemExit (creator 'T') - not an Exception
    'calloutparsers/tcallouts/__init__.py': '',
    'calloutparsers/tcallouts/tcallouts.py': '''
print("IMPORT tcallouts")
raise SystemExit(3)
''',
    # import raises a plain exception (creator 'K')
    'calloutparsers/kcallouts/__init__.py': '',
    'calloutparsers/kcallouts/kcallouts.py': '''
print("IMPORT kcallouts")
raise ValueError("broken kcallouts")
''',
    # good SRC parser (creator 'B')
    'srcparsers/bsrc/__init__.py': '',
    'srcparsers/bsrc/bsrc.py': '''
import json
print("IMPORT bsrc")
def parseSRCToJson(ascii, w2, w3, w4, w5, w6, w7, w8, w9):
    print("CALL parseSRCToJson %r" % ([ascii, w2, w3, w4, w5, w6, w7, w8, w9],))
    sel = w4[-2:]
    if sel == "01":
        return "null"
    if sel == "02":
        return ""
    if sel == "03":
        return "{bad json"
    if sel == "04":
        raise RuntimeError("src parser failure")
    if sel == "05":
        return {"already": "dict"}
    if sel == "06":
        return None
    if sel == "07":
        raise SystemExit(9)
    if sel == "08":
        return json.dumps([1, 2, 3])
    return json.dumps({"ascii": ascii.strip(), "words": [w2, w3, w4, w5, w6, w7, w8, w9]})
''',
    # import raises SystemExit (creator 'P'): swallowed by the bare except
    'srcparsers/psrc/__init__.py': '',
    'srcparsers/psrc/psrc.py': '''
print("IMPORT psrc")
raise SystemExit(4)
''',
    # import raises KeyboardInterrupt (creator 'T')
    'srcparsers/tsrc/__init__.py': '',
    'srcparsers/tsrc/tsrc.py': '''
print("IMPORT tsrc")
raise KeyboardInterrupt()
''',
    # no parse function (creator 'H')
    'srcparsers/hsrc/__init__.py': '',
    'srcparsers/hsrc/hsrc.py': '''
print("IMPORT hsrc")
''',
    # import error (creator 'K')
    'srcparsers/ksrc/__init__.py': '',
    'srcparsers/ksrc/ksrc.py': '''
print("IMPORT ksrc")
import module_that_does_not_exist_xyz
''',
}


def make_fixtures(work: str) -> str:
    plug = os.path.join(work, 'plug')
    for rel, content in PLUGINS.items():
        path = os.path.join(plug, rel)
        os.makedirs(os.path.dirname(path), exist_ok=True)
        with open(path, 'w') as f:
            f.write(content)
    return plug


# --------------------------------------------------------------------------
# in-process harness (runs inside the subprocess of one tree)
# --------------------------------------------------------------------------

HARNESS = r'''
import sys, os, json, io, contextlib, types, builtins

cases_file, fixture_dir = sys.argv[1], sys.argv[2]

_boot_out, _boot_err = io.StringIO(), io.StringIO()
with contextlib.redirect_stdout(_boot_out), contextlib.redirect_stderr(_boot_err):
    from pel.datastream import DataStream
    from pel.peltool.config import Config
    import pel.peltool.src as S
    import pel.peltool.registry as R

BMC_PATH = '/usr/share/phosphor-logging/pels/message_registry.json'


def dump(o, depth=0):
    if depth > 8:
        return '<deep>'
    if o is None or isinstance(o, (bool, int, float, str)):
        return o
    if isinstance(o, (bytes, bytearray, memoryview)):
        return {'__bytes__': bytes(o).hex(), 't': type(o).__name__}
    if isinstance(o, DataStream):
        return {'__stream__': o.index}
    if isinstance(o, types.ModuleType):
        return {'__module__': o.__name__}
    if isinstance(o, dict):
        return {'__dict__': type(o).__name__,
                'items': [[dump(k, depth + 1), dump(v, depth + 1)] for k, v in o.items()]}
    if isinstance(o, (list, tuple)):
        return {'__seq__': type(o).__name__, 'items': [dump(v, depth + 1) for v in o]}
    if hasattr(o, '__dict__'):
        return {'__obj__': type(o).__name__,
                'attrs': [[k, dump(v, depth + 1)] for k, v in vars(o).items()]}
    return {'__repr__': repr(o)}


def caches():
    return {'callout': dump(S.calloutParsers), 'src': dump(S.srcParsers),
            'modules': sorted(m for m in sys.modules
                              if m.startswith(('calloutparsers', 'srcparsers')))}


def mkstream(case):
    data = bytes.fromhex(case['data'])
    if case.get('view') == 'memoryview':
        data = memoryview(data)
    elif case.get('view') == 'bytearray':
        data = bytearray(data)
    return DataStream(data, byte_order='big', is_signed=False)


def mkconfig(case):
    c = Config()
    c.allow_plugins = bool(case.get('plugins', True))
    return c


def mksrc(case, stream):
    return S.SRC(stream, case.get('sid', 0x5053), len(stream.data) + 8, case.get('ver', 1),
                 case.get('sub', 1), case.get('comp', 0x1000), case.get('creator', 'B'))


def run_case(case, res):
    kind = case['kind']
    if kind == 'src':
        stream = mkstream(case)
        src = mksrc(case, stream)
        for k, v in case.get('preset', {}).items():
            setattr(src, k, v)
        try:
            out = src.toJSON(mkconfig(case))
            res['out'] = dump(out)
            res['json'] = json.dumps(out, indent=4)
        finally:
            res['index'] = stream.index
            res['obj'] = dump(src)
    elif kind == 'twice':
        stream = mkstream(case)
        src = mksrc(case, stream)
        try:
            res['out1'] = dump(src.toJSON(mkconfig(case)))
            src.stream = mkstream(dict(case, data=case['data2']))
            res['out2'] = dump(src.toJSON(mkconfig(case)))
        finally:
            res['index'] = src.stream.index
            res['obj'] = dump(src)
    elif kind in ('fru', 'pce', 'mru', 'callout'):
        stream = mkstream(case)
        cls = {'fru': S.FRUIdentity, 'pce': S.PCEIdentity, 'mru': S.MRU,
               'callout': S.Callout}[kind]
        try:
            obj = cls(stream)
            res['obj'] = dump(obj)
            if kind == 'callout':
                res['flat'] = obj.flattenedSize()
        finally:
            res['index'] = stream.index
    elif kind == 'getcallouts':
        stream = mkstream(case)
        src = mksrc(case, stream)
        out = S.OrderedDict()
        out['pre'] = 1
        try:
            res['ret'] = dump(src.getCallouts(out, mkconfig(case)))
        finally:
            res['out'] = dump(out)
            res['index'] = stream.index
            res['obj'] = dump(src)
    elif kind == 'parse':
        stream = mkstream(dict(case, data=''))
        src = mksrc(case, stream)
        src.asciiString = case['ascii']
        try:
            res['ret'] = dump(src.parse(case['hexwords']))
        finally:
            res['obj'] = dump(src)
    elif kind == 'procdesc':
        stream = mkstream(dict(case, data=''))
        src = mksrc(case, stream)
        out = S.OrderedDict()
        out['pre'] = 1
        try:
            res['ret'] = dump(src.getProcedureDesc(case['proc'], out))
        finally:
            res['out'] = dump(out)
    elif kind == 'details':
        stream = mkstream(dict(case, data=''))
        src = mksrc(case, stream)
        src.hexData = list(case['hexdata'])
        out = S.OrderedDict()
        try:
            res['ret'] = dump(src.getErrorDetails(out, case['code'], case['type']))
        finally:
            res['out'] = dump(out)
    elif kind == 'getvalue':
        res['ret'] = S.get_value(bytes.fromhex(case['data']), case['start'], case['end'])
    elif kind == 'setpels':
        # swap the registry content used by SRC.toJSON for the following cases
        if case['pels'] == '__fixture__':
            S.registry.pels = R.Registry().pels
        else:
            S.registry.pels = case['pels']
        res['n'] = len(S.registry.pels)
    elif kind == 'regmsg':
        reg = R.Registry.__new__(R.Registry)
        reg.pels = case['pels']
        before = json.dumps(case['pels'], sort_keys=True)
        try:
            ret = reg.getErrorMessage(case['code'], case['type'])
            res['ret'] = dump(ret)
            # identity of shared sub objects is observable by callers
            res['alias'] = [any(v is p.get('SRC', {}).get('Words6To9') for p in reg.pels
                                if isinstance(p, dict) and isinstance(p.get('SRC'), dict))
                            for k, v in ret.items() if k == 'Words6To9']
        finally:
            res['unchanged'] = before == json.dumps(reg.pels, sort_keys=True)
    elif kind == 'fixturemsg':
        reg = R.Registry()
        res['ret'] = dump(reg.getErrorMessage(case['code'], case['type']))
    elif kind == 'reginit':
        res.update(reginit(case['variant']))
    elif kind == 'clearcaches':
        S.calloutParsers.clear()
        S.srcParsers.clear()
        for m in [m for m in sys.modules if m.startswith(('calloutparsers.', 'srcparsers.'))
                  and m.count('.') >= 1]:
            del sys.modules[m]
    else:
        raise RuntimeError('unknown kind ' + kind)


def fake_module(**attrs):
    m = types.ModuleType('pel_registry')
    m.__file__ = os.path.join(fixture_dir, 'pel_registry', '__init__.py')
    for k, v in attrs.items():
        setattr(m, k, v)
    return m


def raiser(exc):
    def f():
        raise exc
    return f


def reginit(variant):
    res = {}
    missing = object()
    saved_mod = sys.modules.get('pel_registry', missing)
    saved_exists = os.path.exists
    saved_open = builtins.open
    good = os.path.join(fixture_dir, 'pel_registry', 'message_registry.json')
    calls = []

    def exists_true(p):
        calls.append(['exists', p])
        return True if p == BMC_PATH else saved_exists(p)

    def exists_false(p):
        calls.append(['exists', p])
        return False if p == BMC_PATH else saved_exists(p)

    def open_redirect(p, *a, **k):
        calls.append(['open', p, list(a), sorted(k)])
        return saved_open(good if p == BMC_PATH else p, *a, **k)

    def open_log(p, *a, **k):
        calls.append(['open', p, list(a), sorted(k)])
        return saved_open(p, *a, **k)

    builtins.open = open_log
    os.path.exists = exists_false
    try:
        if variant == 'ok':
            pass
        elif variant == 'missing':
            sys.modules['pel_registry'] = None
        elif variant == 'missing_bmc_file':
            sys.modules['pel_registry'] = None
            os.path.exists = exists_true
            builtins.open = open_redirect
        elif variant == 'missing_bmc_nofile':
            sys.modules['pel_registry'] = None
            os.path.exists = exists_true
        elif variant == 'getpath_mnfe':
            sys.modules['pel_registry'] = fake_module(
                get_registry_path=raiser(ModuleNotFoundError('nested missing')))
        elif variant == 'getpath_mnfe_bmc':
            sys.modules['pel_registry'] = fake_module(
                get_registry_path=raiser(ModuleNotFoundError('nested missing')))
            os.path.exists = exists_true
            builtins.open = open_redirect
        elif variant == 'getpath_importerror':
            sys.modules['pel_registry'] = fake_module(
                get_registry_path=raiser(ImportError('plain import error')))
        elif variant == 'getpath_err':
            sys.modules['pel_registry'] = fake_module(
                get_registry_path=raiser(RuntimeError('boom')))
        elif variant == 'noattr':
            sys.modules['pel_registry'] = fake_module()
        elif variant == 'empty_path':
            sys.modules['pel_registry'] = fake_module(get_registry_path=lambda: '')
        elif variant == 'none_path':
            sys.modules['pel_registry'] = fake_module(get_registry_path=lambda: None)
        elif variant == 'zero_path':
            sys.modules['pel_registry'] = fake_module(get_registry_path=lambda: 0)
        elif variant == 'int_path':
            sys.modules['pel_registry'] = fake_module(get_registry_path=lambda: 987654)
        elif variant == 'badjson':
            p = os.path.join(fixture_dir, 'bad.json')
            with saved_open(p, 'w') as f:
                f.write('{"PELs": [')
            sys.modules['pel_registry'] = fake_module(get_registry_path=lambda: p)
        elif variant == 'nopels':
            p = os.path.join(fixture_dir, 'nopels.json')
            with saved_open(p, 'w') as f:
                f.write('{"pels": []}')
            sys.modules['pel_registry'] = fake_module(get_registry_path=lambda: p)
        elif variant == 'listjson':
            p = os.path.join(fixture_dir, 'list.json')
            with saved_open(p, 'w') as f:
                f.write('[1, 2]')
            sys.modules['pel_registry'] = fake_module(get_registry_path=lambda: p)
        elif variant == 'pelsdict':
            p = os.path.join(fixture_dir, 'pelsdict.json')
            with saved_open(p, 'w') as f:
                f.write('{"PELs": {"a": 1}}')
            sys.modules['pel_registry'] = fake_module(get_registry_path=lambda: p)
        elif variant == 'dir':
            sys.modules['pel_registry'] = fake_module(get_registry_path=lambda: fixture_dir)
        elif variant == 'nonexist':
            sys.modules['pel_registry'] = fake_module(
                get_registry_path=lambda: os.path.join(fixture_dir, 'nope.json'))
        else:
            raise RuntimeError('unknown variant ' + variant)
        try:
            reg = R.Registry()
            res['obj'] = dump(reg)
        finally:
            res['calls'] = calls
    finally:
        builtins.open = saved_open
        os.path.exists = saved_exists
        if saved_mod is missing:
            sys.modules.pop('pel_registry', None)
        else:
            sys.modules['pel_registry'] = saved_mod
    return res


def main():
    with open(cases_file) as f:
        cases = json.load(f)
    results = [{'boot_out': _boot_out.getvalue(), 'boot_err': _boot_err.getvalue(),
                'registry': dump(S.registry), 'optimize': sys.flags.optimize,
                'names': sorted(n for n in ('registry', 'calloutParsers', 'srcParsers',
                                            'SRC', 'Callout', 'FRUIdentity', 'PCEIdentity',
                                            'MRU', 'MRUCallout', 'get_value', 'HeaderFlags',
                                            'ErrorStatusFlags', 'Flags') if hasattr(S, n))}]
    for case in cases:
        so, se = io.StringIO(), io.StringIO()
        rec = {'id': case['id'], 'res': {}}
        try:
            with contextlib.redirect_stdout(so), contextlib.redirect_stderr(se):
                try:
                    run_case(case, rec['res'])
                except BaseException as e:
                    rec['exc'] = [type(e).__name__, str(e), repr(getattr(e, 'args', None)),
                                  getattr(e, 'code', None) if isinstance(e, SystemExit) else None]
        finally:
            rec['stdout'] = so.getvalue()
            rec['stderr'] = se.getvalue()
            rec['caches'] = caches()
        results.append(rec)
    sys.__stdout__.write(json.dumps(results))


main()
'''


# --------------------------------------------------------------------------
# case generation
# --------------------------------------------------------------------------

CREATORS = ['B', 'O', 'P', 'H', 'T', 'K', 'Z', 'b', '', '.', 'BB']
ASCIIS = [b'BD8DE500', b'BD8DE510', b'BD8D2030', b'BD8D2031', b'BD8D2033', b'BD8D2034', b'BD8D2035',
          b'BD8D2036', b'BD8D2037', b'BD8D2038', b'BD8D2039', b'BD8D203A',
          b'BD8D203B', b'BD8D203C', b'BD8D9999', b'11001100', b'1100ABCD',
          b'BC8ABC01', b'BC8A0000', b'B7001234', b'A7001234', b'', b'B',
          b'BD', b'bd8d2030', b'BD8D2030   trailing', b'\x00' * 32,
          b'BD8D20\xc3\xa9\xc3\xa9\xc3\xa9', b'BD\xff\xfe2030',
          b'ZZ000005', b'BD8D0x20']


def std_callouts(rnd=None):
    """a list of interesting callout subsections"""
    loc = b'U78DA.ND1.1234567-P0\x00\x00\x00\x00'
    res = []
    res.append(callouts([callout(subs=[fru(0x18)])]))
    res.append(callouts([callout(subs=[fru(0x1D)]),
                         callout(0x4D, loc=b'', subs=[fru(0x22, pn=b'BMC0001')]),
                         callout(0x4C, subs=[fru(0x9F), pce(), mru()])]))
    res.append(callouts([callout(0x41, subs=[fru(0x42, pn=p)])
                         for p in (b'BMC0002', b'EMPTY01', b'NONE001', b'BADJS01',
                                   b'RAISE01', b'DICT001', b'NULL001', b'OTHER01')]))
    res.append(callouts([callout(0x42, subs=[fru(0x42, pn=b'EXIT001')])]))
    res.append(callouts([callout(0x43, subs=[pce(name=b'')])]))
    res.append(callouts([callout(0x43, subs=[pce(mtm=b'', sn=b'', name=b'nm')])]))
    res.append(callouts([callout(0x43, subs=[pce(size=20)])]))
    res.append(callouts([callout(0x43, subs=[pce(size=0)])]))
    res.append(callouts([callout(0x99, subs=[mru(ids=())])]))
    res.append(callouts([callout(0x48, subs=[mru(ids=[(1, i) for i in range(15)])])]))
    res.append(callouts([callout(0x48, subs=[mru(), mru(ids=((1, 2),))])]))
    res.append(callouts([callout(0x48, subs=[fru(0x18), fru(0x14), pce(), pce(name=b'second\x00\x00')])]))
    res.append(callouts([callout(0x48, subs=[b'XX\x04\x00', fru(0x18)])]))
    res.append(callouts([callout(0x48, loc=loc, subs=[fru(0x18)], size=4 + len(loc))]))
    res.append(callouts([callout(0x48, subs=[fru(0x18)], size=0xFF)]))
    res.append(callouts([callout(0x48, subs=[fru(0x18)])], wordlen=1))
    res.append(callouts([callout(0x48, subs=[fru(0x18)])], wordlen=0))
    res.append(callouts([callout(0x48, subs=[fru(0x18)])], wordlen=0x40))
    res.append(callouts([callout(0x48, loc=b'\xff\xfeABCD\x00\x00', subs=[fru(0x18)])]))
    res.append(callouts([callout(0x48, subs=[fru(0x18, pn=b'\xff\xff\xff')])]))
    res.append(callouts([callout(0x48, subs=[fru(0x1F, ccin=b'\xc3\x28', sn=b'ok')])]))
    res.append(callouts([callout(0x48, subs=[fru(0x1F, sn=b'\xe2\x82')])]))
    res.append(callouts([callout(0x48, subs=[pce(mtm=b'\xff')])]))
    res.append(callouts([callout(0x48, subs=[pce(name=b'\xff\x00\x00\x00')])]))
    res.append(callouts([callout(0x48, subs=[fru(0x00)])]))
    res.append(callouts([callout(0x48, subs=[fru(0x0A, pn=b'BMC0003')])]))
    res.append(callouts([callout(0x48, subs=[fru(0xFF, pn=b'BMC0004')])]))
    res.append(callouts([callout(0x48, loc=b'\x00\x00\x00\x00', subs=[fru(0x10)])]))
    res.append(callouts([callout(0x48, loc=b'  U1 \x00\x00\x00', subs=[fru(0x10)])]))
    res.append(callouts([]))
    res.append(callouts([callout(0x48, loc=b'', subs=[])]))
    res.append(b'')
    res.append(b'\xC0')
    res.append(b'\xC0\x00\x00')
    return res


def rnd_fru(rnd):
    flags = rnd.choice([0x10, 0x18, 0x14, 0x11, 0x12, 0x1F, 0x42, 0x4A, 0x96,
                        rnd.randrange(256)])
    pn = rnd.choice([b'PN00001', b'BMC0009', b'EMPTY02', b'RAISE02', b'BADJS02',
                     b'', b'\x00\x00', bytes(rnd.randrange(32, 127) for _ in range(8))])
    size = None if rnd.random() < 0.8 else rnd.randrange(256)
    return fru(flags, pn=pn, ccin=rnd.choice([b'2B3F', b'', b'\x00AB\x00']),
               sn=rnd.choice([b'YA1934567890', b'', b'S\x00N']), size=size)


def rnd_pce(rnd):
    name = rnd.choice([b'', b'pce\x00', b'longer pce name\x00', b'\x00\x00\x00\x00'])
    size = None if rnd.random() < 0.7 else rnd.choice([0, 4, 23, 24, 25, 28, 60, 255])
    return pce(mtm=rnd.choice([b'9105-22A', b'', b'M']),
               sn=rnd.choice([b'SN1234567890', b'', b'1']), name=name, size=size,
               flags=rnd.randrange(256))


def rnd_mru(rnd):
    n = rnd.choice([0, 1, 2, 3, 15])
    ids = [(rnd.randrange(1 << 32), rnd.randrange(1 << 32)) for _ in range(n)]
    flags = None if rnd.random() < 0.7 else rnd.randrange(256)
    size = None if rnd.random() < 0.8 else rnd.randrange(256)
    return mru(ids, size=size, flags=flags)


def rnd_callout(rnd):
    subs = []
    for _ in range(rnd.choice([0, 1, 1, 2, 3, 4])):
        r = rnd.random()
        if r < 0.5:
            subs.append(rnd_fru(rnd))
        elif r < 0.7:
            subs.append(rnd_pce(rnd))
        elif r < 0.9:
            subs.append(rnd_mru(rnd))
        else:
            subs.append(bytes(rnd.randrange(256) for _ in range(rnd.randrange(1, 9))))
    loc = rnd.choice([b'', b'U78DA.ND1.1234567-P0\x00\x00\x00\x00', b'Ufcs-P0\x00',
                      b'\x00\x00\x00\x00', b'abc\x00'])
    size = None if rnd.random() < 0.8 else rnd.randrange(256)
    locsize = None if rnd.random() < 0.9 else rnd.randrange(64)
    return callout(rnd.choice([0x48, 0x4D, 0x41, 0x42, 0x43, 0x4C, 0, 0xFF]), loc=loc,
                   subs=subs, size=size, locsize=locsize)


def rnd_callouts(rnd):
    cos = [rnd_callout(rnd) for _ in range(rnd.choice([0, 1, 1, 2, 3, 5]))]
    wordlen = None if rnd.random() < 0.8 else rnd.choice([0, 1, 2, 5, 0x20, 0xFFFF])
    return callouts(cos, wordlen=wordlen)


def rnd_src(rnd):
    flags = rnd.choice([0x00, 0x01, 0x01, 0x01, 0x81, 0x95, 0x14, 0xFF, rnd.randrange(256)])
    wc = rnd.choice([9, 9, 9, 9, 0, 1, 2, 3, 5, 8, 10, 11, 255])
    hexdata = [rnd.choice([0, 0xFFFFFFFF, 0x23000000, 0x20000000, 0x02000000, 0x01000000,
                           rnd.randrange(1 << 32)]) for _ in range(8)]
    # hex word 4 (index 2) selects the behaviour of the fake SRC parser
    if rnd.random() < 0.7:
        hexdata[2] = (hexdata[2] & 0xFFFFFF00) | rnd.choice([0, 1, 2, 3, 4, 5, 6, 7, 8, 9])
    ascii = rnd.choice(ASCIIS)
    co = rnd_callouts(rnd) if rnd.random() < 0.85 else b''
    return src_body(version=rnd.choice([1, 2, 0xFF]), flags=flags, wordcount=wc,
                    hexdata=hexdata, ascii=ascii, co=co, r1=rnd.randrange(256),
                    r2=rnd.randrange(65536))


MALFORMED_PELS = [
    [],
    [{}],
    [{"SRC": {}}],
    [{"SRC": {"ReasonCode": "0x2030"}}],
    [{"SRC": {"ReasonCode": "0x2030"}, "Documentation": {}}],
    [{"SRC": {"ReasonCode": "0x2030"}, "Documentation": {"Message": None}}],
    [{"SRC": {"ReasonCode": "0x2030", "Type": "11"}, "Documentation": {"Message": "p"}},
     {"SRC": {"ReasonCode": "0x2030", "Type": "BD"}, "Documentation": {"Message": "b"}}],
    [{"SRC": "ReasonCode 0x2030"}],
    [{"SRC": ["ReasonCode"]}],
    [{"SRC": None}],
    [{"SRC": {"ReasonCode": 5}, "Documentation": {"Message": "p"}}],
    [{"SRC": {"ReasonCode": None}, "Documentation": {"Message": "p"}}],
    [{"SRC": {"ReasonCode": ["0x2030"], "Words6To9": {"6": {}}},
      "Documentation": {"Message": "p", "MessageArgSources": None}}],
    [{"SRC": {"ReasonCode": {"0x2030": 1}, "Words6To9": []},
      "Documentation": {"Message": "p", "MessageArgSources": []}}],
    [{"SRC": {"ReasonCode": "0x2030", "Words6To9": 0}, "Documentation": ["Message"]}],
    [{"SRC": {"ReasonCode": "0x2030"}, "Documentation": "Message"}],
    [{"SRC": {"ReasonCode": "0x2030"}, "Documentation": {"Message": "m",
                                                         "MessageArgSources": "SRCWord6"}}],
    ["notadict"],
    [None],
    [{"SRC": {"ReasonCode": "0x9999"}, "Documentation": {"Message": "other"}},
     {"Documentation": {"Message": "no src"}}],
    [{"SRC": {"ReasonCode": "0x20300x2031", "Type": None}, "Documentation": {"Message": "m"}}],
    [{"SRC": {"ReasonCode": "0x2030", "Type": None}, "Documentation": {"Message": "m"}}],
    {"SRC": 1},
    "string",
]


def gen_cases(seed: int):
    rnd = random.Random(seed)
    cases = []

    def add(**kw):
        cases.append(kw)

    base_cos = std_callouts()

    # --- registry construction variants
    for v in ['ok', 'missing', 'missing_bmc_file', 'missing_bmc_nofile', 'getpath_mnfe',
              'getpath_mnfe_bmc', 'getpath_importerror', 'getpath_err', 'noattr',
              'empty_path', 'none_path', 'zero_path', 'int_path', 'badjson', 'nopels',
              'listjson', 'pelsdict', 'dir', 'nonexist', 'ok']:
        add(kind='reginit', variant=v)

    # --- registry look-ups on the fixture registry
    for typ in ['BD', '11', 'BC', 'ZZ', '', 'bd']:
        for code in ['0x2030', '0x2031', '0x2032', '0x2033', '0x2034', '0x2035', '0x2036',
                     '0x1100', '0xBC01', '0x9999', '0x', '', '2030', '0x20', 5, None,
                     '0x2039', '0x203A', '0x203B']:
            add(kind='fixturemsg', code=code, type=typ)
    # --- look-ups on malformed registries
    for pels in MALFORMED_PELS:
        for typ in ['BD', '11', None]:
            for code in ['0x2030', '0x2031', 'Reason', 5]:
                add(kind='regmsg', pels=pels, code=code, type=typ)
    add(kind='regmsg', pels=REGISTRY['PELs'], code='0x2030', type='BD')
    add(kind='regmsg', pels=REGISTRY['PELs'], code='0x203B', type='BD')

    # --- get_value
    for start in (0, 1, 5, 6, 10):
        for end in (0, 1, 2, 4):
            add(kind='getvalue', data='0102030405ff', start=start, end=end)

    # --- error details through the module registry
    for code in ['2030', '2031', '2033', '2034', '2035', '2036', '2037', '2038', '2039',
                 '203A', '203B', '203C', '9999', '']:
        for typ in ['BD', '11']:
            for hd in ([1, 2, 3, 4, 5, 6, 7, 8], [], [1, 2, 3, 4, 5]):
                add(kind='details', code=code, type=typ, hexdata=hd)

    # --- stand-alone structures, all truncations
    structs = {
        'fru': [fru(f) for f in (0x00, 0x10, 0x18, 0x14, 0x11, 0x12, 0x1A, 0x1F, 0xFF)] +
               [fru(0x1F, pn=b'\xff' * 8), fru(0x1F, ccin=b'\xff'), fru(0x1F, sn=b'\xc3')],
        'pce': [pce(), pce(name=b''), pce(size=0), pce(size=23), pce(size=24), pce(size=25),
                pce(size=255), pce(mtm=b'\xff'), pce(sn=b'\xff'), pce(name=b'\xff\x00')],
        'mru': [mru(), mru(ids=()), mru(flags=0xFF), mru(flags=0xF0),
                mru(ids=[(i, i) for i in range(15)]), mru(size=0)],
        'callout': [c[4:] for c in base_cos if len(c) > 4],
    }
    for kind, blobs in structs.items():
        for blob in blobs:
            lens = range(len(blob) + 1) if len(blob) < 70 else \
                sorted(set(list(range(0, 12)) + list(range(0, len(blob) + 1, 3)) + [len(blob)]))
            for n in lens:
                add(kind=kind, data=blob[:n].hex())
            add(kind=kind, data=(blob + b'IDtrailing garbage').hex())
            add(kind=kind, data=blob.hex(), view='memoryview')
            add(kind=kind, data=blob.hex(), view='bytearray')
    for _ in range(250):
        add(kind='callout', data=rnd_callout(rnd).hex())
    for _ in range(150):
        add(kind='callout', data=bytes(rnd.randrange(256) for _ in range(rnd.randrange(0, 80))).hex())
    for _ in range(100):
        # random data biased to contain the magic type values
        parts = [rnd.choice([b'ID', b'PE', b'MR', bytes([rnd.randrange(256)]),
                             bytes([rnd.randrange(8)])]) for _ in range(rnd.randrange(2, 40))]
        add(kind='callout', data=b''.join(parts).hex())

    # --- callout subsection directly
    for co in base_cos:
        for creator in ('B', 'O', 'P', 'H', 'K'):
            add(kind='getcallouts', data=co.hex(), creator=creator)
        add(kind='getcallouts', data=co.hex(), creator='B', plugins=False)
        add(kind='getcallouts', data=co.hex(), creator='T')
    for _ in range(200):
        add(kind='getcallouts', data=rnd_callouts(rnd).hex(),
            creator=rnd.choice(CREATORS), plugins=rnd.random() < 0.8)

    # --- procedure descriptions directly
    for creator in CREATORS + ['B', 'O', 'P', 'T']:
        for proc in ['BMC0001', 'EMPTY', 'NONE', 'BADJS', 'RAISE', 'EXIT', 'DICT', 'NULL',
                     'zzz', '']:
            add(kind='procdesc', creator=creator, proc=proc)

    # --- SRC.parse directly
    words = ['%08X' % i for i in range(12)]
    for creator in CREATORS + ['B', 'O', 'P', 'T', 'K', 'H']:
        for n in (0, 1, 7, 8, 9, 12):
            add(kind='parse', creator=creator, ascii='BD8D2030   ', hexwords=words[:n])
        for sel in range(10):
            hw = list(words[:8])
            hw[2] = '000000%02X' % sel
            add(kind='parse', creator=creator, ascii=' BD8D2030 \n', hexwords=hw)

    # --- complete SRC sections
    for ascii in ASCIIS:
        for flags in (0x00, 0x01, 0x95):
            for creator in ('B', 'O'):
                add(kind='src', creator=creator,
                    data=src_body(flags=flags, ascii=ascii, co=base_cos[1]).hex())
    for co in base_cos:
        for creator in ('B', 'O', 'P', 'H', 'K', 'Z'):
            add(kind='src', creator=creator, data=src_body(flags=0x01, co=co).hex())
            add(kind='src', creator=creator, plugins=False,
                data=src_body(flags=0x01, co=co).hex())
        add(kind='src', creator='T', data=src_body(flags=0x01, co=co).hex())
    for wc in list(range(0, 14)) + [0x7F, 0xFF]:
        for flags in (0, 1):
            add(kind='src', creator='B',
                data=src_body(flags=flags, wordcount=wc, co=base_cos[0]).hex())
    for sel in range(10):
        hd = [0x020000E0, 0x2B3F0000, sel, 0x23000000, 5, 6, 7, 8]
        for creator in ('B', 'O', 'P', 'T', 'H', 'K'):
            add(kind='src', creator=creator, data=src_body(hexdata=hd).hex())
            add(kind='src', creator=creator, plugins=False, data=src_body(hexdata=hd).hex())
    for w in (0, 0x20000000, 0x02000000, 0x01000000, 0x23000000, 0xFFFFFFFF):
        for ascii in (b'BD8D2030', b'11001100', b'BC8ABC01', b'B7001234'):
            hd = [0xFFFFFFFF, 0xABCD1234, 0, w, 5, 6, 7, 8]
            add(kind='src', creator='B', data=src_body(hexdata=hd, ascii=ascii).hex())
    for comp in (0x1000, 0x2000, 0x4142, 0x0041, 0xFFFF):
        for creator in ('B', 'O', 'H', 'Z'):
            add(kind='src', creator=creator, comp=comp, data=src_body().hex())
    full = src_body(flags=0x01, co=base_cos[1])
    for n in range(len(full) + 1):
        add(kind='src', creator='B', data=full[:n].hex())
    full2 = src_body(flags=0x01, co=base_cos[2], ascii=b'11001100')
    for n in range(60, len(full2) + 1, 2):
        add(kind='src', creator='O', data=full2[:n].hex())
    add(kind='src', creator='B', data=full.hex(), view='memoryview')
    add(kind='src', creator='B', data=full.hex(), view='bytearray')
    add(kind='src', creator='B', data=full.hex(), preset={'hexData': [1, 2, 3]})
    add(kind='src', creator='B', data=src_body(wordcount=12).hex(),
        preset={'hexData': list(range(20))})
    add(kind='twice', creator='B', data=full.hex(), data2=full2.hex())
    add(kind='twice', creator='B', data=src_body(wordcount=11).hex(), data2=full2.hex())
    add(kind='twice', creator='B', data=full.hex(), data2=full[:50].hex())
    for _ in range(400):
        blob = bytearray(full if rnd.random() < 0.5 else full2)
        for _ in range(rnd.choice([1, 1, 2, 4, 8])):
            blob[rnd.randrange(len(blob))] = rnd.randrange(256)
        add(kind='src', creator=rnd.choice(['B', 'B', 'O', 'P', 'H']), data=bytes(blob).hex(),
            plugins=rnd.random() < 0.8)
    for _ in range(700):
        add(kind='src', creator=rnd.choice(CREATORS), data=rnd_src(rnd).hex(),
            plugins=rnd.random() < 0.8, comp=rnd.choice([0x1000, 0x2000, 0x4142]))
    for _ in range(100):
        add(kind='src', creator='B',
            data=bytes(rnd.randrange(256) for _ in range(rnd.randrange(0, 200))).hex())

    # --- swap in malformed registries and decode again, then restore
    for pels in MALFORMED_PELS[:22]:
        add(kind='setpels', pels=pels)
        for ascii in (b'BD8D2030', b'11001100', b'BC8A2030', b'B7002030'):
            add(kind='src', creator='B', data=src_body(flags=1, ascii=ascii,
                                                       co=base_cos[0]).hex())
    add(kind='setpels', pels='__fixture__')
    add(kind='src', creator='B', data=full.hex())

    # --- clear caches and decode again (fresh imports in a used process)
    add(kind='clearcaches')
    for creator in ('B', 'O', 'P', 'T', 'K', 'H', 'B', 'O', 'P', 'T', 'K', 'H'):
        add(kind='src', creator=creator, data=src_body(flags=0x01, co=base_cos[2]).hex())

    for i, c in enumerate(cases):
        c['id'] = i
    return cases


# --------------------------------------------------------------------------
# CLI cases
# --------------------------------------------------------------------------

def make_pel_files(work: str):
    rnd = random.Random(4711)
    cos = std_callouts()
    pels = {}
    pels['good_b.pel'] = pel(b'B', [src_body(flags=1, co=cos[1])], [user_data()])
    pels['good_o.pel'] = pel(b'O', [src_body(flags=1, co=cos[2], ascii=b'11001100')],
                             eid=0x50000013)
    pels['two_src.pel'] = pel(b'B', [src_body(flags=1, co=cos[0]),
                                     src_body(flags=0, ascii=b'BC8ABC01')], [user_data()],
                              eid=0x50000014)
    pels['nocallouts.pel'] = pel(b'B', [src_body(flags=0)], eid=0x50000015)
    pels['hb.pel'] = pel(b'B', [src_body(flags=0x95, ascii=b'BC8ABC01',
                                         hexdata=[1, 2, 9, 0x03000000, 5, 6, 7, 8])],
                         eid=0x50000016)
    pels['wc12.pel'] = pel(b'B', [src_body(wordcount=12)], eid=0x50000017)
    pels['nomsg.pel'] = pel(b'B', [src_body(ascii=b'BD8D2033')], eid=0x50000018)
    pels['pce_small.pel'] = pel(b'B', [src_body(flags=1, co=cos[6])], eid=0x50000019)
    pels['badutf.pel'] = pel(b'B', [src_body(ascii=b'BD\xff\xfe2030')], eid=0x5000001A)
    pels['exitproc.pel'] = pel(b'B', [src_body(flags=1, co=cos[3])], eid=0x5000001B)
    pels['t_creator.pel'] = pel(b'T', [src_body(flags=1, co=cos[2])], eid=0x5000001C)
    pels['p_creator.pel'] = pel(b'P', [src_body(flags=1, co=cos[2])], eid=0x50000022)
    pels['o_e500.pel'] = pel(b'O', [src_body(flags=1, co=cos[1], ascii=b'BD8DE510')],
                             eid=0x50000023)
    pels['k_creator.pel'] = pel(b'K', [src_body(flags=1, co=cos[2])], eid=0x5000001D)
    pels['h_creator.pel'] = pel(b'H', [src_body(flags=1, co=cos[2])], eid=0x5000001E,
                                comp=0x4142)
    pels['srcexit.pel'] = pel(b'B', [src_body(hexdata=[1, 2, 7, 4, 5, 6, 7, 8])],
                              eid=0x5000001F)
    pels['srcbad.pel'] = pel(b'B', [src_body(hexdata=[1, 2, 3, 4, 5, 6, 7, 8])],
                             eid=0x50000020)
    pels['srcraise.pel'] = pel(b'B', [src_body(hexdata=[1, 2, 4, 4, 5, 6, 7, 8])],
                               eid=0x50000021)
    good = pels['good_b.pel']
    pels['trunc1.pel'] = good[:100]
    pels['trunc2.pel'] = good[:150]
    pels['trunc3.pel'] = good[:190]
    pels['trunc4.pel'] = good[:-30]
    for i in range(12):
        blob = bytearray(good)
        for _ in range(3):
            blob[rnd.randrange(80, len(blob))] = rnd.randrange(256)
        pels['fuzz%02d.pel' % i] = bytes(blob)
    for i in range(6):
        pels['rnd%02d.pel' % i] = pel(rnd.choice([b'B', b'O']), [rnd_src(rnd)],
                                      eid=0x50000100 + i)
    d = os.path.join(work, 'pels')
    os.makedirs(d)
    for name, blob in pels.items():
        with open(os.path.join(d, name), 'wb') as f:
            f.write(blob)
    return d, sorted(pels)


def snapshot_dir(d: str):
    res = []
    for root, dirs, files in os.walk(d):
        dirs.sort()
        for fn in sorted(files):
            p = os.path.join(root, fn)
            with open(p, 'rb') as f:
                res.append([os.path.relpath(p, d), f.read().hex()])
    return res


def run_cli(root, plug, work, tag, args, opt=False, indir=None, outdir=False):
    """returns a comparable record of one CLI run"""
    env = dict(os.environ)
    env['PYTHONPATH'] = plug + os.pathsep + os.path.join(root, 'modules')
    env['PYTHONDONTWRITEBYTECODE'] = '1'
    env.pop('PYTHONOPTIMIZE', None)
    scratch = tempfile.mkdtemp(prefix='cli_', dir=work)
    try:
        argv = [PY] + (['-O'] if opt else []) + \
            [os.path.join(root, 'modules', 'pel', 'peltool', 'peltool.py')]
        sub = {}
        if indir:
            # private copy, the run may delete files
            priv = os.path.join(scratch, 'in')
            shutil.copytree(indir, priv)
            sub['{IN}'] = priv
        if outdir:
            o = os.path.join(scratch, 'out')
            os.makedirs(o)
            sub['{OUT}'] = o
        real = []
        for a in args:
            for k, v in sub.items():
                a = a.replace(k, v)
            real.append(a)
        p = subprocess.run(argv + real, env=env, cwd=scratch, stdin=subprocess.DEVNULL,
                           stdout=subprocess.PIPE, stderr=subprocess.PIPE, timeout=120)
        so = p.stdout.decode('utf-8', 'replace')
        se = p.stderr.decode('utf-8', 'replace')
        for txt in (scratch, root):
            so = so.replace(txt, '<P>')
            se = se.replace(txt, '<P>')
        rec = {'args': args, 'opt': opt, 'rc': p.returncode, 'stdout': so, 'stderr': se}
        if indir:
            rec['in_after'] = snapshot_dir(sub['{IN}'])
        if outdir:
            rec['out_after'] = snapshot_dir(sub['{OUT}'])
        return rec
    finally:
        shutil.rmtree(scratch, ignore_errors=True)


def cli_cases(names):
    cases = []
    for n in names:
        cases.append(dict(args=['-f', '{IN}/' + n], indir=True))
    for n in names:
        if n.startswith(('good', 'two', 'hb', 'pce', 'exit', 't_', 'k_', 'p_', 'o_', 'srcexit', 'fuzz0')):
            cases.append(dict(args=['-P', '-f', '{IN}/' + n], indir=True))
            cases.append(dict(args=['-f', '{IN}/' + n], indir=True, opt=True))
    cases.append(dict(args=['-f', '{IN}/good_b.pel', '-x'], indir=True))
    cases.append(dict(args=['-f', '{IN}/good_b.pel', '-c'], indir=True))
    cases.append(dict(args=['-f', '{IN}/trunc3.pel', '-c'], indir=True))
    cases.append(dict(args=['-f', '{IN}/does_not_exist.pel'], indir=True))
    for extra in ([], ['-P'], ['-E'], ['-r'], ['-x']):
        cases.append(dict(args=['-p', '{IN}', '-l'] + extra, indir=True))
    # 't_creator' aborts the directory walks through SystemExit: also run without it
    cases.append(dict(args=['-p', '{IN}', '-a'], indir=True))
    cases.append(dict(args=['-p', '{IN}', '-a', '-P'], indir=True))
    cases.append(dict(args=['-p', '{IN}', '-a'], indir=True, opt=True))
    cases.append(dict(args=['-p', '{IN}', '-n'], indir=True))
    cases.append(dict(args=['-p', '{IN}', '--src', 'BD8D2030'], indir=True))
    cases.append(dict(args=['-p', '{IN}', '--src', '1100'], indir=True))
    cases.append(dict(args=['-p', '{IN}', '--plid', '0x50000012'], indir=True))
    cases.append(dict(args=['-p', '{IN}', '-i', '50000012'], indir=True))
    cases.append(dict(args=['-p', '{IN}', '--bmc-id', '18'], indir=True))
    cases.append(dict(args=['-p', '{IN}', '-j', '-o', '{OUT}'], indir=True, outdir=True))
    cases.append(dict(args=['-p', '{IN}', '-j', '-o', '{OUT}', '-c', '-P'], indir=True,
                      outdir=True))
    cases.append(dict(args=['-p', '{IN}', '-j', '-o', '{OUT}', '-c', '-r'], indir=True,
                      outdir=True, opt=True))
    return cases


# --------------------------------------------------------------------------
# driver
# --------------------------------------------------------------------------

def run_harness(root, plug, work, cases_file, opt):
    env = dict(os.environ)
    env['PYTHONPATH'] = plug + os.pathsep + os.path.join(root, 'modules')
    env['PYTHONDONTWRITEBYTECODE'] = '1'
    env.pop('PYTHONOPTIMIZE', None)
    harness = os.path.join(work, 'harness.py')
    argv = [PY] + (['-O'] if opt else []) + [harness, cases_file, plug]
    p = subprocess.run(argv, env=env, cwd=work, stdin=subprocess.DEVNULL,
                       stdout=subprocess.PIPE, stderr=subprocess.PIPE, timeout=1800)
    if p.returncode != 0:
        sys.stderr.write(p.stderr.decode('utf-8', 'replace'))
        raise RuntimeError('harness failed for %s (rc=%d)' % (root, p.returncode))
    text = p.stdout.decode('utf-8').replace(root, '<P>')
    return json.loads(text)


def main():
    if len(sys.argv) != 3:
        sys.exit(__doc__)
    pristine, patched = (os.path.abspath(a) for a in sys.argv[1:3])
    work = tempfile.mkdtemp(prefix='diffcheck_work_',
                            dir=os.path.dirname(os.path.abspath(__file__)))
    ncases = 0
    ndiff = 0
    try:
        plug = make_fixtures(work)
        with open(os.path.join(work, 'harness.py'), 'w') as f:
            f.write(HARNESS)

        # 1. in-process harness: two seeds/orders, with and without -O
        for seed, opt, shuffle in ((1, False, False), (1, True, False), (2, False, True),
                                   (3, True, True)):
            cases = gen_cases(seed)
            if shuffle:
                random.Random(seed * 77).shuffle(cases)
            cf = os.path.join(work, 'cases_%d_%d.json' % (seed, opt))
            with open(cf, 'w') as f:
                json.dump(cases, f)
            a = run_harness(pristine, plug, work, cf, opt)
            b = run_harness(patched, plug, work, cf, opt)
            if len(a) != len(b) or len(a) != len(cases) + 1:
                print('DIFF: record count %d vs %d (cases %d)' % (len(a), len(b), len(cases)))
                ndiff += 1
            for i, (ra, rb) in enumerate(zip(a, b)):
                ncases += 1
                if ra != rb:
                    ndiff += 1
                    if ndiff <= 10:
                        case = cases[i - 1] if i else 'boot'
                        print('DIFF (seed %d, -O %s) case: %s' % (
                            seed, opt, json.dumps(case)[:600]))
                        print('  pristine: %s' % json.dumps(ra)[:1500])
                        print('  patched : %s' % json.dumps(rb)[:1500])

        # 2. the command line tool
        indir, names = make_pel_files(work)
        for c in cli_cases(names):
            ra = run_cli(pristine, plug, work, 'a', c['args'], c.get('opt', False),
                         indir if c.get('indir') else None, c.get('outdir', False))
            rb = run_cli(patched, plug, work, 'b', c['args'], c.get('opt', False),
                         indir if c.get('indir') else None, c.get('outdir', False))
            ncases += 1
            if ra != rb:
                ndiff += 1
                if ndiff <= 10:
                    print('DIFF cli %s' % (c,))
                    print('  pristine: %s' % json.dumps(ra)[:1500])
                    print('  patched : %s' % json.dumps(rb)[:1500])
    finally:
        shutil.rmtree(work, ignore_errors=True)

    if ndiff:
        print('DIFFERENT (%d of %d cases differ)' % (ndiff, ncases))
        sys.exit(1)
    print('IDENTICAL (%d cases)' % ncases)
    sys.exit(0)


if __name__ == '__main__':
    main()
