#!/usr/bin/env python3
"""
Differential check for refactorings of modules/io_drawer/*.py and
modules/udparsers/m2c00/m2c00.py.

Usage: diffcheck.py <pristine_root> <patched_root>

Builds a deterministic corpus of inputs (header files, trace string files,
binary ilog / history log / trace data, hex dump files, binary PELs), then
runs the same driver script against both source trees in separate python
processes (with and without -O) and compares every result.  Also runs the
dump.py CLI and peltool.py as subprocesses.

Prints "IDENTICAL (<n> cases)" and exits 0 if everything is the same,
otherwise prints the differing cases and exits 1.
"""

import json
import os
import random
import re
import shutil
import struct
import subprocess
import sys
import tempfile

PY = sys.executable

# ---------------------------------------------------------------------------
# Driver: executed in a subprocess with PYTHONPATH=<root>/modules
# ---------------------------------------------------------------------------

DRIVER = r'''
import contextlib, io, json, os, sys

workdir = sys.argv[1]
root = sys.argv[2]
with open(os.path.join(workdir, 'cases.json')) as f:
    cases = json.load(f)

import io_drawer.drawer_type as drawer_type
import io_drawer.utils as utils
import io_drawer.hlog as hlog
import io_drawer.ilog as ilog
import io_drawer.trace as trace
import io_drawer.dump as dump
import udparsers.m2c00.m2c00 as m2c00
from pel.datastream import DataStream


def norm(s):
    return s.replace(root, '<ROOT>')


def mv(hexstr):
    return memoryview(bytes.fromhex(hexstr))


def entry_state(e):
    return (e.pte_pattern, e.message_format, e.params, e.file, e.line,
            e.pte_re.pattern, int(e.pte_re.flags))


def ts_state(t):
    if t is None:
        return None
    return (t.hash_value, t.message_format, t.location)


def data_repr(d):
    if d is None:
        return None
    return bytes(d).hex()


def tentry_state(e):
    return (e.tbh, e.tbl, e.length, e.tag, e.hash_value, e.line,
            data_repr(e.data))


def hdr_state(h):
    if h is None:
        return None
    return (h.ver, h.hdr_len, h.time_flg, h.endian_flg, h.comp, h.size,
            h.times_wrap, h.next_free)


def mkstream(spec):
    return DataStream(mv(spec['data']), byte_order=spec.get('bo', 'big'),
                      is_signed=spec.get('signed', False))


def make_tentry(spec):
    e = trace.TraceEntry()
    e.tbh = spec['tbh']
    e.tbl = spec['tbl']
    e.length = spec['length']
    e.tag = spec['tag']
    e.hash_value = spec['hash']
    e.line = spec['line']
    d = spec['data']
    if d is None:
        e.data = None
    elif spec.get('as_bytes'):
        e.data = bytes.fromhex(d)
    else:
        e.data = mv(d)
    return e


def run(case):
    k = case['kind']
    a = case['args']
    if k == 'ud':
        return m2c00.parseUDToJson(a['sub_type'], a['version'], mv(a['data']))
    if k == 'ud_helpers':
        out = []
        for fn in ('_parse_hlog', '_parse_ilog', '_parse_trace',
                   '_parse_unsupported'):
            f = getattr(m2c00, fn, None)
            if f is None:
                out.append('missing')
                continue
            try:
                out.append(f(a['version'], mv(a['data'])))
            except Exception as e:
                out.append(type(e).__name__ + ': ' + str(e))
        try:
            out.append(m2c00._get_drawer_type(a['version']).name)
        except Exception as e:
            out.append(type(e).__name__ + ': ' + str(e))
        return out
    if k == 'hlog_fields':
        fields = hlog.get_hlog_fields(a['path'])
        return [(repr(f), tuple(f), f.name, f.size, type(f).__name__)
                for f in fields]
    if k == 'hlog_parse':
        return hlog.parse_hlog_data(mv(a['data']), a['path'])
    if k == 'pte_table':
        t = ilog.PTETable(a['path'])
        out = {'path': t.header_file_path,
               'entries': [entry_state(e) for e in t.entries]}
        res = []
        for pte in a['ptes']:
            e = t.get_entry(pte)
            if e is None:
                res.append(None)
            else:
                res.append((t.entries.index(e), e.get_message(pte),
                            e.matches(pte), e._is_exact_match(pte),
                            e._is_reported_error_pte(pte)))
        out['lookups'] = res
        # re-parse must append again
        t._parse_header_file()
        out['n_after_reparse'] = len(t.entries)
        return out
    if k == 'pte_entry':
        e = ilog.PTETableEntry(a['pattern'], a['fmt'], tuple(a['params']),
                               a['file'], a['line'])
        out = [entry_state(e)]
        for pte in a['ptes']:
            out.append((e.get_message(pte), e.matches(pte),
                        e._is_exact_match(pte), e._is_reported_error_pte(pte)))
        return out
    if k == 'pte_add':
        t = ilog.PTETable(a['path'])
        n0 = len(t.entries)
        out = []
        for fields in a['fields_list']:
            try:
                r = t._add_entry(tuple(fields))
                out.append(('ok', r, len(t.entries) - n0))
            except Exception as e:
                out.append((type(e).__name__, str(e), len(t.entries) - n0))
        out.append([entry_state(e) for e in t.entries[n0:]])
        return out
    if k == 'ilog_parse':
        return ilog.parse_ilog_data(mv(a['data']), a['path'])
    if k == 'timestamp':
        return [utils.format_timestamp(t) for t in range(a['lo'], a['hi'])]
    if k == 'timestamp_odd':
        out = []
        for t in (True, False, 1.5, 65534.5, 3600.0, float('nan'),
                  float('inf'), -0.5, 0xFFFE, 0xFFFF, 10**12):
            try:
                out.append(utils.format_timestamp(t))
            except Exception as e:
                out.append(type(e).__name__ + ': ' + str(e))
        return out
    if k == 'drawer_types':
        out = []
        for d in drawer_type.DRAWER_TYPES:
            out.append((d.name, d.header_file_name, d.string_file_name,
                        d.user_data_version, norm(d.get_header_file_path()),
                        norm(d.get_trace_string_file_path()),
                        sorted(vars(d).keys())))
        d = drawer_type.DrawerType('x', a['h'], a['s'], 7)
        out.append((d.name, norm(d.get_header_file_path()),
                    norm(d.get_trace_string_file_path()), d.user_data_version))
        out.append(drawer_type.MEX_DRAWER_TYPE is drawer_type.DRAWER_TYPES[0])
        out.append(drawer_type.NIMITZ_DRAWER_TYPE is drawer_type.DRAWER_TYPES[1])
        return out
    if k == 'trace_string':
        t = trace.TraceString(a['hash'], a['fmt'], a['loc'])
        out = [ts_state(t)]
        for args in a['args_list']:
            out.append(t.get_message(tuple(args)))
        for h in a['hashes']:
            out.append((t.is_match(h), t.is_partial_match(h)))
        return out
    if k == 'string_file':
        f = trace.TraceStringFile(a['path'])
        out = {'path': f.string_file_path,
               'strings': [ts_state(t) for t in f.trace_strings]}
        res = []
        for h in a['hashes']:
            t = f.get_trace_string(h)
            res.append(None if t is None else
                       (f.trace_strings.index(t), ts_state(t)))
        out['lookups'] = res
        n0 = len(f.trace_strings)
        adds = []
        for fields in a['fields_list']:
            try:
                r = f._add_trace_string(tuple(fields))
                adds.append(('ok', r, len(f.trace_strings) - n0))
            except Exception as e:
                adds.append((type(e).__name__, str(e),
                             len(f.trace_strings) - n0))
        adds.append([ts_state(t) for t in f.trace_strings[n0:]])
        out['adds'] = adds
        return out
    if k == 'tbh_read':
        s = mkstream(a)
        if a.get('skip'):
            s.index = a['skip']
        h = trace.TraceBufferHeader()
        st0 = hdr_state(h)
        try:
            r = h.read(s)
        except Exception as e:
            r = type(e).__name__ + ': ' + str(e)
        return (st0, r, hdr_state(h), s.index, h.SIZE, h.BUFFER_NAMES)
    if k == 'tentry_read':
        s = mkstream(a)
        if a.get('skip'):
            s.index = a['skip']
        e = trace.TraceEntry()
        st0 = tentry_state(e)
        try:
            r = e.read(s)
        except Exception as ex:
            r = type(ex).__name__ + ': ' + str(ex)
        out = [st0, r, tentry_state(e), s.index]
        try:
            out.append((e.get_args(), e.is_binary_trace()))
        except Exception as ex:
            out.append(type(ex).__name__ + ': ' + str(ex))
        out.append((e.FIXED_SIZE, e.MAX_DATA_LEN, e.TYPE_FIELDTRACE,
                    e.TYPE_FIELDBIN, e.MAX_ARGS))
        return out
    if k == 'tentry_args':
        e = make_tentry(a)
        return (e.get_args(), e.is_binary_trace())
    if k == 'tbuffer_read':
        s = mkstream(a)
        b = trace.TraceBuffer()
        st0 = (b.header, list(b.entries))
        try:
            r = b.read(s)
        except Exception as ex:
            r = type(ex).__name__ + ': ' + str(ex)
        return (st0, r, hdr_state(b.header),
                [tentry_state(e) for e in b.entries], s.index)
    if k == 'format_tentry':
        f = trace.TraceStringFile(a['path'])
        lines = ['pre-existing']
        r = trace._format_trace_entry(make_tentry(a['entry']), f, lines)
        return (r, lines)
    if k == 'trace_parse':
        return trace.parse_trace_data(mv(a['data']), a['path'])
    if k == 'dump_misc':
        out = [dump._get_drawer_type_names()]
        for n in a['names']:
            d = dump._get_drawer_type(n)
            out.append(None if d is None else d.name)
        out.append((dump.TRACE_BUFFER_HEADER_START.hex(),
                    dump.HEX_DUMP_LINE_FORMATS, dump.DIVIDER_LINE))
        return out
    if k == 'dump_fmt_ilog':
        lines = ['x']
        try:
            r = dump._format_ilog_data(mv(a['data']), lines, a['path'])
        except Exception as e:
            r = type(e).__name__ + ': ' + str(e)
        return (r, lines)
    if k == 'dump_fmt_trace':
        lines = ['x']
        try:
            r = dump._format_trace_data(mv(a['data']), lines, a['path'])
        except Exception as e:
            r = type(e).__name__ + ': ' + str(e)
        return (r, lines)
    if k == 'dump_data':
        return dump.parse_dump_data(mv(a['data']), a['hpath'], a['spath'])
    if k == 'dump_file':
        return dump.parse_dump_file(a['dpath'], a['hpath'], a['spath'])
    if k == 'dump_args':
        old = sys.argv
        sys.argv = ['dump.py'] + a['argv']
        err = io.StringIO()
        outs = io.StringIO()
        try:
            with contextlib.redirect_stderr(err), \
                    contextlib.redirect_stdout(outs):
                try:
                    r = dump.parse_args()
                    r = (type(r).__name__, [norm(x) for x in r])
                except SystemExit as e:
                    r = 'SystemExit: ' + repr(e.code)
        finally:
            sys.argv = old
        return (r, err.getvalue(), outs.getvalue())
    if k == 'dump_main':
        old = sys.argv
        sys.argv = ['dump.py'] + a['argv']
        err = io.StringIO()
        outs = io.StringIO()
        try:
            with contextlib.redirect_stderr(err), \
                    contextlib.redirect_stdout(outs):
                try:
                    r = dump.main()
                except SystemExit as e:
                    r = 'SystemExit: ' + repr(e.code)
        finally:
            sys.argv = old
        return (r, err.getvalue(), outs.getvalue())
    raise RuntimeError('unknown kind ' + k)


results = {}
for case in cases:
    try:
        r = run(case)
        results[case['id']] = 'OK ' + norm(repr(r))
    except BaseException as e:
        results[case['id']] = 'EXC ' + type(e).__name__ + ': ' + norm(str(e))

# second pass over a sample of the cases: repeated decodes in one process
for case in cases[::7]:
    try:
        r = run(case)
        results[case['id'] + '#again'] = 'OK ' + norm(repr(r))
    except BaseException as e:
        results[case['id'] + '#again'] = ('EXC ' + type(e).__name__ + ': ' +
                                          norm(str(e)))

sys.stdout.write(json.dumps(results))
'''

# ---------------------------------------------------------------------------
# Corpus builders
# ---------------------------------------------------------------------------

rnd = random.Random(20261003)


def w(path, text, mode='w'):
    with open(path, mode) as f:
        f.write(text)
    return path


def ilog_entry(ts, seq, pte):
    return struct.pack('>HHI', ts & 0xFFFF, seq & 0xFFFF, pte & 0xFFFFFFFF)


def trace_header(comp=b'INFO', size=None, ver=2, hdr_len=0x20, time_flg=1,
                 endian=0x42, wrap=0, next_free=0, body_len=0):
    if size is None:
        size = 32 + body_len
    comp = comp[:12].ljust(12, b'\0')
    return (struct.pack('>BBBB', ver, hdr_len, time_flg, endian) + comp +
            b'\0\0\0\0' + struct.pack('>III', size & 0xFFFFFFFF,
                                      wrap & 0xFFFFFFFF,
                                      next_free & 0xFFFFFFFF))


def trace_entry(tbh, tbl, tag, hash_value, line, data=b'', length=None,
                entry_size=None, pad=None):
    if length is None:
        length = len(data)
    if pad is None:
        pad = (4 - (len(data) % 4)) % 4
    body = (struct.pack('>HHHHII', tbh & 0xFFFF, tbl & 0xFFFF,
                        length & 0xFFFF, tag & 0xFFFF,
                        hash_value & 0xFFFFFFFF, line & 0xFFFFFFFF) +
            data + b'\0' * pad)
    if entry_size is None:
        entry_size = len(body) + 4
    return body + struct.pack('>I', entry_size & 0xFFFFFFFF)


FIELDTRACE = 0x4654
FIELDBIN = 0x4644


def read_patterns(header_path):
    pats = []
    with open(header_path) as f:
        for line in f:
            line = line.strip()
            if line.startswith('{ "') and len(line) > 12 and line[11] == '"':
                pats.append(line[3:11])
    return pats


def read_hashes(string_path):
    hashes = []
    with open(string_path, errors='replace') as f:
        for line in f:
            head = line.split('||')[0].strip()
            if head.isdigit():
                hashes.append(int(head))
    return hashes


def pte_from_pattern(pat):
    s = ''.join(rnd.choice('0123456789ABCDEF') if c == '*' else c
                for c in pat)
    try:
        return int(s, 16)
    except ValueError:
        return rnd.getrandbits(32)


def rand_ptes(pats, n):
    out = []
    for _ in range(n):
        r = rnd.random()
        if pats and r < 0.7:
            pte = pte_from_pattern(rnd.choice(pats))
            if rnd.random() < 0.3:
                pte |= 0x00040000
        elif r < 0.85:
            pte = 0xE0000000 | rnd.getrandbits(28)
        else:
            pte = rnd.getrandbits(32)
        out.append(pte)
    return out


def rand_ilog(pats, n, tail=0):
    data = b''
    for _ in range(n):
        r = rnd.random()
        if r < 0.1:
            data += ilog_entry(0, 0, 0)
        elif r < 0.2:
            data += ilog_entry(rnd.choice([0, 0xFFFF, 0xFFFE, 3599, 3600]),
                               rnd.choice([0, 1, 0xFFFF]),
                               rand_ptes(pats, 1)[0])
        else:
            data += ilog_entry(rnd.getrandbits(16), rnd.getrandbits(16),
                               rand_ptes(pats, 1)[0])
    return data + bytes(rnd.getrandbits(8) for _ in range(tail))


def rand_trace_entry(hashes):
    r = rnd.random()
    if hashes and r < 0.5:
        h = rnd.choice(hashes)
    elif hashes and r < 0.75:
        h = (rnd.choice(hashes) + 100000 * rnd.randint(1, 30)) & 0xFFFFFFFF
    else:
        h = rnd.getrandbits(32)
    kind = rnd.random()
    if kind < 0.6:
        nargs = rnd.randint(0, 7)
        data = b''.join(struct.pack('>I', rnd.choice(
            [0, 1, 37, 65, 255, 0x41, 0x7A, 0xFFFFFFFF, rnd.getrandbits(32)]))
            for _ in range(nargs))
        if rnd.random() < 0.2:
            data += bytes(rnd.getrandbits(8) for _ in range(rnd.randint(1, 3)))
        tag = FIELDTRACE
    elif kind < 0.9:
        data = bytes(rnd.getrandbits(8) for _ in range(rnd.randint(0, 70)))
        tag = FIELDBIN
    else:
        data = bytes(rnd.getrandbits(8) for _ in range(rnd.randint(0, 20)))
        tag = rnd.getrandbits(16)
    return trace_entry(rnd.getrandbits(16), rnd.getrandbits(16), tag, h,
                       rnd.choice([0, 1, 99999, 100000, rnd.getrandbits(32),
                                   rnd.randint(1, 5000)]), data)


def rand_trace_buffer(hashes, n=None, comp=None):
    if n is None:
        n = rnd.randint(0, 8)
    if comp is None:
        comp = rnd.choice([b'IICS', b'IICM', b'POWR', b'FANS', b'INFO',
                           b'ERRL'])
    body = b''.join(rand_trace_entry(hashes) for _ in range(n))
    r = rnd.random()
    if r < 0.7:
        size = None
    elif r < 0.8:
        size = 32 + max(0, len(body) - rnd.randint(1, 30))
    elif r < 0.9:
        size = 32 + len(body) + rnd.randint(1, 64)
    else:
        size = rnd.getrandbits(32)
    return trace_header(comp, size=size, wrap=rnd.randint(0, 5),
                        next_free=rnd.getrandbits(16),
                        body_len=len(body)) + body


def corrupt(data, n=None):
    b = bytearray(data)
    if not b:
        return bytes(b)
    if n is None:
        n = rnd.randint(1, 4)
    for _ in range(n):
        i = rnd.randrange(len(b))
        b[i] = rnd.getrandbits(8)
    return bytes(b)


def truncate(data):
    if not data:
        return data
    return data[:rnd.randrange(len(data))]


def hexdump_bmc(data, lower=False):
    lines = []
    for i in range(0, len(data), 16):
        chunk = data[i:i + 16]
        hx = chunk.hex().upper()
        if lower:
            hx = hx.lower()
        groups = ' '.join(hx[j:j + 8] for j in range(0, len(hx), 8))
        text = ''.join(chr(b) if 0x20 <= b < 0x7f else '.' for b in chunk)
        lines.append('%04X:  %s  <%s>\n' % (i & 0xFFFF, groups, text))
    return lines


def hexdump_prebmc(data):
    lines = []
    for i in range(0, len(data), 16):
        chunk = data[i:i + 16]
        hx = ' '.join('%02X' % b for b in chunk)
        text = ''.join(chr(b) if 0x20 <= b < 0x7f else '.' for b in chunk)
        lines.append('%s %s\n' % (hx, text))
    return lines


def mutate_text_lines(lines, n):
    lines = list(lines)
    for _ in range(n):
        if not lines:
            break
        i = rnd.randrange(len(lines))
        op = rnd.random()
        s = lines[i]
        if op < 0.25:
            del lines[i]
        elif op < 0.5 and s:
            j = rnd.randrange(len(s))
            lines[i] = s[:j] + rnd.choice('{}",;*%\\ds 9x|\t') + s[j + 1:]
        elif op < 0.7:
            lines.insert(i, s)
        elif op < 0.85 and s:
            j = rnd.randrange(len(s))
            lines[i] = s[:j] + '\n'
            lines.insert(i + 1, s[j:])
        else:
            lines[i] = s.rstrip('\n') + '   \n'
    return lines


# ---------------------------------------------------------------------------
# PEL builder
# ---------------------------------------------------------------------------

def pel_section(sid, ver, subtype, comp, payload):
    return (sid + struct.pack('>HBBH', len(payload) + 8, ver, subtype, comp) +
            payload)


def build_pel(ud_sections, creator=b'M', eid=0x50000001):
    ts = bytes.fromhex('2022030818402700')
    ph_payload = (ts + ts + creator + b'\0\0' +
                  bytes([2 + len(ud_sections)]) +
                  struct.pack('>I', 77) + b'\0' * 8 +
                  struct.pack('>II', eid, eid))
    ph = pel_section(b'PH', 1, 0, 0x2C00, ph_payload)
    uh_payload = (bytes([0x72, 0x03, 0x40, 0x00]) + b'\0' * 4 +
                  bytes([0, 0]) + struct.pack('>H', 0x8000) + b'\0' * 4)
    uh = pel_section(b'UH', 1, 0, 0x2C00, uh_payload)
    out = ph + uh
    for (ver, subtype, comp, payload) in ud_sections:
        out += pel_section(b'UD', ver, subtype, comp, payload)
    return out


# ---------------------------------------------------------------------------
# Corpus
# ---------------------------------------------------------------------------

def build_corpus(workdir, sample_root):
    """
    Creates input files under workdir and returns (cases, cli_cases,
    pel_files).  sample_root is only used to read the shipped header / string
    files as seeds for mutation (they are identical in both trees).
    """
    iod = os.path.join(sample_root, 'modules', 'io_drawer')
    real_headers = {}
    real_strings = {}
    for n in ('mex', 'nimitz'):
        real_headers[n] = w(os.path.join(workdir, n + '_pte.h'),
                            open(os.path.join(iod, n + '_pte.h')).read())
        real_strings[n] = w(os.path.join(workdir, n + 'StringFile'),
                            open(os.path.join(iod, n + 'StringFile')).read())
    real_pats = read_patterns(real_headers['mex'])
    real_hashes = read_hashes(real_strings['mex'])
    real_header_lines = open(real_headers['mex']).readlines()
    real_string_lines = open(real_strings['mex']).readlines()

    # --- custom header files -------------------------------------------
    hdr_texts = {}
    hdr_texts['small'] = '''
#define PTE_TABLE_SIZE 10
static struct pte_entry_struct static_pte_entry_table[PTE_TABLE_SIZE] = {
  { "010000**", "Begin power on, node type = 0x%02X", {4}, "states.cpp", 485 },
  { "0101****", "At power on, fan presence = 0x%02X, current flash chip = %c", {4, 3}, "states.cpp", 530 },
  { "01040000", "Power on complete", {}, "states.cpp", 601 },
  { "E2082690", "P1 IO Bay VRM in \\"N-Mode\\"  ", {}, "vrm_monitor.cpp", 145 },
  { "E30877**", "Fan %d fault", {4}, "fans.cpp", 12 },
  { "e3aa****", "lower %d case %d pattern", {3,4}, "fans.cpp", 13 },
  { "2065****", "IO Bay %d type = %d", {3, 4, 5, 0, 12}, "x.cpp", 0099 },
  { "3*******", "too many %d %d %d", {1}, "y.cpp", 1 },
  { "4*******", "too few", {1, 2}, "y.cpp", 2 },
  { "5*******", "pct %% and %s and %5.2f and %c", {1, 2, 3}, "y.cpp", 3 },
  { "6*******", "trailing %", {}, "y.cpp", 4 },
  { "7*******", "named %(a)d", {1}, "", 5 },
  { "8*******", "star %*d", {1, 2}, "z z.cpp", 6 },
  { "9[0-9a]+", "regex chars", {}, "r.cpp", 7 },
  { "A.*", "regex wild", {}, "r.cpp", 8 },
  { "B*", "short pattern", {}, "r.cpp", 9 },
  { "C********", "long pattern", {}, "r.cpp", 10 },
  { "D*******", "", {}, "r.cpp", 11 },
  { "E*******", "generic error %02X%02X%02X%02X", {1,2,3,4}, "e.cpp", 12 },
  { "********", "catch all %c|%c|%c|%c", {4,3,2,1}, "all.cpp", 4294967296 },
  { ""        , "The End" }
};
struct mex_hlog_field
{
  uint8_t size;
};
static struct mex_hlog_field mex_hlog_fields[MEX_HLOG_FIELD_COUNT] =
{
  { 1, "hl_one" },
  { 2, "hl_two" },
  { 1, "hl_three" },
  {2,"hl_four"},
  { 3, "hl_bad_size" },
  { 1, "" },
  { 1, "hl with spaces and %d" } ,
  { 2, "hl_last" }
};
'''
    hdr_texts['brace_next_line'] = '''
struct pte_entry_struct static_pte_entry_table[PTE_TABLE_SIZE] =
{
  { "010000**", "Begin power on, node type = 0x%02X", {4}, "states.cpp", 485 },
  { "01040000", "Power on complete", {}, "states.cpp", 601 },
  { "", "The End" }
};
  struct   mex_hlog_field   mex_hlog_fields[3] = {
  { 2, "hl_a" },
  { 1, "hl_b" },
};
'''
    hdr_texts['no_end'] = '''
static struct pte_entry_struct static_pte_entry_table[PTE_TABLE_SIZE] = {
  { "010000**", "Begin power on, node type = 0x%02X", {4}, "states.cpp", 485 },
  { "E1******", "Err %d", {2}, "e.cpp", 1 },
static struct mex_hlog_field mex_hlog_fields[MEX_HLOG_FIELD_COUNT] = {
  { 1, "hl_inside_pte_table" },
  { "02000000", "after hlog start", {}, "e.cpp", 2 },
'''
    hdr_texts['two_tables'] = '''
static struct pte_entry_struct static_pte_entry_table[2] = {
  { "01000000", "first", {}, "a.cpp", 1 },
  { "", "The End" }
  { "02000000", "outside", {}, "a.cpp", 2 },
static struct pte_entry_struct static_pte_entry_table[2] = {
  { "03000000", "second", {}, "a.cpp", 3 },
  { "01000000", "dup of first", {}, "a.cpp", 4 },
  { "", "The End" }
static struct mex_hlog_field mex_hlog_fields[1] = {
  { 1, "f1" },
};
  { 1, "outside" },
static struct mex_hlog_field mex_hlog_fields[1] = {
  { 2, "f2" }
  };
'''
    hdr_texts['empty'] = ''
    hdr_texts['no_tables'] = '// nothing here\n#define X 1\n'
    hdr_texts['no_trailing_newline'] = (
        'static struct pte_entry_struct static_pte_entry_table[2] = {\n'
        '  { "01000000", "first", {}, "a.cpp", 1 },')
    hdr_texts['huge_line_number'] = (
        'static struct pte_entry_struct static_pte_entry_table[2] = {\n'
        '  { "01000000", "first", {}, "a.cpp", 1 },\n'
        '  { "02000000", "big", {}, "a.cpp", ' + '9' * 5000 + ' },\n'
        '  { "03000000", "third", {}, "a.cpp", 3 },\n')
    hdr_texts['bad_regex'] = (
        'static struct pte_entry_struct static_pte_entry_table[2] = {\n'
        '  { "01000000", "first", {}, "a.cpp", 1 },\n'
        '  { "0200(000", "bad regex", {}, "a.cpp", 2 },\n'
        '  { "03000000", "third", {}, "a.cpp", 3 },\n')
    for i in range(12):
        lines = mutate_text_lines(hdr_texts['small'].splitlines(True),
                                  rnd.randint(1, 12))
        hdr_texts['mut%d' % i] = ''.join(lines)
    for i in range(3):
        lines = mutate_text_lines(real_header_lines, rnd.randint(5, 60))
        hdr_texts['realmut%d' % i] = ''.join(lines)
    headers = {}
    for name, text in hdr_texts.items():
        headers[name] = w(os.path.join(workdir, 'hdr_' + name + '.h'), text)
    headers['binary'] = w(os.path.join(workdir, 'hdr_binary.h'),
                          b'\xff\xfe static struct \x80\x81\n' * 3, 'wb')
    headers['missing'] = os.path.join(workdir, 'does_not_exist.h')
    headers['directory'] = workdir
    small_headers = [n for n in headers if not n.startswith('realmut')]
    pats_of = {}
    for n, p in headers.items():
        try:
            pats_of[n] = read_patterns(p)
        except Exception:
            pats_of[n] = []

    # --- custom string files -------------------------------------------
    str_texts = {}
    str_texts['small'] = '''#FSP_TRACE_v2|||Thu Sep 24 12:55:43 2020|||BUILD:Release
32403714||E> ADT7470: Controller 0x%X: Failure count = %d||adt7470_fan_ctl.cpp(324)
38405017||E> ADT7470: Controller 0x%X: I2C read failed: Address 0x%X, rc %d||adt7470_fan_ctl.cpp(384)
56504561||I> Setting PWM %d to 0x%X (%u.%02u%%)||adt7470_fan_ctl.cpp(565)
  48602109  ||  I> padded message %s  ||  padded_location.cpp(486)
100000||no args||a.cpp(1)
200000||no args again||a.cpp(2)
300000||one arg %d||a.cpp(3)
7||seven %c %c||b.cpp(7)
100007||seven partial %5d|%-5d|%05X||b.cpp(1)
200007||seven partial last %d %d %d %d %d %d||b.cpp(2)
12345||with || inside||c.cpp(1)
12346||||empty message
12347||trailing %||d.cpp(1)
12348||named %(x)d||d.cpp(2)
99999999999999999999||huge hash %d||e.cpp(1)
abc||not a hash||e.cpp(2)
-5||negative||e.cpp(3)
55||dup first||f.cpp(1)
55||dup second||f.cpp(2)
1234|single bar|x
'''
    str_texts['empty'] = ''
    str_texts['no_trailing_newline'] = '11||msg %d||loc.cpp(1)'
    str_texts['crlf'] = '11||msg %d||loc.cpp(1)\r\n12||msg two||loc.cpp(2)\r\n'
    str_texts['huge_hash'] = '1' * 5000 + '||msg||loc\n22||ok||loc2\n'
    for i in range(8):
        lines = mutate_text_lines(str_texts['small'].splitlines(True),
                                  rnd.randint(1, 10))
        str_texts['mut%d' % i] = ''.join(lines)
    for i in range(2):
        lines = mutate_text_lines(real_string_lines, rnd.randint(5, 60))
        str_texts['realmut%d' % i] = ''.join(lines)
    strings = {}
    for name, text in str_texts.items():
        strings[name] = w(os.path.join(workdir, 'str_' + name), text)
    strings['binary'] = w(os.path.join(workdir, 'str_binary'),
                          b'12||\xff\xfe||\x80\n' * 3, 'wb')
    strings['missing'] = os.path.join(workdir, 'does_not_exist_str')
    strings['directory'] = workdir
    hashes_of = {}
    for n, p in strings.items():
        try:
            hashes_of[n] = [h for h in read_hashes(p) if h < 2 ** 32]
        except Exception:
            hashes_of[n] = []
    small_strings = [n for n in strings if not n.startswith('realmut')]

    cases = []

    def add(kind, **args):
        cases.append({'id': '%s-%04d' % (kind, len(cases)), 'kind': kind,
                      'args': args})

    # --- utils / drawer types -----------------------------------------
    add('timestamp', lo=-10, hi=66000)
    add('timestamp_odd')
    add('drawer_types', h='some.h', s='dir/strings')
    add('drawer_types', h='/abs/some.h', s='')
    add('dump_misc', names=['mex', 'nimitz', 'foo', '', 'MEX', 'mex '])

    # --- hlog ------------------------------------------------------------
    for n, p in list(headers.items()) + list(real_headers.items()):
        add('hlog_fields', path=p)
        for ln in (0, 1, 2, 5, 7, 47, 48, 60):
            data = bytes(rnd.choice([0, 0, 1, 255, rnd.getrandbits(8)])
                         for _ in range(ln))
            add('hlog_parse', data=data.hex(), path=p)
    for _ in range(40):
        ln = rnd.randint(0, 80)
        data = bytes(rnd.choice([0, rnd.getrandbits(8)]) for _ in range(ln))
        add('hlog_parse', data=data.hex(),
            path=rnd.choice([headers['small'], real_headers['mex'],
                             real_headers['nimitz']]))

    # --- ilog --------------------------------------------------------------
    for n, p in headers.items():
        ptes = rand_ptes(pats_of[n], 25) + [0, 0xFFFFFFFF, 0xE0040000,
                                           0xE2082690, 0xE20C2690]
        add('pte_table', path=p, ptes=ptes)
        for _ in range(3 if n in small_headers else 1):
            data = rand_ilog(pats_of[n], rnd.randint(0, 30),
                             rnd.choice([0, 0, 1, 3, 7]))
            add('ilog_parse', data=data.hex(), path=p)
    for n, p in real_headers.items():
        add('pte_table', path=p, ptes=rand_ptes(real_pats, 120))
        for _ in range(6):
            data = rand_ilog(real_pats, rnd.randint(0, 60),
                             rnd.choice([0, 0, 1, 3, 7]))
            add('ilog_parse', data=data.hex(), path=p)
    for _ in range(60):
        data = rand_ilog(pats_of['small'], rnd.randint(0, 40),
                         rnd.choice([0, 0, 1, 5]))
        if rnd.random() < 0.3:
            data = corrupt(data)
        add('ilog_parse', data=data.hex(), path=headers['small'])
    entry_specs = [
        ('E30877**', 'Fan %d fault', [4]),
        ('e30877**', 'Fan %d fault %d', [4]),
        ('0101****', 'fan = 0x%02X, chip = %c', [4, 3]),
        ('0101****', 'fan = 0x%02X, chip = %c', [4, 3, 5, 0, -1, 2]),
        ('********', '%c%c%c%c', [1, 2, 3, 4]),
        ('E*0*****', 'no params', []),
        ('E*0*****', 'pct %% only', []),
        ('E*0*****', 'pct %% and %d', [1]),
        ('E*4*****', 'reported pattern %s', [2]),
        ('E3087704', '%d %d', [1, 1]),
        ('', 'empty pattern', []),
        ('.{8}', 'regex', [1]),
        ('E308770', 'seven', []),
    ]
    for (pat, fmt, params) in entry_specs:
        ptes = [pte_from_pattern(pat.ljust(8, '*')[:8].replace('.', '0')
                                 .replace('{', '0').replace('}', '0'))
                for _ in range(6)]
        ptes += [p | 0x00040000 for p in ptes[:3]]
        ptes += [0, 0xFFFFFFFF, 0xE30C7704, 0xE3087704, 0x15A40000,
                 0x1E30877AE, -1, 2 ** 40 + 5]
        add('pte_entry', pattern=pat, fmt=fmt, params=params, file='f.cpp',
            line=rnd.randint(0, 9999), ptes=ptes)
    add('pte_add', path=headers['empty'], fields_list=[
        ['01040000', 'Power on complete', '', 'states.cpp', '601'],
        ['100100**', 'PS%d - Faults Cleared    ', '4', 'mps.cpp', '759'],
        ['2065****', 'IO Bay %d type = %d', '3, 4', 'x.cpp', '254'],
        ['2065****', 'double digits', '12, 34, 56', 'x.cpp', '254'],
        ['E2082690', r'P1 IO Bay VRM in \"N-Mode\" ', '', 'v.cpp', '145'],
        ['15D10000', 'too few fields', '', 'v.cpp'],
        ['15D10000', 'too many', '', 'v.cpp', '1', '2'],
        [],
        ['15D10000', 'bad line', '', 'v.cpp', 'abc'],
        ['15D10000', 'neg line', '9 0 5', 'v.cpp', '-12'],
        ['15D1(000', 'bad regex', '', 'v.cpp', '1'],
        ['15D10000', '  spaced  ', '  1 ,2 ', ' v.cpp ', ' 7 '],
        ['15D10000', 'unicode digits', '٣ ² 4', 'v.cpp', '8'],
    ])

    # --- trace classes -----------------------------------------------------
    ts_specs = [
        (32403714, 'E> Controller 0x%X: Failure count = %d', 'a.cpp(324)'),
        (100007, 'no args', 'b.cpp(1)'),
        (7, '%c %s %5.1f', 'c.cpp'),
        (0, 'pct %u.%02u%%', ''),
        (4294967295, 'five %d %d %d %d %d', 'e.cpp'),
        (12347, 'trailing %', 'd.cpp(1)'),
    ]
    for (h, fmt, loc) in ts_specs:
        add('trace_string', hash=h, fmt=fmt, loc=loc,
            args_list=[[], [1], [1, 2], [65, 66, 67], [1, 2, 3, 4, 5],
                       [0xFFFFFFFF, 0], [1, 2, 3, 4, 5, 6]],
            hashes=[h, h + 100000, h + 1, h % 100000, h + 300000, 0,
                    h - 100000, 100000])
    for n, p in list(strings.items()) + list(real_strings.items()):
        hs = hashes_of.get(n) or real_hashes
        lookups = []
        for _ in range(30):
            r = rnd.random()
            if hs and r < 0.4:
                lookups.append(rnd.choice(hs))
            elif hs and r < 0.8:
                lookups.append(rnd.choice(hs) + 100000 * rnd.randint(-3, 30))
            else:
                lookups.append(rnd.getrandbits(32))
        lookups += [7, 100007, 200007, 300007, 55, 100055, 0, 100000]
        add('string_file', path=p, hashes=lookups, fields_list=[
            ['103402736', 'I> msg %d', 'a.cpp(1034)'],
            ['  48602109  ', '  I> padded  ', '  loc.cpp(486) '],
            ['1', 'too few'],
            ['1', 'too', 'many', 'fields'],
            [],
            ['abc', 'bad hash', 'x'],
            ['-7', 'neg', 'x'],
            ['', 'empty', 'x'],
        ])

    # header reads
    for _ in range(25):
        hdr = trace_header(rnd.choice([b'INFO', b'ERRL  ', b' FANS', b'',
                                       b'ABCDEFGHIJKLMNOP', b'IN\0FO',
                                       b'caf\xc3\xa9', b'\xff\xfeX \0 ',
                                       b'POWR \0 \0']),
                           size=rnd.getrandbits(32), ver=rnd.getrandbits(8),
                           hdr_len=rnd.getrandbits(8),
                           time_flg=rnd.getrandbits(8),
                           endian=rnd.getrandbits(8),
                           wrap=rnd.getrandbits(32),
                           next_free=rnd.getrandbits(32))
        extra = bytes(rnd.getrandbits(8) for _ in range(rnd.randint(0, 8)))
        add('tbh_read', data=(hdr + extra).hex())
        add('tbh_read', data=truncate(hdr).hex())
        add('tbh_read', data=(b'\xAA\xBB' + hdr).hex(), skip=2)
    add('tbh_read', data=trace_header(b'INFO', size=64).hex(), bo='little')
    add('tbh_read', data=trace_header(b'INFO', size=0xF0000040).hex(),
        signed=True)
    add('tbh_read', data=trace_header(b'INFO', size=64).hex(), bo=None)

    # entry reads
    for _ in range(120):
        e = rand_trace_entry(hashes_of['small'])
        r = rnd.random()
        extra = bytes(rnd.getrandbits(8) for _ in range(rnd.randint(0, 6)))
        if r < 0.4:
            add('tentry_read', data=(e + extra).hex())
        elif r < 0.6:
            add('tentry_read', data=truncate(e).hex())
        elif r < 0.8:
            add('tentry_read', data=corrupt(e).hex())
        else:
            add('tentry_read', data=(b'\x01\x02\x03' + e).hex(), skip=3)
    special_entries = [
        trace_entry(1, 2, FIELDTRACE, 5, 6, b'', length=0),
        trace_entry(1, 2, FIELDTRACE, 5, 6, b'\0' * 1024),
        trace_entry(1, 2, FIELDTRACE, 5, 6, b'\0' * 1028),
        trace_entry(1, 2, FIELDBIN, 5, 6, b'\0' * 1025),
        trace_entry(1, 2, FIELDBIN, 5, 6, b'abc'),
        trace_entry(1, 2, FIELDBIN, 5, 6, b'abc', pad=0),
        trace_entry(1, 2, FIELDBIN, 5, 6, b'abcde', pad=1),
        trace_entry(1, 2, FIELDBIN, 5, 6, b'abcd', entry_size=0),
        trace_entry(1, 2, FIELDBIN, 5, 6, b'abcd', entry_size=29),
        trace_entry(1, 2, FIELDBIN, 5, 6, b'abcd', length=8),
        trace_entry(1, 2, FIELDBIN, 5, 6, b'abcd', length=2),
        trace_entry(1, 2, FIELDBIN, 5, 6, b'abcd', length=0xFFFF),
        trace_entry(1, 2, FIELDBIN, 5, 6, b'abcdef')[:-4],
        trace_entry(1, 2, FIELDBIN, 5, 6, b'abcdef')[:-5],
        trace_entry(1, 2, FIELDBIN, 5, 6, b'abcdef')[:-6],
        trace_entry(1, 2, FIELDBIN, 5, 6, b'abcdef')[:16],
        trace_entry(1, 2, FIELDBIN, 5, 6, b'abcdef')[:15],
    ]
    for e in special_entries:
        add('tentry_read', data=e.hex())
    add('tentry_read', data=special_entries[4].hex(), bo='little')
    add('tentry_read', data=trace_entry(1, 2, FIELDBIN, 5, 6, b'abcd',
                                        length=0xFFFC).hex(), signed=True)
    add('tentry_read', data=special_entries[4].hex(), bo=None)

    for tag in (FIELDTRACE, FIELDBIN, 0, 0xFFFF):
        for dlen in (None, 0, 1, 3, 4, 5, 8, 19, 20, 21, 24, 40):
            d = None if dlen is None else bytes(
                rnd.getrandbits(8) for _ in range(dlen)).hex()
            add('tentry_args', tbh=1, tbl=2, length=dlen or 0, tag=tag,
                hash=7, line=9, data=d)
            if d is not None:
                add('tentry_args', tbh=1, tbl=2, length=dlen, tag=tag,
                    hash=7, line=9, data=d, as_bytes=True)

    # buffer reads / parse_trace_data
    for n in small_strings + list(real_strings):
        p = strings.get(n) or real_strings[n]
        hs = hashes_of.get(n) or real_hashes
        reps = 6 if n in ('small', 'mex', 'nimitz') else 2
        for _ in range(reps):
            buf = rand_trace_buffer(hs)
            r = rnd.random()
            if r < 0.15:
                buf = truncate(buf)
            elif r < 0.3:
                buf = corrupt(buf)
            elif r < 0.4:
                buf += bytes(rnd.getrandbits(8)
                             for _ in range(rnd.randint(1, 40)))
            add('trace_parse', data=buf.hex(), path=p)
            add('tbuffer_read', data=buf.hex())
    for _ in range(60):
        buf = rand_trace_buffer(hashes_of['small'])
        r = rnd.random()
        if r < 0.2:
            buf = truncate(buf)
        elif r < 0.4:
            buf = corrupt(buf)
        add('trace_parse', data=buf.hex(), path=strings['small'])
    for ln in (0, 1, 31, 32, 33):
        add('trace_parse', data=bytes(rnd.getrandbits(8)
                                      for _ in range(ln)).hex(),
            path=strings['small'])
        add('tbuffer_read', data=bytes(rnd.getrandbits(8)
                                       for _ in range(ln)).hex())

    # _format_trace_entry with crafted entries
    fe_hashes = [7, 100007, 200007, 300007, 32403714, 32503714, 56504561,
                 100000, 12347, 12348, 999, 55, 12345, 48602109]
    for h in fe_hashes:
        for tag in (FIELDTRACE, FIELDBIN, 0x1234):
            for d in (None, b'', b'\0\0\0\x41', bytes(range(20)),
                      bytes(range(33))):
                add('format_tentry', path=strings['small'], entry=dict(
                    tbh=rnd.choice([0, 3661, 0xFFFF, 0xFFFE]),
                    tbl=rnd.getrandbits(16), length=0 if d is None else len(d),
                    tag=tag, hash=h, line=rnd.choice([0, 7, 99999, 123456]),
                    data=None if d is None else d.hex()))

    # --- dump --------------------------------------------------------------
    def make_dump_bytes(hs, pats):
        ilog_part = rand_ilog(pats, rnd.randint(0, 20),
                              rnd.choice([0, 0, 2, 5]))
        names = [b'IICS', b'IICM', b'POWR', b'FANS', b'INFO', b'ERRL']
        rnd.shuffle(names)
        k = rnd.choice([0, 1, 2, 3, 6])
        bufs = []
        for nm in names[:k]:
            bufs.append(rand_trace_buffer(hs, comp=nm))
        if rnd.random() < 0.2 and bufs:
            bufs.append(rand_trace_buffer(hs, comp=names[0]))   # duplicate
        if rnd.random() < 0.2:
            bufs.append(rand_trace_buffer(hs, comp=b'XXXX'))
        data = ilog_part + b''.join(bufs)
        r = rnd.random()
        if r < 0.15:
            data = truncate(data)
        elif r < 0.3:
            data = corrupt(data)
        return data

    dump_blobs = []
    for _ in range(50):
        dump_blobs.append(make_dump_bytes(hashes_of['small'],
                                          pats_of['small']))
    dump_blobs.append(b'')
    dump_blobs.append(b'\0')
    dump_blobs.append(trace_header(b'INFO', size=32))
    dump_blobs.append(b'\x02\x20\x01\x42INFO')
    dump_blobs.append(b'\x02\x20\x01\x42INF')
    for blob in dump_blobs:
        add('dump_data', data=blob.hex(), hpath=headers['small'],
            spath=strings['small'])
    for _ in range(8):
        blob = make_dump_bytes(real_hashes, real_pats)
        add('dump_data', data=blob.hex(), hpath=real_headers['mex'],
            spath=real_strings['mex'])
    add('dump_data', data=dump_blobs[0].hex(), hpath=headers['missing'],
        spath=strings['small'])
    add('dump_data', data=dump_blobs[3].hex(), hpath=headers['small'],
        spath=strings['missing'])
    add('dump_data', data=dump_blobs[3].hex(), hpath=headers['binary'],
        spath=strings['binary'])
    for blob in dump_blobs[:8]:
        add('dump_fmt_ilog', data=blob.hex(), path=headers['small'])
        add('dump_fmt_trace', data=blob.hex(), path=strings['small'])
    add('dump_fmt_ilog', data='', path=headers['small'])
    add('dump_fmt_trace', data='', path=strings['small'])
    add('dump_fmt_ilog', data='00', path=headers['missing'])
    add('dump_fmt_trace', data='00', path=strings['missing'])

    dump_files = {}
    for i, blob in enumerate(dump_blobs[:24]):
        style = i % 6
        if style == 0:
            lines = hexdump_bmc(blob)
        elif style == 1:
            lines = hexdump_prebmc(blob)
        elif style == 2:
            lines = ['Some heading\n', '\n'] + hexdump_bmc(blob, lower=True) \
                + ['trailer\n']
        elif style == 3:
            lines = mutate_text_lines(hexdump_bmc(blob), rnd.randint(1, 5))
        elif style == 4:
            lines = mutate_text_lines(hexdump_prebmc(blob), rnd.randint(1, 5))
        else:
            lines = hexdump_bmc(blob[:40]) + hexdump_prebmc(blob[40:])
        dump_files['d%d' % i] = w(os.path.join(workdir, 'dump_%d.txt' % i),
                                  ''.join(lines))
    dump_files['empty'] = w(os.path.join(workdir, 'dump_empty.txt'), '')
    dump_files['garbage'] = w(os.path.join(workdir, 'dump_garbage.txt'),
                              'hello\nworld\n')
    dump_files['binary'] = w(os.path.join(workdir, 'dump_binary.txt'),
                             b'\xff\xfe\x00\x80\n' * 4, 'wb')
    dump_files['missing'] = os.path.join(workdir, 'no_such_dump.txt')
    dump_files['directory'] = workdir
    realblob = make_dump_bytes(real_hashes, real_pats)
    dump_files['real'] = w(os.path.join(workdir, 'dump_real.txt'),
                           ''.join(hexdump_bmc(realblob)))
    for n, p in dump_files.items():
        add('dump_file', dpath=p, hpath=headers['small'],
            spath=strings['small'])
    add('dump_file', dpath=dump_files['d0'], hpath=headers['missing'],
        spath=strings['small'])
    add('dump_file', dpath=dump_files['d0'], hpath=headers['small'],
        spath=strings['missing'])
    add('dump_file', dpath=dump_files['real'], hpath=real_headers['nimitz'],
        spath=real_strings['nimitz'])

    argvs = [
        [dump_files['d0'], '-t', 'mex'],
        [dump_files['d0'], '-t', 'nimitz'],
        [dump_files['d0'], '--drawer-type', 'mex', '-d', headers['small']],
        [dump_files['d0'], '-t', 'mex', '-s', strings['small']],
        [dump_files['d0'], '-t', 'nimitz', '--header-file', headers['small'],
         '--string-file', strings['small']],
        [dump_files['d0'], '-t', 'mex', '-d', '', '-s', ''],
        [dump_files['d0'], '-t', 'foo'],
        [dump_files['d0']],
        ['-t', 'mex'],
        [],
        ['-h'],
        [dump_files['d0'], '-t', 'mex', '--bogus'],
        [dump_files['d0'], 'extra', '-t', 'mex'],
        ['-t', 'mex', dump_files['d1'], '-d', headers['missing']],
    ]
    for argv in argvs:
        add('dump_args', argv=argv)
    main_argvs = [
        [dump_files['d0'], '-t', 'mex', '-d', headers['small'], '-s',
         strings['small']],
        [dump_files['d1'], '-t', 'nimitz', '-d', headers['small'], '-s',
         strings['small']],
        [dump_files['real'], '-t', 'mex'],
        [dump_files['missing'], '-t', 'mex'],
        [dump_files['empty'], '-t', 'mex'],
        [dump_files['d2'], '-t', 'mex', '-d', headers['missing']],
        [dump_files['d2'], '-t', 'mex', '-s', strings['binary'], '-d',
         headers['small']],
        [dump_files['d0']],
    ]
    for argv in main_argvs:
        add('dump_main', argv=argv)

    # --- m2c00 -------------------------------------------------------------
    ud_blobs = []
    for _ in range(10):
        ud_blobs.append(rand_ilog(real_pats, rnd.randint(0, 20),
                                  rnd.choice([0, 3])))
    for _ in range(10):
        b = rand_trace_buffer(real_hashes)
        if rnd.random() < 0.3:
            b = corrupt(b)
        ud_blobs.append(b)
    for _ in range(8):
        ud_blobs.append(bytes(rnd.choice([0, rnd.getrandbits(8)])
                              for _ in range(rnd.randint(0, 60))))
    ud_blobs += [b'', b'\0', b'\0' * 48]
    for i, blob in enumerate(ud_blobs):
        for sub_type in (72, 73, 84):
            for version in (1, 2):
                if (i + sub_type + version) % 3 == 0 or len(blob) < 2:
                    add('ud', sub_type=sub_type, version=version,
                        data=blob.hex())
        add('ud', sub_type=rnd.choice([72, 73, 84]),
            version=rnd.choice([0, 3, 255]), data=blob.hex())
        add('ud', sub_type=rnd.choice([0, 1, 71, 74, 83, 85, 255]),
            version=rnd.choice([0, 1, 2, 3]), data=blob.hex())
    for blob in ud_blobs[::5]:
        for version in (0, 1, 2, 3):
            add('ud_helpers', version=version, data=blob.hex())

    # --- CLI + PEL cases (run as subprocesses) -----------------------------
    cli_cases = []
    for argv in main_argvs + argvs[6:13]:
        cli_cases.append(('script', argv))
    for argv in main_argvs[:3]:
        cli_cases.append(('module', argv))
    for n in ('d3', 'd4', 'd5', 'd6', 'd7', 'garbage', 'binary', 'directory'):
        cli_cases.append(('script', [dump_files[n], '-t', 'mex', '-d',
                                     headers['small'], '-s',
                                     strings['small']]))

    pel_files = []
    for i in range(8):
        sections = []
        for _ in range(rnd.randint(1, 6)):
            blob = rnd.choice(ud_blobs)
            sections.append((rnd.choice([1, 2, 2, 1, 0, 3]),
                             rnd.choice([72, 73, 84, 84, 73, 1]),
                             rnd.choice([0x2C00, 0x2C00, 0x2C00, 0x1234]),
                             blob))
        pel = build_pel(sections, creator=rnd.choice([b'M', b'M', b'M', b'X']),
                        eid=0x50000001 + i)
        if i == 6:
            pel = pel[:-rnd.randint(1, 10)]
        if i == 7:
            pel = corrupt(pel, 2)
        p = os.path.join(workdir, 'pel_%d.bin' % i)
        w(p, pel, 'wb')
        pel_files.append(p)

    return cases, cli_cases, pel_files


# ---------------------------------------------------------------------------
# Runner
# ---------------------------------------------------------------------------

def env_for(root):
    env = dict(os.environ)
    env['PYTHONPATH'] = os.path.join(root, 'modules')
    env['PYTHONDONTWRITEBYTECODE'] = '1'
    env['PYTHONHASHSEED'] = '0'
    env['COLUMNS'] = '80'
    return env


WARNING_LINE_RE = re.compile(r'(\.py):\d+: (\w*Warning)')


def norm_stderr(text, root):
    """
    Normalises the source tree root and the line number of compile time
    warnings (the shipped regex literals trigger SyntaxWarnings whose line
    number legitimately moves when code above them is edited).  The warning
    text and the offending source line are still compared.
    """
    return WARNING_LINE_RE.sub(r'\1:N: \2', text.replace(root, '<ROOT>'))


def run_driver(root, workdir, optimize):
    cmd = [PY]
    if optimize:
        cmd.append('-O')
    cmd += [os.path.join(workdir, 'driver.py'), workdir, root]
    p = subprocess.run(cmd, env=env_for(root), stdout=subprocess.PIPE,
                       stderr=subprocess.PIPE, cwd=workdir)
    if p.returncode != 0:
        return {'__driver__': 'rc=%d stderr=%s' % (
            p.returncode, p.stderr.decode(errors='replace')[-2000:])}
    res = json.loads(p.stdout.decode())
    res['__stderr__'] = norm_stderr(p.stderr.decode(errors='replace'), root)
    return res


def run_cli(root, workdir, cmd_tail, optimize=False):
    cmd = [PY]
    if optimize:
        cmd.append('-O')
    cmd += cmd_tail
    p = subprocess.run(cmd, env=env_for(root), stdout=subprocess.PIPE,
                       stderr=subprocess.PIPE, cwd=workdir)
    err = norm_stderr(p.stderr.decode(errors='replace'), root)
    if 'Traceback (most recent call last)' in err:
        # line numbers legitimately differ; keep the final exception line
        err = 'TRACEBACK ' + err.strip().splitlines()[-1]
    return (p.returncode, p.stdout, err)


def main():
    if len(sys.argv) != 3:
        print('usage: diffcheck.py <pristine_root> <patched_root>')
        sys.exit(2)
    roots = [os.path.abspath(sys.argv[1]), os.path.abspath(sys.argv[2])]
    workdir = tempfile.mkdtemp(prefix='r39_diffcheck_')
    n_cases = 0
    diffs = []
    try:
        cases, cli_cases, pel_files = build_corpus(workdir, roots[0])
        with open(os.path.join(workdir, 'cases.json'), 'w') as f:
            json.dump(cases, f)
        w(os.path.join(workdir, 'driver.py'), DRIVER)
        listing_before = sorted(os.listdir(workdir))

        for optimize in (False, True):
            res = [run_driver(r, workdir, optimize) for r in roots]
            keys = sorted(set(res[0]) | set(res[1]))
            for k in keys:
                n_cases += 1
                a = res[0].get(k, '<absent>')
                b = res[1].get(k, '<absent>')
                if a != b:
                    diffs.append(('driver%s %s' % (' -O' if optimize else '',
                                                   k), a, b))

        for optimize in (False, True):
            for (how, argv) in cli_cases:
                outs = []
                for r in roots:
                    if how == 'script':
                        tail = [os.path.join(r, 'modules', 'io_drawer',
                                             'dump.py')] + argv
                    else:
                        tail = ['-m', 'io_drawer.dump'] + argv
                    outs.append(run_cli(r, workdir, tail, optimize))
                n_cases += 1
                if outs[0] != outs[1]:
                    diffs.append(('cli %s %r' % (how, argv), outs[0],
                                  outs[1]))

        for pel in pel_files:
            for opts in (['-E'], ['-E', '-P'], []):
                for optimize in ((False, True) if opts == ['-E']
                                 else (False,)):
                    outs = []
                    for r in roots:
                        tail = [os.path.join(r, 'modules', 'pel', 'peltool',
                                             'peltool.py'), '-f', pel] + opts
                        outs.append(run_cli(r, workdir, tail, optimize))
                    n_cases += 1
                    if outs[0] != outs[1]:
                        diffs.append(('peltool %s %r' % (pel, opts), outs[0],
                                      outs[1]))

        # no files may be created / removed by the decoders
        listing_after = sorted(os.listdir(workdir))
        n_cases += 1
        if listing_after != listing_before:
            diffs.append(('workdir listing', listing_before, listing_after))
    finally:
        if not diffs and not os.environ.get('R39_KEEP'):
            shutil.rmtree(workdir, ignore_errors=True)

    if diffs:
        for (name, a, b) in diffs[:20]:
            print('DIFF in', name)
            print('  pristine:', str(a)[:1500])
            print('  patched :', str(b)[:1500])
        print('DIFFERENT (%d of %d cases differ); inputs kept in %s' % (
            len(diffs), n_cases, workdir))
        sys.exit(1)
    print('IDENTICAL (%d cases)' % n_cases)
    sys.exit(0)


if __name__ == '__main__':
    main()
