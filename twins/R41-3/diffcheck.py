#!/usr/bin/env python
"""
Differential check for refactorings of modules/pel/peltool/peltool.py and
modules/pel/peltool/config.py.

    /venv/bin/python diffcheck.py <pristine_root> <patched_root>

Two kinds of cases are compared between the two source trees:

 * CLI cases: peltool.py is run in a subprocess (PYTHONPATH=<root>/modules)
   against freshly built PEL directories; exit status, stdout bytes, stderr
   (traceback frames stripped, final exception line kept) and the resulting
   directory contents are compared.
 * driver cases: a driver script is run in a subprocess per tree (once normal,
   once with python -O); it imports pel.peltool.peltool and calls the
   functions directly with a large number of inputs (including repeated decodes
   in one process and main() with a simulated BMC environment) and records the
   results, which are compared one by one.

Exit 0 printing "IDENTICAL (<n> cases)" if everything matches, 1 otherwise.
"""

import hashlib
import json
import os
import random
import shutil
import struct
import subprocess
import sys
import tempfile
from concurrent.futures import ThreadPoolExecutor

PYTHON = sys.executable
HERE = os.path.dirname(os.path.abspath(__file__))


# --------------------------------------------------------------------------
# building binary PELs
# --------------------------------------------------------------------------

def bcd_time(y=2022, mo=3, d=8, h=18, mi=40, s=27):
    return bytes.fromhex("%04d%02d%02d%02d%02d%02d00" % (y, mo, d, h, mi, s))


def hdr(sid, length, ver=1, sub=0, comp=0x1000):
    if isinstance(sid, str):
        sid = (ord(sid[0]) << 8) | ord(sid[1])
    return struct.pack(">HHBBH", sid, length & 0xFFFF, ver, sub, comp)


def sec_ph(count, creator=b"O", logid=1, plid=0x50000001, eid=0x50000001,
           sid="PH", t1=None, t2=None, comp=0x1000):
    body = (t1 or bcd_time()) + (t2 or bcd_time(s=28)) + creator + b"\0\0" + \
        bytes([count & 0xFF]) + struct.pack(">IQII", logid, 0x0102030405060708,
                                            plid, eid)
    return hdr(sid, 48, comp=comp) + body


def sec_uh(sev=0x40, flags=0xA000, subsys=0x10, scope=0x03, etype=0x00,
           states=0x00000201, sid="UH", comp=0x1000):
    body = struct.pack(">BBBBIBBHI", subsys, scope, sev, etype, 0, 0x10, 0x20,
                       flags, states)
    return hdr(sid, 24, comp=comp) + body


def fru_callout(loc=b"U78DA.ND1-P0", prio=ord("H"), fflags=0x08 | 0x04 | 0x01,
                pn=b"PN12345\0", ccin=b"2B3C", sn=b"SN1234567890"):
    fru = b"ID" + b"\0" + bytes([fflags])
    if fflags & 0x08 or fflags & 0x02:
        fru += pn
    if fflags & 0x04:
        fru += ccin
    if fflags & 0x01:
        fru += sn
    fru = fru[:2] + bytes([len(fru)]) + fru[3:]
    loc = loc + b"\0" * ((4 - len(loc) % 4) % 4)
    size = 4 + len(loc) + len(fru)
    return bytes([size, 0x31, prio, len(loc)]) + loc + fru


def sec_src(ascii_str=b"BD8D1001", sid="PS", flags=0, wordcount=9,
            words=None, callouts=None, comp=0x1000, ver=1):
    words = words or [0x00000055, 0x2B3C0010, 0x0, 0x23000000, 0x11, 0x22,
                      0x33, 0x44]
    body = bytes([2, flags | (1 if callouts else 0), 0, wordcount]) + \
        b"\0\0" + struct.pack(">H", 72)
    body += b"".join(struct.pack(">I", w & 0xFFFFFFFF) for w in words)
    body += ascii_str.ljust(32, b" ")
    if callouts:
        cbody = b"".join(callouts)
        body += bytes([0xC0, 0]) + struct.pack(">H", (4 + len(cbody)) // 4) + \
            cbody
    return hdr(sid, 8 + len(body), ver=ver, comp=comp) + body


def sec_eh(sym=b"BD8D1001_2B3C0010\0\0\0"):
    body = b"9105-22A" + b"SERIAL123456" + b"FW1030.00".ljust(16, b"\0") + \
        b"fw1030.00-12".ljust(16, b"\0") + b"\0\0\0\0" + bcd_time(s=30) + \
        b"\0\0\0" + bytes([len(sym)]) + sym
    return hdr("EH", 8 + len(body)) + body


def sec_mt():
    return hdr("MT", 28) + b"9105-22A" + b"SERIAL123456"


def sec_ud(data, sub=1, comp=0x2000, ver=1, sid="UD"):
    return hdr(sid, 8 + len(data), ver=ver, sub=sub, comp=comp) + data


def sec_ed(data, creator=b"O", sub=1, comp=0x2000):
    return hdr("ED", 12 + len(data), sub=sub, comp=comp) + creator + \
        b"\0\0\0" + data


def sec_lp(name=b"lpar01\0\0", lps=(1, 2, 3)):
    body = struct.pack(">HBBI", 0x0001, len(name), len(lps), 0x12345678) + \
        name + b"".join(struct.pack(">H", x) for x in lps)
    if len(lps) % 2:
        body += b"\0\0"
    return hdr("LP", 8 + len(body)) + body


def sec_other(sid, data):
    return hdr(sid, 8 + len(data)) + data


def pel(sections, count=None, **ph):
    """ sections: everything after PH """
    n = len(sections) + 1 if count is None else count
    return sec_ph(n, **ph) + b"".join(sections)


def fname(i, eid, ext=""):
    return "20220308184%03d00_%08X%s" % (i % 1000, eid, ext)


def build_corpus():
    """ Returns an ordered list of (file name, bytes). """
    rnd = random.Random(20240607)
    files = []
    n = [0]

    def add(data, ext="", eid=None, name=None):
        n[0] += 1
        files.append((name or fname(n[0], eid or 0x50000000 + n[0], ext),
                      data))

    def eid():
        return 0x50000000 + n[0] + 1

    json_ud = sec_ud(b'{"Key": "value", "List": [1, 2, {"a": "b: {c}"}]}\0\0\0')
    text_ud = sec_ud(b"line one\nline \x01two\nthree: \"q\"\n\0\0", sub=3)
    cbor_ud = sec_ud(b"\xa1\x63abc\x01\0\0\0", sub=2)
    bad_ud = sec_ud(b"this is not json\0", sub=1)
    hb_ud = sec_ud(bytes(range(40)), sub=4, comp=0x0100)
    e500_ud = sec_ud(struct.pack(">I", 1) + bytes(12), sub=1, comp=0xE500)
    null_ud = sec_ud(b"", sub=7, comp=0x3000)
    ed = sec_ed(b'{"Ext": true}\0\0\0')
    ed_b = sec_ed(bytes(range(16)), creator=b"B", comp=0x0200, sub=2)
    co = [fru_callout(),
          fru_callout(loc=b"", prio=ord("M"), fflags=0x02 | 0x30,
                      pn=b"BMC0001\0")]

    # 1. severity x action-flag matrix (all well formed)
    ext_cycle = ["", ".pel", ".txt"]
    k = 0
    for sev in (0x00, 0x10, 0x20, 0x40, 0x50, 0x51, 0x60, 0x71):
        for flags in (0x8000, 0x4000, 0x2000, 0xA000, 0x6000, 0x0000):
            k += 1
            e = eid()
            reason = (b"BD8D1001", b"BD8D2002", b"11001003",
                      b"BC8A0504")[k % 4]
            secs = [sec_uh(sev=sev, flags=flags, subsys=0x10 + k),
                    sec_src(reason, callouts=co if k % 5 == 0 else None,
                            wordcount=(9, 5, 2, 9)[k % 4]),
                    sec_eh(), sec_mt()]
            if k % 3 == 0:
                secs += [json_ud, text_ud]
            if k % 7 == 0:
                secs += [ed]
            add(pel(secs, logid=k, eid=e,
                    plid=e if k % 4 else 0x50000001,
                    creator=(b"O", b"O", b"B", b"O", b"H")[k % 5]),
                ext=ext_cycle[k % 3], eid=e)

    # 2. section variety
    e = eid()
    add(pel([sec_uh(), sec_src(callouts=co), sec_eh(), sec_mt(), json_ud,
             text_ud, cbor_ud, bad_ud, hb_ud, e500_ud, ed, ed_b,
             sec_lp(), sec_lp(name=b"", lps=()), sec_src(b"BD8D9999", sid="SS"),
             sec_src(b"BD8D1001", sid="SS", callouts=co),
             sec_other("DH", bytes(range(24))), sec_other("ZZ", b"\1\2\3\4"),
             sec_other("PH", bytes(8)), sec_other("UH", bytes(4))],
            logid=100, eid=e), eid=e, ext=".pel")
    e = eid()          # zero length user data
    add(pel([sec_uh(), sec_src(), null_ud, json_ud], logid=113, eid=e), eid=e)
    e = eid()          # no primary SRC
    add(pel([sec_uh(), sec_eh(), sec_mt(), json_ud], logid=101, eid=e), eid=e)
    e = eid()          # primary SRC not first after the headers
    add(pel([sec_uh(), json_ud, sec_src(b"BD8D2002"), sec_mt()], logid=102,
            eid=e), eid=e)
    e = eid()          # section count smaller than the real number
    add(pel([sec_uh(), sec_src(), sec_eh(), sec_mt(), json_ud], count=3,
            logid=103, eid=e), eid=e, ext=".pel")
    e = eid()          # section count larger than the real number
    add(pel([sec_uh(), sec_src(), sec_eh()], count=9, logid=104, eid=e),
        eid=e)
    e = eid()          # section count 0 / 1 / 2
    add(pel([sec_uh(), sec_src()], count=0, logid=105, eid=e), eid=e)
    e = eid()
    add(pel([sec_uh()], count=2, logid=105, eid=e), eid=e, ext=".txt")
    e = eid()          # wrong PH id
    add(pel([sec_uh(), sec_src()], sid="XX", logid=106, eid=e), eid=e)
    e = eid()          # wrong UH id
    add(pel([sec_uh(sid="QQ"), sec_src()], logid=107, eid=e), eid=e,
        ext=".pel")
    e = eid()          # non ascii creator
    add(pel([sec_uh(), sec_src()], creator=b"\xff", logid=108, eid=e), eid=e)
    e = eid()          # unknown creator, odd SRC text
    add(pel([sec_uh(), sec_src(b"\xc3\xa9A00FF01")], creator=b"Z", logid=109,
            eid=e), eid=e)
    e = eid()          # SRC with invalid utf-8
    add(pel([sec_uh(), sec_src(b"BD\xff\xfe1001")], logid=110, eid=e), eid=e)
    e = eid()          # many duplicate sections
    add(pel([sec_uh(flags=0x8000, sev=0x00), sec_src(b"BD8D1001")] +
            [json_ud] * 3 + [hb_ud] * 2 + [ed] * 2, logid=111, eid=e), eid=e,
        ext=".pel")
    e = eid()          # eid that does not start with a digit pattern
    add(pel([sec_uh(), sec_src()], logid=3, eid=0xABCDEF01, plid=0xABCDEF01),
        eid=0xABCDEF01)
    # file name that does not carry its EID
    add(pel([sec_uh(), sec_src(b"BD8D2002")], logid=112, eid=0x5000FFFF),
        name="not-a-bmc-name.pel")

    # 3. truncations / corruptions of a rich PEL
    rich = pel([sec_uh(), sec_src(callouts=co), sec_eh(), sec_mt(), json_ud,
                text_ud, ed, sec_lp()], logid=200, eid=0x500000C8)
    for cut in (0, 1, 7, 8, 20, 47, 48, 49, 56, 71, 72, 73, 80, 100, 152, 153,
                200, 260, len(rich) - 1):
        e = eid()
        data = bytearray(rich[:cut])
        if len(data) >= 48:
            data[44:48] = struct.pack(">I", e)
        add(bytes(data), eid=e, ext=".pel" if cut % 2 else "")
    for _ in range(24):
        e = eid()
        data = bytearray(rich)
        data[44:48] = struct.pack(">I", e)
        for _ in range(rnd.choice((1, 1, 2, 4, 16))):
            pos = rnd.randrange(len(data))
            if 40 <= pos < 48 and rnd.random() < 0.8:
                continue
            data[pos] = rnd.randrange(256)
        add(bytes(data), eid=e)
    # corrupt only section lengths / ids
    for off in (50, 51, 74, 75, 72, 73):
        for val in (0x00, 0x04, 0xFF):
            e = eid()
            data = bytearray(rich)
            data[44:48] = struct.pack(">I", e)
            data[off] = val
            add(bytes(data), eid=e, ext=".pel")

    # 4. random garbage
    for size in (3, 48, 72, 200, 1000):
        e = eid()
        add(bytes(rnd.randrange(256) for _ in range(size)), eid=e)
    e = eid()
    add(b"PH" + bytes(rnd.randrange(256) for _ in range(300)), eid=e)
    return files


FAKE_REGISTRY = {
    "PELs": [
        {"Name": "x.Error.NoReason", "SRC": {},
         "Documentation": {"Message": "never"}},
        {"Name": "x.Error.One",
         "SRC": {"ReasonCode": "0x1001",
                 "Words6To9": {
                     "6": {"Description": "The first: {word}",
                           "AdditionalDataPropSource": "WORD_SIX"},
                     "7": {"AdditionalDataPropSource": "NODESC"}}},
         "Documentation": {"Message": "Something failed with %1 and %2",
                           "MessageArgSources": ["SRCWord6", "SRCWord9"]}},
        {"Name": "x.Error.Power", "SRC": {"ReasonCode": "0x1003", "Type": "11"},
         "Documentation": {"Message": "Power \"fault\": detected"}},
        {"Name": "x.Error.Empty", "SRC": {"ReasonCode": "0x2002"},
         "Documentation": {"Message": ""}},
    ]}


def write_fake_registry(base):
    d = os.path.join(base, "fakereg", "pel_registry")
    os.makedirs(d)
    with open(os.path.join(d, "__init__.py"), "w") as f:
        f.write("import os\n"
                "def get_registry_path():\n"
                "    return os.path.join(os.path.dirname(__file__),"
                " 'message_registry.json')\n")
    with open(os.path.join(d, "message_registry.json"), "w") as f:
        json.dump(FAKE_REGISTRY, f)
    with open(os.path.join(d, "O_component_ids.json"), "w") as f:
        json.dump({"1000": "bmc-state-manager", "2000": "bmc-logging"}, f)
    return os.path.join(base, "fakereg")


# --------------------------------------------------------------------------
# helpers to lay out and snapshot directories
# --------------------------------------------------------------------------

def populate(spec, base, corpus):
    """ Create the directory layout named by spec below base. """
    pels = os.path.join(base, "pels")
    out = os.path.join(base, "out")
    os.makedirs(pels)
    os.makedirs(out)
    with open(os.path.join(base, "exclude.txt"), "w") as f:
        f.write("BD8D1001\nBC8A0504 and 11001003\n")
    with open(os.path.join(base, "exclude_none.txt"), "w") as f:
        f.write("")
    if spec == "A":
        for name, data in corpus:
            with open(os.path.join(pels, name), "wb") as f:
                f.write(data)
        sub = os.path.join(pels, "archive")
        os.makedirs(sub)
        for name, data in corpus[:3]:
            with open(os.path.join(sub, "sub_" + name), "wb") as f:
                f.write(data)
    elif spec == "S":        # small, all well formed
        for name, data in corpus[:12]:
            with open(os.path.join(pels, name), "wb") as f:
                f.write(data)
    elif spec == "B":        # broken symlink + symlink to a file + subdir
        for name, data in corpus[:4]:
            with open(os.path.join(pels, name), "wb") as f:
                f.write(data)
        os.symlink(os.path.join(pels, "does-not-exist"),
                   os.path.join(pels, "zz_broken_50000099.pel"))
        os.symlink(os.path.join(pels, corpus[0][0]),
                   os.path.join(pels, "zy_link_5000AAAA.pel"))
        os.makedirs(os.path.join(pels, "sub.pel"))
        with open(os.path.join(pels, "sub.pel", "x_50000001"), "wb") as f:
            f.write(corpus[0][1])
    elif spec == "E":
        pass
    else:
        raise ValueError(spec)


def snapshot(base):
    res = []
    for root, dirs, files in os.walk(base):
        dirs.sort()
        rel = os.path.relpath(root, base)
        res.append(("D", rel))
        for d in list(dirs):
            p = os.path.join(root, d)
            if os.path.islink(p):
                res.append(("L", os.path.join(rel, d), os.readlink(p)))
        for f in sorted(files):
            p = os.path.join(root, f)
            if os.path.islink(p):
                res.append(("L", os.path.join(rel, f), os.readlink(p)))
            else:
                with open(p, "rb") as fd:
                    res.append(("F", os.path.join(rel, f),
                                hashlib.sha256(fd.read()).hexdigest()))
    return res


def strip_tracebacks(text, root):
    text = text.replace(root, "<ROOT>")
    out = []
    lines = text.split("\n")
    i = 0
    in_tb = False
    while i < len(lines):
        line = lines[i]
        if line.startswith("Traceback (most recent call last):"):
            in_tb = True
            out.append(line)
        elif in_tb and line.startswith("  "):
            pass                       # frame / source / caret lines
        else:
            in_tb = False
            out.append(line)
        i += 1
    return "\n".join(out)


def base_env(root, fakereg):
    env = {k: v for k, v in os.environ.items()
           if not k.startswith("PYTHON")}
    env["PYTHONPATH"] = os.path.join(root, "modules") + \
        (os.pathsep + fakereg if fakereg else "")
    env["PYTHONDONTWRITEBYTECODE"] = "1"
    env["PYTHONHASHSEED"] = "0"
    env["COLUMNS"] = "100"
    env["LINES"] = "40"
    env["LC_ALL"] = "C.UTF-8"
    return env


# --------------------------------------------------------------------------
# CLI cases
# --------------------------------------------------------------------------

def cli_cases(corpus):
    """ Yields (label, layout, argv template, optimise, use_registry). """
    cases = []

    def add(layout, args, opt=False, reg=True):
        cases.append((layout, list(args), opt, reg))

    P = ["-p", "{pels}"]
    filters = [[], ["-E"], ["-s"], ["-N"], ["-H"], ["-t"], ["-O"],
               ["-sNH"], ["-H", "-O"], ["-N", "-O"], ["-s", "-O"],
               ["-t", "-O"], ["-S", "Informational"],
               ["-O", "-S", "Critical"], ["-S", "Recovered", "Predictive"],
               ["-O", "-S", "Unrecoverable", "-H"],
               ["-O", "-S", "Symptom", "Diagnostic", "-N"],
               ["-s", "-S", "Informational", "-O"]]
    for mode in ("-l", "-n", "-a"):
        for flt in filters:
            add("A", P + [mode] + flt)
    for mode in ("-l", "-n", "-a"):
        add("A", P + [mode, "-x"])
        add("A", P + [mode, "-r", "-E"])
        add("A", P + [mode, "-e", ".pel", "-E"])
        add("A", P + [mode, "-e", "pel"])
        add("A", P + [mode, "-P", "-E"])
        add("A", P + [mode, "-E"], reg=False)
        add("A", P + [mode, "-E"], opt=True)
        add("A", P + [mode, "-x", "-r", "-e", ".txt", "-H"], opt=True)
        add("E", P + [mode])
        add("E", P + [mode, "-x"])
        add("B", P + [mode, "-E"])
        add("S", P + [mode, "-r"])
    # several modes at once: precedence
    add("S", P + ["-l", "-n", "-a"])
    add("S", P + ["-a", "-n"])
    add("S", P + ["-D", "-l"])
    add("S", P + ["-d", "50000001", "-n"])
    add("S", P + ["-i", "50000002", "--bmc-id", "1", "-l"])
    add("S", P + ["--bmc-id", "1", "--plid", "50000001"])
    add("S", P + ["--plid", "50000001", "--src", "BD"])
    add("S", P + ["--src", "BD", "--src-exclude", "{base}/exclude.txt"])
    add("S", P + ["--src-exclude", "{base}/exclude.txt", "-l"])
    add("S", P + ["-j", "-i", "50000002", "-o", "{out}"])
    add("S", P + ["-f", "{pels}/" + corpus[0][0], "-l"])
    # --id
    for pid in ("50000002", "0x50000004", "0X50000005", "abcdef01",
                "0xABCDEF01", "5000", "0x5000000", "500000021", "5FFFFFFF",
                "", "500000C8", "5000004E"):
        add("A", P + ["-i", pid])
    add("A", P + ["-i", "50000004", "-x"])
    add("A", P + ["-i", "50000003", "-H"])
    add("A", P + ["-i", "50000003", "-O"])
    add("A", P + ["--id", "50000031", "-P"], opt=True)
    add("E", P + ["-i", "50000002"])
    add("B", P + ["-i", "50000099"])
    # --bmc-id
    for bid in ("1", "3", "100", "105", "200", "999999", "0", "abc", "01",
                "108"):
        add("A", P + ["--bmc-id", bid])
    add("A", P + ["--bmc-id", "2", "-x"])
    add("A", P + ["--bmc-id", "2", "-O"])
    add("A", P + ["--bmc-id", "100", "-P"], opt=True)
    add("S", P + ["--bmc-id", "5"])
    add("S", P + ["--bmc-id", "55"])
    add("E", P + ["--bmc-id", "1"])
    add("B", P + ["--bmc-id", "77"])
    # --plid
    for plid in ("50000001", "0x50000003", "abcdef01", "5000", "5FFFFFFF",
                 "500000C8"):
        add("A", P + ["--plid", plid])
    add("A", P + ["--plid", "50000001", "-x"])
    add("A", P + ["--plid", "50000001", "-r", "-e", ".pel"])
    add("A", P + ["--plid", "50000001", "-O", "-H"])
    add("A", P + ["--plid", "50000001", "-E"], opt=True)
    add("E", P + ["--plid", "50000001"])
    add("B", P + ["--plid", "50000001"])
    add("S", P + ["--plid", "50000001", "-S", "Critical", "-O"])
    # --src
    for src in ("BD8D1001", "BD", "1100", "BC8A0504", "ZZZZ", "8D", " ",
                "B" * 32, "B" * 33):
        add("A", P + ["--src", src])
    add("A", P + ["--src", "BD8D", "-x"])
    add("A", P + ["--src", "BD8D", "-r", "-E"])
    add("A", P + ["--src", "BD8D", "-P"], opt=True)
    add("E", P + ["--src", "BD8D"])
    add("B", P + ["--src", "BD8D"])
    # --src-exclude
    add("A", P + ["--src-exclude", "{base}/exclude.txt"])
    add("A", P + ["--src-exclude", "{base}/exclude.txt", "-x"])
    add("A", P + ["--src-exclude", "{base}/exclude.txt", "-E", "-r"])
    add("A", P + ["--src-exclude", "{base}/exclude_none.txt", "-E"], opt=True)
    add("A", P + ["--src-exclude", "{base}/missing.txt"])
    add("A", P + ["--src-exclude", "{pels}"])
    add("E", P + ["--src-exclude", "{base}/exclude.txt"])
    # delete
    for pid in ("50000002", "0x50000004", "5FFFFFFF", "5000", "abcdef01",
                "50000001", "500000"):
        add("A", P + ["-d", pid])
    add("S", P + ["-d", "50000003"], opt=True)
    add("E", P + ["-d", "50000003"])
    add("B", P + ["-d", "50000099"])
    add("B", P + ["-d", "5000AAAA"])
    add("A", P + ["-D"])
    add("S", P + ["-D"], opt=True)
    add("E", P + ["-D"])
    add("B", P + ["-D"])
    # --json
    add("A", P + ["-j"])
    add("A", P + ["-j", "-o", "{out}"])
    add("A", P + ["-j", "-o", "{out}", "-c"])
    add("A", P + ["-j", "-c", "-E"])
    add("A", P + ["-j", "-o", "{base}/missing"])
    add("A", P + ["-j", "-o", "{out}", "-e", ".pel", "-c", "-E"])
    add("A", P + ["-j", "-o", "{out}", "-H", "-O", "-P"])
    add("A", P + ["-j", "-o", "{out}", "-x"], opt=True)
    add("A", P + ["-j", "-o", "{out}", "-E"], reg=False)
    add("S", P + ["-j", "-c"], opt=True)
    add("E", P + ["-j"])
    add("B", P + ["-j", "-o", "{out}", "-E"])
    add("S", P + ["-c", "-l"])
    # --file
    for i, (name, _) in enumerate(corpus):
        extra = [[], ["-E"], ["-x", "-E"], ["-c", "-E"], ["-P", "-E"],
                 ["-c"], ["-H", "-O"]][i % 7]
        add("A", ["-f", "{pels}/" + name] + extra)
    add("A", ["-f", "{pels}/missing"])
    add("A", ["-f", "{pels}/missing", "-c"])
    add("A", ["-f", "{pels}"])
    add("A", ["-f", "{pels}/" + corpus[0][0], "-c", "-x"], opt=True)
    add("A", ["-f", "{pels}/" + corpus[48][0], "-c"], opt=True)
    add("A", ["-f", "{pels}/" + corpus[48][0]], reg=False)
    add("A", P + ["-f", "{pels}/" + corpus[1][0], "-E", "-S", "Critical"])
    add("A", ["-f", ""])
    # path handling / misc
    add("A", ["-l"])
    add("A", [])
    add("A", P)
    add("A", P + ["-x", "-r"])
    add("A", ["-p", "{base}/missing", "-l"])
    add("A", ["-p", "{base}/exclude.txt", "-l"])
    add("A", ["-p", "", "-l"])
    add("A", ["-h"])
    add("A", ["--help"], opt=True)
    add("A", ["-A", "-l"])
    add("A", P + ["-l", "-S", "Bogus"])
    add("A", P + ["-l", "-S"])
    add("A", P + ["--nonsense"])
    add("A", P + ["-l", "--every-pel", "--serviceable", "--non-serviceable",
                  "--hidden", "--termination", "--only", "--severities",
                  "Critical", "--reverse", "--extension", ".pel"])
    add("A", ["--path", "{pels}", "--show-pel-count", "--skip-parser-plugins"])
    add("A", ["--path", "{pels}", "--all-pels", "--hex", "--extension",
              ".txt"])
    add("A", ["--path", "{pels}", "--delete", "50000002"])
    add("S", ["--path", "{pels}", "--delete-all"])
    add("S", ["--path", "{pels}", "--json", "--output-dir", "{out}",
              "--clean"])
    return cases


def run_cli_case(idx, case, roots, tmp, corpus, fakereg):
    layout, args, opt, reg = case
    base = os.path.join(tmp, "c%04d" % idx)
    results = []
    for root in roots:
        if os.path.exists(base):
            shutil.rmtree(base)
        os.makedirs(base)
        populate(layout, base, corpus)
        subst = {"pels": os.path.join(base, "pels"),
                 "out": os.path.join(base, "out"), "base": base}
        argv = [a.format(**subst) for a in args]
        cmd = [PYTHON] + (["-O"] if opt else []) + \
            [os.path.join(root, "modules", "pel", "peltool", "peltool.py")] + \
            argv
        try:
            p = subprocess.run(cmd, cwd=base, stdin=subprocess.DEVNULL,
                               stdout=subprocess.PIPE, stderr=subprocess.PIPE,
                               env=base_env(root, fakereg if reg else None),
                               timeout=300)
            res = (p.returncode, p.stdout,
                   strip_tracebacks(p.stderr.decode("utf-8", "replace"), root),
                   snapshot(base))
        except subprocess.TimeoutExpired:
            res = ("TIMEOUT",)
        results.append(res)
        shutil.rmtree(base)
    return idx, case, results


# --------------------------------------------------------------------------
# in-process driver (written to a file and run with each tree's PYTHONPATH)
# --------------------------------------------------------------------------

DRIVER = r'''
import contextlib, inspect, io, json, os, random, shutil, sys

spec_path, result_path = sys.argv[1], sys.argv[2]
with open(spec_path) as f:
    SPEC = json.load(f)
ROOT = SPEC["root"]
WORK = SPEC["work"]
CORPUS = [(n, bytes.fromhex(h)) for n, h in SPEC["corpus"]]

import pel.peltool.peltool as pt
from pel.peltool.config import Config
from pel.datastream import DataStream
from collections import OrderedDict

RESULTS = []


def record(label, value):
    RESULTS.append([label, value])


def norm(text):
    return text.replace(ROOT, "<ROOT>")


def call(fn, *a, **kw):
    """ Runs fn capturing stdout, stderr, the result and any exception. """
    out, err = io.StringIO(), io.StringIO()
    res = None
    exc = None
    with contextlib.redirect_stdout(out), contextlib.redirect_stderr(err):
        try:
            res = fn(*a, **kw)
        except SystemExit as e:
            exc = "SystemExit(%r)" % (e.code,)
        except BaseException as e:
            exc = "%s: %s" % (type(e).__name__, e)
    return {"res": jsonable(res), "exc": norm(exc) if exc else None,
            "out": norm(out.getvalue()), "err": norm(err.getvalue())}


def jsonable(x):
    if isinstance(x, (str, int, float, bool)) or x is None:
        return x
    if isinstance(x, (bytes, bytearray, memoryview)):
        return "bytes:" + bytes(x).hex()
    if isinstance(x, dict):
        return {"__dict__": type(x).__name__,
                "items": [[jsonable(k), jsonable(v)] for k, v in x.items()]}
    if isinstance(x, (list, tuple)):
        return {"__seq__": type(x).__name__, "items": [jsonable(v) for v in x]}
    if hasattr(x, "__dict__"):
        return {"__obj__": type(x).__name__,
                "attrs": sorted((k, jsonable(v)) for k, v in vars(x).items()
                                if k != "stream" and k != "data")}
    return repr(x)


def mkconfig(**kw):
    c = Config()
    for k, v in kw.items():
        setattr(c, k, v)
    return c


def stream_of(data):
    return DataStream(data, byte_order='big', is_signed=False)


def snapshot(base):
    res = []
    for root, dirs, files in os.walk(base):
        dirs.sort()
        rel = os.path.relpath(root, base)
        res.append(["D", rel])
        for f in sorted(files):
            p = os.path.join(root, f)
            if os.path.islink(p):
                res.append(["L", os.path.join(rel, f)])
            else:
                with open(p, "rb") as fd:
                    res.append(["F", os.path.join(rel, f), fd.read().hex()
                                if os.path.getsize(p) < 64 else
                                str(hash_bytes(fd.read()))])
    return res


def hash_bytes(b):
    import hashlib
    return hashlib.sha256(b).hexdigest()


def fresh_dir(name, files):
    d = os.path.join(WORK, name)
    if os.path.exists(d):
        shutil.rmtree(d)
    os.makedirs(d)
    for n, data in files:
        with open(os.path.join(d, n), "wb") as f:
            f.write(data)
    return d


# ---- module surface -------------------------------------------------------
ORIG_FUNCS = ["getSectionName", "parseHeader", "generatePH", "generateUH",
              "generateSRC", "generateEH", "generateMT", "generateED",
              "generateUD", "generateIP", "generateDefault", "sectionFun",
              "buildOutput", "prettyPrint", "considerPELIfSeverityMatches",
              "considerPEL", "parsePEL", "parseAndWriteOutput",
              "deleteAllPELs", "processId", "deletePELFromPELId",
              "parseAndPrintPELFile", "parsePelFromID", "parsePelFromBmcID",
              "parsePelFromPLID", "parsePelFromSRCID", "parsePELSummary",
              "extractAndSummarizePEL", "getFileList", "listOption",
              "extractAllPELsData", "printPELInHexFormat", "printPELCount",
              "main"]
for name in ORIG_FUNCS:
    fn = getattr(pt, name, None)
    record("sig:" + name, str(inspect.signature(fn)) if fn else None)
record("KEY_PREFIX_RE", [pt.KEY_PREFIX_RE.pattern, pt.KEY_PREFIX_RE.flags])
record("CustomFormatter.mro",
       [c.__name__ for c in pt.CustomFormatter.__mro__])

# ---- Config ---------------------------------------------------------------
c1, c2 = Config(), Config()
record("config.vars", [[k, jsonable(v)] for k, v in vars(c1).items()])
record("config.sev-not-shared", c1.severities is not c2.severities)
c1.severities.append(5)
record("config.sev-independent", [c1.severities, c2.severities,
                                  Config().severities])
record("config.eq", [c1 == c2, c1 == c1, c1 != c2])
record("config.hashable", [hash(c1) == object.__hash__(c1),
                           Config.__hash__ is object.__hash__,
                           Config.__eq__ is object.__eq__,
                           Config.__repr__ is object.__repr__])
record("config.repr", repr(c1).split(" at ")[0])
record("config.init-sig", str(inspect.signature(Config.__init__)))
record("config.ctor-args", call(lambda: Config(True))["exc"])
record("config.ctor-kwargs", call(lambda: Config(hex=True))["exc"])
record("config.class-attrs", sorted(k for k in vars(Config())
                                    if hasattr(Config, k)))
record("config.doc", Config.__doc__)
c1.some_new_attribute = 1
record("config.setattr", c1.some_new_attribute)

# ---- getSectionName / parseHeader ----------------------------------------
record("getSectionName", [pt.getSectionName(i) for i in
                          list(range(0, 0x10000, 257)) +
                          [0x5048, 0x5548, 0x5053, 0x5353, 0x4548, 0x4D54,
                           0x5544, 0x4544, 0x4C50, 0x12345, -1]])
for n, data in CORPUS[::5]:
    record("parseHeader:" + n, call(lambda: pt.parseHeader(stream_of(data))))

# ---- prettyPrint ---------------------------------------------------------
rnd = random.Random(99)
ALPHA = ['a', 'B', ' ', '"', '\\', ':', '{', '}', '[', ',', '\n', '\t', 'é',
         '": ', '\\"', "'", '0']


def rand_key():
    return "".join(rnd.choice(ALPHA) for _ in range(rnd.randrange(0, 12)))


def rand_val(depth=0):
    t = rnd.randrange(8 if depth < 3 else 5)
    if t == 0:
        return rnd.randrange(-5, 100000)
    if t == 1:
        return rand_key()
    if t == 2:
        return rnd.choice([None, True, False, 1.5])
    if t == 3:
        return []
    if t == 4:
        return {}
    if t == 5:
        return [rand_val(depth + 1) for _ in range(rnd.randrange(4))]
    return {rand_key(): rand_val(depth + 1) for _ in range(rnd.randrange(5))}


for i in range(300):
    doc = {rand_key(): rand_val() for _ in range(rnd.randrange(1, 6))}
    text = json.dumps(doc, indent=rnd.choice([4, 4, 2, 0, None]),
                      ensure_ascii=rnd.choice([True, False]))
    space = rnd.choice([34, 34, 29, 0, 5, 60, -3])
    if rnd.random() < 0.5:
        record("prettyPrint:%d" % i, call(pt.prettyPrint, text))
    else:
        record("prettyPrint:%d" % i, call(pt.prettyPrint, text, space))
for i, text in enumerate(["", "\n", "\n\n", "no json here", '"a": 1',
                          '   "a":1', '"a" : 1', '    "k": {', '"k": "{"',
                          '"a": 1\n"b": 2\r\n"c":', '"unterminated: 1',
                          '"x\\": 1', '"x\\\\": 1', ' "": ""',
                          '"a": 1, "b": 2', "'a': 1", '\t"a": 1',
                          '"' + "k" * 50 + '": 1']):
    record("prettyPrint:fixed%d" % i, call(pt.prettyPrint, text))
    record("prettyPrint:fixed%d/29" % i,
           call(pt.prettyPrint, text, desiredSpace=29))
record("prettyPrint:bad-type", call(pt.prettyPrint, None))
record("prettyPrint:bytes", call(pt.prettyPrint, b'"a": 1'))

# ---- buildOutput ---------------------------------------------------------
NAMES = ["User Data", "Primary SRC", "Private Header", "User Header",
         "User Data 0", "User Data 1", "Unknown", "Extended User Data", ""]
for i in range(200):
    sections = []
    for j in range(rnd.randrange(0, 9)):
        s = OrderedDict()
        s[rnd.choice(NAMES)] = {"n": j}
        if rnd.random() < 0.1:
            s["extra"] = j
        sections.append(s)
    out = OrderedDict()
    if rnd.random() < 0.7:
        out["Private Header"] = "ph"
        out["User Header"] = "uh"
    if rnd.random() < 0.2:
        out["User Data 1"] = "pre-existing"
    r = call(pt.buildOutput, sections, out)
    r["outdict"] = jsonable(out)
    record("buildOutput:%d" % i, r)
record("buildOutput:empty-section", call(pt.buildOutput, [OrderedDict()],
                                         OrderedDict()))
record("buildOutput:second-empty",
       call(pt.buildOutput, [OrderedDict(a=1), OrderedDict()], OrderedDict()))
record("buildOutput:plain-dicts",
       (lambda o: [call(pt.buildOutput, [{"a": 1}, {"a": 2}, {"b": 3}], o),
                   jsonable(o)])({}))

# ---- considerPEL / considerPELIfSeverityMatches ---------------------------


class FakeUH:
    """ A real UserHeader with the decoded fields poked in. """


def make_uh(sev, flags):
    from pel.peltool.user_header import UserHeader
    uh = UserHeader(None, 0x5548, 24, 1, 0, 0x1000, "O")
    uh.eventSeverity = sev
    uh.actionFlags = flags
    return uh


UHS = [make_uh(s, f) for s in (0x00, 0x10, 0x20, 0x21, 0x40, 0x50, 0x51,
                               0x60, 0x71, 0xFF)
       for f in (0x8000, 0x4000, 0x2000, 0xA000, 0x6000, 0xE000, 0x0000)]
SEVS = [[], [0], [5], [1, 2], [4, 5, 7], [6, 0, 15]]
IDS = [{}, {"plid": "50000001"}, {"src": "BD"}, {"bmcID": "1"},
       {"pelID": "50000001"}, {"plid": "", "src": "", "pelID": None}]
for bits in range(64):
    flags = {"every_pel": bool(bits & 1), "critSysTerm": bool(bits & 2),
             "serviceable": bool(bits & 4), "non_serviceable": bool(bits & 8),
             "hidden": bool(bits & 16), "only": bool(bits & 32)}
    for si, sevs in enumerate(SEVS):
        for ii, ids in enumerate(IDS):
            cfg = mkconfig(severities=list(sevs), **flags, **ids)
            res = "".join("1" if pt.considerPEL(uh, cfg) is True else
                          "0" if pt.considerPEL(uh, cfg) is False else "?"
                          for uh in UHS)
            record("considerPEL:%d/%d/%d" % (bits, si, ii), res)
for si, sevs in enumerate(SEVS):
    cfg = mkconfig(severities=list(sevs))
    record("considerSev:%d" % si,
           [repr(pt.considerPELIfSeverityMatches(uh, cfg)) for uh in UHS])

# ---- processId ------------------------------------------------------------
for pid in ["50000001", "0x50000001", "0X5000000a", "abcdefgh", "0xabcdefgh",
            "", "0x", "5000", "500000011", "0x0x500000", "  500000", "0x 1234567",
            "ſ0000001", "0xx1234567"]:
    record("processId:" + pid, call(pt.processId, pid))
record("processId:None", call(pt.processId, None))

# ---- parsePEL / parsePELSummary / generatePH / generateUH -----------------
CONFIGS = [("default", {}), ("every", {"every_pel": True}),
           ("noplug", {"every_pel": True, "allow_plugins": False}),
           ("hidden-only", {"hidden": True, "only": True}),
           ("sev", {"severities": [5, 4], "only": True}),
           ("plid", {"plid": "50000001"})]
for rep in range(2):       # repeated decodes in one process
    for n, data in CORPUS:
        for cname, kw in (CONFIGS if rep == 0 else CONFIGS[:3]):
            for exit_on_error in (False, True):
                record("parsePEL:%d:%s:%s:%s" % (rep, n, cname, exit_on_error),
                       call(lambda: pt.parsePEL(stream_of(data),
                                                mkconfig(**kw),
                                                exit_on_error)))
            record("parsePELSummary:%d:%s:%s" % (rep, n, cname),
                   call(lambda: pt.parsePELSummary(stream_of(data),
                                                   mkconfig(**kw))))
for n, data in CORPUS:
    def headers():
        s = stream_of(data)
        out = OrderedDict()
        ok, ph = pt.generatePH(s, out)
        res = [ok, jsonable(ph), s.index]
        if ok:
            ok2, uh = pt.generateUH(s, ph.creatorID, out)
            res += [ok2, jsonable(uh), s.index]
        res.append(jsonable(out))
        return res
    record("headers:" + n, call(headers))
# memoryview / bytearray input
for n, data in CORPUS[:6]:
    record("parsePEL:mv:" + n,
           call(lambda: pt.parsePEL(stream_of(memoryview(data)),
                                    mkconfig(every_pel=True), False)))

# ---- sectionFun / generateXX directly -------------------------------------
rich = CORPUS[SPEC["rich_index"]][1]


def walk_sections(data, cfg):
    s = stream_of(data)
    out = OrderedDict()
    ok, ph = pt.generatePH(s, out)
    pt.generateUH(s, ph.creatorID, out)
    res = []
    for _ in range(2, ph.sectionCount):
        hdr = pt.parseHeader(s)
        o = OrderedDict()
        r = pt.sectionFun(s, o, *hdr, ph.creatorID, cfg)
        res.append([list(hdr), jsonable(r), jsonable(o), s.index])
    return res


record("sectionFun:rich", call(walk_sections, rich, mkconfig()))
record("sectionFun:rich-noplug", call(walk_sections, rich,
                                      mkconfig(allow_plugins=False)))

GEN = [("generateSRC", 0x5053, True, True), ("generateSRC", 0x5353, True, True),
       ("generateEH", 0x4548, True, False), ("generateMT", 0x4D54, True, False),
       ("generateED", 0x4544, False, True), ("generateUD", 0x5544, True, True),
       ("generateIP", 0x4C50, True, False),
       ("generateDefault", 0x4448, False, False),
       ("generateDefault", 0x1234, False, False)]
for fname, sid, has_creator, has_cfg in GEN:
    for blob_i, blob in enumerate([bytes(range(200)), b"", bytes(20),
                                   b"BD8D1001" * 30]):
        def direct():
            s = stream_of(blob)
            o = OrderedDict()
            args = [s, o, sid, 48, 1, 2, 0x2000]
            if has_creator:
                args.append("O")
            if has_cfg:
                args.append(mkconfig())
            r = getattr(pt, fname)(*args)
            return [r[0], type(r[1]).__name__, jsonable(o), s.index]
        record("%s:%04X:%d" % (fname, sid, blob_i), call(direct))

# ---- printPELInHexFormat --------------------------------------------------
for n, data in CORPUS[:4] + [("empty", b""), ("ba", bytearray(b"abc" * 20))]:
    record("hex:" + n, call(pt.printPELInHexFormat, data))
record("hex:mv", call(pt.printPELInHexFormat, memoryview(b"0123456789" * 5)))
record("hex:str", call(pt.printPELInHexFormat, "a string"))
record("hex:none", call(pt.printPELInHexFormat, None))

# ---- directory helpers ----------------------------------------------------
mixed = fresh_dir("mixed", CORPUS[:30] + CORPUS[48:80])
os.makedirs(os.path.join(mixed, "subdir.pel"))
with open(os.path.join(mixed, "subdir.pel", "inner_50000001.pel"), "wb") as f:
    f.write(CORPUS[0][1])
empty = fresh_dir("empty", [])
for ext in (None, "", ".pel", ".txt", "pel", ".PEL", "."):
    for rev in (False, True):
        record("getFileList:%r:%r" % (ext, rev),
               call(pt.getFileList, mixed, ext, rev))
    record("getFileList:%r:default" % (ext,), call(pt.getFileList, mixed, ext))
record("getFileList:empty", call(pt.getFileList, empty, None))
record("getFileList:missing", call(pt.getFileList,
                                   os.path.join(WORK, "nope"), ".pel", True))
record("getFileList:file", call(pt.getFileList,
                                os.path.join(mixed, CORPUS[0][0]), None))

for n, data in CORPUS[::3]:
    p = os.path.join(mixed, n)
    if not os.path.exists(p):
        continue
    for cname, kw in [("default", {}), ("every", {"every_pel": True}),
                      ("hex", {"every_pel": True, "hex": True})]:
        record("extractAndSummarize:%s:%s" % (n, cname),
               call(pt.extractAndSummarizePEL, p, mkconfig(**kw)))
        record("parseAndPrint:%s:%s" % (n, cname),
               call(pt.parseAndPrintPELFile, p, mkconfig(**kw), False))
        record("parseAndPrint:%s:%s:exit" % (n, cname),
               call(pt.parseAndPrintPELFile, p, mkconfig(**kw), True))
record("extractAndSummarize:missing",
       call(pt.extractAndSummarizePEL, os.path.join(mixed, "nope"),
            mkconfig()))
record("parseAndPrint:missing",
       call(pt.parseAndPrintPELFile, os.path.join(mixed, "nope"), mkconfig(),
            True))
record("parseAndPrint:dir", call(pt.parseAndPrintPELFile, mixed, mkconfig(),
                                 False))

DIRMODES = [("listOption", {}), ("extractAllPELsData", {}),
            ("printPELCount", {}), ("parsePelFromPLID", {"plid": "50000001"}),
            ("parsePelFromPLID", {"plid": "0x5000"}),
            ("parsePelFromSRCID", {"src": "BD8D"}),
            ("parsePelFromSRCID", {"src": "B" * 40}),
            ("parsePelFromSRCID", {}),
            ("parsePelFromSRCID", {"src": "BD8D1001",
                                   "srcExcludeFile": SPEC["exclude"]}),
            ("parsePelFromSRCID", {"srcExcludeFile": SPEC["exclude"]}),
            ("parsePelFromSRCID", {"srcExcludeFile":
                                   os.path.join(WORK, "nope.txt")}),
            ("parsePelFromID", {"pelID": "50000004"}),
            ("parsePelFromID", {"pelID": "5FFFFFFF"}),
            ("parsePelFromID", {"pelID": "12"}),
            ("parsePelFromID", {}),
            ("parsePelFromBmcID", {"bmcID": "3"}),
            ("parsePelFromBmcID", {"bmcID": "nope"}),
            ("parsePelFromBmcID", {"bmcID": 3}),
            ("parsePelFromBmcID", {})]
BASES = [("default", {}), ("every", {"every_pel": True}),
         ("hex", {"every_pel": True, "hex": True}),
         ("rev-ext", {"rev": True, "extension": ".pel", "hidden": True}),
         ("noplug-only", {"allow_plugins": False, "only": True,
                          "severities": [4]})]
for fname, kw in DIRMODES:
    for bname, bkw in BASES:
        for dname, d in (("mixed", mixed), ("empty", empty),
                         ("missing", os.path.join(WORK, "nope"))):
            if dname != "mixed" and bname not in ("default", "hex"):
                continue
            cfg = dict(bkw)
            cfg.update(kw)
            record("%s:%s:%s:%s" % (fname, json.dumps(kw, sort_keys=True),
                                    bname, dname),
                   call(getattr(pt, fname), d, mkconfig(**cfg)))

# parseAndWriteOutput
outd = fresh_dir("outd", [])
wdir = fresh_dir("wdir", CORPUS[:10] + CORPUS[48:70])
for i, (n, data) in enumerate(CORPUS[:10] + CORPUS[48:70]):
    p = os.path.join(wdir, n)
    cfg = mkconfig(every_pel=bool(i % 2), hex=bool(i % 3 == 0))
    record("writeOutput:" + n, call(pt.parseAndWriteOutput, p, outd, cfg,
                                    bool(i % 4 == 0)))
record("writeOutput:missing-file",
       call(pt.parseAndWriteOutput, os.path.join(wdir, "nope"), outd,
            mkconfig(), True))
n0 = CORPUS[1][0]
record("writeOutput:missing-outdir",
       call(pt.parseAndWriteOutput, os.path.join(wdir, n0),
            os.path.join(WORK, "no-such-dir"), mkconfig(every_pel=True), True))
record("writeOutput:file-is-dir",
       call(pt.parseAndWriteOutput, wdir, outd, mkconfig(), True))
record("writeOutput:snapshot", [snapshot(wdir), snapshot(outd)])

# deletes
for pid in ("50000003", "0x50000005", "5FFFFFFF", "500", "50000003",
            "2022030", "abcdef01"):
    ddir = fresh_dir("ddir", CORPUS[:8] + CORPUS[60:62])
    os.makedirs(os.path.join(ddir, "sub_50000003"))
    with open(os.path.join(ddir, "sub_50000003", "x_50000003"), "wb") as f:
        f.write(b"x")
    record("deleteById:" + pid, [call(pt.deletePELFromPELId, ddir, pid),
                                 snapshot(ddir)])
record("deleteById:missing-dir", call(pt.deletePELFromPELId,
                                      os.path.join(WORK, "nope"), "50000003"))
ddir = fresh_dir("ddir", CORPUS[:8])
os.makedirs(os.path.join(ddir, "sub"))
with open(os.path.join(ddir, "sub", "keep"), "wb") as f:
    f.write(b"x")
os.symlink(os.path.join(ddir, "nothing"), os.path.join(ddir, "broken"))
os.symlink(os.path.join(ddir, "sub", "keep"), os.path.join(ddir, "good-link"))
record("deleteAll", [call(pt.deleteAllPELs, ddir), snapshot(ddir)])
record("deleteAll:empty", [call(pt.deleteAllPELs, empty), snapshot(empty)])
record("deleteAll:missing", call(pt.deleteAllPELs, os.path.join(WORK, "nope")))

# ---- main() in process, outside and inside a simulated BMC ----------------
BMC_LOGS = "/var/lib/phosphor-logging/extensions/pels/logs/"
BMC_ARCH = "/var/lib/phosphor-logging/extensions/pels/logs/archive"
real_isdir, real_walk = os.path.isdir, os.walk
sim = {"on": False, "logs": None, "arch": None}


def fake_isdir(p):
    if sim["on"] and p in (BMC_LOGS, BMC_ARCH):
        return True
    return real_isdir(p)


def fake_walk(p, *a, **kw):
    if sim["on"] and p == BMC_LOGS:
        return real_walk(sim["logs"], *a, **kw)
    if sim["on"] and p == BMC_ARCH:
        return real_walk(sim["arch"], *a, **kw)
    return real_walk(p, *a, **kw)


os.path.isdir = fake_isdir
os.walk = fake_walk


def run_main(argv, bmc):
    logs = fresh_dir("bmc_logs", CORPUS[:14] + CORPUS[50:58])
    arch = fresh_dir("bmc_arch", CORPUS[20:26])
    outm = fresh_dir("bmc_out", [])
    sim.update(on=bmc, logs=logs, arch=arch)
    old = sys.argv
    sys.argv = ["peltool.py"] + [a.format(logs=logs, arch=arch, out=outm)
                                 for a in argv]
    try:
        r = call(pt.main)
    finally:
        sys.argv = old
        sim["on"] = False
    r["snap"] = [snapshot(logs), snapshot(arch), snapshot(outm)]
    return r


MAIN_BMC = [["-h"], [], ["-l"], ["-l", "-A"], ["-n", "-A", "-E"], ["-a", "-H"],
            ["-a", "-A", "-x"], ["-A"], ["-p", "{logs}", "-l"],
            ["-i", "50000003"], ["-i", "50000016", "-A"], ["-i", "50000016"],
            ["--bmc-id", "2"], ["--bmc-id", "21", "-A"],
            ["--plid", "50000001"], ["--plid", "50000001", "-A", "-E"],
            ["--src", "BD"], ["--src", "BD", "-A", "-x"],
            ["--src-exclude", SPEC["exclude"]],
            ["--src-exclude", SPEC["exclude"], "-A"],
            ["--src-exclude", "/nonexistent/file"],
            ["-d", "50000003"], ["-d", "50000016", "-A"], ["-D"], ["-D", "-A"],
            ["-j"], ["-j", "-A"], ["-j", "-o", "{out}"],
            ["-j", "-o", "{out}", "-c", "-A", "-E"],
            ["-j", "-o", "/nonexistent/dir"], ["-j", "-c", "-e", ".pel"],
            ["-f", "{logs}/" + CORPUS[0][0]],
            ["-f", "{logs}/" + CORPUS[0][0], "-c", "-A"],
            ["-f", "{logs}/" + CORPUS[52][0], "-c"],
            ["-f", "{logs}/missing"], ["-l", "-S", "Critical", "Symptom", "-O"],
            ["-n", "-t"], ["-x"], ["-l", "-r", "-e", ".txt", "-P"]]
MAIN_HOST = [["-h"], [], ["-l"], ["-A", "-l"], ["-p", "{logs}"],
             ["-p", "{logs}", "-l"], ["-p", "{logs}", "-n", "-E"],
             ["-p", "{arch}", "-a", "-x"], ["-p", "{logs}/missing", "-l"],
             ["-p", "{logs}", "-i", "50000003"],
             ["-p", "{logs}", "-i", "5000"],
             ["-p", "{logs}", "--bmc-id", "2"],
             ["-p", "{logs}", "--plid", "50000001"],
             ["-p", "{logs}", "--plid", "1"],
             ["-p", "{logs}", "--src", "BD"],
             ["-p", "{logs}", "--src", "B" * 33],
             ["-p", "{logs}", "--src-exclude", SPEC["exclude"]],
             ["-p", "{logs}", "--src-exclude", "/nonexistent/file"],
             ["-p", "{logs}", "-d", "50000003"], ["-p", "{logs}", "-D"],
             ["-p", "{logs}", "-j"], ["-p", "{logs}", "-j", "-o", "{out}", "-c"],
             ["-p", "{logs}", "-j", "-o", "/nonexistent/dir"],
             ["-f", "{logs}/" + CORPUS[0][0], "-c"],
             ["-f", "{logs}/" + CORPUS[52][0]],
             ["-p", "{logs}", "-l", "-E", "-s", "-N", "-H", "-t", "-O", "-S",
              "Critical", "-x", "-r", "-e", ".pel", "-P"],
             ["-p", "{logs}", "-l", "-S", "Nope"], ["--bogus"]]
for argv in MAIN_BMC:
    record("main:bmc:" + " ".join(argv), run_main(argv, True))
for argv in MAIN_HOST:
    record("main:host:" + " ".join(argv), run_main(argv, False))
# the same thing twice in one process
record("main:host:again", run_main(["-p", "{logs}", "-a", "-E"], False))
record("main:host:again2", run_main(["-p", "{logs}", "-a", "-E"], False))
os.path.isdir, os.walk = real_isdir, real_walk

record("optimised", sys.flags.optimize)
with open(result_path, "w") as f:
    json.dump(RESULTS, f)
'''


def run_driver(root, tmp, corpus, fakereg, tag, opt, rich_index):
    work = os.path.join(tmp, "driver_work")
    if os.path.exists(work):
        shutil.rmtree(work)
    os.makedirs(work)
    exclude = os.path.join(work, "exclude.txt")
    with open(exclude, "w") as f:
        f.write("BD8D1001\nBC8A0504 and 11001003\n")
    spec = {"root": root, "work": work, "exclude": exclude,
            "rich_index": rich_index,
            "corpus": [(n, d.hex()) for n, d in corpus]}
    spec_path = os.path.join(tmp, "spec_%s.json" % tag)
    result_path = os.path.join(tmp, "result_%s.json" % tag)
    driver_path = os.path.join(tmp, "driver.py")
    with open(spec_path, "w") as f:
        json.dump(spec, f)
    with open(driver_path, "w") as f:
        f.write(DRIVER)
    cmd = [PYTHON] + (["-O"] if opt else []) + [driver_path, spec_path,
                                                result_path]
    p = subprocess.run(cmd, cwd=work, stdin=subprocess.DEVNULL,
                       stdout=subprocess.PIPE, stderr=subprocess.PIPE,
                       env=base_env(root, fakereg), timeout=3000)
    if p.returncode != 0 or not os.path.exists(result_path):
        sys.stderr.write("driver failed for %s (rc=%s)\n%s\n" % (
            root, p.returncode, p.stderr.decode("utf-8", "replace")[-4000:]))
        return None
    with open(result_path) as f:
        res = json.load(f)
    shutil.rmtree(work)
    return res


# --------------------------------------------------------------------------

def main():
    if len(sys.argv) != 3:
        sys.exit("usage: diffcheck.py <pristine_root> <patched_root>")
    roots = [os.path.abspath(a) for a in sys.argv[1:3]]
    for r in roots:
        if not os.path.isfile(os.path.join(r, "modules", "pel", "peltool",
                                           "peltool.py")):
            sys.exit("%s does not look like a source tree" % r)
    tmp = tempfile.mkdtemp(prefix="dc_", dir=HERE)
    ncases = 0
    diffs = []
    try:
        corpus = build_corpus()
        names = [n for n, _ in corpus]
        assert len(set(names)) == len(names)
        rich_index = 48           # the "section variety" PEL
        fakereg = write_fake_registry(tmp)

        # --- CLI cases ---
        cases = cli_cases(corpus)
        with ThreadPoolExecutor(max_workers=min(12, os.cpu_count() or 2)) \
                as pool:
            futs = [pool.submit(run_cli_case, i, c, roots, tmp, corpus,
                                fakereg) for i, c in enumerate(cases)]
            for fut in futs:
                idx, case, (a, b) = fut.result()
                ncases += 1
                if a != b:
                    diffs.append(("cli", idx, case, a, b))

        # --- driver cases ---
        for opt in (False, True):
            res = []
            for k, root in enumerate(roots):
                res.append(run_driver(root, tmp, corpus, fakereg,
                                      "%d_%d" % (k, opt), opt, rich_index))
            if res[0] is None or res[1] is None:
                diffs.append(("driver", "failed", opt, None, None))
                continue
            if [l for l, _ in res[0]] != [l for l, _ in res[1]]:
                diffs.append(("driver", "labels differ", opt, None, None))
                continue
            for (label, va), (_, vb) in zip(res[0], res[1]):
                ncases += 1
                if va != vb:
                    diffs.append(("driver", label, opt, va, vb))
    finally:
        shutil.rmtree(tmp, ignore_errors=True)

    if diffs:
        for d in diffs[:25]:
            print("DIFFERENCE in %s case %r %r" % (d[0], d[1], d[2]))
            print("   pristine:", repr(d[3])[:3000])
            print("   patched :", repr(d[4])[:3000])
        print("DIFFERENT (%d of %d cases differ)" % (len(diffs), ncases))
        sys.exit(1)
    print("IDENTICAL (%d cases)" % ncases)
    sys.exit(0)


if __name__ == "__main__":
    main()
