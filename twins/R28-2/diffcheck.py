#!/usr/bin/env python
"""
Differential check for refactorings of the peltool SRC / registry / comp_id /
config / pel_values code and of considerPEL / considerPELIfSeverityMatches /
prettyPrint in peltool.py.

usage: python diffcheck.py <pristine_root> <patched_root>

The script builds binary PELs, a fake pel_registry package (message registry
and component id files) and fake SRC / callout parser plug-ins in a scratch
directory, then runs

  * an in-process driver (this same file with --driver) in a subprocess per
    tree, under `python` and `python -O`, in several environment modes, and
  * the peltool.py command line with many option combinations

for both trees and compares everything that was observed (return values,
exception type and text, stdout, stderr, exit status, files created/removed,
parser caches, stream positions).

Prints "IDENTICAL (<n> cases)" and exits 0 when nothing differs, else exit 1.
"""
import contextlib
import hashlib
import io
import json
import os
import random
import shutil
import struct
import subprocess
import sys
import tempfile

PY = sys.executable

# ---------------------------------------------------------------------------
# binary builders
# ---------------------------------------------------------------------------


def sec_hdr(sid: bytes, length: int, ver=1, sub=0, comp=0x1000) -> bytes:
    return struct.pack('>2sHBBH', sid, length & 0xFFFF, ver, sub, comp)


def bcd_time(n: int) -> bytes:
    return bytes([0x20, 0x24, 0x01 + n % 9, 0x10 + n % 9, 0x12, 0x30 + n % 9,
                  0x45, 0x00])


def ph_section(creator=b'O', nsec=3, eid=0x50000001, plid=0x50000001, obmc=1,
               comp=0x1000, sid=b'PH') -> bytes:
    body = bcd_time(eid) + bcd_time(eid + 1) + creator + b'\x00\x00' + \
        bytes([nsec & 0xFF]) + struct.pack('>IQII', obmc, 0x0102030405060708,
                                           plid, eid)
    return sec_hdr(sid, 48, comp=comp) + body


def uh_section(sev=0x40, flags=0xA800, subsystem=0x8D, scope=3, etype=0,
               states=0, comp=0x1000, sid=b'UH') -> bytes:
    body = bytes([subsystem, scope, sev, etype]) + b'\0\0\0\0' + \
        bytes([0, 0]) + struct.pack('>HI', flags, states)
    return sec_hdr(sid, 24, comp=comp) + body


def fixed(text: bytes, n: int) -> bytes:
    return text[:n].ljust(n, b'\0')


def fru(flags, pn=b'PN12345', ccin=b'CCIN', sn=b'SN0123456789', size=None,
        ftype=b'ID') -> bytes:
    body = b''
    if flags & 0x08 or flags & 0x02:
        body += fixed(pn, 8)
    if flags & 0x04:
        body += fixed(ccin, 4)
    if flags & 0x01:
        body += fixed(sn, 12)
    if size is None:
        size = 4 + len(body)
    return ftype + bytes([size & 0xFF, flags & 0xFF]) + body


def pce(name=b'pcename', mtm=b'9105-22A', sn=b'SERIAL000001', size=None,
        flags=0) -> bytes:
    if size is None:
        size = 4 + 8 + 12 + len(name)
    return b'PE' + bytes([size & 0xFF, flags]) + fixed(mtm, 8) + \
        fixed(sn, 12) + name


def mru(ids, size=None, flags=None) -> bytes:
    body = b''.join(struct.pack('>II', p, i) for p, i in ids)
    if size is None:
        size = 8 + len(body)
    if flags is None:
        flags = len(ids) & 0xF
    return b'MR' + bytes([size & 0xFF, flags & 0xFF]) + b'\0\0\0\0' + body


def callout(prio=0x48, loc=b'U78DA.ND1.1234567-P0\0\0\0\0', subs=(),
            size=None, flags=0, locsize=None) -> bytes:
    body = b''.join(subs)
    if locsize is None:
        locsize = len(loc)
    if size is None:
        size = 4 + len(loc) + len(body)
    return bytes([size & 0xFF, flags, prio, locsize & 0xFF]) + loc + body


def callout_subsection(callouts, wordlen=None, sid=0xC0, flags=0) -> bytes:
    body = b''.join(callouts)
    if wordlen is None:
        wordlen = (4 + len(body)) // 4
    return bytes([sid, flags]) + struct.pack('>H', wordlen & 0xFFFF) + body


def src_body(ascii_str=b'BD8D2030', words=None, flags=0, wordcount=9,
             callouts=b'', version=2, size=None) -> bytes:
    if words is None:
        words = [0x020000F0, 0x2E2D0010, 0x00000000, 0x03000000,
                 0x11111111, 0x22222222, 0x33333333, 0xDEADBEEF]
    words = list(words) + [0] * (8 - len(words))
    if size is None:
        size = 72 + len(callouts)
    body = bytes([version, flags & 0xFF, 0, wordcount & 0xFF]) + \
        struct.pack('>HH', 0, size & 0xFFFF)
    body += b''.join(struct.pack('>I', w & 0xFFFFFFFF) for w in words[:8])
    body += ascii_str[:32].ljust(32, b' ')
    return body + callouts


def src_section(sid=b'PS', comp=0x1000, **kw) -> bytes:
    body = src_body(**kw)
    return sec_hdr(sid, 8 + len(body), comp=comp) + body


def ud_section(data=b'some user data 0123456789', comp=0x9999, sub=1,
               sid=b'UD') -> bytes:
    return sec_hdr(sid, 8 + len(data), sub=sub, comp=comp) + data


def standard_callouts(variant: int) -> bytes:
    """A few well-formed callout subsections."""
    if variant == 0:
        cos = [callout(0x48, subs=[fru(0x1F)])]
    elif variant == 1:
        cos = [callout(0x4D, subs=[fru(0x42, pn=b'BMC0001')]),
               callout(0x41, loc=b'', subs=[fru(0x42, pn=b'PROC0001')]),
               callout(0x42, loc=b'Ufcs-P1\0', subs=[fru(0x42, pn=b'PROC0003')]),
               callout(0x43, loc=b'Ufcs-P2\0', subs=[fru(0x42, pn=b'PROC0004')]),
               callout(0x4C, loc=b'Ufcs-P3\0', subs=[fru(0x42, pn=b'PROC0005')]),
               callout(0x99, loc=b'Ufcs-P4\0', subs=[fru(0x42, pn=b'PROC0002')])]
    elif variant == 2:
        cos = [callout(0x48, subs=[fru(0x18), pce(), mru([(0x48, 0x10001),
                                                          (0x4C, 0xABCDEF01)])])]
    elif variant == 3:
        cos = [callout(0x4C, subs=[fru(0x9D), mru([])]),
               callout(0x4C, loc=b'LOC1', subs=[pce(name=b'n\0\0\0')]),
               callout(0x4C, loc=b'LOC2', subs=[mru([(1, 2)] * 15)])]
    elif variant == 4:
        cos = [callout(0x48, subs=[]),
               callout(0x48, subs=[fru(0x00)]),
               callout(0x48, subs=[fru(0xC6, pn=b'\0\0\0\0\0\0\0\0',
                                       ccin=b'\0\0\0\0')])]
    elif variant == 5:
        # PCE with a size that is too small, and one with an empty name
        cos = [callout(0x48, subs=[pce(name=b'', size=20)]),
               callout(0x48, subs=[fru(0x1F)])]
    elif variant == 6:
        cos = [callout(0x48, subs=[pce(name=b'')])]
    elif variant == 7:
        # unknown sub structure, callout size bigger than content
        cos = [callout(0x48, subs=[fru(0x18), b'ZZ\x08\x00abcd'], size=60),
               callout(0x48, subs=[fru(0x1F)])]
    elif variant == 8:
        # callout whose size field is too small / zero
        cos = [callout(0x48, subs=[fru(0x1F)], size=0),
               callout(0x48, subs=[fru(0x14)], size=4)]
    elif variant == 9:
        # two FRU identities in one callout, PCE with empty machine type
        cos = [callout(0x48, subs=[fru(0x18, pn=b'FIRST'), fru(0x14),
                                   pce(mtm=b'', name=b'abc')])]
    else:
        cos = [callout(0x48, loc=b'\xff\xfeLOC', subs=[fru(0x1F)])]
    return callout_subsection(cos)


def make_pel(creator=b'O', sev=0x40, aflags=0xA800, eid=0x50000001, plid=None,
             obmc=1, sections=(), nsec=None, ph_comp=0x1000, uh_comp=0x1000):
    if plid is None:
        plid = eid
    if nsec is None:
        nsec = 2 + len(sections)
    return ph_section(creator, nsec, eid, plid, obmc, comp=ph_comp) + \
        uh_section(sev, aflags, comp=uh_comp) + b''.join(sections)


def src_corpus():
    """(name, creator, body bytes) for direct SRC.toJSON() runs."""
    rnd = random.Random(2809)
    out = []
    asciis = [b'BD8D2030', b'BD8D1000', b'11002030', b'BC8A2030', b'BD8D2031',
              b'BD8D2032', b'BD8D2033', b'BD8D2034', b'BD8D2035', b'BD8D2036',
              b'BD8D2037', b'BD8D2038', b'BD8D2039', b'BD8D203A', b'BD8D3001',
              b'BD8D9999', b'B7001111', b'A7001111', b'', b'BD',
              b'BD8D2030' + b'\0' * 24, b'BDE51000', b'BC8A1000',
              b'BD8D 203', b'bd8d2030', b'BD\xc3\xa92030', b'BD8D\xff030']
    n = 0
    for a in asciis:
        for creator in ('O', 'B'):
            out.append(('ascii%d' % n, creator, src_body(ascii_str=a)))
            n += 1
    for wc in (0, 1, 2, 3, 5, 8, 9, 10, 11, 255):
        out.append(('wc%d' % wc, 'B', src_body(wordcount=wc)))
        out.append(('wc%d-O' % wc, 'O', src_body(wordcount=wc, flags=0x01,
                                                callouts=standard_callouts(0))))
    for fl in (0x00, 0x01, 0x02, 0x04, 0x08, 0x10, 0x80, 0x94, 0xFF, 0xFE):
        out.append(('flags%02x' % fl, 'B',
                    src_body(flags=fl, callouts=standard_callouts(2))))
    for w3 in range(0, 6):
        out.append(('plug-w3-%d' % w3, 'B',
                    src_body(words=[0x020000F0, w3, 0, 0x23000000, 1, 2, 3, 4])))
    out.append(('plug-raise', 'B', src_body(words=[0x020000EE])))
    for st in (0x20000000, 0x02000000, 0x01000000, 0x23000000, 0):
        for a in (b'BD8D2030', b'11002030', b'BC8A2030', b'B7001111'):
            out.append(('status%x-%s' % (st, a.decode()), 'O',
                        src_body(ascii_str=a, words=[0xF0, 0xCC10FFFF, 0, st,
                                                     5, 6, 7, 8])))
    for v in range(0, 11):
        for creator in ('O', 'B', 'T', 'K', 'M', 'X', 'H'):
            out.append(('callouts%d-%s' % (v, creator), creator,
                        src_body(flags=0x01, callouts=standard_callouts(v))))
    # sub section word length variations
    base = [callout(0x48, subs=[fru(0x1F)]), callout(0x4D, subs=[fru(0x42)])]
    for wl in (0, 1, 2, 9, 10, 11, 18, 19, 30, 0xFFFF):
        out.append(('wordlen%d' % wl, 'B',
                    src_body(flags=0x01,
                             callouts=callout_subsection(base, wordlen=wl))))
    # loc code size lies
    for ls in (0, 1, 3, 50, 255):
        out.append(('locsize%d' % ls, 'B',
                    src_body(flags=0x01, callouts=callout_subsection(
                        [callout(0x48, loc=b'ABCD', locsize=ls,
                                 subs=[fru(0x1F)])]))))
    # truncations of two complete SRCs
    full1 = src_body(flags=0x01, callouts=standard_callouts(1))
    full2 = src_body(ascii_str=b'BC8A2030', flags=0x01,
                     callouts=standard_callouts(2))
    for i in range(0, len(full1), 1 if len(full1) < 150 else 3):
        out.append(('trunc1-%d' % i, 'B', full1[:i]))
    for i in range(0, len(full2)):
        out.append(('trunc2-%d' % i, 'O', full2[:i]))
    # single byte / multi byte corruptions
    seeds = [src_body(flags=0x01, callouts=standard_callouts(v))
             for v in range(0, 11)]
    for k in range(450):
        b = bytearray(rnd.choice(seeds))
        for _ in range(rnd.choice((1, 1, 2, 4))):
            where = rnd.random()
            if where < 0.6:
                pos = rnd.randrange(72, len(b))
            elif where < 0.85:
                pos = rnd.randrange(0, 40)
            else:
                pos = rnd.randrange(len(b))
            b[pos] = rnd.choice((0, 1, 2, 4, 8, 0x10, 0x18, 0x42, 0x49, 0x44,
                                 0x50, 0x45, 0x4D, 0x52, 0x7F, 0x80, 0xFF,
                                 rnd.randrange(256)))
        out.append(('mut%d' % k, rnd.choice('OBBBTKMXH'), bytes(b)))
    for k in range(120):
        ln = rnd.choice((0, 5, 40, 71, 72, 73, 76, 80, 100, 160, 300))
        b = bytearray(rnd.randrange(256) for _ in range(ln))
        if ln >= 72 and rnd.random() < 0.8:
            b[40:72] = rnd.choice((b'BD8D2030', b'BC8A2030', b'11002030',
                                   b'B7001111')).ljust(32, b' ')
            b[3] = rnd.choice((0, 2, 5, 9, 9, 9))
            b[1] = rnd.choice((0, 1, 1, 0x81))
        out.append(('rand%d' % k, rnd.choice('OBH'), bytes(b)))
    return out


def pel_corpus():
    """(file name, bytes) of whole PELs."""
    rnd = random.Random(99)
    pels = []
    sevs = [0x00, 0x10, 0x20, 0x21, 0x40, 0x44, 0x51, 0x52, 0x60, 0x71]
    aflags = [0x0000, 0x8000, 0x4000, 0x2000, 0x6000, 0xA800, 0xE000, 0x2100]
    creators = [b'O', b'B', b'H', b'T', b'K', b'M', b'X', b'O', b'B', b'O']
    asciis = [b'BD8D2030', b'BC8A2030', b'B7001111', b'BD8D1000', b'11002030',
              b'BD8D3001', b'BD8D2031', b'BD8D9999']
    n = 0
    for i in range(34):
        creator = creators[i % len(creators)]
        if i >= 20:
            creator = b'O' if creator in (b'T',) else creator
        sev = sevs[i % len(sevs)]
        af = aflags[(i * 3) % len(aflags)]
        secs = [src_section(ascii_str=asciis[i % len(asciis)],
                            flags=0x01 if i % 2 == 0 else 0x00,
                            callouts=standard_callouts(i % 11)
                            if i % 2 == 0 else b'',
                            wordcount=9 if i % 7 else 5,
                            comp=0xE500 if i % 5 == 0 else 0x1000)]
        if i % 3 == 0:
            secs.append(ud_section())
        if i % 4 == 0:
            secs.append(src_section(sid=b'SS', ascii_str=b'BD8D1000'))
        if i % 6 == 0:
            secs.append(ud_section(sid=b'ZZ'))
            secs.append(ud_section(sid=b'UD', comp=0x2000, sub=2,
                                   data=b'line one\nline two\n'))
        eid = 0x50000001 + i * 0x11
        pels.append(('pel%02d.pel' % i,
                     make_pel(creator, sev, af, eid,
                              plid=eid if i % 4 else 0x50000001,
                              obmc=i + 1, sections=secs,
                              ph_comp=0x4842 if creator == b'H' else 0x1000,
                              uh_comp=0xE500 if i % 2 else 0x2000)))
        n += 1
    good = pels[0][1]
    good2 = pels[2][1]
    # malformed ones
    pels.append(('short_ph.pel', good[:30]))
    pels.append(('short_uh.pel', good[:60]))
    pels.append(('short_src.pel', good[:100]))
    pels.append(('short_callout.pel', good2[:170]))
    pels.append(('empty.pel', b''))
    pels.append(('notph.pel', b'XX' + good[2:]))
    pels.append(('notuh.pel', good[:48] + b'XX' + good[50:]))
    pels.append(('seccount.pel',
                 make_pel(sections=[src_section()], nsec=9)))
    pels.append(('nosrc.txt', make_pel(sections=[ud_section()], eid=0x5FFF0001)))
    pels.append(('wc12.pel', make_pel(sections=[src_section(wordcount=12)],
                                      eid=0x5FFF0002)))
    pels.append(('badascii.pel',
                 make_pel(sections=[src_section(ascii_str=b'BD\xff\xfe2030')],
                          eid=0x5FFF0003)))
    pels.append(('pcesmall.pel',
                 make_pel(creator=b'B', sections=[src_section(
                     flags=0x01, callouts=standard_callouts(5))],
                     eid=0x5FFF0004)))
    for k in range(8):
        b = bytearray(pels[k * 3][1])
        for _ in range(3):
            b[rnd.randrange(72, len(b))] = rnd.randrange(256)
        pels.append(('mut%d.pel' % k, bytes(b)))
    return pels


# ---------------------------------------------------------------------------
# support files: fake pel_registry package and parser plug-ins
# ---------------------------------------------------------------------------

REGISTRY = {"PELs": [
    {"SRC": {"Type": "BD"}, "Documentation": {"Message": "no reason code"}},
    {"SRC": {"ReasonCode": "0x1000"},
     "Documentation": {"Message": "plain message"}},
    {"SRC": {"ReasonCode": "0x2030", "Type": "BD",
             "Words6To9": {
                 "6": {"Description": "word six",
                       "AdditionalDataPropSource": "W6"},
                 "7": {"AdditionalDataPropSource": "W7"},
                 "9": {"Description": "word nine",
                       "AdditionalDataPropSource": "W9"}}},
     "Documentation": {"Message": "msg with %1 and %2 end",
                       "MessageArgSources": ["SRCWord6", "SRCWord9"]}},
    {"SRC": {"ReasonCode": "0x2030", "Type": "11"},
     "Documentation": {"Message": "power %1",
                       "MessageArgSources": ["SRCWord3"]}},
    {"SRC": {"ReasonCode": "0x2030", "Type": "BC", "Words6To9": {}},
     "Documentation": {"Message": "hostboot message"}},
    {"SRC": {"ReasonCode": "0x1000", "Type": "BC",
             "Words6To9": {"8": {"Description": "w8",
                                 "AdditionalDataPropSource": "Message"}}},
     "Documentation": {"Message": "hb with word named Message"}},
    {"SRC": {"ReasonCode": "0x2031"},
     "Documentation": {"Message": "bad {brace} %1",
                       "MessageArgSources": ["SRCWord6"]}},
    {"SRC": {"ReasonCode": "0x2032"},
     "Documentation": {"Message": "%1 %2",
                       "MessageArgSources": ["SRCWord6"]}},
    {"SRC": {"ReasonCode": "0x2033"},
     "Documentation": {"Message": "%1",
                       "MessageArgSources": ["SRCWordX"]}},
    {"SRC": {"ReasonCode": "0x2034"}},
    {"SRC": {"ReasonCode": "0x2035",
             "Words6To9": {"12": {"Description": "w12",
                                  "AdditionalDataPropSource": "W12"}}},
     "Documentation": {"Message": "word twelve"}},
    {"SRC": {"ReasonCode": "0x2036",
             "Words6To9": {"6": {"Description": "no source"}}},
     "Documentation": {"Message": "missing prop source"}},
    {"SRC": {"ReasonCode": "0x2037",
             "Words6To9": {"6": {"Description": "d",
                                 "AdditionalDataPropSource": "W6"}}},
     "Documentation": {"Message": ""}},
    {"SRC": {"ReasonCode": "0x2038"}, "Documentation": {"Description": "x"}},
    {"SRC": {"ReasonCode": "0x2039"},
     "Documentation": {"Message": "no args %1 here",
                       "MessageArgSources": []}},
    {"SRC": {"ReasonCode": "0x203A"},
     "Documentation": {"Message": "100% sure %1 %0 %% %9",
                       "MessageArgSources": ["SRCWord2", "SRCWord1"]}},
    {"SRC": {"ReasonCode": ["0x3000", "0x3001"]},
     "Documentation": {"Message": "reason code list"}},
]}

PLUGINS = {
    'srcparsers/bsrc/bsrc.py': '''
import json, sys
calls = []
def parseSRCToJson(refcode, w2, w3, w4, w5, w6, w7, w8, w9):
    calls.append((refcode, w2, w3, w4, w5, w6, w7, w8, w9))
    if w2.endswith('EE'):
        raise ValueError("boom " + w2)
    if w3 == '00000001':
        return 'null'
    if w3 == '00000002':
        return ''
    if w3 == '00000003':
        return 'not json'
    if w3 == '00000004':
        return '[1, 2]'
    if w3 == '00000005':
        return None
    return json.dumps({"ref": refcode.strip(), "words": [w2, w3, w4, w5, w6, w7, w8, w9]})
''',
    'srcparsers/tsrc/tsrc.py': '''
import sys
print("importing tsrc", file=sys.stderr)
raise SystemExit(3)
''',
    'srcparsers/ksrc/ksrc.py': '''
import sys
print("importing ksrc", file=sys.stderr)
raise RuntimeError("ksrc is broken")
''',
    'srcparsers/msrc/msrc.py': '''
# no parseSRCToJson at all
''',
    'calloutparsers/bcallouts/bcallouts.py': '''
import json
calls = []
def getMaintProcDesc(proc):
    calls.append(proc)
    if proc == 'PROC0001':
        return json.dumps(["first line", "second line"])
    if proc == 'PROC0002':
        return ''
    if proc == 'PROC0003':
        return 'not json'
    if proc == 'PROC0004':
        raise RuntimeError("proc four")
    if proc == 'PROC0005':
        return '{"a": 1}'
    return json.dumps("generic " + proc)
''',
    'calloutparsers/tcallouts/tcallouts.py': '''
import sys
print("importing tcallouts", file=sys.stderr)
raise SystemExit(4)
''',
    'calloutparsers/kcallouts/kcallouts.py': '''
import sys
print("importing kcallouts", file=sys.stderr)
raise RuntimeError("kcallouts is broken")
''',
    'calloutparsers/mcallouts/mcallouts.py': '''
# no getMaintProcDesc
''',
}

SITECUSTOMIZE = '''
import os
_here = os.path.dirname(os.path.abspath(__file__))
for _pkg in ('srcparsers', 'calloutparsers'):
    try:
        _m = __import__(_pkg)
        _m.__path__.append(os.path.join(_here, 'plug', _pkg))
    except Exception:
        pass
'''


def write_support(base: str):
    """
    support_reg: sitecustomize + plug-ins + pel_registry
    support_noreg: sitecustomize + plug-ins only
    support_badreg: pel_registry whose registry has no "PELs"
    """
    for mode in ('reg', 'noreg', 'badreg', 'baddir'):
        d = os.path.join(base, 'support_' + mode)
        os.makedirs(d)
        with open(os.path.join(d, 'sitecustomize.py'), 'w') as f:
            f.write(SITECUSTOMIZE)
        for rel, text in PLUGINS.items():
            p = os.path.join(d, 'plug', rel)
            os.makedirs(os.path.dirname(p), exist_ok=True)
            with open(p, 'w') as f:
                f.write(text)
            with open(os.path.join(os.path.dirname(p), '__init__.py'), 'w'):
                pass
        if mode == 'noreg':
            continue
        reg = os.path.join(d, 'pel_registry')
        os.makedirs(reg)
        with open(os.path.join(reg, '__init__.py'), 'w') as f:
            f.write('import os\n'
                    'def get_registry_path():\n'
                    '    return os.path.join(os.path.dirname(__file__), '
                    '"message_registry.json")\n')
        with open(os.path.join(reg, 'message_registry.json'), 'w') as f:
            json.dump(REGISTRY if mode != 'badreg' else {"NotPELs": []}, f)
        files = {
            'O_component_ids.json': {"1000": "bmc-core", "E500": "hw-diags",
                                     "2000": "logging", "ABCD": "",
                                     "abcd": "lower"},
            'B_component_ids.json': {"1000": "hb-core", "0100": "hb-init"},
            'N_component_ids.json': None,
            'L_component_ids.json': ["1000", "2000"],
            '_component_ids.json': {"1000": "empty creator"},
            'readme.txt': "not a component file",
            'M_component_ids.json.bak': {"1000": "backup of M"},
            'XY_component_ids.json': {"1000": "two letter creator"},
            'A_component_ids.json_component_ids.json':
                {"1000": "suffix twice"},
        }
        for name, content in files.items():
            with open(os.path.join(reg, name), 'w') as f:
                json.dump(content, f)
        if mode == 'baddir':
            os.makedirs(os.path.join(reg, 'Q_component_ids.json'))


# ---------------------------------------------------------------------------
# in-process driver
# ---------------------------------------------------------------------------

def driver(mode: str, support: str, datadir: str, outfile: str):
    results = []

    def enc(o):
        return [type(o).__name__, repr(o)]

    def run(name, fn):
        out, err = io.StringIO(), io.StringIO()
        try:
            with contextlib.redirect_stdout(out), \
                    contextlib.redirect_stderr(err):
                r = fn()
            res = ['ok', type(r).__name__, r]
        except BaseException as e:
            res = ['exc', type(e).__name__, str(e)]
        try:
            text = json.dumps(res, default=enc)
        except Exception:
            text = repr(res)
        results.append([name, text, out.getvalue(), err.getvalue()])

    def finish():
        with open(outfile, 'w') as f:
            json.dump(results, f)

    try:
        import pel.peltool.comp_id as comp_id
        import pel.peltool.pel_values as pel_values
        import pel.peltool.config as config_mod
        from pel.datastream import DataStream
    except BaseException as e:
        results.append(['import-base', type(e).__name__ + str(e), '', ''])
        finish()
        return

    if mode == 'badreg':
        def imp():
            import pel.peltool.src  # noqa
        run('import-src', imp)

        def imp2():
            import pel.peltool.peltool  # noqa
        run('import-peltool', imp2)
        finish()
        return

    if mode == 'bmcpath':
        comp_id.pelConfigRootPath = os.path.join(support, 'pel_registry')

    import pel.peltool.src as src_mod
    import pel.peltool.registry as registry_mod
    import pel.peltool.peltool as peltool
    from pel.peltool.user_header import UserHeader

    Config = config_mod.Config

    # --- config / pel_values ------------------------------------------------
    run('config-vars', lambda: list(vars(Config()).items()))

    def cfg_indep():
        a, b = Config(), Config()
        a.severities.append(4)
        return [a.severities, b.severities, a.severities is b.severities,
                a == b, a != b, a == a, isinstance(hash(a), int)]
    run('config-independent', cfg_indep)
    for tbl in ('creatorIDs', 'sectionNames', 'subsystemValues',
                'eventScopeValues', 'eventTypeValues', 'severityValues',
                'severityGroupValues', 'actionFlagsValues',
                'transmissionStates', 'failingComponentType',
                'calloutPriorityValues'):
        run('pel_values-' + tbl,
            lambda tbl=tbl: [type(getattr(pel_values, tbl)).__name__,
                             [[repr(k), v] for k, v in
                              getattr(pel_values, tbl).items()]])
    run('src-enums', lambda: [[e.name, e.value] for en in
                              (src_mod.HeaderFlags, src_mod.ErrorStatusFlags,
                               src_mod.Flags) for e in en])
    run('registry-loaded', lambda: [type(src_mod.registry).__name__,
                                    src_mod.registry.pels])

    # --- comp_id --------------------------------------------------------------
    comp_ids = [0, 1, 0x1000, 0x0100, 0xE500, 0x2000, 0xABCD, 0x4842, 0x4800,
                0x0048, 0x6162, 0xFFFF, 0x10000, 0x123456, -1, True]
    creators = ['O', 'B', 'H', 'N', 'L', 'M', 'XY', '', 'Z', 'o', 'C', 'T',
                'M_component_ids.json.bak', None, 5, 'A',
                'A_component_ids.json']

    def comp_all():
        res = []
        for cr in creators:
            for cid in comp_ids:
                try:
                    res.append(comp_id.getDisplayCompID(cid, cr))
                except Exception as e:
                    res.append(type(e).__name__ + ': ' + str(e))
        return res
    for rep in range(3):
        run('compid-pass%d' % rep, comp_all)
        run('compid-state%d' % rep,
            lambda: [comp_id.attemptedToParseCompIDs,
                     sorted(comp_id.componentIDs.items(),
                            key=lambda kv: repr(kv[0]))])
    for bad in (1.5, 'x', None, [1]):
        run('compid-badtype-%r' % (bad,),
            lambda bad=bad: comp_id.getDisplayCompID(bad, 'O'))
        run('compid-badtype-H-%r' % (bad,),
            lambda bad=bad: comp_id.getDisplayCompID(bad, 'H'))
    run('compid-unhashable', lambda: comp_id.getDisplayCompID(1, ['O']))
    # explicit re-scan
    run('compid-rescan', lambda: comp_id.getAllCreatorsCompIDs())

    def rescan_forced():
        comp_id.componentIDs.clear()
        comp_id.attemptedToParseCompIDs = False
        r = comp_id.getAllCreatorsCompIDs()
        return [r, sorted(comp_id.componentIDs.items(),
                          key=lambda kv: repr(kv[0]))]
    run('compid-rescan-forced', rescan_forced)
    run('compid-after-rescan', comp_all)

    def rescan_missing_dir():
        comp_id.componentIDs.clear()
        comp_id.attemptedToParseCompIDs = False
        saved = comp_id.pelConfigRootPath
        comp_id.pelConfigRootPath = os.path.join(datadir, 'emptycfg')
        os.makedirs(comp_id.pelConfigRootPath, exist_ok=True)
        try:
            r = [comp_id.getDisplayCompID(0x1000, 'O'),
                 comp_id.getDisplayCompID(0x1000, 'O'),
                 comp_id.attemptedToParseCompIDs, dict(comp_id.componentIDs)]
        finally:
            comp_id.pelConfigRootPath = saved
            comp_id.componentIDs.clear()
            comp_id.attemptedToParseCompIDs = False
        return r
    run('compid-empty-bmc-dir', rescan_missing_dir)
    run('compid-after-empty', comp_all)

    # --- registry ---------------------------------------------------------------
    Registry = registry_mod.Registry
    reg = Registry()
    run('registry-new', lambda: reg.pels)
    codes = ['0x1000', '0x2030', '0x2031', '0x2034', '0x2038', '0x3000',
             '0x3001', '0x300', '0x', '', '0x9999', '1000', 'x1', '0X2030']
    types = ['BD', '11', 'BC', 'B7', '', 'bd', None]

    def reg_all(r):
        res = []
        for c in codes:
            for t in types:
                try:
                    o = r.getErrorMessage(c, t)
                    res.append([type(o).__name__, o])
                except Exception as e:
                    res.append(type(e).__name__ + ': ' + str(e))
        return res
    run('registry-lookups', lambda: reg_all(src_mod.registry))
    run('registry-lookups-again', lambda: reg_all(src_mod.registry))
    custom_sets = {
        'full': REGISTRY['PELs'],
        'empty': [],
        'nosrc': [{"Documentation": {"Message": "m"}}],
        'srclist': [{"SRC": ["ReasonCode"], "Documentation": {"Message": "m"}}],
        'srcstr': [{"SRC": "ReasonCode 0x1000",
                    "Documentation": {"Message": "m"}}],
        'rcint': [{"SRC": {"ReasonCode": 4096},
                   "Documentation": {"Message": "m"}}],
        'rcnone': [{"SRC": {"ReasonCode": None},
                    "Documentation": {"Message": "m"}}],
        'docstr': [{"SRC": {"ReasonCode": "0x1000"},
                    "Documentation": "Message"}],
        'doclist': [{"SRC": {"ReasonCode": "0x1000"},
                     "Documentation": ["Message"]}],
        'w69false': [{"SRC": {"ReasonCode": "0x1000", "Words6To9": 0},
                      "Documentation": {"Message": "m",
                                        "MessageArgSources": None}}],
        'w69list': [{"SRC": {"ReasonCode": "0x1000", "Words6To9": [1]},
                     "Documentation": {"Message": None}}],
        'typenone': [{"SRC": {"ReasonCode": "0x1000", "Type": None},
                      "Documentation": {"Message": "m"}}],
        'dups': [{"SRC": {"ReasonCode": "0x10000"},
                  "Documentation": {"Message": "first"}},
                 {"SRC": {"ReasonCode": "0x1000"},
                  "Documentation": {"Message": "second"}}],
        'notdict': [5],
        'skipbad': [{"SRC": {"ReasonCode": "0x7777", "Type": "ZZ"}},
                    {"SRC": {"ReasonCode": "0x1000"},
                     "Documentation": {"Message": "after skipped"}}],
    }
    for nm, pels in custom_sets.items():
        def go(pels=pels):
            r = Registry()
            r.pels = pels
            before = json.dumps(pels, sort_keys=True, default=repr)
            res = reg_all(r)
            # returned dict must not alias / mutate registry content
            return [res, before == json.dumps(pels, sort_keys=True,
                                              default=repr)]
        run('registry-custom-' + nm, go)

    def identity_check():
        r = Registry()
        r.pels = REGISTRY['PELs']
        o = r.getErrorMessage('0x2030', 'BD')
        p = r.pels[2]
        return [o['Words6To9'] is p['SRC']['Words6To9'],
                o['MessageArgSources'] is
                p['Documentation']['MessageArgSources'],
                r.getErrorMessage('0x2030', 'BD') is o]
    run('registry-identity', identity_check)
    if mode != 'noreg':
        run('registry-loadJson',
            lambda: Registry().loadJson(os.path.join(
                support, 'pel_registry', 'message_registry.json')))
    run('registry-loadJson-missing',
        lambda: Registry().loadJson(os.path.join(datadir, 'nope.json')))

    # --- SRC helper methods ---------------------------------------------------
    def new_src(data=b'', creator='B', words=None):
        st = DataStream(data, byte_order='big', is_signed=False)
        s = src_mod.SRC(st, 0x5053, 8 + len(data), 1, 1, 0x1000, creator)
        if words is not None:
            s.hexData = list(words)
        return s, st
    words8 = [0x020000F0, 0x2E2D0010, 0, 0x03000000, 0x11111111, 0x22222222,
              0x33333333, 0xDEADBEEF]
    details_list = [
        {}, {'Message': ''}, {'Message': 'plain'}, {'Message': None},
        {'Message': 'a %1 b %2', 'MessageArgSources': ['SRCWord6', 'SRCWord7']},
        {'Message': 'a %1 b %2', 'MessageArgSources': ['SRCWord6']},
        {'Message': 'a %1', 'MessageArgSources': ['SRCWord6', 'SRCWord7']},
        {'Message': 'a {} %1', 'MessageArgSources': ['SRCWord9']},
        {'Message': 'a {x} %1', 'MessageArgSources': ['SRCWord9']},
        {'Message': 'a {0} {1} %3', 'MessageArgSources': ['2', '3']},
        {'Message': 'a %1', 'MessageArgSources': ['SRCWord1']},
        {'Message': 'a %1', 'MessageArgSources': ['SRCWord0']},
        {'Message': 'a %1', 'MessageArgSources': ['']},
        {'Message': 'a %1', 'MessageArgSources': ['SRCWordX']},
        {'Message': 'a %1', 'MessageArgSources': [6]},
        {'Message': 'a %1', 'MessageArgSources': []},
        {'Message': 'a %1', 'MessageArgSources': None},
        {'Message': 'a %1', 'MessageArgSources': 'SRCWord6'},
        {'Message': 5, 'MessageArgSources': ['SRCWord6']},
        {'Message': 'x%0y%10z%a%%1', 'MessageArgSources': ['SRCWord6']},
        {'MessageArgSources': ['SRCWord6']},
        {'Message': 'm', 'Words6To9': {}},
        {'Message': 'm', 'Words6To9': None},
        {'Message': 'm', 'Words6To9': {'6': {'Description': 'six',
                                             'AdditionalDataPropSource': 'S6'},
                                       '7': {'AdditionalDataPropSource': 'S7'},
                                       '9': {'Description': 'nine',
                                             'AdditionalDataPropSource': 'S9'},
                                       '8': {'Description': 'eight',
                                             'AdditionalDataPropSource': 'S6'}}},
        {'Message': 'm', 'Words6To9': {'12': {'Description': 'd',
                                              'AdditionalDataPropSource': 's'}}},
        {'Message': 'm', 'Words6To9': {'x': {'Description': 'd',
                                             'AdditionalDataPropSource': 's'}}},
        {'Message': 'm', 'Words6To9': {'x': {}}},
        {'Message': 'm', 'Words6To9': {'6': {'Description': 'd'}}},
        {'Message': 'm', 'Words6To9': {'1': {'Description': 'd',
                                             'AdditionalDataPropSource': 's'}}},
        {'Message': 'm', 'Words6To9': {'6': {'Description': 'd',
                                             'AdditionalDataPropSource': 'Message'}}},
        {'Message': 'm', 'Words6To9': [1, 2]},
        {'Message': 'm', 'Words6To9': {'6': 'Description'}},
        {'Words6To9': {'6': {'Description': 'six',
                             'AdditionalDataPropSource': 'S6'}}},
    ]
    for i, det in enumerate(details_list):
        for wn, words in (('w8', words8), ('w0', []), ('w3', [1, 2, 3])):
            def bm(det=det, words=words):
                s, _ = new_src(words=words)
                r = s.buildMessage(det)
                return [type(r).__name__, r]
            run('buildMessage-%d-%s' % (i, wn), bm)

            def bd(det=det, words=words):
                s, _ = new_src(words=words)
                r = s.buildHexwordDescs(det)
                return [type(r).__name__,
                        list(r.items()) if r is not None else None]
            run('buildHexwordDescs-%d-%s' % (i, wn), bd)

    saved_registry = src_mod.registry

    class FakeReg:
        def __init__(self, det):
            self.det = det
            self.calls = []

        def getErrorMessage(self, code, srcType):
            self.calls.append((code, srcType))
            return self.det
    for i, det in enumerate(details_list):
        def ged(det=det):
            from collections import OrderedDict
            fr = FakeReg(det)
            src_mod.registry = fr
            try:
                s, _ = new_src(words=words8)
                out = OrderedDict([('pre', 1)])
                r = s.getErrorDetails(out, '2030', 'BD')
                return [r, type(out.get('Error Details')).__name__,
                        json.dumps(out), fr.calls]
            finally:
                src_mod.registry = saved_registry
        run('getErrorDetails-%d' % i, ged)

    for creator in ('O', 'B', 'T', 'K', 'M', 'X', 'b', '', 'OO'):
        for proc in ('BMC0001', 'BMC9999', 'PROC0001', 'PROC0002', 'PROC0003',
                     'PROC0004', 'PROC0005', ''):
            def gpd(creator=creator, proc=proc):
                from collections import OrderedDict
                s, _ = new_src(creator=creator)
                out = OrderedDict()
                r = s.getProcedureDesc(proc, out)
                return [r, json.dumps(out)]
            run('getProcedureDesc-%s-%s' % (creator, proc), gpd)
    hw8 = ['%08X' % w for w in words8]
    for creator in ('O', 'B', 'T', 'K', 'M', 'X', 'T', 'K', ''):
        for hw in (hw8, hw8 + ['extra'], hw8[:7], [],
                   ['020000EE'] + hw8[1:], [hw8[0], '00000001'] + hw8[2:],
                   [hw8[0], '00000005'] + hw8[2:], tuple(hw8)):
            for asc in ('BD8D2030' + ' ' * 24, 'BDE51000   ', ''):
                def prs(creator=creator, hw=hw, asc=asc):
                    s, _ = new_src(creator=creator)
                    s.asciiString = asc
                    r = s.parse(hw)
                    return [type(r).__name__, r]
                run('parse-%s-%d-%s-%s' % (creator, len(hw), hw[:2],
                                           asc.strip()), prs)
    run('parser-caches-1',
        lambda: [sorted((k, v is None) for k, v in
                        src_mod.calloutParsers.items()),
                 sorted((k, v is None) for k, v in
                        src_mod.srcParsers.items())])

    run('get_value', lambda: [src_mod.get_value(b'\x01\x02\x03', 0, 2),
                              src_mod.get_value(b'\x01\x02\x03', 2, 2),
                              src_mod.get_value(b'\x01\x02\x03', 5, 2),
                              src_mod.get_value(memoryview(b'\xff\x02'), 0, 2)])

    # --- sub structure classes directly ---------------------------------------
    def dump(o):
        if isinstance(o, (int, str, float, type(None))):
            return o
        if isinstance(o, (bytes, memoryview)):
            return bytes(o).hex()
        if type(o).__name__ == 'MRUCallout':
            return {'__class__': 'MRUCallout', 'priority': o.priority,
                    'id': o.id}
        if isinstance(o, (list, tuple)):
            return [dump(x) for x in o]
        if isinstance(o, dict):
            return [[dump(k), dump(v)] for k, v in o.items()]
        if hasattr(o, '__dict__'):
            d = {'__class__': type(o).__name__}
            for k, v in sorted(vars(o).items()):
                d[k] = dump(v)
            return d
        return repr(o)

    def substruct(cls_name, data, mv=False):
        def go():
            d = memoryview(data) if mv else data
            st = DataStream(d, byte_order='big', is_signed=False)
            try:
                o = getattr(src_mod, cls_name)(st)
            except BaseException as e:
                return ['exc', type(e).__name__, str(e), st.index]
            res = dump(o)
            if cls_name == 'Callout':
                res['flattenedSize()'] = o.flattenedSize()
            return [res, st.index]
        return go
    sub_samples = {
        'FRUIdentity': [fru(f) for f in range(0, 16)] +
        [fru(0x1F)[:n] for n in range(0, 28, 3)] + [fru(0xFF, pn=b'\xff' * 8)],
        'PCEIdentity': [pce(), pce(name=b''), pce(size=10), pce(size=24),
                        pce(size=25), pce(name=b'abc\0\0', mtm=b'')] +
        [pce()[:n] for n in range(0, 31, 4)],
        'MRU': [mru([]), mru([(1, 2)]), mru([(1, 2)] * 15),
                mru([(1, 2)], flags=0xF3), mru([(1, 2), (3, 4)], flags=3)] +
        [mru([(1, 2), (3, 4)])[:n] for n in range(0, 24, 3)],
        'Callout': [callout(subs=[fru(0x1F), pce(), mru([(1, 2)])]),
                    callout(loc=b''), callout(subs=[b'QQ\x04\x00']),
                    callout(subs=[fru(0x1F)], size=4),
                    callout(subs=[fru(0x1F), fru(0x12), pce(size=3)]),
                    callout(subs=[mru([], size=0)], size=200)] +
        [callout(subs=[fru(0x1F), pce(), mru([(1, 2)])])[:n]
         for n in range(0, 90, 5)],
    }
    for cls_name, samples in sub_samples.items():
        for i, smp in enumerate(samples):
            run('sub-%s-%d' % (cls_name, i), substruct(cls_name, smp))
            if i % 4 == 0:
                run('sub-%s-%d-mv' % (cls_name, i),
                    substruct(cls_name, smp, True))
    run('MRUCallout', lambda: [src_mod.MRUCallout(1, 2).priority,
                               src_mod.MRUCallout(priority=3, id=4).id])

    # --- SRC.toJSON on the corpus ----------------------------------------------
    corpus = src_corpus()

    def src_case(creator, body, plugins, mv=False, twice=False):
        def go():
            cfg = Config()
            cfg.allow_plugins = plugins
            data = memoryview(body) if mv else body
            if twice:
                data = body + body
            s, st = new_src(data, creator)
            try:
                r = s.toJSON(cfg)
                if twice:
                    r2 = s.toJSON(cfg)
                    r = [type(r).__name__, r, type(r2).__name__, r2]
            except BaseException as e:
                return ['exc', type(e).__name__, str(e), st.index,
                        len(s.hexData)]
            return [type(r).__name__, r, st.index, s.version, s.flags,
                    s.wordCount, s.size, s.hexData, s.srcType, s.asciiString]
        return go
    for name, creator, body in corpus:
        run('src-%s-plug' % name, src_case(creator, body, True))
        if not name.startswith(('trunc', 'rand')):
            run('src-%s-noplug' % name, src_case(creator, body, False))
    for name, creator, body in corpus[::17]:
        run('src-%s-mv' % name, src_case(creator, body, True, mv=True))
        run('src-%s-twice' % name, src_case(creator, body, True, twice=True))

    def nobyteorder():
        st = DataStream(src_body())
        s = src_mod.SRC(st, 0x5053, 80, 1, 1, 0x1000, 'B')
        try:
            return s.toJSON(Config())
        except BaseException as e:
            return ['exc', type(e).__name__, str(e), st.index]
    run('src-no-byteorder', nobyteorder)

    def little():
        st = DataStream(src_body(flags=1, callouts=standard_callouts(2)),
                        byte_order='little', is_signed=True)
        s = src_mod.SRC(st, 0x5053, 80, 1, 1, 0x1000, 'B')
        try:
            return [s.toJSON(Config()), st.index]
        except BaseException as e:
            return ['exc', type(e).__name__, str(e), st.index]
    run('src-little-signed', little)

    class NoPluginAttr:
        pass
    run('src-config-without-attr',
        lambda: new_src(src_body(), 'B')[0].toJSON(NoPluginAttr()))

    run('parser-caches-2',
        lambda: [sorted((k, v is None) for k, v in
                        src_mod.calloutParsers.items()),
                 sorted((k, v is None) for k, v in
                        src_mod.srcParsers.items())])

    def plugin_calls():
        res = []
        for m in ('srcparsers.bsrc.bsrc', 'calloutparsers.bcallouts.bcallouts'):
            mod = sys.modules.get(m)
            res.append(len(mod.calls) if mod else None)
            res.append(hashlib.sha1(repr(mod.calls).encode()).hexdigest()
                       if mod else None)
        return res
    run('plugin-call-log', plugin_calls)

    # --- prettyPrint -------------------------------------------------------------
    rnd = random.Random(4242)
    keys = ['a', 'Section Version', 'key with "quote"', 'back\\slash', 'x:y',
            'brace{', '}', '', ' ', 'a": "b', 'tab\there', 'new\nline',
            'unicodé', 'very long key ' * 4, '"', '\\"', '\\', ':', '":',
            'k' * 33, 'k' * 34, 'k' * 35, 'k' * 28]

    def rand_val(depth):
        t = rnd.randrange(9 if depth < 3 else 6)
        if t == 0:
            return rnd.randrange(-5, 100000)
        if t == 1:
            return rnd.choice(['', 'text', 'with "q": 1', 'a: b', '{', '"x":',
                               '  "k": v', 'line\nbreak', '\\'])
        if t == 2:
            return rnd.choice([None, True, False, 1.5])
        if t == 3:
            return []
        if t == 4:
            return {}
        if t == 5:
            return [rand_val(depth + 1) for _ in range(rnd.randrange(1, 4))]
        return {rnd.choice(keys): rand_val(depth + 1)
                for _ in range(rnd.randrange(1, 5))}
    pp_inputs = ['', '\n', 'abc', '  "k":v', '"a\\"b": 1', '"a": {', '{"a": 1}',
                 '"a":1\r\n"b":2\r\n', '    "k": "v{"', '    "k": [',
                 '"unterminated: 1', '"a":', ' "a":', '\t"a": 1', '"a" : 1',
                 '"a\\": 1', '"a\\\\": 1', '"":1', '"a":"b":"c": 3',
                 'x "a": 1', '"a": 1\n\n"b": 2\n', '"é": 1',
                 '"' + 'k' * 40 + '": 1', "'a': 1"]
    for _ in range(160):
        obj = {rnd.choice(keys): rand_val(0) for _ in range(rnd.randrange(1, 6))}
        pp_inputs.append(json.dumps(obj, indent=rnd.choice((4, 4, 2, 1, None))))
    for i, text in enumerate(pp_inputs):
        run('prettyPrint-%d-default' % i,
            lambda text=text: peltool.prettyPrint(text))
        for sp in ((29, 0, -3, 5, 100, 2, 1, True) if i % 3 == 0 else (29,)):
            run('prettyPrint-%d-%r' % (i, sp),
                lambda text=text, sp=sp: peltool.prettyPrint(text, sp))
            run('prettyPrint-%d-kw-%r' % (i, sp),
                lambda text=text, sp=sp: peltool.prettyPrint(
                    Mdata=text, desiredSpace=sp))
    run('prettyPrint-none', lambda: peltool.prettyPrint(None))
    run('prettyPrint-bytes', lambda: peltool.prettyPrint(b'"a": 1'))
    run('KEY_PREFIX_RE', lambda: peltool.KEY_PREFIX_RE.pattern)

    # --- considerPEL / considerPELIfSeverityMatches ------------------------------
    class RecUH(UserHeader):
        def __init__(self, sev, af):
            super().__init__(None, 0x5548, 24, 1, 0, 0x1000, 'O')
            self.eventSeverity = sev
            self.actionFlags = af
            self.log = ''

        def isHidden(self):
            self.log += 'H'
            return super().isHidden()

        def isServiceable(self):
            self.log += 'S'
            return super().isServiceable()
    uh_sevs = [0x00, 0x10, 0x20, 0x40, 0x51, 0x52, 0x71]
    uh_afs = [0x0000, 0x8000, 0x4000, 0x2000, 0x6000, 0xA000, 0xC000]
    sev_lists = [[], [4], [0, 2], [5, 1], [7, 7, 4], [9]]
    id_opts = [None, 'plid', 'src', 'bmcID', 'pelID']
    for bits in range(64):
        for si, sevl in enumerate(sev_lists):
            for ido in id_opts:
                def cp(bits=bits, sevl=sevl, ido=ido):
                    cfg = Config()
                    (cfg.every_pel, cfg.critSysTerm, cfg.serviceable,
                     cfg.non_serviceable, cfg.hidden, cfg.only) = \
                        [bool(bits & (1 << k)) for k in range(6)]
                    cfg.severities = list(sevl)
                    if ido:
                        setattr(cfg, ido, '50000001')
                    row = []
                    for sv in uh_sevs:
                        for af in uh_afs:
                            uh = RecUH(sv, af)
                            r = peltool.considerPEL(uh, cfg)
                            row.append(repr(r) + uh.log)
                    return ' '.join(row)
                run('considerPEL-%02d-%d-%s' % (bits, si, ido), cp)
    for si, sevl in enumerate(sev_lists + [[4.0], ['4'], [None], (4, 5),
                                           [True], [2 ** 70]]):
        def cs(sevl=sevl):
            cfg = Config()
            cfg.severities = sevl
            row = []
            for sv in list(range(0, 256, 7)) + [0x40, 0x4F, 0x50, 0x10]:
                uh = RecUH(sv, 0)
                row.append(repr(peltool.considerPELIfSeverityMatches(uh, cfg))
                           + uh.log)
            return ' '.join(row)
        run('severityMatches-%d' % si, cs)

    def truthy_cfg():
        # non-bool truthy / falsy option values
        res = []
        for vals in ((1, 0, 'x', '', [1], None), ('', 1, 0, 'y', None, 2),
                     (0, 0, 0, 0, 0, 'only'), (None, None, 1, 1, 1, None)):
            cfg = Config()
            (cfg.every_pel, cfg.critSysTerm, cfg.serviceable,
             cfg.non_serviceable, cfg.hidden, cfg.only) = vals
            for sevl in ([], [4]):
                cfg.severities = sevl
                for idv in (None, '', '5'):
                    cfg.plid = idv
                    for sv, af in ((0x40, 0xA000), (0x00, 0), (0x40, 0x4000),
                                   (0x51, 0x2000)):
                        uh = RecUH(sv, af)
                        res.append(repr(peltool.considerPEL(uh, cfg)) + uh.log)
        return ' '.join(res)
    run('considerPEL-truthy-config', truthy_cfg)

    class BadUH:
        eventSeverity = 'x'
    run('severityMatches-bad-uh-empty',
        lambda: peltool.considerPELIfSeverityMatches(BadUH(), Config()))

    def bad_uh_sev():
        cfg = Config()
        cfg.severities = [4]
        return peltool.considerPELIfSeverityMatches(BadUH(), cfg)
    run('severityMatches-bad-uh', bad_uh_sev)
    run('considerPEL-bad-uh', lambda: peltool.considerPEL(BadUH(), Config()))

    # --- whole PELs in process -----------------------------------------------------
    def cfg_from(**kw):
        c = Config()
        for k, v in kw.items():
            setattr(c, k, v)
        return c
    cfg_variants = [
        ('default', {}),
        ('every', {'every_pel': True}),
        ('every-noplug', {'every_pel': True, 'allow_plugins': False}),
        ('hidden-only', {'hidden': True, 'only': True}),
        ('sev45', {'severities': [4, 5]}),
        ('nonserv-only-sev', {'non_serviceable': True, 'only': True,
                              'severities': [0, 1]}),
        ('term', {'critSysTerm': True, 'only': True}),
    ]
    files = sorted(f for f in os.listdir(datadir)
                   if os.path.isfile(os.path.join(datadir, f)))
    for f in files:
        with open(os.path.join(datadir, f), 'rb') as fd:
            data = fd.read()
        for cn, kw in cfg_variants:
            def pp(data=data, kw=kw):
                st = DataStream(data, byte_order='big', is_signed=False)
                try:
                    r = peltool.parsePEL(st, cfg_from(**kw), False)
                except BaseException as e:
                    return ['exc', type(e).__name__, str(e), st.index]
                return [r, st.index]
            run('parsePEL-%s-%s' % (f, cn), pp)
        for cn, kw in cfg_variants[:3]:
            def ps(data=data, kw=kw):
                st = DataStream(data, byte_order='big', is_signed=False)
                try:
                    r = peltool.parsePELSummary(st, cfg_from(**kw))
                except BaseException as e:
                    return ['exc', type(e).__name__, str(e), st.index]
                return [r, st.index]
            run('parsePELSummary-%s-%s' % (f, cn), ps)

    run('parser-caches-3',
        lambda: [sorted((k, v is None) for k, v in
                        src_mod.calloutParsers.items()),
                 sorted((k, v is None) for k, v in
                        src_mod.srcParsers.items())])
    run('plugin-call-log-2', plugin_calls)
    run('compid-final-state',
        lambda: [comp_id.attemptedToParseCompIDs,
                 sorted(comp_id.componentIDs.items(),
                        key=lambda kv: repr(kv[0]))])
    finish()


# ---------------------------------------------------------------------------
# orchestration
# ---------------------------------------------------------------------------

def snapshot(d: str):
    res = []
    for root, dirs, files in os.walk(d):
        dirs.sort()
        for f in sorted(files):
            p = os.path.join(root, f)
            with open(p, 'rb') as fd:
                res.append([os.path.relpath(p, d),
                            hashlib.sha1(fd.read()).hexdigest()])
    return res


def strip_traceback(text: str) -> str:
    """File names / line numbers of the two trees legitimately differ."""
    if 'Traceback (most recent call last)' not in text:
        return text
    keep = []
    for line in text.split('\n'):
        if line.startswith('  '):
            continue
        keep.append(line)
    return '\n'.join(keep)


def fresh_data(datadir: str):
    if os.path.exists(datadir):
        shutil.rmtree(datadir)
    os.makedirs(datadir)
    for name, data in pel_corpus():
        with open(os.path.join(datadir, name), 'wb') as f:
            f.write(data)
    extra = os.path.join(os.path.dirname(datadir), 'extra')
    if os.path.exists(extra):
        shutil.rmtree(extra)
    os.makedirs(extra)
    for name, creator in (('texit.pel', b'T'), ('kbroken.pel', b'K'),
                          ('mnoattr.pel', b'M')):
        with open(os.path.join(extra, name), 'wb') as f:
            f.write(make_pel(creator=creator, eid=0x5EEE0001, sections=[
                src_section(flags=0x01, callouts=standard_callouts(1))]))
    os.makedirs(os.path.join(datadir, 'subdir.pel'))
    with open(os.path.join(datadir, 'subdir.pel', 'nested.pel'), 'wb') as f:
        f.write(pel_corpus()[0][1])


def cli_cases(datadir: str, outdir: str, excl: str):
    p = ['-p', datadir]
    cases = []
    for f in ('pel00.pel', 'pel01.pel', 'pel02.pel', 'pel03.pel', 'pel04.pel',
              'pel05.pel', 'pel06.pel', 'pel10.pel', 'pel13.pel', 'pel16.pel',
              'pel22.pel', 'pel24.pel', 'short_ph.pel', 'short_uh.pel',
              'short_src.pel', 'short_callout.pel', 'empty.pel', 'notph.pel',
              'notuh.pel', 'seccount.pel', 'nosrc.txt', 'wc12.pel',
              'badascii.pel', 'pcesmall.pel', 'mut0.pel', 'mut3.pel',
              'missing.pel'):
        fp = os.path.join(datadir, f)
        cases.append(['-f', fp])
        cases.append(['-f', fp, '-E'])
        if f in ('pel00.pel', 'pel02.pel', 'pel03.pel', 'wc12.pel', 'mut0.pel'):
            cases.append(['-f', fp, '-P', '-E'])
            cases.append(['-f', fp, '-x', '-E'])
            cases.append(['-f', fp, '-H', '-O'])
            cases.append(['-f', fp, '-S', 'Unrecoverable', 'Critical', '-O'])
    for opts in ([], ['-E'], ['-H', '-O'], ['-S', 'Informational'],
                 ['-O', '-S', 'Unrecoverable', 'Critical'], ['-N'],
                 ['-s', '-O', '-S', 'Predictive'], ['-N', '-O', '-S', 'Recovered',
                                                    'Informational'],
                 ['-H', '-S', 'Symptom', 'Diagnostic'], ['-t'], ['-t', '-O'],
                 ['-s', '-N', '-H'], ['-E', '-r'], ['-E', '-e', '.pel'],
                 ['-E', '-e', '.txt'], ['-E', '-P'], ['-H', '-O', '-S',
                                                      'Predictive']):
        cases.append(p + ['-l'] + opts)
        cases.append(p + ['-n'] + opts)
    for opts in ([], ['-E'], ['-E', '-P'], ['-H', '-O'], ['-E', '-r', '-e',
                                                          '.pel'],
                 ['-O', '-S', 'Critical'], ['-E', '-x'], ['-N', '-S',
                                                          'Unrecoverable']):
        cases.append(p + ['-a'] + opts)
    cases.append(p + ['-l', '-x'])
    cases.append(p + ['-i', '0x50000001'])
    cases.append(p + ['-i', '50000012'])
    cases.append(p + ['-i', '50000012', '-x'])
    cases.append(p + ['-i', '5FFF0002'])
    cases.append(p + ['-i', 'DEADBEEF'])
    cases.append(p + ['-i', '123'])
    cases.append(p + ['--bmc-id', '3'])
    cases.append(p + ['--bmc-id', '4', '-H'])
    cases.append(p + ['--bmc-id', '999'])
    cases.append(p + ['--plid', '0x50000001'])
    cases.append(p + ['--plid', '50000001', '-E'])
    cases.append(p + ['--plid', '50000001', '-x'])
    cases.append(p + ['--src', 'BD8D2030'])
    cases.append(p + ['--src', 'BC8A', '-E', '-r'])
    cases.append(p + ['--src', 'B' * 33])
    cases.append(p + ['--src-exclude', excl])
    cases.append(p + ['--src-exclude', excl, '-E', '-S', 'Critical'])
    cases.append(p + ['--src-exclude', excl + '.missing'])
    cases.append(p + ['-j', '-o', outdir])
    cases.append(p + ['-j', '-o', outdir, '-E', '-e', '.pel'])
    cases.append(p + ['-j', '-o', outdir + 'missing'])
    cases.append(p + ['-j', '-E', '-P', '-c'])
    cases.append(p + ['-j', '-H', '-O', '-c', '-o', outdir])
    cases.append(p + ['-d', '50000012'])
    cases.append(p + ['-D'])
    extra = os.path.join(os.path.dirname(datadir), 'extra')
    for f in ('texit.pel', 'kbroken.pel', 'mnoattr.pel'):
        cases.append(['-f', os.path.join(extra, f), '-E'])
        cases.append(['-f', os.path.join(extra, f), '-E', '-P'])
        cases.append(['-f', os.path.join(extra, f), '-E', '-c'])
    cases.append(['-p', extra, '-a', '-E'])
    cases.append(['-p', extra, '-l', '-E', '-r'])
    cases.append(['-l'])
    cases.append(['-p', os.path.join(datadir, 'nodir'), '-l'])
    cases.append(['--help'])
    return cases


def run_tree(root: str, work: str):
    """Returns an ordered list of (case name, observation)."""
    obs = []
    modules = os.path.join(root, 'modules')
    peltool_py = os.path.join(modules, 'pel', 'peltool', 'peltool.py')
    datadir = os.path.join(work, 'data')
    outdir = os.path.join(work, 'out')
    excl = os.path.join(work, 'exclude.txt')
    with open(excl, 'w') as f:
        f.write('BD8D2030\nBC8A2030\n')

    def env_for(mode):
        env = dict(os.environ)
        sup = os.path.join(work, 'support_' + ('reg' if mode == 'bmcpath'
                                               else mode))
        env['PYTHONPATH'] = modules + os.pathsep + sup
        env['PYTHONDONTWRITEBYTECODE'] = '1'
        env['PYTHONHASHSEED'] = '0'
        return env, sup

    # in-process driver
    for mode in ('reg', 'noreg', 'badreg', 'baddir', 'bmcpath'):
        for opt in ([], ['-O']):
            if opt and mode in ('badreg', 'baddir', 'bmcpath'):
                continue
            fresh_data(datadir)
            env, sup = env_for(mode)
            resfile = os.path.join(work, 'driver_result.json')
            if os.path.exists(resfile):
                os.unlink(resfile)
            pr = subprocess.run([PY] + opt + [os.path.abspath(__file__),
                                              '--driver', mode, sup, datadir,
                                              resfile],
                                env=env, cwd=work, stdout=subprocess.PIPE,
                                stderr=subprocess.PIPE, text=True)
            tag = 'driver-%s%s' % (mode, '-O' if opt else '')
            obs.append((tag + '-process',
                        [pr.returncode, pr.stdout,
                         strip_traceback(pr.stderr)]))
            if os.path.exists(resfile):
                with open(resfile) as f:
                    for name, res, out, err in json.load(f):
                        obs.append((tag + ':' + name, [res, out, err]))
            else:
                obs.append((tag + '-noresult', None))

    # command line
    for mode, opt in (('reg', []), ('reg', ['-O']), ('noreg', [])):
        env, sup = env_for(mode)
        cases = cli_cases(datadir, outdir, excl)
        if mode == 'noreg' or opt:
            cases = cases[::3]
        for i, args in enumerate(cases):
            fresh_data(datadir)
            if os.path.exists(outdir):
                shutil.rmtree(outdir)
            os.makedirs(outdir)
            pr = subprocess.run([PY] + opt + [peltool_py] + args, env=env,
                                cwd=work, stdout=subprocess.PIPE,
                                stderr=subprocess.PIPE, stdin=subprocess.DEVNULL)
            name = 'cli-%s%s-%03d %s' % (mode, '-O' if opt else '', i,
                                        ' '.join(a.replace(work, '<W>')
                                                 for a in args))
            obs.append((name, [pr.returncode,
                               pr.stdout.decode('utf-8', 'replace'),
                               strip_traceback(
                                   pr.stderr.decode('utf-8', 'replace')),
                               snapshot(datadir), snapshot(outdir),
                               snapshot(os.path.join(work, 'extra'))]))
    return obs


def main():
    if len(sys.argv) >= 2 and sys.argv[1] == '--driver':
        driver(*sys.argv[2:6])
        return 0
    if len(sys.argv) != 3:
        print(__doc__)
        return 2
    pristine, patched = (os.path.abspath(a) for a in sys.argv[1:3])
    here = os.path.dirname(os.path.abspath(__file__))
    work = tempfile.mkdtemp(prefix='dc_work_', dir=here)
    try:
        write_support(work)
        a = run_tree(pristine, work)
        b = run_tree(patched, work)
    finally:
        shutil.rmtree(work, ignore_errors=True)
    if os.environ.get('DIFFCHECK_DUMP'):
        with open(os.environ['DIFFCHECK_DUMP'], 'w') as f:
            json.dump(a, f, indent=1)
    ndiff = 0
    if [n for n, _ in a] != [n for n, _ in b]:
        print("DIFFERENT: case lists differ (%d vs %d)" % (len(a), len(b)))
        sa, sb = set(n for n, _ in a), set(n for n, _ in b)
        for n in sorted(sa ^ sb)[:20]:
            print("  only in one run:", n)
        return 1
    for (n, oa), (_, ob) in zip(a, b):
        if oa != ob:
            ndiff += 1
            if ndiff <= 15:
                print("DIFFERENT:", n)
                print("   pristine:", json.dumps(oa)[:1500])
                print("   patched :", json.dumps(ob)[:1500])
    # sanity: the run must have exercised real decoding
    ok_src = sum(1 for n, o in a
                 if ':src-' in n and o and '"exc"' not in o[0])
    if ok_src < 100 or len(a) < 3000:
        print("DIFFERENT: harness sanity check failed (%d cases, %d decoded "
              "SRCs)" % (len(a), ok_src))
        return 1
    if ndiff:
        print("DIFFERENT (%d of %d cases)" % (ndiff, len(a)))
        return 1
    print("IDENTICAL (%d cases)" % len(a))
    return 0


if __name__ == '__main__':
    sys.exit(main())
