#!/usr/bin/env python
"""
Differential check for refactorings of the file writing / deleting paths of
modules/pel/peltool/peltool.py (and the peltool-wrapper setup script).

    /venv/bin/python diffcheck.py <pristine_root> <patched_root>

Every case is executed twice - once against each source tree - in a fresh
subprocess (PYTHONPATH=<root>/modules) that works on an identically prepared
scratch directory with the very same path name.  Compared are: exit status,
stdout bytes, stderr (traceback frames and the source root are normalised,
the exception lines are kept) and a full snapshot (names, types, contents) of
the scratch directory after the run.

Prints "IDENTICAL (<n> cases)" and exits 0 when nothing differs, else exit 1.
"""

import hashlib
import json
import os
import random
import shutil
import struct
import subprocess
import sys
import tempfile
from concurrent.futures import ThreadPoolExecutor

PY = sys.executable
HERE = os.path.dirname(os.path.abspath(__file__))


# ---------------------------------------------------------------------------
# Building binary PELs
# ---------------------------------------------------------------------------

TS = bytes.fromhex('2022030818402700')


def hdr(sid, length, ver=1, sub=0, comp=0x2000):
    return struct.pack('>HHBBH', sid, length & 0xFFFF, ver, sub, comp)


def PH(count, creator=b'O', obmc=1, plid=0x50000001, eid=0x50000001,
       sid=0x5048, comp=0x2000):
    body = TS + TS + creator + b'\x00\x00' + bytes([count & 0xFF]) + \
        struct.pack('>IQII', obmc, 0x0102030405060708, plid, eid)
    return hdr(sid, 8 + len(body), 1, 0, comp) + body


def UH(sev=0x40, flags=0xA000, subsystem=0x10, scope=3, etype=0, states=0,
       sid=0x5548, comp=0x2000):
    body = struct.pack('>BBBBIBBHI', subsystem, scope, sev, etype, 0, 1, 2,
                       flags, states)
    return hdr(sid, 8 + len(body), 1, 0, comp) + body


def fru_callout(loc=b'U78DA.ND0.1234567-P0', pn=b'PN12345\x00', ccin=b'CCIN',
                sn=b'SN1234567890', prio=ord('H'), proc=False):
    loc = loc + b'\x00' * ((4 - len(loc) % 4) % 4)
    flags = 0
    fru = b''
    if pn is not None:
        flags |= 0x02 if proc else 0x08
        fru += pn
    if ccin is not None:
        flags |= 0x04
        fru += ccin
    if sn is not None:
        flags |= 0x01
        fru += sn
    fru = struct.pack('>HBB', 0x4944, 4 + len(fru), 0x10 | flags) + fru
    size = 4 + len(loc) + len(fru)
    return struct.pack('>BBBB', size, 0, prio, len(loc)) + loc + fru


def SRC(sid=0x5053, ascii_str=b'BD8D1001', flags=0, words=None, callouts=None,
        word_count=9, comp=0x2000):
    if words is None:
        words = [0x000000E0, 0x2B010000, 0x11223344, 0x03000000,
                 0xDEADBEEF, 0, 1, 2]
    body = struct.pack('>BBBBHH', 2, flags | (1 if callouts else 0), 0,
                       word_count, 0, 72)
    body += b''.join(struct.pack('>I', w) for w in words)
    body += ascii_str.ljust(32, b' ')
    if callouts:
        cdata = b''.join(callouts)
        body += struct.pack('>BBH', 0xC0, 0, (4 + len(cdata)) // 4) + cdata
    return hdr(sid, 8 + len(body), 1, 1, comp) + body


def EH(symptom=b'BD8D1001_2B010000\x00\x00\x00', comp=0x2000):
    body = b'9105-22A'.ljust(8, b'\x00') + b'13ABCDE'.ljust(12, b'\x00') + \
        b'fw1030.00-1'.ljust(16, b'\x00') + b'sub-1.2'.ljust(16, b'\x00') + \
        b'\x00' * 4 + TS + b'\x00\x00\x00' + bytes([len(symptom)]) + symptom
    return hdr(0x4548, 8 + len(body), 1, 0, comp) + body


def MT(mtm=b'9105-22A', sn=b'13ABCDE\x00\x00\x00\x00\x00', comp=0x2000):
    body = mtm.ljust(8, b'\x00') + sn.ljust(12, b'\x00')
    return hdr(0x4D54, 8 + len(body), 1, 0, comp) + body


def UD(data, sub=1, ver=1, comp=0x2000, length=None):
    data = data + b'\x00' * ((4 - len(data) % 4) % 4)
    return hdr(0x5544, 8 + len(data) if length is None else length,
               ver, sub, comp) + data


def ED(data, creator=b'O', sub=1, ver=1, comp=0x2000):
    data = data + b'\x00' * ((4 - len(data) % 4) % 4)
    body = creator + b'\x00\x00\x00' + data
    return hdr(0x4544, 8 + len(body), ver, sub, comp) + body


def LP(name=b'lpar1\x00\x00\x00', targets=(1, 2, 3)):
    body = struct.pack('>HBBI', 7, len(name), len(targets), 0x99) + name
    for t in targets:
        body += struct.pack('>H', t)
    if len(targets) % 2:
        body += b'\x00\x00'
    return hdr(0x4C50, 8 + len(body), 1, 0, 0x2000) + body


def RAW(sid, data):
    return hdr(sid, 8 + len(data), 1, 0, 0x1234) + data


def pel(sections, count=None, **kw):
    uhkw = {k: kw.pop(k) for k in list(kw)
            if k in ('sev', 'flags', 'subsystem', 'scope', 'etype', 'states')}
    uh_sid = kw.pop('uh_sid', 0x5548)
    n = len(sections) + 2 if count is None else count
    return PH(n, **kw) + UH(sid=uh_sid, **uhkw) + b''.join(sections)


def build_corpus():
    """Returns a list of (file name, bytes)."""
    rnd = random.Random(20)
    blobs = []
    eid = [0x50000000]

    def add(label, maker, ext=''):
        eid[0] += 1
        blobs.append(('%s_%08X%s' % (label, eid[0], ext), maker(eid[0])))

    jsn = json.dumps({"KEY": "value", "n": [1, 2, {"x": "y: {z}"}],
                      "a\"b": "c\\d", "brace{": 1}).encode()
    text = b'line one\nline two \x01\x7f\nlast'
    full_sections = [
        SRC(callouts=[fru_callout(), fru_callout(pn=b'BMC0001\x00', ccin=None,
                                                 sn=None, proc=True)]),
        SRC(sid=0x5353, ascii_str=b'BD8D2002'),
        SRC(sid=0x5353, ascii_str=b'11002003', word_count=5),
        EH(), MT(), UD(jsn, sub=1), UD(text, sub=3), UD(b'\x01\x02\x03', sub=9),
        UD(b'cbor?', sub=2), ED(jsn, creator=b'O', sub=1),
        ED(b'\xde\xad\xbe\xef' * 5, creator=b'B', comp=0x0100), LP(),
        RAW(0x4448, bytes(range(40))), RAW(0x5A5A, b'unknown section'),
    ]

    add('min', lambda e: pel([], eid=e, plid=e, obmc=e & 0xFF), '.pel')
    add('src', lambda e: pel([SRC(), EH(), MT(), UD(jsn)], eid=e, plid=e,
                             obmc=e & 0xFF))
    add('full', lambda e: pel(full_sections, eid=e, plid=0x5000AAAA,
                              obmc=e & 0xFF), '.pel')
    full = blobs[-1][1]
    add('hidden', lambda e: pel([SRC(ascii_str=b'BD8D3003')], eid=e, plid=e,
                                obmc=e & 0xFF, flags=0x6000))
    add('info', lambda e: pel([SRC(ascii_str=b'BD8D4004')], eid=e, plid=e,
                              obmc=e & 0xFF, sev=0x00, flags=0x0000), '.pel')
    add('infosvc', lambda e: pel([SRC()], eid=e, plid=e, obmc=e & 0xFF,
                                 sev=0x00, flags=0x8000))
    add('term', lambda e: pel([SRC(), MT()], eid=e, plid=e, obmc=e & 0xFF,
                              sev=0x51, flags=0x0000), '.pel')
    add('recov', lambda e: pel([SRC()], eid=e, plid=e, obmc=e & 0xFF,
                               sev=0x10, flags=0x4000))
    add('pred', lambda e: pel([SRC()], eid=e, plid=e, obmc=e & 0xFF,
                              sev=0x20, flags=0x2000), '.txt')
    add('hb', lambda e: pel([SRC(ascii_str=b'BC8A0505', comp=0x0500),
                             UD(b'\x00\x01\x02\x03' * 6, comp=0x0100, sub=4)],
                            creator=b'B', eid=e, plid=e, obmc=e & 0xFF,
                            comp=0x0500), '.pel')
    add('phyp', lambda e: pel([SRC(ascii_str=b'B7001111', comp=0x4850),
                               UD(b'phypdata', comp=0x4850)],
                              creator=b'H', eid=e, plid=e, obmc=e & 0xFF,
                              comp=0x4850))
    add('odd', lambda e: pel([UD(b'zz' * 9, comp=0xABCD)], creator=b'Z',
                             eid=e, plid=e, obmc=e & 0xFF), '.pel')
    add('io', lambda e: pel([UD(b'\x11' * 64, comp=0x2C00, sub=1)],
                            creator=b'M', eid=e, plid=e, obmc=e & 0xFF))
    add('badjson', lambda e: pel([UD(b'{"not": json', sub=1)], eid=e, plid=e,
                                 obmc=e & 0xFF), '.pel')
    add('jsonlist', lambda e: pel([UD(b'[1, 2, "x"]', sub=1),
                                   UD(b'"str"', sub=1)], eid=e, plid=e,
                                  obmc=e & 0xFF))
    add('nonascii', lambda e: pel([SRC(), MT(mtm=b'\xff\xfe\xfd')], eid=e,
                                  plid=e, obmc=e & 0xFF), '.pel')
    add('cntbig', lambda e: pel([SRC(), MT()], count=9, eid=e, plid=e,
                                obmc=e & 0xFF))
    add('cntsmall', lambda e: pel([SRC(), MT(), EH()], count=3, eid=e, plid=e,
                                  obmc=e & 0xFF), '.pel')
    add('cntzero', lambda e: pel([SRC()], count=0, eid=e, plid=e,
                                 obmc=e & 0xFF))
    add('zerolen', lambda e: pel([UD(b'abcd', length=0)], eid=e, plid=e,
                                 obmc=e & 0xFF), '.pel')
    add('shortlen', lambda e: pel([UD(b'abcd', length=4)], eid=e, plid=e,
                                  obmc=e & 0xFF))
    add('hugelen', lambda e: pel([UD(b'abcd', length=0xFFF0)], eid=e, plid=e,
                                 obmc=e & 0xFF), '.pel')
    add('badph', lambda e: pel([SRC()], sid=0x5049, eid=e, plid=e,
                               obmc=e & 0xFF))
    add('baduh', lambda e: pel([SRC()], uh_sid=0x5549, eid=e, plid=e,
                               obmc=e & 0xFF), '.pel')
    add('srctrunc', lambda e: pel([SRC()], eid=e, plid=e,
                                  obmc=e & 0xFF)[:-10])
    add('calloutbad', lambda e: pel(
        [SRC(callouts=[b'\x30\x00\x48\x04ABCD' + b'\x50\x45\x08\x00' * 4])],
        eid=e, plid=e, obmc=e & 0xFF), '.pel')
    add('big', lambda e: pel([RAW(0x4448, bytes(rnd.randrange(256)
                                                 for _ in range(6000))),
                              UD(json.dumps({"k%d" % i: "v" * 40
                                             for i in range(300)}).encode())],
                             eid=e, plid=e, obmc=e & 0xFF))
    add('empty', lambda e: b'', '.pel')
    add('onebyte', lambda e: b'P')

    for cut in (1, 7, 8, 20, 47, 48, 50, 71, 72, 80, 100, 152, 300,
                len(full) - 1):
        add('cut%d' % cut, lambda e, c=cut: full[:c],
            '.pel' if cut % 2 else '')
    for i in range(14):
        def corrupt(e, i=i):
            b = bytearray(full)
            lo = 0 if i % 3 == 0 else 72
            for _ in range(1 + i % 4):
                b[rnd.randrange(lo, len(b))] = rnd.randrange(256)
            return bytes(b)
        add('corrupt%d' % i, corrupt, '.pel' if i % 2 else '')
    for i in range(6):
        add('random%d' % i,
            lambda e: bytes(rnd.randrange(256)
                            for _ in range(rnd.randrange(1, 400))))
    for i in range(4):
        add('phrandom%d' % i,
            lambda e: PH(rnd.randrange(2, 6), eid=e, plid=e) + UH() +
            bytes(rnd.randrange(256) for _ in range(rnd.randrange(0, 200))),
            '.pel')
    add('lowerid', lambda e: pel([SRC()], eid=0xABCDEF01, plid=0xABCDEF01,
                                 obmc=77))
    blobs[-1] = ('lowerid_ABCDEF01', blobs[-1][1])
    return blobs


# ---------------------------------------------------------------------------
# Scratch directories
# ---------------------------------------------------------------------------

def populate(path, blobs, extras=False, fifo=False, broken=False):
    os.makedirs(path)
    for name, data in blobs:
        with open(os.path.join(path, name), 'wb') as f:
            f.write(data)
    if extras:
        second = blobs[min(1, len(blobs) - 1)]
        sub = os.path.join(path, 'sub_5000000A')
        os.makedirs(sub)
        with open(os.path.join(sub, 'inner_50000001.pel'), 'wb') as f:
            f.write(blobs[0][1])
        with open(os.path.join(sub, 'inner_5000BBBB'), 'wb') as f:
            f.write(second[1])
        # The link target lives outside so that it survives --clean.
        target = os.path.basename(path) + '-linktarget.pel'
        with open(os.path.join(os.path.dirname(path), target), 'wb') as f:
            f.write(second[1])
        os.symlink(os.path.join('..', target),
                   os.path.join(path, 'link_5000CCCC'))
        os.symlink('sub_5000000A', os.path.join(path, 'dirlink_5000EEEE'))
    if broken:
        # Opening it fails, which aborts most of the reading commands.
        os.symlink('does-not-exist', os.path.join(path, 'broken_5000DDDD'))
    if fifo:
        # Only for the deleting commands: opening a FIFO would block.
        os.mkfifo(os.path.join(path, 'fifo_5000FFFF'))


def snapshot(path):
    out = []
    for root, dirs, files in os.walk(path):
        dirs.sort()
        rel = os.path.relpath(root, path)
        for d in dirs:
            p = os.path.join(root, d)
            if os.path.islink(p):
                out.append((os.path.join(rel, d), 'link', os.readlink(p)))
            else:
                out.append((os.path.join(rel, d), 'dir', ''))
        for f in sorted(files):
            p = os.path.join(root, f)
            if os.path.islink(p):
                out.append((os.path.join(rel, f), 'link', os.readlink(p)))
            elif os.path.isfile(p):
                with open(p, 'rb') as fd:
                    out.append((os.path.join(rel, f), 'file',
                                hashlib.sha256(fd.read()).hexdigest()))
            else:
                out.append((os.path.join(rel, f), 'other', ''))
    out.sort()
    return out


def norm_stderr(text, root):
    text = text.replace(os.path.realpath(root), '<ROOT>').replace(root, '<ROOT>')
    out = []
    in_tb = False
    for line in text.split('\n'):
        if line.startswith('Traceback (most recent call last):'):
            in_tb = True
            out.append(line)
            continue
        if in_tb and line.startswith(' '):
            continue
        in_tb = False
        out.append(line)
    return '\n'.join(out)


# ---------------------------------------------------------------------------
# The in-process driver (runs inside a subprocess, once per tree)
# ---------------------------------------------------------------------------

DRIVER = r'''
import sys, os, io, json, contextlib, shutil, random, hashlib
modules_root, work, corpus_file = sys.argv[1:4]
import pel.peltool.peltool as pt
from pel.peltool.config import Config
assert os.path.realpath(pt.__file__).startswith(os.path.realpath(modules_root) + os.sep), pt.__file__
corpus = [(n, bytes.fromhex(h)) for n, h in json.load(open(corpus_file))]
results = []
real_remove, real_unlink = os.remove, os.unlink


def snap(path):
    out = []
    for root, dirs, files in os.walk(path):
        dirs.sort()
        rel = os.path.relpath(root, path)
        for d in dirs:
            out.append([os.path.join(rel, d), 'dir'])
        for f in sorted(files):
            p = os.path.join(root, f)
            if os.path.islink(p):
                out.append([os.path.join(rel, f), 'link:' + os.readlink(p)])
            elif os.path.isfile(p):
                out.append([os.path.join(rel, f), hashlib.sha256(open(p, 'rb').read()).hexdigest()])
            else:
                out.append([os.path.join(rel, f), 'other'])
    out.sort()
    return out


class FlushFails(io.StringIO):
    def flush(self):
        raise OSError(28, 'No space left on device')


class WriteFails(io.StringIO):
    def __init__(self, limit):
        super().__init__()
        self.limit = limit
    def write(self, s):
        if self.tell() + len(s) > self.limit:
            raise OSError(32, 'Broken pipe')
        return super().write(s)


SOURCE_ROOT = os.path.dirname(os.path.normpath(modules_root))


def unroot(text):
    # e.g. python warnings carry the name of the source file
    return text.replace(os.path.realpath(SOURCE_ROOT), '<ROOT>').replace(SOURCE_ROOT, '<ROOT>')


def run(label, fn, *a, stdout=None, snapdir=None, **kw):
    out = stdout if stdout is not None else io.StringIO()
    err = io.StringIO()
    res = None
    exc = None
    with contextlib.redirect_stdout(out), contextlib.redirect_stderr(err):
        try:
            res = repr(fn(*a, **kw))
        except BaseException as e:
            chain = []
            while e is not None and len(chain) < 5:
                chain.append([type(e).__name__, str(e)])
                e = e.__context__
            exc = chain
    results.append([label, res, exc, unroot(out.getvalue()), unroot(err.getvalue()),
                    snap(snapdir) if snapdir else None])


def cfg(**kw):
    c = Config()
    for k, v in kw.items():
        setattr(c, k, v)
    return c


def tree(name, extras=True, subset=None, fifo=False, broken=False):
    base = os.path.join(work, name)
    shutil.rmtree(base, ignore_errors=True)
    os.makedirs(base)
    for n, data in corpus:
        if subset is not None and not any(s in n for s in subset):
            continue
        with open(os.path.join(base, n), 'wb') as f:
            f.write(data)
    if extras:
        sub = os.path.join(base, 'sub_5000000A')
        os.makedirs(sub)
        with open(os.path.join(sub, 'inner_50000001.pel'), 'wb') as f:
            f.write(corpus[0][1])
        with open(os.path.join(work, name + '-linktarget.pel'), 'wb') as f:
            f.write(corpus[1][1])
        os.symlink(os.path.join('..', name + '-linktarget.pel'), os.path.join(base, 'link_5000CCCC'))
        os.symlink('sub_5000000A', os.path.join(base, 'dirlink_5000EEEE'))
    if broken:
        os.symlink('does-not-exist', os.path.join(base, 'broken_5000DDDD'))
    if fifo:
        os.mkfifo(os.path.join(base, 'fifo_5000FFFF'))
    return base


# --- prettyPrint -----------------------------------------------------------
rnd = random.Random(99)
ALPHA = ['a', 'B', '"', ':', '\\', '{', '}', ' ', ',', '\n', '\t', 'é', '[', ']', '0', '": ', '\\"']


def rstr(maxlen=30):
    return ''.join(rnd.choice(ALPHA) for _ in range(rnd.randrange(maxlen)))


def rdoc(depth=0):
    k = rnd.randrange(7 if depth < 3 else 4)
    if k == 0:
        return rnd.randrange(-1000, 1000)
    if k == 1:
        return rstr()
    if k == 2:
        return rnd.choice([None, True, False, 1.5])
    if k == 3:
        return []
    if k == 4:
        return [rdoc(depth + 1) for _ in range(rnd.randrange(4))]
    return {rstr(45): rdoc(depth + 1) for _ in range(rnd.randrange(5))}


for i in range(250):
    doc = {rstr(45): rdoc() for _ in range(rnd.randrange(6))}
    text = json.dumps(doc, indent=rnd.choice([4, 4, 4, 2, 0, None]),
                      ensure_ascii=rnd.choice([True, True, False]))
    space = rnd.choice([34, 29, 0, -5, 2, 100])
    if i % 3 == 0:
        run('pp-json-%d' % i, pt.prettyPrint, text)
    elif i % 3 == 1:
        run('pp-json-%d' % i, pt.prettyPrint, text, space)
    else:
        run('pp-json-%d' % i, pt.prettyPrint, text, desiredSpace=space)
for i in range(250):
    text = ''.join(rnd.choice(ALPHA + ['    "key": 1,\n', '"k":\n', ' "x": {\n'])
                   for _ in range(rnd.randrange(60)))
    run('pp-raw-%d' % i, pt.prettyPrint, text, rnd.choice([34, 29, 0, -5, 2, 100]))
for text in ['', '\n', '"a":', ' "a":', '"a": {', '"a":1', 'x "a": 1', '"a" : 1',
             '    "Section Version": 1,\n    "Sub-section type": 0,', '"":"":""',
             '"\\":', '"\\"": 5', '"\\\\": 5', '"a\r": 1\r\n"b": 2']:
    run('pp-fixed', pt.prettyPrint, text)
    run('pp-fixed29', pt.prettyPrint, text, desiredSpace=29)
run('pp-bad-type', pt.prettyPrint, None)
run('pp-bad-type2', pt.prettyPrint, b'"a": 1')
run('pp-bad-space', pt.prettyPrint, '"a": 1', 'x')

# --- printPELInHexFormat ---------------------------------------------------
for n in (0, 1, 15, 16, 17, 100, 1000):
    data = bytes((i * 7) & 0xFF for i in range(n))
    run('hex-bytes-%d' % n, pt.printPELInHexFormat, data)
    run('hex-ba-%d' % n, pt.printPELInHexFormat, bytearray(data))
    run('hex-mv-%d' % n, pt.printPELInHexFormat, memoryview(data))
for bad in ('text', None, 5, [1, 2, 3], 1.5):
    run('hex-bad-%r' % (bad,), pt.printPELInHexFormat, bad)
run('hex-writefail-0', pt.printPELInHexFormat, b'x' * 100, stdout=WriteFails(0))
run('hex-writefail-60', pt.printPELInHexFormat, b'x' * 100, stdout=WriteFails(60))
run('hex-writefail-200', pt.printPELInHexFormat, b'x' * 100, stdout=WriteFails(200))
run('hex-writefail-end', pt.printPELInHexFormat, b'x' * 16, stdout=WriteFails(120))
run('hex-flushfail', pt.printPELInHexFormat, b'x' * 100, stdout=FlushFails())
pt.file = 'injected-global'
run('hex-bad-with-global', pt.printPELInHexFormat, None)
run('hex-writefail-with-global', pt.printPELInHexFormat, b'x' * 100, stdout=WriteFails(60))
del pt.file

# --- deleteAllPELs ---------------------------------------------------------
d = tree('da1', fifo=True, broken=True)
run('deleteAll-tree', pt.deleteAllPELs, d, snapdir=d)
run('deleteAll-again', pt.deleteAllPELs, d, snapdir=d)
d = tree('da2', extras=False, subset=['min', 'src'])
run('deleteAll-plain', pt.deleteAllPELs, d, snapdir=d)
run('deleteAll-missing', pt.deleteAllPELs, os.path.join(work, 'nope'), snapdir=work)
d = tree('da3', extras=False, subset=['min'])
run('deleteAll-on-file', pt.deleteAllPELs, os.path.join(d, corpus[0][0]), snapdir=d)
run('deleteAll-empty-str', pt.deleteAllPELs, '', snapdir=d)
os.makedirs(os.path.join(work, 'da4'))
run('deleteAll-emptydir', pt.deleteAllPELs, os.path.join(work, 'da4'), snapdir=os.path.join(work, 'da4'))
d = tree('da5', fifo=True, broken=True)
run('deleteAll-via-dirlink', pt.deleteAllPELs, os.path.join(d, 'dirlink_5000EEEE'), snapdir=d)
run('deleteAll-trailing-slash', pt.deleteAllPELs, d + '/', snapdir=d)
run('deleteAll-bad-arg', pt.deleteAllPELs, None)
run('deleteAll-bad-arg2', pt.deleteAllPELs, 5)

calls = []


def failing_remove(limit):
    def rm(p, *a, **kw):
        calls.append(os.path.basename(p))
        if len(calls) > limit:
            raise PermissionError(13, 'Permission denied', p)
        return real_remove(p, *a, **kw)
    return rm


for limit in (0, 2):
    d = tree('da6-%d' % limit, subset=['min', 'src', 'full', 'hidden'], fifo=True, broken=True)
    calls.clear()
    os.remove = os.unlink = failing_remove(limit)
    try:
        run('deleteAll-removefail-%d' % limit, pt.deleteAllPELs, d, snapdir=d)
    finally:
        os.remove, os.unlink = real_remove, real_unlink
    results.append(['deleteAll-removefail-calls-%d' % limit, sorted(calls)])

# --- deletePELFromPELId ----------------------------------------------------
for pid in ['50000001', '0x50000001', '0X50000003', '50000003', 'abcdef01', '0xabcdef01',
            'ABCDEF01', '5000FFFF', '5000DDDD', '5000CCCC', '5000EEEE', '5000000A',
            '5000BBBB', 'FFFFFFFF', '5000', '', '0x', '500000011', '0x5000000', 'nonehex!',
            '_5000000', '50000001 ', 'PEL_5000']:
    d = tree('dp', fifo=True, broken=True)
    run('deleteId-%s' % pid, pt.deletePELFromPELId, d, pid, snapdir=d)
d = tree('dp', fifo=True, broken=True)
run('deleteId-twice-1', pt.deletePELFromPELId, d, '50000002', snapdir=d)
run('deleteId-twice-2', pt.deletePELFromPELId, d, '50000002', snapdir=d)
run('deleteId-missing-dir', pt.deletePELFromPELId, os.path.join(work, 'nope'), '50000001')
run('deleteId-missing-dir-badid', pt.deletePELFromPELId, os.path.join(work, 'nope'), '5')
run('deleteId-on-file', pt.deletePELFromPELId, os.path.join(d, corpus[0][0]), '50000001', snapdir=d)
run('deleteId-none', pt.deletePELFromPELId, d, None)
run('deleteId-int', pt.deletePELFromPELId, d, 50000001)
d = tree('dp', fifo=True, broken=True)
calls.clear()
os.remove = os.unlink = failing_remove(0)
try:
    run('deleteId-removefail', pt.deletePELFromPELId, d, '50000001', snapdir=d)
finally:
    os.remove, os.unlink = real_remove, real_unlink
results.append(['deleteId-removefail-calls', sorted(calls)])

# --- parseAndWriteOutput ---------------------------------------------------
CFGS = [dict(), dict(every_pel=True), dict(every_pel=True, allow_plugins=False),
        dict(hidden=True, only=True), dict(severities=[0], only=True), dict(hex=True, every_pel=True)]
src = tree('pw-src', extras=False)
for ci, ck in enumerate(CFGS):
    for delete in (False, True):
        d = tree('pw-in', extras=False)
        o = os.path.join(work, 'pw-out')
        shutil.rmtree(o, ignore_errors=True)
        os.makedirs(o)
        for n, _ in corpus:
            run('write-%d-%s-%s' % (ci, delete, n), pt.parseAndWriteOutput,
                os.path.join(d, n), o, cfg(**ck), delete)
        results.append(['write-snap-%d-%s' % (ci, delete), snap(d), snap(o)])
# output directory == input directory, missing output dir, output name is a directory
d = tree('pw-same', extras=False)
for n, _ in corpus:
    run('write-same-%s' % n, pt.parseAndWriteOutput, os.path.join(d, n), d, cfg(every_pel=True), True)
results.append(['write-same-snap', snap(d)])
d = tree('pw-noout', extras=False, subset=['min', 'full', 'badph'])
for n in sorted(os.listdir(d)):
    run('write-noout-%s' % n, pt.parseAndWriteOutput, os.path.join(d, n),
        os.path.join(work, 'missing-out'), cfg(every_pel=True), True, snapdir=d)
d = tree('pw-coll', extras=False, subset=['min', 'full'])
o = os.path.join(work, 'pw-coll-out')
shutil.rmtree(o, ignore_errors=True)
os.makedirs(o)
for n in sorted(os.listdir(d)):
    os.makedirs(os.path.join(o, n + '.' + n.split('_')[1].split('.')[0] + '.json'))
    run('write-collision-%s' % n, pt.parseAndWriteOutput, os.path.join(d, n), o, cfg(), True)
results.append(['write-collision-snap', snap(d), snap(o)])
run('write-missing-input', pt.parseAndWriteOutput, os.path.join(work, 'nope.pel'), o, cfg(), True, snapdir=o)
run('write-input-is-dir', pt.parseAndWriteOutput, o, o, cfg(), True, snapdir=o)
run('write-bad-config', pt.parseAndWriteOutput, os.path.join(d, sorted(os.listdir(d))[0]), o, None, True, snapdir=o)
run('write-relative', pt.parseAndWriteOutput, os.path.relpath(os.path.join(d, sorted(os.listdir(d))[0])), '', cfg(), False)
results.append(['write-relative-cwd', sorted(f for f in os.listdir('.') if f.endswith('.json'))])
for f in os.listdir('.'):
    if f.endswith('.json'):
        real_remove(f)
# the source file can not be removed
d = tree('pw-rmfail', extras=False, subset=['min', 'full'])
o = os.path.join(work, 'pw-rmfail-out')
shutil.rmtree(o, ignore_errors=True)
os.makedirs(o)
calls.clear()
os.remove = os.unlink = failing_remove(0)
try:
    for n in sorted(os.listdir(d)):
        run('write-removefail-%s' % n, pt.parseAndWriteOutput, os.path.join(d, n), o, cfg(), True)
        run('write-removefail-nodelete-%s' % n, pt.parseAndWriteOutput, os.path.join(d, n), o, cfg(), False)
finally:
    os.remove, os.unlink = real_remove, real_unlink
results.append(['write-removefail-snap', sorted(calls), snap(d), snap(o)])
# same file twice in one process
d = tree('pw-twice', extras=False, subset=['full'])
n = os.listdir(d)[0]
run('write-twice-1', pt.parseAndWriteOutput, os.path.join(d, n), d, cfg(), False, snapdir=d)
run('write-twice-2', pt.parseAndWriteOutput, os.path.join(d, n), d, cfg(), True, snapdir=d)
run('write-twice-3', pt.parseAndWriteOutput, os.path.join(d, n), d, cfg(), True, snapdir=d)

# --- parseAndPrintPELFile --------------------------------------------------
d = tree('pp', extras=False)
for ci, ck in enumerate([dict(), dict(every_pel=True), dict(every_pel=True, hex=True),
                         dict(hex=True), dict(every_pel=True, allow_plugins=False)]):
    for n, _ in corpus:
        for eoe in (False, True):
            run('print-%d-%s-%s' % (ci, eoe, n), pt.parseAndPrintPELFile, os.path.join(d, n), cfg(**ck), eoe)
results.append(['print-snap', snap(d)])
for n in [c[0] for c in corpus if c[0].split('_')[0] in ('min', 'full', 'big', 'badph', 'cut100')]:
    p = os.path.join(d, n)
    for hx in (False, True):
        run('print-flushfail-%s-%s' % (hx, n), pt.parseAndPrintPELFile, p, cfg(every_pel=True, hex=hx), False, stdout=FlushFails())
        for limit in (0, 50, 500, 5000):
            run('print-writefail-%d-%s-%s' % (limit, hx, n), pt.parseAndPrintPELFile, p,
                cfg(every_pel=True, hex=hx), False, stdout=WriteFails(limit))
run('print-missing', pt.parseAndPrintPELFile, os.path.join(work, 'nope'), cfg(), True)
run('print-dir', pt.parseAndPrintPELFile, d, cfg(), True)
run('print-none-path', pt.parseAndPrintPELFile, None, cfg(), True)
run('print-none-config', pt.parseAndPrintPELFile, os.path.join(d, corpus[0][0]), None, False)
run('print-kw', pt.parseAndPrintPELFile, file_path=os.path.join(d, corpus[0][0]), config=cfg(), exit_on_error=False)
run('write-kw', pt.parseAndWriteOutput, file=os.path.join(d, corpus[0][0]), output_dir=d, config=cfg(), delete_after_parsing=False, snapdir=d)
run('deleteId-kw', pt.deletePELFromPELId, path=d, pelID='50000001', snapdir=d)
run('deleteAll-kw', pt.deleteAllPELs, path=d, snapdir=d)
run('hex-kw', pt.printPELInHexFormat, data=b'abc')
run('pp-kw', pt.prettyPrint, Mdata='"a": 1', desiredSpace=10)

# --- the directory oriented commands (share the directory walking code) ------
d = tree('dir')
for ck in [dict(), dict(every_pel=True), dict(every_pel=True, hex=True), dict(every_pel=True, rev=True),
           dict(every_pel=True, extension='.pel'), dict(extension='.txt', every_pel=True),
           dict(extension='.none')]:
    lab = json.dumps(ck, sort_keys=True)
    run('getFileList-' + lab, pt.getFileList, d, ck.get('extension'), ck.get('rev', False))
    run('listOption-' + lab, pt.listOption, d, cfg(**ck))
    run('extractAll-' + lab, pt.extractAllPELsData, d, cfg(**ck))
    run('count-' + lab, pt.printPELCount, d, cfg(**ck))
    run('plid-' + lab, pt.parsePelFromPLID, d, cfg(plid='5000AAAA', **ck))
    run('src-' + lab, pt.parsePelFromSRCID, d, cfg(src='BD8D', **ck))
    for pid in ('50000003', '0x50000001', 'abcdef01', 'FFFFFFFF', '5000FFFF', '5000EEEE', '12'):
        run('id-%s-%s' % (pid, lab), pt.parsePelFromID, d, cfg(pelID=pid, **ck))
    for bid in ('1', '3', '77', '999', 'x'):
        run('bmcid-%s-%s' % (bid, lab), pt.parsePelFromBmcID, d, cfg(bmcID=bid, **ck))
for p in (os.path.join(work, 'nope'), os.path.join(d, corpus[0][0]), '', os.path.join(work, 'da4')):
    run('getFileList-odd', pt.getFileList, p, None)
    run('getFileList-odd-ext', pt.getFileList, p, '.pel', True)
    run('listOption-odd', pt.listOption, p, cfg())
    run('id-odd', pt.parsePelFromID, p, cfg(pelID='50000001'))
    run('bmcid-odd', pt.parsePelFromBmcID, p, cfg(bmcID='1'))
run('getFileList-kw', pt.getFileList, path=d, extension='.pel', rev=True)
b = tree('dir-broken', subset=['min', 'src', 'full', 'lowerid'], broken=True)
run('broken-getFileList', pt.getFileList, b, None)
run('broken-listOption', pt.listOption, b, cfg(every_pel=True))
run('broken-extractAll', pt.extractAllPELsData, b, cfg(every_pel=True))
run('broken-count', pt.printPELCount, b, cfg(every_pel=True))
run('broken-id', pt.parsePelFromID, b, cfg(pelID='5000DDDD'))
run('broken-bmcid', pt.parsePelFromBmcID, b, cfg(bmcID='77'))
run('broken-bmcid2', pt.parsePelFromBmcID, b, cfg(bmcID='12345'))
run('broken-write', pt.parseAndWriteOutput, os.path.join(b, 'broken_5000DDDD'), b, cfg(), True, snapdir=b)
run('broken-print', pt.parseAndPrintPELFile, os.path.join(b, 'broken_5000DDDD'), cfg(), True)
results.append(['dir-snap', snap(d)])

# --- main() as if running on the BMC ---------------------------------------
real_isdir = os.path.isdir
BMC = "/var/lib/phosphor-logging/extensions/pels/logs/"
os.path.isdir = lambda p: True if p == BMC else real_isdir(p)
saved_argv = sys.argv
try:
    for argv in (['-l'], ['-A', '-l'], ['-n', '-A'], ['-a'], ['-j'], ['-j', '-c', '-A'], ['-j', '-o', work],
                 ['-j', '-o', os.path.join(work, 'nope')], ['-D'], ['-D', '-A'], ['-d', '50000001'],
                 ['-d', '5'], ['-p', work, '-l'], ['-f', os.path.join(d, corpus[2][0])],
                 ['-f', os.path.join(d, corpus[2][0]), '-x'], ['-i', '50000001'], ['--help'], []):
        sys.argv = ['peltool.py'] + argv
        run('bmc-main-%s' % ' '.join(argv), pt.main)
finally:
    sys.argv = saved_argv
    os.path.isdir = real_isdir

# --- repeated decodes in one process ---------------------------------------
d = tree('rep', extras=False)
for rounds in range(2):
    for n, _ in corpus:
        run('repeat-%d-%s' % (rounds, n), pt.parseAndPrintPELFile, os.path.join(d, n), cfg(every_pel=True), False)

sys.__stdout__.write(json.dumps(results))
'''


# ---------------------------------------------------------------------------
# Running the cases
# ---------------------------------------------------------------------------

def base_env(root, extra_path=None):
    env = {
        'PATH': os.environ.get('PATH', '/usr/bin:/bin'),
        'PYTHONPATH': os.path.join(root, 'modules') if extra_path is None
        else extra_path,
        'PYTHONDONTWRITEBYTECODE': '1',
        'PYTHONHASHSEED': '0',
        'LANG': 'C.UTF-8',
        'LC_ALL': 'C.UTF-8',
        'HOME': '/nonexistent',
    }
    return env


class Case:
    def __init__(self, name, args, setup=None, stdout='pipe', pyflags=(),
                 kind='cli', env=None):
        self.name = name
        self.args = args
        self.setup = setup
        self.stdout = stdout
        self.pyflags = list(pyflags)
        self.kind = kind
        self.env = env or {}


def run_case(case, root, work, aux):
    shutil.rmtree(work, ignore_errors=True)
    os.makedirs(work)
    if case.setup:
        case.setup(work)
    env = base_env(root)
    env.update(case.env)
    if case.kind == 'cli':
        script = os.path.join(root, 'modules', 'pel', 'peltool', 'peltool.py')
        argv = [PY] + case.pyflags + [script] + \
            [a.replace('{W}', work) for a in case.args]
        cwd = work
    elif case.kind == 'driver':
        argv = [PY] + case.pyflags + [aux['driver'],
                                      os.path.join(root, 'modules'), work,
                                      aux['corpus_file']]
        cwd = work
    elif case.kind == 'wrapper':
        env = base_env(root, aux['stub_dir'])
        env.update(case.env)
        argv = [PY] + case.pyflags + ['setup.py'] + list(case.args)
        cwd = os.path.join(root, 'peltool-wrapper')
    else:
        raise ValueError(case.kind)

    if case.stdout == 'pipe':
        p = subprocess.run(argv, cwd=cwd, env=env, stdin=subprocess.DEVNULL,
                           stdout=subprocess.PIPE, stderr=subprocess.PIPE,
                           timeout=300)
        out = p.stdout
    elif case.stdout == 'devfull':
        with open('/dev/full', 'wb') as full:
            p = subprocess.run(argv, cwd=cwd, env=env,
                               stdin=subprocess.DEVNULL, stdout=full,
                               stderr=subprocess.PIPE, timeout=300)
        out = b''
    elif case.stdout == 'closed':
        p = subprocess.run(['/bin/sh', '-c', 'exec "$@" >&-', 'sh'] + argv,
                           cwd=cwd, env=env, stdin=subprocess.DEVNULL,
                           stderr=subprocess.PIPE, timeout=300)
        out = b''
    else:
        raise ValueError(case.stdout)
    err = norm_stderr(p.stderr.decode('utf-8', 'replace'), root)
    result = {'rc': p.returncode, 'stderr': err, 'snapshot': snapshot(work)}
    if case.kind == 'driver' and p.returncode == 0:
        # Split the driver's report into individual scenarios so that a
        # difference can be pin-pointed.
        result['scenarios'] = json.loads(out.decode())
    else:
        result['stdout'] = out.decode('utf-8', 'replace')
    return result


def make_cases(blobs):
    cases = []
    byname = dict(blobs)

    def one_file(name):
        def setup(work):
            populate(os.path.join(work, 'in'), [(name, byname[name])])
        return setup

    def whole_dir(extras=True, out=None, collide=False, subset=None,
                  fifo=False, broken=False):
        def setup(work):
            sel = blobs if subset is None else \
                [b for b in blobs if any(s in b[0] for s in subset)]
            populate(os.path.join(work, 'in'), sel, extras=extras, fifo=fifo,
                     broken=broken)
            if out:
                os.makedirs(os.path.join(work, out))
            if collide:
                for n, _ in sel[:6]:
                    eid = n.split('_')[1].split('.')[0]
                    os.makedirs(os.path.join(work, out or 'in',
                                             '%s.%s.json' % (n, eid)))
        return setup

    # -f <file> with and without --clean / --hex / filters
    for name, _ in blobs:
        f = '{W}/in/' + name
        for opts in ([], ['-c'], ['-x', '-c'], ['-E', '-c', '-P'],
                     ['-c', '-H', '-O']):
            cases.append(Case('file %s %s' % (name, ' '.join(opts)),
                              ['-f', f] + opts, one_file(name)))
    for name in [b[0] for b in blobs
                 if b[0].split('_')[0] in ('min', 'full', 'big', 'badph',
                                           'cut100', 'hidden', 'nonascii')]:
        f = '{W}/in/' + name
        for opts in (['-c', '-E'], ['-c', '-E', '-x']):
            for mode in ('devfull', 'closed'):
                cases.append(Case('file %s %s >%s' % (name, ' '.join(opts),
                                                      mode),
                                  ['-f', f] + opts, one_file(name),
                                  stdout=mode))
        cases.append(Case('file -O %s' % name, ['-f', f, '-c', '-E'],
                          one_file(name), pyflags=['-O']))
        cases.append(Case('file -OO %s' % name, ['-f', f, '-c', '-x'],
                          one_file(name), pyflags=['-OO']))
    first = blobs[0][0]
    cases.append(Case('file missing', ['-f', '{W}/in/nope', '-c'],
                      one_file(first)))
    cases.append(Case('file is dir', ['-f', '{W}/in', '-c'], one_file(first)))
    cases.append(Case('file relative', ['-f', 'in/' + first, '-c'],
                      one_file(first)))
    cases.append(Case('file + path', ['-p', '{W}/in', '-f', '{W}/in/' + first,
                                      '-c', '-l'], one_file(first)))
    cases.append(Case('file symlink', ['-f', '{W}/in/link_5000CCCC', '-c'],
                      whole_dir(subset=['min', 'src'])))
    cases.append(Case('file broken link',
                      ['-f', '{W}/in/broken_5000DDDD', '-c'],
                      whole_dir(subset=['min', 'src'], broken=True)))

    # --json
    P = ['-p', '{W}/in']
    for opts in ([], ['-c'], ['-c', '-E'], ['-E'], ['-c', '-E', '-P'],
                 ['-c', '-e', '.pel'], ['-e', '.txt', '-E'],
                 ['-c', '-E', '-e', 'pel'], ['-c', '-x', '-E'],
                 ['-c', '-H', '-O'], ['-c', '-S', 'Informational', '-O'],
                 ['-c', '-N'], ['-c', '-t', '-r'], ['-c', '-E', '-l'],
                 ['-c', '-E', '-d', '50000001']):
        cases.append(Case('json %s' % ' '.join(opts), P + ['-j'] + opts,
                          whole_dir()))
        cases.append(Case('json -o out %s' % ' '.join(opts),
                          P + ['-j', '-o', '{W}/out'] + opts,
                          whole_dir(out='out')))
    for opts in (['-j', '-c', '-E'], ['-j', '-c', '-E', '-o', '{W}/out'],
                 ['-l', '-E'], ['-a', '-E'], ['-n', '-E'],
                 ['-i', '5000DDDD'], ['--bmc-id', '77'], ['--src', 'BD8D'],
                 ['--plid', '5000AAAA']):
        cases.append(Case('broken link in dir %s' % ' '.join(opts), P + opts,
                          whole_dir(out='out', broken=True,
                                    subset=['min', 'src', 'full', 'lowerid'])))
    cases.append(Case('json plain dir -c -E', P + ['-j', '-c', '-E'],
                      whole_dir(extras=False)))
    cases.append(Case('json -o missing', P + ['-j', '-c', '-o', '{W}/nope'],
                      whole_dir()))
    cases.append(Case('json -o is file',
                      P + ['-j', '-c', '-o', '{W}/in/' + first], whole_dir()))
    cases.append(Case('json -o without -j', P + ['-o', '{W}/nope', '-l'],
                      whole_dir()))
    cases.append(Case('json -o empty', P + ['-j', '-c', '-o', ''],
                      whole_dir()))
    cases.append(Case('json collide in', P + ['-j', '-c', '-E'],
                      whole_dir(collide=True)))
    cases.append(Case('json collide out',
                      P + ['-j', '-c', '-E', '-o', '{W}/out'],
                      whole_dir(out='out', collide=True)))
    cases.append(Case('json -o == in', P + ['-j', '-c', '-E', '-o', '{W}/in'],
                      whole_dir()))
    cases.append(Case('json -o relative', ['-p', 'in', '-j', '-c', '-E', '-o',
                                           'out'], whole_dir(out='out')))
    cases.append(Case('json trailing slash', ['-p', '{W}/in/', '-j', '-c'],
                      whole_dir()))
    cases.append(Case('json dirlink', ['-p', '{W}/in/dirlink_5000EEEE', '-j',
                                       '-c', '-E'], whole_dir()))
    cases.append(Case('json -O', P + ['-j', '-c', '-E'], whole_dir(),
                      pyflags=['-O']))
    cases.append(Case('json >closed', P + ['-j', '-c', '-E'], whole_dir(),
                      stdout='closed'))
    cases.append(Case('json empty dir', ['-p', '{W}/out', '-j', '-c'],
                      whole_dir(out='out')))
    cases.append(Case('json twice (second run sees .json files)',
                      P + ['-j', '-E'],
                      lambda work: (whole_dir()(work), [
                          open(os.path.join(work, 'in', n + '.x.json'),
                               'wb').write(d) for n, d in blobs[:5]])))

    # --delete / --delete-all
    for pid in ('50000001', '0x50000001', '0X50000003', 'abcdef01',
                '0xabcdef01', 'ABCDEF01', '5000FFFF', '5000DDDD', '5000CCCC',
                '5000EEEE', '5000000A', '5000BBBB', 'FFFFFFFF', '5000', '0x',
                '500000011', 'zzzzzzzz', '_5000000'):
        cases.append(Case('delete %s' % pid, P + ['-d', pid], whole_dir(fifo=True, broken=True)))
    cases.append(Case('delete empty id', P + ['-d', ''], whole_dir(fifo=True, broken=True)))
    cases.append(Case('delete no arg', P + ['-d'], whole_dir(fifo=True, broken=True)))
    cases.append(Case('delete + -D', P + ['-d', '50000001', '-D'],
                      whole_dir(fifo=True, broken=True)))
    cases.append(Case('delete in empty dir', ['-p', '{W}/out', '-d',
                                              '50000001'],
                      whole_dir(out='out')))
    cases.append(Case('delete -O', P + ['-d', '50000002'], whole_dir(fifo=True, broken=True),
                      pyflags=['-O']))
    cases.append(Case('delete >closed', P + ['-d', 'FFFFFFFF'], whole_dir(fifo=True, broken=True),
                      stdout='closed'))
    cases.append(Case('delete >devfull', P + ['-d', 'FFFFFFFF'], whole_dir(fifo=True, broken=True),
                      stdout='devfull'))
    cases.append(Case('delete all', P + ['-D'], whole_dir(fifo=True, broken=True)))
    cases.append(Case('delete all plain', P + ['-D'],
                      whole_dir(extras=False)))
    cases.append(Case('delete all -e', P + ['-D', '-e', '.pel'], whole_dir(fifo=True, broken=True)))
    cases.append(Case('delete all empty', ['-p', '{W}/out', '-D'],
                      whole_dir(out='out')))
    cases.append(Case('delete all dirlink', ['-p', '{W}/in/dirlink_5000EEEE',
                                             '-D'], whole_dir(fifo=True, broken=True)))
    cases.append(Case('delete all -O', P + ['-D'], whole_dir(fifo=True, broken=True),
                      pyflags=['-O']))
    cases.append(Case('delete all with -l', P + ['-D', '-l', '-E'],
                      whole_dir()))

    # other directory commands (they share the directory walking code)
    for opts in (['-l'], ['-l', '-E'], ['-l', '-E', '-r'], ['-l', '-x', '-E'],
                 ['-l', '-E', '-e', '.pel'], ['-l', '-H', '-O'],
                 ['-a'], ['-a', '-E'], ['-a', '-E', '-x'], ['-a', '-E', '-r',
                                                           '-e', '.pel'],
                 ['-n'], ['-n', '-E'], ['-n', '-E', '-e', '.txt'],
                 ['-i', '50000003'], ['-i', '0x50000003', '-x'],
                 ['-i', 'abcdef01'], ['-i', 'FFFFFFFF'], ['-i', '5000FFFF'],
                 ['-i', '5000CCCC'], ['-i', '123'], ['-i', '50000004'],
                 ['--bmc-id', '3'], ['--bmc-id', '3', '-x'],
                 ['--bmc-id', '77'], ['--bmc-id', '9999'],
                 ['--plid', '5000AAAA'], ['--plid', '0x5000AAAA', '-x'],
                 ['--plid', '5000AAAA', '-E', '-r'], ['--plid', '12'],
                 ['--src', 'BD8D'], ['--src', 'BD8D', '-E', '-x'],
                 ['--src', 'X' * 33], ['--src-exclude', '{W}/excl'],
                 ['--src-exclude', '{W}/excl', '-E', '-e', '.pel'],
                 ['--src-exclude', '{W}/nope'], []):
        def setup(work, _wd=whole_dir()):
            _wd(work)
            with open(os.path.join(work, 'excl'), 'w') as f:
                f.write('BD8D1001\nBD8D3003\n')
        cases.append(Case('dir %s' % ' '.join(opts), P + opts, setup))
    cases.append(Case('dir -l plain', P + ['-l', '-E'],
                      whole_dir(extras=False)))
    cases.append(Case('dir -a >devfull', P + ['-a', '-E'],
                      whole_dir(extras=False), stdout='devfull'))
    cases.append(Case('no path', ['-l'], whole_dir(subset=['min'])))
    cases.append(Case('bad path', ['-p', '{W}/nope', '-j', '-c'],
                      whole_dir(subset=['min'])))
    cases.append(Case('path is file', ['-p', '{W}/in/' + first, '-D'],
                      whole_dir(subset=['min'])))
    cases.append(Case('help', ['--help'], None))
    cases.append(Case('bad option', ['--nope'], None))
    cases.append(Case('bad severity', ['-p', '{W}', '-l', '-S', 'Bogus'],
                      None))

    # function level driver
    cases.append(Case('driver', [], None, kind='driver'))
    cases.append(Case('driver -O', [], None, kind='driver', pyflags=['-O']))

    # peltool-wrapper
    for i, env in enumerate(({}, {'PELTOOL_VERSION': '2.5'},
                             {'PELTOOL_VERSION': ''},
                             {'PELTOOL_VERSION': '1.0rc1 '})):
        cases.append(Case('wrapper setup %d' % i, ['--version'], None,
                          kind='wrapper', env=env))
        cases.append(Case('wrapper setup -O %d' % i, [], None,
                          kind='wrapper', env=env, pyflags=['-O']))
    return cases


def compare(case, a, b, report):
    """Returns the number of compared sub-cases; appends differences."""
    n = 0
    for key in ('rc', 'stdout', 'stderr', 'snapshot'):
        if key in a or key in b:
            if a.get(key) != b.get(key):
                report.append('%s: %s differs\n--- pristine\n%s\n--- patched\n%s'
                              % (case.name, key, str(a.get(key))[:3000],
                                 str(b.get(key))[:3000]))
    if 'scenarios' in a or 'scenarios' in b:
        sa, sb = a.get('scenarios'), b.get('scenarios')
        if sa is None or sb is None or len(sa) != len(sb):
            report.append('%s: scenario lists differ in length' % case.name)
            return 1
        for x, y in zip(sa, sb):
            n += 1
            if x != y:
                report.append('%s / %s differs\n--- pristine\n%s\n--- patched\n%s'
                              % (case.name, x[0], str(x)[:3000], str(y)[:3000]))
        return n
    return 1


def main():
    if len(sys.argv) != 3:
        sys.exit(__doc__)
    pristine = os.path.abspath(sys.argv[1])
    patched = os.path.abspath(sys.argv[2])
    for root in (pristine, patched):
        if not os.path.isfile(os.path.join(root, 'modules', 'pel', 'peltool',
                                           'peltool.py')):
            sys.exit('%s is not a source tree' % root)

    tmp = tempfile.mkdtemp(prefix='diffcheck-', dir=HERE)
    try:
        blobs = build_corpus()
        aux = {'driver': os.path.join(tmp, 'driver.py'),
               'corpus_file': os.path.join(tmp, 'corpus.json'),
               'stub_dir': os.path.join(tmp, 'stub')}
        with open(aux['driver'], 'w') as f:
            f.write(DRIVER)
        with open(aux['corpus_file'], 'w') as f:
            json.dump([(n, d.hex()) for n, d in blobs], f)
        os.makedirs(os.path.join(aux['stub_dir'], 'setuptools'))
        with open(os.path.join(aux['stub_dir'], 'setuptools', '__init__.py'),
                  'w') as f:
            f.write('import json, sys\n'
                    'def setup(*args, **kw):\n'
                    '    print(json.dumps([list(args), kw], sort_keys=True))\n'
                    '    print(sys.argv[1:])\n'
                    'def find_packages(*a, **kw):\n'
                    '    return ["stub"]\n')

        # make sure that each tree really imports its own package
        for root in (pristine, patched):
            p = subprocess.run(
                [PY, '-c', 'import pel.peltool.peltool as m, os;'
                 'print(os.path.realpath(m.__file__))'],
                env=base_env(root), stdout=subprocess.PIPE, check=True)
            got = p.stdout.decode().strip()
            want = os.path.realpath(os.path.join(
                root, 'modules', 'pel', 'peltool', 'peltool.py'))
            if got != want:
                sys.exit('import of %s instead of %s' % (got, want))

        cases = make_cases(blobs)

        def work_one(item):
            idx, case = item
            work = os.path.join(tmp, 'w%04d' % idx)
            a = run_case(case, pristine, work, aux)
            b = run_case(case, patched, work, aux)
            shutil.rmtree(work, ignore_errors=True)
            return case, a, b

        report = []
        total = 0
        # debugging aid: DIFFCHECK_DUMP=<file> stores the pristine results
        dump = [] if os.environ.get('DIFFCHECK_DUMP') else None
        with ThreadPoolExecutor(max_workers=min(12, os.cpu_count() or 2)) as ex:
            for case, a, b in ex.map(work_one, enumerate(cases)):
                if case.kind == 'driver' and (a['rc'] != 0 or b['rc'] != 0):
                    report.append('%s: driver failed rc=%s/%s\n%s\n%s' % (
                        case.name, a['rc'], b['rc'], a['stderr'][-3000:],
                        b['stderr'][-3000:]))
                total += compare(case, a, b, report)
                if dump is not None:
                    dump.append([case.name, a])
        if dump is not None:
            with open(os.environ['DIFFCHECK_DUMP'], 'w') as f:
                json.dump(dump, f, indent=1)
    finally:
        shutil.rmtree(tmp, ignore_errors=True)

    if report:
        for r in report[:40]:
            print(r)
            print('=' * 70)
        print('DIFFERENT (%d differences in %d cases)' % (len(report), total))
        sys.exit(1)
    print('IDENTICAL (%d cases)' % total)
    sys.exit(0)


if __name__ == '__main__':
    main()
