#!/usr/bin/env python3
"""
Differential check for refactorings of the PEL parser plug-ins

    modules/pel/hwdiags/parserdata.py
    modules/srcparsers/**, modules/udparsers/**, modules/calloutparsers/**

usage: diffcheck.py <pristine_root> <patched_root>

Both trees are copied into private staging directories (so that synthetic
hw-diags data files and synthetic SRC parser plug-ins can be added without
touching the trees themselves).  The same deterministic set of cases is then
run against both stagings
  * through a driver script that calls the plug-in entry points in-process
    (many calls per process, so that module level caches are exercised), under
    `python` and `python -O`, and
  * through the peltool command line on generated binary PEL files.
Prints "IDENTICAL (<n> cases)" and exits 0 if all the outputs are identical,
exits 1 otherwise.
"""

import json
import os
import random
import shutil
import struct
import subprocess
import sys
import tempfile

PY = sys.executable

# --------------------------------------------------------------------------
# staging
# --------------------------------------------------------------------------

DATA_FILE_1 = {
    "model_ec": {"id": "20da0020", "type": "proc", "desc": "P10 2.0"},
    "attn_types": {"1": "CHECKSTOP", "2": "UNIT_CS", "3": "RECOVERABLE",
                   "68": "WEIRD"},
    "signatures": {
        "abcd": ["EQ_CORE_FIR", {"0": "bit zero", "7": "bit seven",
                                 "119": "bit 119"}],
        "5555": ["SHORT"],
        "0001": ["NO_BITS", {}],
        "00ff": [],
        "1234": "str",
    },
    "registers": {
        "abcdef": ["EQ_CORE_FIR_A_VERY_LONG_REGISTER_NAME_INDEED",
                   {"0": "8000C001", "1": "0x8100c001", "5": "zz"}],
        "000001": ["R1", {"0": "1", "2": 17, "3": None}],
        "000002": ["ONLY_NAME"],
        "000003": [],
        "123456": [12345, {"0": "ffffffffff"}],
    },
}

DATA_FILE_2 = {
    "model_ec": {"id": "60d20010"},
    "attn_types": {},
}

DATA_FILE_3 = {
    "model_ec": {"id": "11111111", "type": "ocmb", "desc": "Explorer 1.1"},
    "signatures": {"5555": ["OCMB_LFIR", {"103": "some bit", "0": "zero"}]},
    "registers": {"555566": ["OCMB_REG", {"119": "08010870"}]},
    "attn_types": {"51": "HOST_ATTN"},
}

EXTRA_SRC_PARSERS = {
    # echoes its arguments
    "odd00": '''
import json
def parseSRCToJson(refcode, word2, word3, word4, word5, word6, word7, word8,
                   word9):
    return json.dumps({"echo": [refcode, word2, word3, word4, word5, word6,
                                word7, word8, word9]})
''',
    # the parser itself fails
    "oee00": '''
def parseSRCToJson(refcode, *words):
    raise ValueError("parser failure for " + refcode.strip())
''',
    # importing it fails because a dependency is missing
    "obb00": '''
import a_module_that_does_not_exist_anywhere
def parseSRCToJson(refcode, *words):
    return '"never"'
''',
    # importing it fails with a plain ImportError
    "occ00": '''
raise ImportError("plain import error in occ00")
''',
    # importing it fails with a syntax error
    "oaa00": '''
def parseSRCToJson(refcode, *words)
    return 1
''',
    # the parser raises ModuleNotFoundError while running
    "o9900": '''
def parseSRCToJson(refcode, *words):
    import another_module_that_does_not_exist
''',
    # returns JSON null / empty string
    "o8800": '''
def parseSRCToJson(refcode, *words):
    return 'null'
''',
    "o7700": '''
def parseSRCToJson(refcode, *words):
    return ''
''',
    # hostboot SRC parser
    "bsrc": '''
import json
def parseSRCToJson(refcode, *words):
    return json.dumps({"hostboot": refcode.strip(), "n": len(words)})
''',
}


def make_staging(root, dest, kind):
    """
    kind: 'plain' (copy only), 'rich' (hw-diags data files and extra SRC
    parsers), 'baddata' (a hw-diags data file without model_ec)
    """
    shutil.copytree(os.path.join(root, 'modules'),
                    os.path.join(dest, 'modules'),
                    ignore=shutil.ignore_patterns('__pycache__'))
    data_dir = os.path.join(dest, 'modules', 'pel', 'hwdiags', 'data')
    if kind == 'rich':
        for name, content in (('p10_20.json', DATA_FILE_1),
                              ('odyssey_10.json', DATA_FILE_2),
                              ('explorer_11.json', DATA_FILE_3)):
            with open(os.path.join(data_dir, name), 'w') as fp:
                json.dump(content, fp)
        # not a .json file: must be ignored
        with open(os.path.join(data_dir, 'README.txt'), 'w') as fp:
            fp.write('not json')
        for name, src in EXTRA_SRC_PARSERS.items():
            d = os.path.join(dest, 'modules', 'srcparsers', name)
            os.makedirs(d)
            open(os.path.join(d, '__init__.py'), 'w').close()
            with open(os.path.join(d, name + '.py'), 'w') as fp:
                fp.write(src)
    elif kind == 'baddata':
        with open(os.path.join(data_dir, 'broken.json'), 'w') as fp:
            json.dump({"attn_types": {}}, fp)
    elif kind == 'badjson':
        with open(os.path.join(data_dir, 'broken.json'), 'w') as fp:
            fp.write('{"model_ec": ')


# --------------------------------------------------------------------------
# in-process driver
# --------------------------------------------------------------------------

DRIVER = r'''
import importlib, json, sys

def dec(x):
    if isinstance(x, dict) and "__bytes__" in x:
        return bytes.fromhex(x["__bytes__"])
    if isinstance(x, dict) and "__mv__" in x:
        return memoryview(bytes.fromhex(x["__mv__"]))
    if isinstance(x, dict) and "__mvcast__" in x:
        return memoryview(bytes.fromhex(x["__mvcast__"])).cast(x["fmt"])
    if isinstance(x, dict) and "__ba__" in x:
        return bytearray(bytes.fromhex(x["__ba__"]))
    if isinstance(x, dict) and "__tuple__" in x:
        return tuple(dec(i) for i in x["__tuple__"])
    if isinstance(x, list):
        return [dec(i) for i in x]
    return x

def show(x):
    t = type(x)
    if t in (dict,) or t.__name__ == 'OrderedDict':
        return [t.__name__, [[show(k), show(v)] for k, v in x.items()]]
    if t in (list, tuple):
        return [t.__name__, [show(i) for i in x]]
    r = repr(x)
    if ' object at 0x' in r:
        r = sorted((k, repr(v)) for k, v in vars(x).items())
    return [t.__name__, r]

def run(fn, *args):
    try:
        return ["ok", show(fn(*args))]
    except BaseException as e:
        return ["exc", type(e).__name__, str(e)]

def cache_state(mod, attr):
    d = getattr(mod, attr)
    return sorted((k, None if v is None else getattr(v, '__name__', repr(v)))
                  for k, v in d.items())

def main():
    cases = json.load(open(sys.argv[1]))
    mods = {}
    def mod(name):
        if name not in mods:
            mods[name] = importlib.import_module(name)
        return mods[name]
    parser_objs = {}
    for case in cases:
        kind = case["kind"]
        args = dec(case.get("args", []))
        if kind == "osrc":
            try:
                m = mod("srcparsers.osrc.osrc")
            except BaseException as e:
                res = ["import-exc", type(e).__name__, str(e)]
            else:
                res = [run(m.parseSRCToJson, *args),
                       cache_state(m, "osrcParsers")]
        elif kind == "src_oe500":
            try:
                m = mod("srcparsers.oe500.oe500")
            except BaseException as e:
                res = ["import-exc", type(e).__name__, str(e)]
            else:
                res = run(m.parseSRCToJson, *args)
        elif kind == "callout":
            m = mod("calloutparsers.ocallouts.ocallouts")
            res = run(m.getMaintProcDesc, *args)
        elif kind == "pd":
            m = mod("pel.hwdiags.parserdata")
            # a fresh object or a long-lived one
            if case.get("fresh"):
                try:
                    obj = m.ParserData()
                except BaseException as e:
                    obj = None
                    res = ["ctor-exc", type(e).__name__, str(e)]
            else:
                if "obj" not in parser_objs:
                    try:
                        parser_objs["obj"] = m.ParserData()
                    except BaseException as e:
                        parser_objs["obj"] = None
                        parser_objs["err"] = ["ctor-exc", type(e).__name__,
                                              str(e)]
                obj = parser_objs["obj"]
                res = parser_objs.get("err")
            if obj is not None:
                res = run(getattr(obj, case["method"]), *args)
        elif kind == "pd_data":
            m = mod("pel.hwdiags.parserdata")
            res = run(lambda: sorted(m.ParserData()._data.items()))
        elif kind == "ud":
            try:
                m = mod(case["module"])
            except BaseException as e:
                res = ["import-exc", type(e).__name__, str(e)]
            else:
                res = run(getattr(m, case["func"]), *args)
        elif kind == "peltool_ud":
            from pel.peltool.parse_user_data import ParseUserData
            from pel.peltool.config import Config
            cfg = Config()
            cfg.allow_plugins = case["plugins"]
            res = run(lambda: ParseUserData(*args).parse(cfg))
        else:
            res = ["unknown kind"]
        print(json.dumps([case["id"], res]))

main()
'''


def B(b):
    return {"__bytes__": bytes(b).hex()}


def MV(b):
    return {"__mv__": bytes(b).hex()}


def MVC(b, fmt):
    return {"__mvcast__": bytes(b).hex(), "fmt": fmt}


def BA(b):
    return {"__ba__": bytes(b).hex()}


MODEL_ECS = ['20da0020', '20DA0020', '60d20010', '60D20010', '11111111',
             '23ABcdEf', 'deadbeef', '00000000', 'FFFFFFFF']
SIG_IDS = ['abcd', 'ABCD', '5555', '0001', '00ff', '00FF', '1234', 'ffff',
           '0000']
REG_IDS = ['abcdef', 'ABCDEF', '000001', '000002', '000003', '123456',
           'ffffff', '000000']


def rnd_hex(rng, n, upper=None):
    s = ''.join(rng.choice('0123456789abcdef') for _ in range(n))
    if upper is None:
        upper = rng.random() < 0.5
    return s.upper() if upper else s


def gen_word_a(rng):
    return rng.choice(MODEL_ECS) if rng.random() < 0.8 else rnd_hex(rng, 8)


def gen_word_b(rng):
    if rng.random() < 0.5:
        return '%04X%02X%02X' % (rng.randrange(65536), rng.randrange(256),
                                 rng.choice([1, 2, 3, 68, 51, 0, 255]))
    return rnd_hex(rng, 8)


def gen_word_c(rng):
    if rng.random() < 0.8:
        s = rng.choice(SIG_IDS) + '%02X%02X' % (
            rng.randrange(256), rng.choice([0, 7, 119, 103, 1, 255]))
        return s if rng.random() < 0.5 else s.upper()
    return rnd_hex(rng, 8)


BAD_WORDS = ['', '0', '1234567', '123456789', 'zzzzzzzz', '0x123456',
             ' 1234567', '1234567 ', '+1234567', '-1234567', '1234_678',
             '１２３４５６７８', '12345678\n', None, 12345678, 1.5,
             B(b'12345678'), ['1', '2'], True]


def gen_pd_cases(rng):
    cases = []

    def add(method, args, fresh=False):
        cases.append({"kind": "pd", "method": method, "args": args,
                      "fresh": fresh})

    cases.append({"kind": "pd_data"})
    ints = [0, 1, 7, 68, 119, 255, 256, 65535, 65536, -1, 1 << 40, 254.5,
            255.5, 0.0, True, False, None, '7', B(b'\x07'), [1]]
    for m in MODEL_ECS + BAD_WORDS:
        add("query_model_ec", [m])
        for a in [0, 1, 2, 3, 68, 51, 255, -5, 1000, '1', 1.0, None, True]:
            add("get_attn_desc", [m, a])
        for n in [0, 3, 255, 256, -1, None]:
            for c in [0, 9, 65535, 65536, -1, 2.5, '1']:
                add("get_chip_desc", [m, n, c])
    for _ in range(400):
        add("get_attn_desc", [gen_word_a(rng), rng.choice(ints)])
        add("get_chip_desc", [gen_word_a(rng), rng.choice(ints),
                              rng.choice(ints)])
    for m in MODEL_ECS[:6] + ['', None]:
        for s in SIG_IDS + ['', 'abc', 'abcde', 'zzzz', None, 5555,
                            B(b'abcd')]:
            for inst in [0, 5, 255, 256, -1, None, 1.5]:
                for bit in [0, 7, 119, 103, 255, 256, -1, '7', None]:
                    add("get_sig_desc", [m, s, inst, bit])
        for r in REG_IDS + ['', 'abcde', 'abcdefg', 'zzzzzz', None, 123456,
                            B(b'abcdef')]:
            for inst in [0, 1, 2, 3, 5, 119, 255, 256, -1, None, '0', 2.0]:
                add("get_reg_data", [m, r, inst])
    for _ in range(1500):
        add("get_signature", [gen_word_a(rng), gen_word_b(rng),
                              gen_word_c(rng)], fresh=rng.random() < 0.2)
    for bad in BAD_WORDS:
        add("get_signature", [bad, '22223344', '55556677'])
        add("get_signature", ['11111111', bad, '55556677'])
        add("get_signature", ['11111111', '22223344', bad])
        add("get_signature", [bad, bad, bad])
    # private helpers are exercised as well (they define the error text)
    for n in [1, 2, 3, 4, 0, 5, None]:
        for d in ['ab', 'ABCD', 'abcdef', '12345678', 'xy', '', None, 7]:
            add("_check_hex", [d, n])
        for d in [0, 255, 256, 65535, 65536, 16777215, 16777216, -1, None,
                  '1', 3.5]:
            add("_check_int", [d, n])
    return cases


def gen_src_cases(rng):
    cases = []
    comps = ['E5', 'e5', 'DD', 'dd', 'EE', 'BB', 'CC', 'AA', '99', '88',
             '77', '12', 'ZZ', '..', '  ', '\x00\x00', 'é5', '/e', 'E', '']

    def refcode(prefix, comp, rest):
        return (prefix + '8D' + comp + rest).ljust(32)

    seq = []
    for _ in range(600):
        prefix = rng.choice(['BD', 'BD', 'BD', 'BC', '11', 'B7', 'bc', ''])
        comp = rng.choice(comps)
        rest = rng.choice(['10', '11', '00', 'FF', '1', ''])
        rc = refcode(prefix, comp, rest)
        if rng.random() < 0.05:
            rc = rc.strip()
        words = [rnd_hex(rng, 8, True) for _ in range(8)]
        words[4] = gen_word_a(rng).upper()
        words[5] = gen_word_b(rng).upper()
        words[6] = gen_word_c(rng).upper()
        seq.append([rc] + words)
    # every call twice, some three times: cached lookups
    for args in seq:
        cases.append({"kind": "osrc", "args": args})
        if rng.random() < 0.7:
            cases.append({"kind": "osrc", "args": args})
    rng.shuffle(seq)
    for args in seq[:200]:
        cases.append({"kind": "osrc", "args": args})
    for bad in [None, 5, B(b'BD8DE510'), ['B', 'D'], '', 'B', 'BC', 'BD8D']:
        cases.append({"kind": "osrc", "args": [bad] + ['00000000'] * 8})
    # wrong number of arguments
    cases.append({"kind": "osrc", "args": ['BD8DE510']})

    for _ in range(500):
        rc = rng.choice(['BD8DE510', 'BD8DE511', 'BD8DE500', 'BD8DE5',
                         'BD8DE51', '', '      10', 'BD8DE510        ',
                         'BD8DE5\u00310'])
        words = [rnd_hex(rng, 8, True) for _ in range(8)]
        words[4] = gen_word_a(rng)
        words[5] = gen_word_b(rng)
        words[6] = gen_word_c(rng)
        if rng.random() < 0.1:
            words[rng.choice([4, 5, 6])] = rng.choice(BAD_WORDS)
        cases.append({"kind": "src_oe500", "args": [rc] + words})
    for bad in [None, 5, B(b'BD8DE510'), ['1', '0']]:
        cases.append({"kind": "src_oe500",
                      "args": [bad] + ['11111111'] * 8})

    for p in ['BMC0001', 'BMC0002', 'BMC0003', 'BMC0004', 'BMC0005',
              'BMC0006', 'BMC0007', 'BMC0008', 'BMC0009', 'bmc0001', '',
              'BMC0001 ', None, 1, 1.5, True, B(b'BMC0001'), ['BMC0001'],
              {"__tuple__": ['BMC0001']}]:
        cases.append({"kind": "callout", "args": [p]})
        cases.append({"kind": "callout", "args": [p]})
    cases.append({"kind": "callout", "args": []})
    return cases


def sig_list_payload(rng, count=None, n=None):
    n = rng.randrange(0, 6) if n is None else n
    count = n if count is None else count
    out = struct.pack('>I', count)
    for _ in range(n):
        out += bytes.fromhex(gen_word_a(rng)) + bytes.fromhex(gen_word_b(rng)) \
            + bytes.fromhex(gen_word_c(rng))
    return out


def reg_dump_payload(rng):
    chips = rng.randrange(0, 4)
    out = struct.pack('>I', chips)
    for _ in range(chips):
        regs = rng.randrange(0, 5)
        out += bytes.fromhex(gen_word_a(rng))
        out += struct.pack('>HBI', rng.randrange(65536), rng.randrange(256),
                           regs)
        for _ in range(regs):
            rid = rng.choice(REG_IDS) if rng.random() < 0.8 \
                else rnd_hex(rng, 6)
            size = rng.choice([1, 2, 3, 4, 7, 8, 8, 8, 16, 0])
            out += bytes.fromhex(rid) + bytes([rng.choice([0, 1, 2, 3, 5,
                                                           119, 255]), size])
            out += bytes(rng.randrange(256) for _ in range(size))
    return out


def callout_ffdc_payload(rng):
    choice = rng.randrange(8)
    if choice == 0:
        return json.dumps([{"Priority": "H", "LocationCode": "P0"},
                           {"Procedure": "BMC0001"}]).encode() + b'\0'
    if choice == 1:
        return json.dumps({"a": [1, 2, {"b": None}], "é": "ü"}).encode() \
            + b'\0\0\0'
    if choice == 2:
        return b'{"x": 1}'
    if choice == 3:
        return b'{"x": 1}\0junk'
    if choice == 4:
        return b'\0\0'
    if choice == 5:
        return b'\xff\xfe{"x": 1}\0'
    if choice == 6:
        return json.dumps({"a": "é"}, ensure_ascii=False).encode() + b'\0'
    return b'[1, 2, 3] \0'


def mutate(rng, data):
    data = bytearray(data)
    kind = rng.randrange(4)
    if kind == 0 and data:
        return bytes(data[:rng.randrange(len(data))])
    if kind == 1 and data:
        for _ in range(rng.randrange(1, 4)):
            data[rng.randrange(len(data))] = rng.randrange(256)
        return bytes(data)
    if kind == 2:
        return bytes(data) + bytes(rng.randrange(256)
                                   for _ in range(rng.randrange(1, 9)))
    return bytes(data)


TRACE_SAMPLE = (b'\x02\x20\x01\x42IICS' + b'\x00' * 12 +
                b'\x00\x00\x00\x20' b'\x00\x00\x00\x00' b'\x00\x00\x00\x20')
ILOG_SAMPLE = b'\x8A\xDF\x0F\x19\x01\x00\x00\xDE'
HLOG_SAMPLE = b'\x00\xDE\xAD'


def wrap(rng, payload):
    """the different buffer types a caller may pass"""
    r = rng.random()
    if r < 0.8:
        return MV(payload)
    if r < 0.87:
        return B(payload)
    if r < 0.92:
        return BA(payload)
    if len(payload) % 2 == 0 and r < 0.96:
        return MVC(payload, 'H')
    if len(payload) % 4 == 0:
        return MVC(payload, rng.choice(['I', 'b', 'c']))
    return MVC(payload, 'b')


def gen_ud_cases(rng):
    cases = []

    def add(module, func, args):
        cases.append({"kind": "ud", "module": module, "func": func,
                      "args": args})

    oe = 'udparsers.oe500.oe500'
    gens = {
        1: sig_list_payload,
        2: reg_dump_payload,
        3: callout_ffdc_payload,
        4: lambda rng: bytes(rng.randrange(256) for _ in range(24)),
        5: lambda rng: bytes(rng.randrange(256) for _ in range(8)),
    }
    for _ in range(2500):
        st = rng.choice([1, 1, 2, 2, 2, 3, 4, 5])
        payload = gens[st](rng)
        if rng.random() < 0.5:
            payload = mutate(rng, payload)
        # usually the matching sub type, sometimes any
        sub = st if rng.random() < 0.85 else rng.choice(
            [0, 1, 2, 3, 4, 5, 6, 255, -1, 1.0, 2.0, True, None, '1'])
        add(oe, 'parseUDToJson', [sub, rng.choice([0, 1, 2]),
                                  wrap(rng, payload)])
    # huge counts on short data, empty data
    for sub in range(0, 7):
        for payload in [b'', b'\x00', b'\x00\x00\x00\x00',
                        b'\xff\xff\xff\xff', b'\x00\x00\x00\x01',
                        b'\x00\x00\x00\x01' + b'\x11' * 11,
                        b'\x00\x00\x00\x01' + b'\x11' * 10,
                        b'\x00\x00\x00\x02' + b'\x11' * 12,
                        b'\x00\x00\x00\x01' + b'\x11' * 7 + b'\0\0\0\1' +
                        b'\xab\xcd\xef\x00\x00',
                        b'\x00\x00\x00\x01' + b'\x11' * 7 + b'\0\0\0\1' +
                        b'\xab\xcd\xef\x00\x08' + b'\x01' * 7,
                        bytes(range(24)), bytes(range(23)), bytes(range(8)),
                        bytes(range(7)), bytes(range(40))]:
            add(oe, 'parseUDToJson', [sub, 1, MV(payload)])
            add(oe, 'parseUDToJson', [sub, 1, B(payload)])
    # direct calls of the section parsers
    for fn, st in (('_parse_signature_list', 1), ('_parse_register_dump', 2),
                   ('_parse_callout_ffdc', 3), ('_parse_hb_scratch_regs', 4),
                   ('_parse_scratch_reg_sig', 5), ('_parse_default', 1)):
        for _ in range(60):
            payload = gens[st](rng)
            if rng.random() < 0.5:
                payload = mutate(rng, payload)
            add(oe, fn, [1, wrap(rng, payload)])
        add(oe, fn, [1, None])
        add(oe, fn, [1, 'text'])

    mc = 'udparsers.m2c00.m2c00'
    samples = {72: HLOG_SAMPLE, 73: ILOG_SAMPLE, 84: TRACE_SAMPLE}
    for _ in range(1200):
        st = rng.choice([72, 73, 84, 84, 85, 0])
        if st in samples and rng.random() < 0.6:
            payload = samples[st] * rng.randrange(1, 4)
        else:
            payload = bytes(rng.randrange(256)
                            for _ in range(rng.randrange(0, 80)))
        if rng.random() < 0.5:
            payload = mutate(rng, payload)
        sub = st if rng.random() < 0.85 else rng.choice(
            [72, 73, 84, 85, 0, -1, 72.0, 73.5, True, None, '72', 255])
        ver = rng.choice([1, 1, 2, 2, 3, 0, -1, None, 1.0, True, '1'])
        add(mc, 'parseUDToJson', [sub, ver, wrap(rng, payload)])
    for fn, st in (('_parse_hlog', 72), ('_parse_ilog', 73),
                   ('_parse_trace', 84), ('_parse_unsupported', 0)):
        for ver in [1, 2, 3, 0, None]:
            for payload in [b'', samples.get(st, b'\xde\xad\xbe\xef'),
                            b'\x00', bytes(range(50))]:
                add(mc, fn, [ver, MV(payload)])
                add(mc, fn, [ver, B(payload)])
            add(mc, fn, [ver, None])
            add(mc, fn, [ver, []])
            add(mc, fn, [ver, 'abc'])
    for ver in [1, 2, 3, 0, -1, None, 1.0, 2.0, True, '1', [1]]:
        add(mc, '_get_drawer_type', [ver])

    # through peltool's user data loader (caches, error wrapping)
    for _ in range(500):
        creator, comp, subs = rng.choice([
            ('O', 0xE500, [1, 2, 3, 4, 5, 6]),
            ('M', 0x2C00, [72, 73, 84, 85]),
            ('O', 0x1234, [1]),
            ('B', 0xE500, [1])])
        sub = rng.choice(subs)
        if comp == 0xE500 and sub in gens:
            payload = gens[sub](rng)
        elif comp == 0x2C00 and sub in samples:
            payload = samples[sub]
        else:
            payload = bytes(rng.randrange(256)
                            for _ in range(rng.randrange(0, 40)))
        if rng.random() < 0.4:
            payload = mutate(rng, payload)
        cases.append({"kind": "peltool_ud", "plugins": rng.random() < 0.9,
                      "args": [creator, comp, sub, rng.choice([1, 2, 3]),
                               B(payload)]})
    return cases


# --------------------------------------------------------------------------
# PEL files for the command line
# --------------------------------------------------------------------------

def section(sid, ver, subtype, comp, body):
    return sid + struct.pack('>HBBH', 8 + len(body), ver, subtype, comp) + body


def bcd_ts(rng):
    return bytes.fromhex('2024%02d%02d%02d%02d%02d00' % (
        rng.randrange(1, 13), rng.randrange(1, 29), rng.randrange(24),
        rng.randrange(60), rng.randrange(60)))


def src_section(rng, refcode, words, callouts=None, wordcount=9):
    flags = 0x01 if callouts is not None else 0
    body = struct.pack('>BBBBHH', 2, flags, 0, wordcount, 0, 72)
    body += b''.join(struct.pack('>I', w) for w in words)
    body += refcode.encode('latin-1')[:32].ljust(32)
    if callouts is not None:
        cbody = b''
        for prio, loc, proc in callouts:
            loc_b = loc.encode()
            loc_b += b'\0' * (-len(loc_b) % 4)
            fru = b'ID' + bytes([12, 0x22]) + proc.encode().ljust(8, b'\0')[:8]
            size = 4 + len(loc_b) + len(fru)
            cbody += bytes([size, 0x80, ord(prio), len(loc_b)]) + loc_b + fru
        body += bytes([0xC0, 0]) + struct.pack('>H', (4 + len(cbody)) // 4) \
            + cbody
    return section(b'PS', 1, 1, 0xE500, body)


def build_pel(rng, creator, sections, eid, severity=0x40, flags=0xA000):
    ph_body = bcd_ts(rng) + bcd_ts(rng) + creator + b'\0\0' + \
        bytes([2 + len(sections)]) + struct.pack('>I', eid & 0xffff) + \
        b'\0' * 8 + struct.pack('>II', 0x50000000 + eid, 0x50000000 + eid)
    uh_body = bytes([0x10, 0x03, severity, 0x00]) + b'\0' * 4 + \
        bytes([0, 0]) + struct.pack('>HI', flags, 0)
    return section(b'PH', 1, 0, 0xE500, ph_body) + \
        section(b'UH', 1, 0, 0xE500, uh_body) + b''.join(sections)


def gen_pels(rng, n):
    pels = []
    procs = ['BMC0001', 'BMC0002', 'BMC0008', 'BMC0009', 'XYZ', '']
    gens = {1: sig_list_payload, 2: reg_dump_payload, 3: callout_ffdc_payload,
            4: lambda rng: bytes(rng.randrange(256) for _ in range(24)),
            5: lambda rng: bytes(rng.randrange(256) for _ in range(8))}
    samples = {72: HLOG_SAMPLE, 73: ILOG_SAMPLE, 84: TRACE_SAMPLE}
    for i in range(n):
        creator = rng.choice([b'O', b'O', b'O', b'M', b'B'])
        sections = []
        comp = rng.choice(['E5', 'E5', 'E5', 'DD', 'EE', 'BB', 'CC', 'AA',
                           '99', '88', '77', '12', '..'])
        prefix = rng.choice(['BD', 'BD', 'BD', 'BC', '11'])
        refcode = prefix + '8D' + comp + rng.choice(['10', '11', '20'])
        words = [rng.randrange(1 << 32) for _ in range(8)]
        words[4] = int(gen_word_a(rng), 16)
        words[5] = int(gen_word_b(rng), 16)
        words[6] = int(gen_word_c(rng), 16)
        callouts = None
        if rng.random() < 0.5:
            callouts = [(rng.choice('HML'), rng.choice(['', 'U78DA.P0', 'P1-C2']),
                         rng.choice(procs))
                        for _ in range(rng.randrange(1, 4))]
        sections.append(src_section(rng, refcode, words, callouts,
                                    rng.choice([9, 9, 9, 6, 8])))
        for _ in range(rng.randrange(0, 5)):
            which = rng.random()
            if which < 0.6:
                sub = rng.choice([1, 2, 3, 4, 5, 6])
                payload = gens[sub](rng) if sub in gens else b'\x01\x02\x03'
                ccomp = 0xE500
            elif which < 0.9:
                sub = rng.choice([72, 73, 84, 85])
                payload = samples.get(sub, b'\xde\xad\xbe\xef')
                ccomp = 0x2C00
            else:
                sub, payload, ccomp = 1, b'plain', 0x1000
            if rng.random() < 0.35:
                payload = mutate(rng, payload)
            if rng.random() < 0.25:
                ecreator = rng.choice([b'O', b'M'])
                sections.append(section(b'ED', rng.choice([1, 2, 3]), sub,
                                        ccomp, ecreator + b'\0\0\0' + payload))
            else:
                sections.append(section(b'UD', rng.choice([1, 2, 3]), sub,
                                        ccomp, payload))
        pel = build_pel(rng, creator, sections, i + 1,
                        severity=rng.choice([0x40, 0x40, 0x00, 0x20]),
                        flags=rng.choice([0xA000, 0xA000, 0x4000, 0x8000]))
        if rng.random() < 0.15:
            pel = mutate(rng, pel)
        pels.append(pel)
    return pels


# --------------------------------------------------------------------------
# running
# --------------------------------------------------------------------------

def run_driver(staging, driver_path, case_file, opt):
    env = dict(os.environ)
    env['PYTHONPATH'] = os.path.join(staging, 'modules')
    env['PYTHONDONTWRITEBYTECODE'] = '1'
    env['PYTHONHASHSEED'] = '0'
    cmd = [PY] + (['-O'] if opt else []) + [driver_path, case_file]
    p = subprocess.run(cmd, env=env, cwd=staging, capture_output=True,
                       timeout=1200)
    return p.returncode, p.stdout.decode('utf-8', 'replace'), \
        p.stderr.decode('utf-8', 'replace').replace(staging, '<STAGING>')


def run_cli(staging, args, opt, cwd):
    env = dict(os.environ)
    env['PYTHONPATH'] = os.path.join(staging, 'modules')
    env['PYTHONDONTWRITEBYTECODE'] = '1'
    env['PYTHONHASHSEED'] = '0'
    tool = os.path.join(staging, 'modules', 'pel', 'peltool', 'peltool.py')
    cmd = [PY] + (['-O'] if opt else []) + [tool] + args
    p = subprocess.run(cmd, env=env, cwd=cwd, capture_output=True, timeout=600)
    return p.returncode, p.stdout, \
        p.stderr.decode('utf-8', 'replace').replace(staging, '<STAGING>')


def snapshot_dir(path):
    out = {}
    for root, _, files in os.walk(path):
        for f in files:
            full = os.path.join(root, f)
            with open(full, 'rb') as fd:
                out[os.path.relpath(full, path)] = fd.read()
    return out


def main():
    if len(sys.argv) != 3:
        sys.exit(__doc__)
    roots = [os.path.abspath(sys.argv[1]), os.path.abspath(sys.argv[2])]
    work = tempfile.mkdtemp(prefix='diffcheck_R25_')
    n_cases = 0
    differences = []
    try:
        kinds = ['plain', 'rich', 'baddata', 'badjson']
        stagings = []
        for idx, root in enumerate(roots):
            d = {}
            for kind in kinds:
                # identical path length/name for both roots is not needed:
                # the staging path is scrubbed from stderr
                dest = os.path.join(work, 'tree%d_%s' % (idx, kind))
                make_staging(root, dest, kind)
                d[kind] = dest
            stagings.append(d)

        driver_path = os.path.join(work, 'driver.py')
        with open(driver_path, 'w') as fp:
            fp.write(DRIVER)

        # ---- in-process cases -------------------------------------------
        rng = random.Random(0x5225)
        batches = {
            'pd': gen_pd_cases(rng),
            'src': gen_src_cases(rng),
            'ud': gen_ud_cases(rng),
        }
        # a mixed batch: interleaved calls in one process
        mixed = []
        for name in ('pd', 'src', 'ud'):
            mixed.extend(rng.sample(batches[name],
                                    min(400, len(batches[name]))))
        rng.shuffle(mixed)
        batches['mixed'] = mixed

        plan = []
        for name, cases in batches.items():
            cases = [dict(c, id='%s-%d' % (name, i))
                     for i, c in enumerate(cases)]
            case_file = os.path.join(work, 'cases_%s.json' % name)
            with open(case_file, 'w') as fp:
                json.dump(cases, fp)
            for kind in kinds:
                if kind in ('baddata', 'badjson'):
                    # only a reduced set: everything fails in the constructor
                    if name != 'mixed':
                        continue
                for opt in (False, True):
                    plan.append((name, kind, opt, case_file, len(cases)))

        for name, kind, opt, case_file, count in plan:
            outs = [run_driver(st[kind], driver_path, case_file, opt)
                    for st in stagings]
            label = 'driver %s/%s%s' % (name, kind, ' -O' if opt else '')
            if outs[0][0] != 0 or len(outs[0][1].splitlines()) != count:
                differences.append(label + ': driver did not complete on '
                                   'pristine tree: rc=%s %s' %
                                   (outs[0][0], outs[0][2][-500:]))
            if outs[0] != outs[1]:
                a = outs[0][1].splitlines()
                b = outs[1][1].splitlines()
                shown = 0
                for x, y in zip(a, b):
                    if x != y and shown < 3:
                        differences.append('%s:\n  pristine: %s\n  patched:  %s'
                                           % (label, x[:600], y[:600]))
                        shown += 1
                if not shown:
                    differences.append('%s: rc/stderr/length differ: %r vs %r'
                                       % (label,
                                          (outs[0][0], outs[0][2][-300:],
                                           len(a)),
                                          (outs[1][0], outs[1][2][-300:],
                                           len(b))))
            n_cases += count

        # ---- command line -----------------------------------------------
        rng = random.Random(0x25)
        pels = gen_pels(rng, 160)
        pel_dir = os.path.join(work, 'pels')
        os.makedirs(pel_dir)
        for i, pel in enumerate(pels):
            with open(os.path.join(pel_dir, 'pel%03d.bin' % i), 'wb') as fp:
                fp.write(pel)

        cli_runs = []
        for i in range(len(pels)):
            f = os.path.join(pel_dir, 'pel%03d.bin' % i)
            cli_runs.append((['-f', f], 'rich', False))
            if i % 2 == 0:
                cli_runs.append((['-f', f], 'plain', False))
            if i % 4 == 0:
                cli_runs.append((['-f', f], 'rich', True))
            if i % 8 == 0:
                cli_runs.append((['-f', f, '-P'], 'rich', False))
            if i % 16 == 0:
                cli_runs.append((['-f', f], 'baddata', False))
                cli_runs.append((['-f', f, '-x'], 'rich', False))
        for kind in ('rich', 'plain', 'baddata', 'badjson'):
            for opt in (False, True):
                cli_runs.append((['-p', pel_dir, '-a', '-E'], kind, opt))
        cli_runs.append((['-p', pel_dir, '-a'], 'rich', False))
        cli_runs.append((['-p', pel_dir, '-a', '-E', '-r'], 'rich', False))
        cli_runs.append((['-p', pel_dir, '-a', '-E', '-P'], 'rich', False))
        cli_runs.append((['-p', pel_dir, '-l', '-E'], 'rich', False))
        cli_runs.append((['-p', pel_dir, '-n', '-E'], 'rich', False))
        cli_runs.append((['-p', pel_dir, '-i', '0x50000003'], 'rich', False))
        cli_runs.append((['-p', pel_dir, '--src', 'BD8DE5', '-E'], 'rich',
                         False))
        for args, kind, opt in cli_runs:
            outs = [run_cli(st[kind], args, opt, work) for st in stagings]
            n_cases += 1
            if outs[0] != outs[1]:
                differences.append('cli %s %s%s:\n  pristine: %r\n  patched:  %r'
                                   % (' '.join(args), kind,
                                      ' -O' if opt else '',
                                      tuple(str(o)[-400:] for o in outs[0]),
                                      tuple(str(o)[-400:] for o in outs[1])))

        # -j with output directory and -c: files created / removed
        for kind, opt in (('rich', False), ('rich', True), ('plain', False)):
            snaps = []
            for idx, st in enumerate(stagings):
                src_copy = os.path.join(work, 'jin_%d_%s_%d' % (idx, kind, opt))
                out_dir = os.path.join(work, 'jout_%d_%s_%d' % (idx, kind, opt))
                shutil.copytree(pel_dir, src_copy)
                os.makedirs(out_dir)
                res = run_cli(st[kind], ['-p', src_copy, '-j', '-o', out_dir,
                                         '-c', '-E'], opt, work)
                res = (res[0], res[1].replace(src_copy.encode(), b'<IN>'),
                       res[2].replace(src_copy, '<IN>'))
                snaps.append((res, snapshot_dir(src_copy),
                              snapshot_dir(out_dir)))
            n_cases += 1
            if snaps[0] != snaps[1]:
                differences.append('cli -j %s%s differs (%r vs %r)' % (
                    kind, ' -O' if opt else '', snaps[0][0], snaps[1][0]))
    finally:
        shutil.rmtree(work, ignore_errors=True)

    if differences:
        print('DIFFERENT (%d differences, %d cases)' % (len(differences),
                                                        n_cases))
        for d in differences[:40]:
            print(d)
        sys.exit(1)
    print('IDENTICAL (%d cases)' % n_cases)
    sys.exit(0)


if __name__ == '__main__':
    main()
