#!/usr/bin/env python3
"""
Differential check for refactorings of the decode core of
modules/pel/peltool/peltool.py (getSectionName, parseHeader, generate*,
sectionFun, buildOutput, parsePEL, parsePELSummary).

usage: python diffcheck.py <pristine_root> <patched_root>

The script builds a deterministic corpus of binary PELs (well formed,
truncated, corrupted, random), then runs the very same "driver" (this file
with --driver) once per source tree and per interpreter mode (normal, -O) in a
subprocess with PYTHONPATH pointing into that tree.  The driver exercises the
touched functions directly (return values, exceptions, stdout, stderr, stream
position, out-dict contents) and through main() with many option
combinations (stdout, stderr, exit status, files created/removed).  A few
real command line invocations of peltool.py are compared as well.

Prints "IDENTICAL (<n> cases)" and exits 0 when every observation is the
same for both trees, exits 1 otherwise.
"""

import contextlib
import hashlib
import io
import json
import os
import random
import shutil
import struct
import subprocess
import sys
import tempfile

SEED = 20261002

# --------------------------------------------------------------------------
# corpus construction
# --------------------------------------------------------------------------


def hdr(sid, length, ver=1, sub=0, comp=0x2000):
    return struct.pack(">HHBBH", sid & 0xFFFF, length & 0xFFFF, ver & 0xFF,
                       sub & 0xFF, comp & 0xFFFF)


def bcd_time(rng):
    return bytes([0x20, 0x24, rng.choice([0x01, 0x11, 0x12]),
                  rng.choice([0x01, 0x15, 0x28]), rng.choice([0x00, 0x13, 0x23]),
                  rng.choice([0x00, 0x30, 0x59]), rng.choice([0x00, 0x45]),
                  rng.choice([0x00, 0x99])])


def private_header(rng, count, creator=b"O", obmc=1, plid=0x50000001,
                   eid=0x50000001, comp=0x2000, sid=0x5048):
    body = bcd_time(rng) + bcd_time(rng) + creator + b"\x00\x00" + \
        bytes([count & 0xFF]) + struct.pack(">I", obmc) + \
        struct.pack(">Q", rng.choice([0, 1, 0x0102030405060708])) + \
        struct.pack(">II", plid, eid)
    return hdr(sid, 48, 1, 0, comp) + body


def user_header(rng, severity=0x40, flags=0xA000, subsystem=0x70, sid=0x5548,
                comp=0x2000):
    body = bytes([subsystem, rng.choice([0x01, 0x03, 0x04, 0x77]), severity,
                  rng.choice([0x00, 0x01, 0x08, 0x99])]) + b"\x00" * 4 + \
        bytes([0x10, 0x05]) + struct.pack(">H", flags) + \
        struct.pack(">I", rng.choice([0, 0x0201, 0x0303, 0xFF07]))
    return hdr(sid, 24, 1, 0, comp) + body


def fru_identity(rng):
    flags = rng.choice([0x08, 0x0C, 0x0D, 0x02, 0x03, 0x00, 0x18, 0x2A])
    body = b""
    if flags & 0x08 or flags & 0x02:
        if flags & 0x02:
            body += rng.choice([b"BMC0001\x00", b"BMC0008\x00", b"NOPE123\x00"])
        else:
            body += b"PN12345\x00"
    if flags & 0x04:
        body += b"CC1N"
    if flags & 0x01:
        body += b"SN0123456789"
    return struct.pack(">HBB", 0x4944, 4 + len(body), flags) + body


def pce_identity(rng):
    name = rng.choice([b"", b"pce\x00", b"enclosure-name\x00\x00"])
    return struct.pack(">HBB", 0x5045, 24 + len(name), 0) + b"9105-22A" + \
        b"SERIAL000012" + name


def mru(rng):
    n = rng.choice([0, 1, 3])
    body = b"".join(struct.pack(">II", rng.choice([0x48, 0x4C, 0x4D]),
                                rng.getrandbits(32)) for _ in range(n))
    return struct.pack(">HBBI", 0x4D52, 8 + len(body), n, 0) + body


def callout(rng):
    loc = rng.choice([b"", b"U78DA.ND0.1234567-P0\x00\x00\x00\x00", b"Ufcs-P1\x00"])
    parts = b""
    for maker in rng.sample([fru_identity, pce_identity, mru], rng.choice([0, 1, 2, 3])):
        parts += maker(rng)
    size = 4 + len(loc) + len(parts)
    return bytes([size & 0xFF, 0x20 | rng.choice([0, 1]),
                  rng.choice([0x48, 0x4D, 0x4C, 0x41, 0x42, 0x43, 0x00]),
                  len(loc)]) + loc + parts


def src_section(rng, sid=0x5053, creator_prefix=None, with_callouts=None):
    if with_callouts is None:
        with_callouts = rng.random() < 0.5
    flags = rng.choice([0x00, 0x80, 0x10, 0x04, 0x94]) | (1 if with_callouts else 0)
    ascii_ = creator_prefix or rng.choice(
        ["BD8D1001", "BD8D2002", "BD702004", "BD561007", "11002610",
         "BC801B99", "BCD52000", "B7001111", "BD8DE500", "BDE50012",
         "        ", "BD"])
    ascii_b = ascii_.encode("ascii").ljust(32, b" ")
    if rng.random() < 0.1:
        ascii_b = ascii_b[:30] + b"\x00\x00"
    words = [rng.choice([0x00000055, 0x020000E0, 0xDEADBEEF, 0, rng.getrandbits(32)])
             for _ in range(8)]
    if rng.random() < 0.3:
        words[3] |= 0x23000000
    word_count = rng.choice([9, 9, 9, 6, 2, 1, 0])
    body = bytes([2, flags, 0, word_count]) + b"\x00\x00" + struct.pack(">H", 72)
    body += b"".join(struct.pack(">I", w) for w in words) + ascii_b
    if with_callouts:
        cos = b"".join(callout(rng) for _ in range(rng.choice([0, 1, 2, 4])))
        while len(cos) % 4:
            cos += b"\x00"
        body += struct.pack(">BBH", 0xC0, 0, (4 + len(cos)) // 4) + cos
    return hdr(sid, 8 + len(body), 1, 1, rng.choice([0x2000, 0x1000, 0xE500]) ) + body


def eh_section(rng):
    symptom = rng.choice([b"", b"BD8D1001_00000055\x00\x00\x00", b"X\x00\x00\x00"])
    body = b"9105-22A" + b"1234567\x00\x00\x00\x00\x00" + \
        b"fw1050.00-1\x00\x00\x00\x00\x00" + b"fw-sub-1.2\x00\x00\x00\x00\x00\x00" + \
        b"\x00" * 4 + bcd_time(rng) + b"\x00\x00\x00" + bytes([len(symptom)]) + symptom
    return hdr(0x4548, 8 + len(body), 1, 0, 0x2000) + body


def mt_section(rng):
    body = rng.choice([b"9105-22A", b"\x00" * 8]) + b"SN123456\x00\x00\x00\x00"
    return hdr(0x4D54, 28, 1, 0, 0x2000) + body


def ud_section(rng):
    kind = rng.choice(["json", "badjson", "text", "cbor", "other", "plugin",
                       "noplugin", "empty", "jsonlist"])
    comp, sub, ver = 0x2000, 1, 1
    if kind == "json":
        data = json.dumps({"Key %d" % rng.randrange(5): "va\"l:ue",
                           "n{": rng.randrange(100),
                           "nested": {"a\\b": [1, 2, {"z": None}]}}).encode()
    elif kind == "jsonlist":
        data = b'["a", "b: c", 3]'
    elif kind == "badjson":
        data = b'{"broken": '
    elif kind == "text":
        sub = 3
        data = b"line one\nline \x01two\n\nlast" + b"\x00" * rng.choice([0, 3])
    elif kind == "cbor":
        sub = 2
        data = bytes(rng.getrandbits(8) for _ in range(rng.choice([1, 17, 40])))
    elif kind == "other":
        sub = rng.choice([0, 4, 9])
        data = bytes(rng.getrandbits(8) for _ in range(rng.choice([0, 5, 33])))
    elif kind == "plugin":
        comp, sub, ver = 0xE500, rng.choice([1, 2, 3, 4, 5]), rng.choice([1, 2])
        data = bytes(rng.getrandbits(8) for _ in range(rng.choice([4, 16, 64])))
    elif kind == "noplugin":
        comp, sub = rng.choice([0x1000, 0x3100, 0xABCD]), rng.choice([0, 1])
        data = bytes(rng.getrandbits(8) for _ in range(rng.choice([1, 12, 48])))
    else:
        data = b""
    while len(data) % 4 and kind not in ("badjson",):
        data += b"\x00"
    return hdr(0x5544, 8 + len(data), ver, sub, comp) + data


def ed_section(rng):
    creator = rng.choice([b"O", b"B", b"H", b"M", b"\xff", b"?"])
    comp = rng.choice([0x2000, 0xE500, 0x2C00, 0x4142])
    sub = rng.choice([0, 1, 2, 3, 0x10])
    if comp == 0x2000 and creator == b"O" and sub == 1:
        data = b'{"ext": "data", "list": [1, 2]}'
    else:
        data = bytes(rng.getrandbits(8) for _ in range(rng.choice([0, 4, 20, 60])))
    while len(data) % 4:
        data += b"\x00"
    return hdr(0x4544, 12 + len(data), 1, sub, comp) + creator + b"\x00\x00\x00" + data


def lp_section(rng):
    name = rng.choice([b"", b"lpar1\x00\x00\x00", b"partition-name\x00\x00"])
    count = rng.choice([0, 1, 2, 3])
    body = struct.pack(">HBBI", rng.getrandbits(16), len(name), count,
                       rng.getrandbits(32)) + name
    body += b"".join(struct.pack(">H", rng.getrandbits(16)) for _ in range(count))
    if count % 2:
        body += b"\x00\x00"
    return hdr(0x4C50, 8 + len(body), 1, 0, rng.choice([0x2000, 0x4C50])) + body


def default_section(rng):
    sid = rng.choice([0x4448, 0x5357, 0x4C52, 0x484D, 0x4550, 0x4945, 0x4D49,
                      0x4348, 0x4549, 0x5A5A, 0x0000, 0xFFFF, 0x5048, 0x5548,
                      rng.getrandbits(16)])
    data = bytes(rng.getrandbits(8) for _ in range(rng.choice([0, 4, 16, 35])))
    return hdr(sid, 8 + len(data), rng.getrandbits(8), rng.getrandbits(8),
               rng.getrandbits(16)) + data


OPTIONAL_MAKERS = [eh_section, mt_section, ud_section, ud_section, ed_section,
                   lp_section, default_section,
                   lambda r: src_section(r, sid=0x5353)]

SEVERITIES = [0x00, 0x10, 0x20, 0x21, 0x40, 0x41, 0x44, 0x50, 0x51, 0x52,
              0x60, 0x71, 0x99]
ACTION_FLAGS = [0x0000, 0x8000, 0x4000, 0x2000, 0xA000, 0x6000, 0xE000,
                0xA800, 0xC000, 0x2800]


def build_pel(rng, idx):
    creator = rng.choice([b"O", b"O", b"O", b"B", b"H", b"M", b"T", b"Z"])
    sections = []
    if rng.random() < 0.85:
        sections.append(src_section(rng))
    for _ in range(rng.choice([0, 1, 2, 3, 5, 8])):
        sections.append(rng.choice(OPTIONAL_MAKERS)(rng))
    if rng.random() < 0.15:
        # primary SRC not in third position / more than one of them
        sections.append(src_section(rng))
    count = 2 + len(sections)
    tweak = rng.random()
    if tweak < 0.08:
        count += rng.choice([1, 3])          # claims more sections than present
    elif tweak < 0.16:
        count = max(0, count - rng.choice([1, 2, 5]))   # claims fewer
    eid = 0x50000000 + idx
    plid = rng.choice([eid, 0x50000001, 0x90ABCDEF])
    ph = private_header(rng, count, creator=creator, obmc=rng.choice([idx, 7, 123456]),
                        plid=plid, eid=eid,
                        comp=rng.choice([0x2000, 0x1000, 0xE500, 0x4142]))
    uh = user_header(rng, severity=rng.choice(SEVERITIES),
                     flags=rng.choice(ACTION_FLAGS),
                     subsystem=rng.choice([0x10, 0x70, 0x7A, 0x00, 0xFF]))
    return ph + uh + b"".join(sections)


def mutate(rng, blob):
    kind = rng.choice(["trunc", "trunc", "flip", "flip3", "insert", "randtail",
                       "badph", "baduh", "zero"])
    b = bytearray(blob)
    if kind == "trunc":
        return bytes(b[:rng.randrange(0, len(b))])
    if kind == "flip":
        b[rng.randrange(len(b))] ^= 1 << rng.randrange(8)
        return bytes(b)
    if kind == "flip3":
        for _ in range(3):
            b[rng.randrange(len(b))] = rng.getrandbits(8)
        return bytes(b)
    if kind == "insert":
        pos = rng.randrange(len(b))
        return bytes(b[:pos]) + bytes(rng.getrandbits(8) for _ in range(rng.choice([1, 2, 7]))) + bytes(b[pos:])
    if kind == "randtail":
        pos = rng.randrange(len(b))
        return bytes(b[:pos]) + bytes(rng.getrandbits(8) for _ in range(len(b) - pos))
    if kind == "badph":
        b[0:2] = struct.pack(">H", rng.choice([0x5049, 0x5548, 0, 0xFFFF]))
        return bytes(b)
    if kind == "baduh":
        if len(b) > 50:
            b[48:50] = struct.pack(">H", rng.choice([0x5549, 0x5048, 0, 0xFFFF]))
        return bytes(b)
    pos = rng.randrange(len(b))
    b[pos:pos + 8] = b"\x00" * len(b[pos:pos + 8])
    return bytes(b)


def build_corpus():
    rng = random.Random(SEED)
    good = [build_pel(rng, i + 1) for i in range(90)]
    blobs = []
    for g in good:
        blobs.append(("good", g))
    for i, g in enumerate(good):
        for _ in range(3):
            blobs.append(("mut", mutate(rng, g)))
    # systematic truncations of a few PELs (every offset in the headers,
    # coarser afterwards)
    for g in good[:6]:
        for cut in list(range(0, 90)) + list(range(90, len(g), 5)):
            blobs.append(("cut", g[:cut]))
    for n in [0, 1, 2, 7, 8, 9, 47, 48, 49, 72, 100, 300]:
        blobs.append(("rand", bytes(rng.getrandbits(8) for _ in range(n))))
    # random bytes behind valid PH/UH magic
    for _ in range(30):
        n = rng.choice([60, 120, 400])
        junk = bytearray(rng.getrandbits(8) for _ in range(n))
        junk[0:2] = b"PH"
        if rng.random() < 0.7 and n > 50:
            junk[48:50] = b"UH"
        blobs.append(("magic", bytes(junk)))
    return good, blobs


# --------------------------------------------------------------------------
# driver: runs inside a subprocess with PYTHONPATH=<root>/modules
# --------------------------------------------------------------------------

CONFIG_VARIANTS = [
    {},
    {"every_pel": True},
    {"every_pel": True, "allow_plugins": False},
    {"serviceable": True, "only": True, "severities": [4, 5]},
    {"hidden": True, "only": True},
    {"non_serviceable": True, "critSysTerm": True},
    {"severities": [0, 1, 2], "allow_plugins": False},
    {"only": True, "plid": "50000001"},
]


def snapshot_tree(path):
    res = []
    for root, dirs, files in os.walk(path):
        dirs.sort()
        for f in sorted(files):
            p = os.path.join(root, f)
            with open(p, "rb") as fd:
                digest = hashlib.sha256(fd.read()).hexdigest()
            res.append([os.path.relpath(p, path), digest])
    return res


def driver(corpus_file, result_file):
    with open(corpus_file, "rb") as fd:
        corpus = json.load(fd)
    blobs = [(k, bytes.fromhex(h)) for k, h in corpus["blobs"]]
    dir_files = [(n, bytes.fromhex(h)) for n, h in corpus["dir_files"]]

    from collections import OrderedDict
    from pel.datastream import DataStream
    from pel.peltool.config import Config
    import pel.peltool.peltool as pt

    results = []
    # <root>/modules/pel/peltool/peltool.py -> <root>; file names of the tree
    # under test may legitimately show up in warnings emitted by python
    tree_root = os.path.abspath(os.path.join(os.path.dirname(pt.__file__),
                                             "..", "..", ".."))

    def mkconfig(variant):
        c = Config()
        for k, v in variant.items():
            setattr(c, k, list(v) if isinstance(v, list) else v)
        return c

    def mkstream(data, view=False):
        return DataStream(memoryview(data) if view else data,
                          byte_order='big', is_signed=False)

    def describe(value):
        """JSON friendly, order preserving description of a result."""
        if isinstance(value, (OrderedDict, dict)):
            return {"__d": [[describe(k), describe(v)] for k, v in value.items()],
                    "__t": type(value).__name__}
        if isinstance(value, (list, tuple)):
            return {"__s": [describe(v) for v in value], "__t": type(value).__name__}
        if isinstance(value, (str, int, float, bool)) or value is None:
            return {"__v": value, "__t": type(value).__name__}
        if isinstance(value, (bytes, bytearray, memoryview)):
            return {"__b": bytes(value).hex(), "__t": type(value).__name__}
        attrs = {}
        for k, v in sorted(vars(value).items()):
            if isinstance(v, DataStream):
                attrs[k] = {"__stream_index": v.index}
            else:
                attrs[k] = describe(v)
        return {"__o": type(value).__name__, "attrs": attrs}

    def observe(name, fn, stream=None, extra=None):
        out_buf, err_buf = io.StringIO(), io.StringIO()
        rec = {"case": name}
        with contextlib.redirect_stdout(out_buf), contextlib.redirect_stderr(err_buf):
            try:
                rec["ret"] = describe(fn())
            except SystemExit as e:
                rec["exit"] = describe(e.code)
            except BaseException as e:   # noqa
                rec["exc"] = [type(e).__name__, str(e)]
        rec["stdout"] = out_buf.getvalue().replace(tree_root, "<ROOT>")
        rec["stderr"] = err_buf.getvalue().replace(tree_root, "<ROOT>")
        if stream is not None:
            rec["index"] = stream.index
        if extra is not None:
            rec["extra"] = describe(extra())
        results.append(rec)

    # ---- getSectionName ---------------------------------------------------
    names = [pt.getSectionName(i) for i in range(0x10000)]
    results.append({"case": "getSectionName/all16",
                    "sha": hashlib.sha256(json.dumps(names).encode()).hexdigest(),
                    "known": sorted(set(names))})
    for v in [-1, -0x5048, 0x15048, 0x5048 << 16, 2 ** 70 + 0x5544, True, False,
              1.5, "PH", None, b"PH", [0x5048]]:
        observe("getSectionName/%r" % (v,), lambda v=v: pt.getSectionName(v))

    # ---- parseHeader ------------------------------------------------------
    rng = random.Random(SEED + 1)
    for n in range(0, 12):
        for rep in range(3):
            data = bytes(rng.getrandbits(8) for _ in range(n))
            for view in (False, True):
                s = mkstream(data, view)
                observe("parseHeader/%d/%d/%s" % (n, rep, view),
                        lambda s=s: pt.parseHeader(s), s)
                # second call on the same stream (position dependent)
                observe("parseHeader2/%d/%d/%s" % (n, rep, view),
                        lambda s=s: pt.parseHeader(s), s)
    s = DataStream(b"\x00" * 16)   # no byte order defined
    observe("parseHeader/noorder", lambda: pt.parseHeader(s), s)
    s = DataStream(b"\xff" * 16, byte_order='little', is_signed=True)
    observe("parseHeader/little-signed", lambda: pt.parseHeader(s), s)

    # ---- generatePH / generateUH -----------------------------------------
    for i, (kind, blob) in enumerate(blobs):
        if i % 3:
            continue
        s = mkstream(blob, i % 24 == 0)
        out = OrderedDict()
        if i % 5 == 0:
            out["Private Header"] = "pre-existing"
            out["zzz"] = 1
        observe("generatePH/%d" % i, lambda: pt.generatePH(s, out), s, lambda: out)
        creator = "OBHM?"[i % 5]
        observe("generateUH/%d" % i, lambda: pt.generateUH(s, creator, out), s,
                lambda: out)
        # UH directly at offset 0 of a stream / PH twice
        s2 = mkstream(blob[48:])
        out2 = OrderedDict()
        observe("generateUH-direct/%d" % i, lambda: pt.generateUH(s2, "O", out2),
                s2, lambda: out2)

    # ---- sectionFun and the generate* family on isolated sections ---------
    rng = random.Random(SEED + 2)
    makers = [("src", lambda r: src_section(r)),
              ("ss", lambda r: src_section(r, sid=0x5353)),
              ("eh", eh_section), ("mt", mt_section), ("ud", ud_section),
              ("ed", ed_section), ("lp", lp_section), ("df", default_section)]
    direct = {
        "src": lambda st, o, h, cr, cf: pt.generateSRC(st, o, *h, cr, cf),
        "ss": lambda st, o, h, cr, cf: pt.generateSRC(st, o, *h, cr, cf),
        "eh": lambda st, o, h, cr, cf: pt.generateEH(st, o, *h, cr),
        "mt": lambda st, o, h, cr, cf: pt.generateMT(st, o, *h, cr),
        "ud": lambda st, o, h, cr, cf: pt.generateUD(st, o, *h, cr, cf),
        "ed": lambda st, o, h, cr, cf: pt.generateED(st, o, *h, cf),
        "lp": lambda st, o, h, cr, cf: pt.generateIP(st, o, *h, cr),
        "df": lambda st, o, h, cr, cf: pt.generateDefault(st, o, *h),
    }
    for label, maker in makers:
        for rep in range(14):
            sec = maker(rng)
            variants = [sec, sec[:rng.randrange(8, len(sec) + 1)],
                        sec + b"\x01\x02\x03\x04"]
            corrupted = bytearray(sec)
            corrupted[rng.randrange(len(corrupted))] ^= 0xFF
            variants.append(bytes(corrupted))
            for vi, data in enumerate(variants):
                for ci, variant in enumerate([{}, {"allow_plugins": False}]):
                    creator = rng.choice(["O", "B", "H", "M", "", "Zz"])
                    cfg = mkconfig(variant)
                    tag = "%s/%d/%d/%d" % (label, rep, vi, ci)
                    # via sectionFun
                    s = mkstream(data, rep == 13)
                    out = OrderedDict()
                    try:
                        h = pt.parseHeader(s)
                    except BaseException as e:   # noqa
                        results.append({"case": "hdrfail/" + tag,
                                        "exc": [type(e).__name__, str(e)]})
                        continue
                    observe("sectionFun/" + tag,
                            lambda: pt.sectionFun(s, out, *h, creator, cfg), s,
                            lambda: out)
                    # via the dedicated generate function
                    s = mkstream(data, rep == 12)
                    out = OrderedDict([("keep", 0)])
                    h = pt.parseHeader(s)
                    observe("generate/" + tag,
                            lambda: direct[label](s, out, h, creator, cfg), s,
                            lambda: out)
                    # wrong decoder for this ID: every section through Default
                    # and through MT (fixed size reads)
                    s = mkstream(data)
                    out = OrderedDict()
                    h = pt.parseHeader(s)
                    observe("generateDefault-any/" + tag,
                            lambda: pt.generateDefault(s, out, *h), s, lambda: out)
                    s = mkstream(data)
                    out = OrderedDict()
                    h = pt.parseHeader(s)
                    observe("generateMT-any/" + tag,
                            lambda: pt.generateMT(s, out, *h, creator), s,
                            lambda: out)
    # sectionFun with every possible "named" id plus some others on a fixed body
    body = bytes(range(200))
    all_ids = [0x5048, 0x5548, 0x5053, 0x5353, 0x4548, 0x4D54, 0x4448, 0x5357,
               0x4C50, 0x4C52, 0x484D, 0x4550, 0x4945, 0x4D49, 0x4348, 0x5544,
               0x4549, 0x4544, 0, 1, 0xFFFF, 0x5054, 0x5052, 0x10000 + 0x5544,
               -1, 0x5544 + 0.0, True]
    for sid in all_ids:
        for slen in (8, 12, 40, 208, 209, 0, 4):
            s = mkstream(body)
            out = OrderedDict()
            cfg = mkconfig({})
            observe("sectionFun-id/%r/%d" % (sid, slen),
                    lambda: pt.sectionFun(s, out, sid, slen, 1, 2, 0x2000, "O", cfg),
                    s, lambda: out)

    # ---- buildOutput ------------------------------------------------------
    rng = random.Random(SEED + 3)
    pool = ["User Data", "Primary SRC", "Secondary SRC", "Unknown",
            "Extended User Data", "User Data 1", "", "Ünï", 5, None, (1, 2)]
    for rep in range(150):
        n = rng.choice([0, 1, 2, 3, 5, 9, 20])
        sections = []
        for k in range(n):
            d = OrderedDict()
            d[rng.choice(pool if rep % 4 == 0 else pool[:8])] = {"n": k}
            if rng.random() < 0.1:
                d["second key"] = k
            if rep % 10 == 9 and rng.random() < 0.2:
                d = OrderedDict()      # empty section dict -> error path
            sections.append(d)
        out = OrderedDict()
        if rep % 3 == 0:
            out["Private Header"] = 1
            out["User Data"] = "old"
            out["User Data 0"] = "old0"
        observe("buildOutput/%d" % rep, lambda: pt.buildOutput(sections, out),
                None, lambda: [out, sections])
    observe("buildOutput/tuple", lambda: pt.buildOutput(({"a": 1}, {"a": 2}), {}))
    observe("buildOutput/notdict", lambda: pt.buildOutput([["a"]], {}))

    # ---- parsePEL / parsePELSummary --------------------------------------
    for i, (kind, blob) in enumerate(blobs):
        variants = CONFIG_VARIANTS if kind == "good" else \
            [CONFIG_VARIANTS[1], CONFIG_VARIANTS[(i % (len(CONFIG_VARIANTS) - 1)) + 1
                                                 if i % 2 else 0]]
        for ci, variant in enumerate(variants):
            for exit_on_error in ((False, True) if ci < 2 else (False,)):
                s = mkstream(blob, (i + ci) % 16 == 0)
                cfg = mkconfig(variant)
                observe("parsePEL/%d/%d/%s" % (i, ci, exit_on_error),
                        lambda: pt.parsePEL(s, cfg, exit_on_error), s)
            s = mkstream(blob, (i + ci) % 16 == 1)
            cfg = mkconfig(variant)
            observe("parsePELSummary/%d/%d" % (i, ci),
                    lambda: pt.parsePELSummary(s, cfg), s)
    # repeated decodes of the same data in one process
    for i in (0, 1, 2, 3):
        for rep in range(3):
            s = mkstream(blobs[i][1])
            cfg = mkconfig({"every_pel": True})
            observe("parsePEL-repeat/%d/%d" % (i, rep),
                    lambda: pt.parsePEL(s, cfg, False), s)
            s = mkstream(blobs[i][1])
            observe("parsePELSummary-repeat/%d/%d" % (i, rep),
                    lambda: pt.parsePELSummary(s, cfg), s)
    # bad argument types
    observe("parsePEL/none-stream", lambda: pt.parsePEL(None, mkconfig({}), False))
    observe("parsePELSummary/none-config",
            lambda: pt.parsePELSummary(mkstream(blobs[0][1]), None))
    observe("parsePEL/none-config",
            lambda: pt.parsePEL(mkstream(blobs[0][1]), None, True))

    # ---- main() with many option combinations ----------------------------
    def reset_workdir():
        for d in ("in", "outdir", "emptydir"):
            shutil.rmtree(d, ignore_errors=True)
            os.mkdir(d)
        for name, data in dir_files:
            with open(os.path.join("in", name), "wb") as fd:
                fd.write(data)
        os.mkdir(os.path.join("in", "subdir"))
        with open(os.path.join("in", "subdir", "nested.pel"), "wb") as fd:
            fd.write(dir_files[0][1])
        with open("exclude.txt", "w") as fd:
            fd.write("BD8D1001\nBD702004 11002610\n")

    good_names = [n for n, _ in dir_files if n.startswith("good")]
    bad_names = [n for n, _ in dir_files if not n.startswith("good")]
    arg_sets = [
        ["-p", "in", "-l"], ["-p", "in", "-l", "-E"], ["-p", "in", "-l", "-E", "-r"],
        ["-p", "in", "-l", "-N"], ["-p", "in", "-l", "-H", "-O"], ["-p", "in", "-l", "-t"],
        ["-p", "in", "-l", "-s", "-N", "-H"], ["-p", "in", "-l", "-E", "-x"],
        ["-p", "in", "-l", "-S", "Informational", "Critical"],
        ["-p", "in", "-l", "-O", "-S", "Unrecoverable"],
        ["-p", "in", "-l", "-E", "-e", ".pel"], ["-p", "in", "-l", "-E", "-e", ".bin"],
        ["-p", "in", "-l", "-E", "-P"],
        ["-p", "in", "-a"], ["-p", "in", "-a", "-E"], ["-p", "in", "-a", "-E", "-P"],
        ["-p", "in", "-a", "-E", "-x"], ["-p", "in", "-a", "-H", "-O"],
        ["-p", "in", "-a", "-E", "-r", "-e", ".pel"],
        ["-p", "in", "-a", "-S", "Recovered", "Predictive"],
        ["-p", "in", "-n"], ["-p", "in", "-n", "-E"], ["-p", "in", "-n", "-H", "-O"],
        ["-p", "in", "-n", "-O", "-S", "Predictive"],
        ["-p", "in", "--plid", "50000001"], ["-p", "in", "--plid", "0x90abcdef", "-E"],
        ["-p", "in", "--plid", "50000001", "-x"], ["-p", "in", "--plid", "123"],
        ["-p", "in", "--src", "BD8D"], ["-p", "in", "--src", "BD8D1001", "-E"],
        ["-p", "in", "--src", "1100", "-E", "-x"], ["-p", "in", "--src", "B" * 33],
        ["-p", "in", "--src-exclude", "exclude.txt", "-E"],
        ["-p", "in", "--src-exclude", "missing.txt"],
        ["-p", "in", "-i", "50000003"], ["-p", "in", "-i", "0x50000004", "-x"],
        ["-p", "in", "-i", "5000FFFF"], ["-p", "in", "-i", "12"],
        ["-p", "in", "--bmc-id", "7"], ["-p", "in", "--bmc-id", "123456", "-E"],
        ["-p", "in", "--bmc-id", "99999999"],
        ["-p", "in", "-j"], ["-p", "in", "-j", "-o", "outdir"],
        ["-p", "in", "-j", "-o", "outdir", "-c"], ["-p", "in", "-j", "-c", "-E"],
        ["-p", "in", "-j", "-o", "missingdir"], ["-p", "in", "-j", "-E", "-e", ".pel", "-P"],
        ["-p", "in", "-d", "50000002"], ["-p", "in", "-D"],
        ["-p", "emptydir", "-l"], ["-p", "emptydir", "-a"], ["-p", "emptydir", "-n"],
        ["-p", "missing", "-l"], ["-l"], ["-p", "in"], ["--bogus"],
    ]
    for n in good_names[:10] + bad_names[:25]:
        arg_sets.append(["-f", os.path.join("in", n)])
    for n in good_names[:6] + bad_names[:6]:
        arg_sets.append(["-f", os.path.join("in", n), "-E"])
        arg_sets.append(["-f", os.path.join("in", n), "-E", "-c"])
        arg_sets.append(["-f", os.path.join("in", n), "-E", "-x", "-P"])
    arg_sets.append(["-f", "in/does-not-exist"])
    arg_sets.append(["-f", "in"])

    for ai, argv in enumerate(arg_sets):
        reset_workdir()
        old_argv = sys.argv
        sys.argv = ["peltool.py"] + argv
        try:
            observe("main/%d/%s" % (ai, " ".join(argv)), pt.main, None,
                    lambda: snapshot_tree("."))
        finally:
            sys.argv = old_argv

    with open(result_file, "w") as fd:
        json.dump(results, fd)


# --------------------------------------------------------------------------
# top level comparison
# --------------------------------------------------------------------------


def make_fake_registry(base):
    """
    A stand-in for the (not installed) pel_registry package so that the
    "Error Details"/"Message" and component name paths are reached too.
    """
    pkg = os.path.join(base, "pel_registry")
    os.makedirs(pkg)
    with open(os.path.join(pkg, "__init__.py"), "w") as fd:
        fd.write("import os\n\n"
                 "def get_registry_path():\n"
                 "    return os.path.join(os.path.dirname(__file__),\n"
                 "                        'message_registry.json')\n")
    pels = [
        {"SRC": {"ReasonCode": "0x1001", "Words6To9": {
            "6": {"Description": "first: word", "AdditionalDataPropSource": "W6"},
            "7": {"AdditionalDataPropSource": "W7"},
            "9": {"Description": "last {word}", "AdditionalDataPropSource": "W9"}}},
         "Documentation": {"Message": "Something \"failed\": %1 and %2",
                           "MessageArgSources": ["SRCWord6", "SRCWord9"]}},
        {"SRC": {"ReasonCode": "0x2002", "Type": "BD", "Words6To9": {}},
         "Documentation": {"Message": "Plain message"}},
        {"SRC": {"Type": "BD"}, "Documentation": {"Message": "no reason code"}},
        {"SRC": {"ReasonCode": "0x2610", "Type": "11"},
         "Documentation": {"Message": "Power fault {"}},
        {"SRC": {"ReasonCode": "0x1B99", "Type": "BC"},
         "Documentation": {"Message": ""}},
    ]
    with open(os.path.join(pkg, "message_registry.json"), "w") as fd:
        json.dump({"PELs": pels}, fd)
    with open(os.path.join(pkg, "O_component_ids.json"), "w") as fd:
        json.dump({"2000": "bmc common function", "E500": "bmc hw diags"}, fd)
    with open(os.path.join(pkg, "B_component_ids.json"), "w") as fd:
        json.dump({"1000": "hostboot: one"}, fd)


def mode_env(root, extra_path):
    env = dict(os.environ)
    env["PYTHONPATH"] = os.pathsep.join(
        [os.path.join(root, "modules")] + ([extra_path] if extra_path else []))
    env["PYTHONDONTWRITEBYTECODE"] = "1"
    env["PYTHONHASHSEED"] = "0"
    return env


def run_driver(root, corpus_file, workdir, optimize, extra_path):
    os.makedirs(workdir)
    result_file = os.path.join(workdir, "..", os.path.basename(workdir) + ".json")
    env = mode_env(root, extra_path)
    cmd = [sys.executable] + (["-O"] if optimize else []) + \
        [os.path.abspath(__file__), "--driver", corpus_file, result_file]
    proc = subprocess.run(cmd, cwd=workdir, env=env, capture_output=True, text=True)
    if proc.returncode != 0:
        print("driver failed for %s (optimize=%s):\n%s\n%s" %
              (root, optimize, proc.stdout[-3000:], proc.stderr[-3000:]))
        sys.exit(1)
    with open(result_file) as fd:
        return json.load(fd)


def run_cli(root, workdir, dir_files, optimize, extra_path):
    """Real command line runs of peltool.py of the given tree."""
    res = []
    env = mode_env(root, extra_path)
    tool = os.path.join(root, "modules", "pel", "peltool", "peltool.py")
    names = [n for n, _ in dir_files]
    cmds = [["-f", "in/" + names[0]], ["-f", "in/" + names[1], "-E", "-c"],
            ["-f", "in/" + names[-1], "-E"], ["-f", "in/" + names[-2], "-E", "-x"],
            ["-p", "in", "-a", "-E"], ["-p", "in", "-l", "-E"],
            ["-p", "in", "-j", "-o", "outdir", "-c", "-E"], ["-p", "in", "-n"]]
    for ci, args in enumerate(cmds):
        shutil.rmtree(workdir, ignore_errors=True)
        os.makedirs(os.path.join(workdir, "in"))
        os.makedirs(os.path.join(workdir, "outdir"))
        for name, data in dir_files:
            with open(os.path.join(workdir, "in", name), "wb") as fd:
                fd.write(data)
        cmd = [sys.executable] + (["-O"] if optimize else []) + [tool] + args
        proc = subprocess.run(cmd, cwd=workdir, env=env, capture_output=True)
        res.append({"case": "cli/%d/%s/O=%s" % (ci, " ".join(args), optimize),
                    "rc": proc.returncode,
                    "stdout": proc.stdout.decode("latin-1").replace(root, "<ROOT>"),
                    "stderr": proc.stderr.decode("latin-1").replace(root, "<ROOT>"),
                    "tree": snapshot_tree(workdir)})
    return res


def main():
    if len(sys.argv) == 4 and sys.argv[1] == "--driver":
        driver(sys.argv[2], sys.argv[3])
        return 0
    if len(sys.argv) != 3:
        print(__doc__)
        return 2
    pristine, patched = os.path.abspath(sys.argv[1]), os.path.abspath(sys.argv[2])

    good, blobs = build_corpus()
    rng = random.Random(SEED + 9)
    dir_files = [("good%02d.pel" % i, g) for i, g in enumerate(good[:24])]
    muts = [b for k, b in blobs if k == "mut"]
    dir_files += [("mut%02d.pel" % i, m) for i, m in enumerate(rng.sample(muts, 24))]
    dir_files += [("trunc%02d.bin" % i, good[i][:c])
                  for i, c in enumerate([0, 5, 8, 30, 48, 56, 71, 72, 80, 120, 151])]
    dir_files += [("50000002_dup.pel", good[1]), ("readme.txt", b"not a pel at all")]

    tmp = tempfile.mkdtemp(prefix="diffcheck_tmp_",
                           dir=os.path.dirname(os.path.abspath(__file__)))
    try:
        corpus_file = os.path.join(tmp, "corpus.json")
        with open(corpus_file, "w") as fd:
            json.dump({"blobs": [[k, b.hex()] for k, b in blobs],
                       "dir_files": [[n, b.hex()] for n, b in dir_files]}, fd)

        fake = os.path.join(tmp, "fakepkgs")
        make_fake_registry(fake)

        observations = {}
        for label, root in (("pristine", pristine), ("patched", patched)):
            obs = []
            # normal interpreter with a message registry available,
            # python -O without one
            for optimize in (False, True):
                extra_path = None if optimize else fake
                part = run_driver(root, corpus_file,
                                  os.path.join(tmp, "%s_O%d" % (label, optimize), "work"),
                                  optimize, extra_path)
                for rec in part:
                    rec["case"] = "O=%d/" % optimize + rec["case"]
                obs.extend(part)
                obs.extend(run_cli(root, os.path.join(tmp, "cli_work"), dir_files,
                                   optimize, extra_path))
            observations[label] = obs

        a, b = observations["pristine"], observations["patched"]
        differences = 0
        if len(a) != len(b):
            print("different number of observations: %d vs %d" % (len(a), len(b)))
            differences += 1
        for ra, rb in zip(a, b):
            if ra != rb:
                differences += 1
                if differences <= 10:
                    print("DIFFERENCE in case %s" % ra.get("case"))
                    for key in sorted(set(ra) | set(rb)):
                        if ra.get(key) != rb.get(key):
                            print("  %s:\n    pristine: %.600r\n    patched:  %.600r" %
                                  (key, ra.get(key), rb.get(key)))
        if differences:
            print("DIFFERENT (%d of %d cases differ)" % (differences, len(a)))
            return 1
        # sanity: the corpus must really reach the interesting code
        decoded = sum(1 for r in a if r["case"].split("/")[1] == "parsePEL"
                      and r.get("ret", {}).get("__s", [{}])[0].get("__v"))
        if decoded < 100:
            print("corpus too weak: only %d successful parsePEL decodes" % decoded)
            return 1
        print("IDENTICAL (%d cases)" % len(a))
        return 0
    finally:
        shutil.rmtree(tmp, ignore_errors=True)


if __name__ == "__main__":
    sys.exit(main())
