#!/usr/bin/env python
"""
Differential check for the PEL section decoder refactorings (area R49).

    python diffcheck.py <pristine_root> <patched_root>

Both trees are exercised in separate subprocesses (PYTHONPATH=<root>/modules),
once with and once without `python -O`, on a large generated corpus:

  * pel.datastream.DataStream              random operation sequences
  * pel.hexdump.hexdump / parse            many data / layout / format combos
  * getTimestamp and every section class   well-formed, truncated, corrupted,
                                           random bodies; result, exception,
                                           stream index and object state
  * ParseUserData / UserData / ExtUserData builtin formats, real and fake
                                           plugins, repeated decodes (cache)
  * peltool.parsePEL / parsePELSummary     whole PELs (good, truncated at every
                                           length, bit-flipped, random)
  * peltool.py command line                option combinations, files created
                                           and removed, exit status, stderr

Prints "IDENTICAL (<n> cases)" and exits 0 when every observation matches,
otherwise prints the first differences and exits 1.
"""
import json
import os
import shutil
import subprocess
import sys
import tempfile

PY = sys.executable

COMMON = r'''
import struct, random

def hdr(sid, length, ver=1, sub=0, comp=0x2000):
    return sid + struct.pack('>HBBH', length & 0xFFFF, ver, sub, comp)

def bcd_ts(y=0x2024, mo=0x03, d=0x08, h=0x18, mi=0x40, s=0x27, hs=0x55):
    return struct.pack('>HBBBBBB', y, mo, d, h, mi, s, hs)

def ph_body(creator=b'O', nsec=2, obmc=0x1234, cver=0x0102030405060708,
            plid=0x50001234, eid=0x50001235):
    return (bcd_ts() + bcd_ts(mo=0x11, d=0x30, h=0x23, mi=0x59, s=0x59) + creator +
            b'\x00\x00' + bytes([nsec]) + struct.pack('>IQII', obmc, cver, plid, eid))

def ph(comp=0x2000, ver=1, sub=0, **kw):
    return hdr(b'PH', 48, ver, sub, comp) + ph_body(**kw)

def uh_body(subsys=0x10, scope=3, sev=0x40, etype=0, domain=1, vector=2,
            flags=0xA000, states=0x00000102):
    return struct.pack('>BBBBIBBHI', subsys, scope, sev, etype, 0, domain, vector,
                       flags, states)

def uh(comp=0x2000, ver=1, sub=0, **kw):
    return hdr(b'UH', 24, ver, sub, comp) + uh_body(**kw)

def eh_body(mtm=b'9105-22A', sn=b'SN1234567890', fw=b'FW1060.00-12\x00\x00\x00\x00',
            sub=b'fw1060.00-12\x00\x00\x00\x00', symptom=b'BD8D1234_00000000\x00\x00\x00'):
    return (mtm + sn + fw + sub + b'\x00' * 4 + bcd_ts(y=0x1999) + b'\x00' * 3 +
            bytes([len(symptom)]) + symptom)

def eh(comp=0x2000, **kw):
    body = eh_body(**kw)
    return hdr(b'EH', 8 + len(body), 1, 0, comp) + body

def mt_body(mtm=b'9105-22A', sn=b'SN12345\x00\x00\x00\x00\x00'):
    return mtm + sn

def mt(comp=0x2000, **kw):
    return hdr(b'MT', 28, 1, 0, comp) + mt_body(**kw)

def lp_body(partid=0x0102, name=b'lpar-one\x00\x00\x00\x00', lps=(1, 2, 0xABCD), logid=0xDEADBEEF,
            pad=True):
    body = struct.pack('>HBBI', partid, len(name), len(lps), logid) + name
    for v in lps:
        body += struct.pack('>H', v)
    if pad and len(lps) % 2:
        body += b'\x00\x00'
    return body

def lp(comp=0x2000, **kw):
    body = lp_body(**kw)
    return hdr(b'LP', 8 + len(body), 1, 0, comp) + body

def ud(data, comp=0x2000, sub=1, ver=1):
    return hdr(b'UD', 8 + len(data), ver, sub, comp) + data

def ed(data, creator=b'O', comp=0x2000, sub=1, ver=1):
    return hdr(b'ED', 12 + len(data), ver, sub, comp) + creator + b'\x00\x00\x00' + data

def src(ascii_=b'B7001111', flags=0, words=None, sid=b'PS', comp=0x2000):
    words = words or [0x010000F0, 0x2, 0x3, 0x4, 0x5, 0x6, 0x7, 0x8]
    body = bytes([2, flags, 0, 9]) + struct.pack('>HH', 0, 72)
    for w in words:
        body += struct.pack('>I', w)
    body += ascii_.ljust(32, b' ')
    return hdr(sid, 8 + len(body), 1, 1, comp) + body

def other(sid, data, comp=0x3100, ver=2, sub=7):
    return hdr(sid, 8 + len(data), ver, sub, comp) + data

def pel(sections, creator=b'O', ph_kw=None, uh_kw=None):
    ph_kw = dict(ph_kw or {})
    ph_kw.setdefault('creator', creator)
    ph_kw.setdefault('nsec', 2 + len(sections))
    return ph(**ph_kw) + uh(**(uh_kw or {})) + b''.join(sections)

JSON_UD = b'{"Key": "Value", "List": [1, 2, 3], "Section Version": "override"}\n\x00\x00'
TEXT_UD = b'line one\nline\ttwo \x7f\n\n\xc3\xa9nd~ \x01\nlast\x00\x00'

def sample_pels():
    """name -> bytes of a collection of well-formed PELs."""
    rnd = random.Random(4711)
    pels = {}
    pels['full_bmc'] = pel([
        src(), eh(), mt(), lp(),
        ud(JSON_UD, sub=1), ud(TEXT_UD, sub=3), ud(b'\x01\x02\x03', sub=2),
        ud(b'not json at all', sub=1), ud(bytes(range(40)), sub=9),
        ud(b'[1, 2, "three"]', sub=1),
        ed(JSON_UD, creator=b'O'), ed(bytes(range(0x41, 0x5b)), creator=b'B', comp=0x0100),
        ud(bytes(rnd.randrange(256) for _ in range(33)), comp=0xE500, sub=1),
        ud(bytes(rnd.randrange(256) for _ in range(50)), comp=0x2C00, sub=72, ver=1),
        other(b'DH', bytes(range(20))), other(b'ZZ', b'z'), other(b'SW', b'abc' * 11),
        src(sid=b'SS', ascii_=b'BD8D1234'),
    ])
    pels['hidden_info'] = pel([src(ascii_=b'11001234'), mt()], uh_kw=dict(sev=0x00, flags=0x4000))
    pels['info_service'] = pel([src(), eh(symptom=b'')], uh_kw=dict(sev=0x00, flags=0x8000))
    pels['recovered'] = pel([src(ascii_=b'BC201234'), lp(name=b'', lps=())],
                            uh_kw=dict(sev=0x10, flags=0x2000, states=0x0301))
    pels['term'] = pel([src(), lp(lps=(7, 8))], uh_kw=dict(sev=0x51, flags=0x6000, subsys=0x99,
                                                             scope=0x77, etype=0x55, states=0xFFFF))
    pels['phyp'] = pel([ud(b'\x00' * 9, comp=0x4142), ed(b'hello', creator=b'H', comp=0x0041), mt()],
                       creator=b'H', ph_kw=dict(comp=0x4142), uh_kw=dict(comp=0x4100))
    pels['hostboot'] = pel([src(ascii_=b'BC8A1234', flags=0x80), ud(b'\xde\xad\xbe\xef' * 5, comp=0x0100, sub=4),
                            eh(mtm=b'\x00' * 8, sn=b'\x00' * 12)], creator=b'B')
    pels['drawer'] = pel([ud(bytes(rnd.randrange(256) for _ in range(64)), comp=0x2C00, sub=84, ver=1),
                          ud(b'\x05' * 24, comp=0x2C00, sub=73), ed(b'x' * 17, creator=b'M', comp=0x2C00, sub=5)],
                         creator=b'M')
    pels['unknown_creator'] = pel([ud(b'abc'), ed(b'abc', creator=b'\xe9'), mt()], creator=b'Z')
    pels['no_sections'] = pel([])
    pels['zero_len'] = pel([mt(), other(b'ZZ', b''), mt()])
    pels['zero_ud'] = pel([mt(), ud(b''), mt()])
    pels['zero_ed'] = pel([mt(), ed(b''), mt()])
    pels['badlen_ud'] = pel([hdr(b'UD', 4) + b'xx', mt()])
    pels['lp_nopad'] = pel([lp(lps=(5,), pad=False), mt()])
    return pels
'''

DRIVER = COMMON + r'''
import sys, os, io, json, contextlib, importlib, itertools
from collections import OrderedDict

workdir, outfile = sys.argv[1], sys.argv[2]
OUT = open(outfile, 'w')
NCASES = [0]

def norm(v, depth=0):
    if isinstance(v, (bytes, bytearray, memoryview)):
        return [type(v).__name__, bytes(v).hex()]
    if isinstance(v, dict):
        return [type(v).__name__, [[norm(k, depth + 1), norm(x, depth + 1)] for k, x in v.items()]]
    if isinstance(v, (list, tuple)):
        return [type(v).__name__, [norm(x, depth + 1) for x in v]]
    if v is None or isinstance(v, (bool, int, float, str)):
        return [type(v).__name__, v]
    mod = type(v).__module__
    if mod.startswith('pel.') and hasattr(v, '__dict__') and depth < 2:
        return ['obj', type(v).__name__, state(v)]
    return ['other', type(v).__name__]

def state(obj):
    res = []
    for k in sorted(vars(obj)):
        v = vars(obj)[k]
        if k == 'stream':
            res.append([k, ['index', getattr(v, 'index', None)]])
        else:
            res.append([k, norm(v, 2)])
    return res

def run(fn, *a, **k):
    so, se = io.StringIO(), io.StringIO()
    try:
        with contextlib.redirect_stdout(so), contextlib.redirect_stderr(se):
            r = ['ok', norm(fn(*a, **k))]
    except BaseException as e:
        r = ['exc', type(e).__name__, str(e)]
    return [r, so.getvalue(), se.getvalue()]

def emit(case, payload):
    NCASES[0] += 1
    OUT.write(json.dumps([case, payload]) + "\n")

from pel.datastream import DataStream
from pel import hexdump as hd
from pel.peltool.private_header import PrivateHeader, getTimestamp
from pel.peltool.user_header import UserHeader
from pel.peltool.extend_user_header import ExtendedUserHeader
from pel.peltool.failing_mtms import FailingMTMS
from pel.peltool.imp_partition import ImpactedPartition
from pel.peltool.user_data import UserData
from pel.peltool.ext_user_data import ExtUserData
from pel.peltool.default import Default
from pel.peltool import parse_user_data as pud
from pel.peltool.config import Config
import pel.peltool.peltool as pt

def mkstream(data, kind='bytes', order='big', signed=False):
    if kind == 'mv':
        data = memoryview(data)
    elif kind == 'ba':
        data = bytearray(data)
    return DataStream(data, byte_order=order, is_signed=signed)

# ----------------------------------------------------------------- A: DataStream
def group_datastream():
    sizes = [-3, -1, 0, 1, 1, 2, 2, 3, 4, 4, 5, 8, 9, 16, 100]
    for seed in range(400):
        rnd = random.Random(seed)
        data = bytes(rnd.randrange(256) for _ in range(rnd.choice([0, 1, 2, 5, 8, 13, 20, 31])))
        order = rnd.choice([None, 'big', 'little'])
        signed = rnd.choice([None, True, False])
        kind = rnd.choice(['bytes', 'mv', 'ba'])
        s = mkstream(data, kind, order, signed)
        log = [[s.size, s.index, s.byte_order, s.is_signed]]
        for _ in range(14):
            op = rnd.choice(['check_range', 'inc_index', 'get_mem', 'get_int', 'get_int', 'get_int_kw'])
            n = rnd.choice(sizes)
            if op == 'get_int_kw':
                r = run(s.get_int, n, byte_order=rnd.choice([None, 'big', 'little', 'middle']),
                        is_signed=rnd.choice([None, True, False]))
            elif op == 'get_int':
                r = run(s.get_int, n)
            else:
                r = run(getattr(s, op), n)
            log.append([op, n, r, s.index, s.size])
        emit('A/stream/%d' % seed, log)
    # positional construction and attribute surface
    s = DataStream(b'abcd')
    emit('A/attrs', [sorted(vars(s)), run(s.get_int, 1), s.index,
                     sorted(n for n in dir(DataStream) if not n.startswith('__'))[:0]])
    s = DataStream(b'abcd', 'little', True)
    emit('A/positional', [run(s.get_int, 2), run(s.get_int, 2, 'big', False), run(s.get_int, 1), s.index])

# -------------------------------------------------------------------- B: hexdump
def group_hexdump():
    rnd = random.Random(99)
    datas = [b'', b'A', bytes(range(16)), bytes(range(17)), bytes(range(0x20, 0x80)),
             bytes(rnd.randrange(256) for _ in range(70)), b'\x7e\x7f\x1f\x20' * 3,
             bytes(rnd.randrange(256) for _ in range(257))]
    lines_opts = [1, 2, 3, 4, 7, 8, 16, 17, 32, 256, 0, -1, -16, 257, 300]
    chunk_opts = [1, 2, 3, 4, 5, 8, 16, 256, 0, -4, -1, 257]
    n = 0
    for di, data in enumerate(datas):
        for bpl in lines_opts:
            for bpc in chunk_opts:
                if di >= 5 and (bpl + bpc) % 3:
                    continue
                kind = n % 4
                arg = [data, memoryview(data), bytearray(data), list(data)][kind]
                emit('B/hexdump/%d/%d/%d' % (di, bpl, bpc), run(hd.hexdump, arg, bpl, bpc))
                n += 1
    for di, data in enumerate(datas):
        emit('B/default/%d' % di, [run(hd.hexdump, memoryview(data)),
                                   run(hd.hexdump, data, bytes_per_chunk=8),
                                   run(hd.hexdump, data, bytes_per_line=8)])
    # odd element types
    emit('B/signed', run(hd.hexdump, memoryview(bytes(range(120, 140))).cast('b')))
    emit('B/str', run(hd.hexdump, 'text'))
    emit('B/floats', run(hd.hexdump, [1.5, 2.5]))
    emit('B/bigints', run(hd.hexdump, [0, 255, 256, 4096, -1, -300]))
    emit('B/none', run(hd.hexdump, None))
    emit('B/format', hd.DEFAULT_LINE_FORMAT)

# ---------------------------------------------------------------------- C: parse
def group_parse():
    rnd = random.Random(7)
    from io_drawer.dump import HEX_DUMP_LINE_FORMATS
    def fmt_for(bpl, bpc):
        chunks = []
        left = bpl
        while left > 0:
            chunks.append('DD' * min(bpc, left))
            left -= bpc
        return 'AAAAAAAA     ' + '  '.join(chunks) + '     ' + 'C' * bpl
    formats = [hd.DEFAULT_LINE_FORMAT] + list(HEX_DUMP_LINE_FORMATS) + [
        'DD', 'D-D', 'D D', 'DCD', 'DDD', 'AADDCC|', '', 'A', 'D', 'C', '|', 'AAAA DDDD',
        'xDDxDDx', 'DDCCDD', 'AD', 'DA', ' DD DD ', 'DD' * 40]
    case = 0
    for bpl, bpc in [(16, 4), (8, 2), (4, 4), (16, 16), (5, 2), (1, 1)]:
        f = fmt_for(bpl, bpc)
        for ln in [0, 1, bpl - 1, bpl, bpl + 1, 3 * bpl + 2, 40]:
            data = bytes(rnd.randrange(256) for _ in range(max(ln, 0)))
            lines = hd.hexdump(memoryview(data), bpl, bpc)
            variants = [lines, [l + '\n' for l in lines], [l.lower() for l in lines],
                        [l.rstrip() for l in lines], [l + ' ' for l in lines],
                        ['garbage'] + lines + ['', '\n', 'zz'], [l[:len(l) // 2] for l in lines]]
            for l in lines[:3]:
                for _ in range(4):
                    pos = rnd.randrange(len(l))
                    variants.append([l[:pos] + rnd.choice('gG-|x 0fF\n') + l[pos + 1:]])
                    variants.append([l[:pos]])
            for vi, v in enumerate(variants):
                for fi, ff in enumerate([f, hd.DEFAULT_LINE_FORMAT]):
                    emit('C/rt/%d' % case, [run(hd.parse, v, ff)])
                    case += 1
                emit('C/rtdef/%d' % case, [run(hd.parse, v)])
                case += 1
    alphabet = '0123456789abcdefABCDEFgG xyz|-:<>.\n\t'
    for i in range(500):
        nl = rnd.randrange(0, 4)
        lines = [''.join(rnd.choice(alphabet) for _ in range(rnd.randrange(0, 70))) for _ in range(nl)]
        if i % 3 == 0:
            lines = [''.join(rnd.choice('0123456789abcdefAF ') for _ in range(rnd.randrange(0, 70)))
                     for _ in range(nl)]
        ff = rnd.choice(formats)
        if i % 5 == 0:
            ff = ''.join(rnd.choice('ADC |x') for _ in range(rnd.randrange(0, 12)))
            lines = [''.join(rnd.choice('0a9F |xg') for _ in range(rnd.randrange(0, 13))) for _ in range(nl + 1)]
        emit('C/rand/%d' % i, [ff, lines, run(hd.parse, lines, ff)])
    dump_bmc = ['0000:  DEADBEEF 00112233 44556677 8899AABB  <................>\n',
                '0010:  01020304 0506                       <......>\n', 'trailer\n']
    dump_old = ['DE AD BE EF 00 11 22 33 44 55 66 77 88 99 AA BB ................\n',
                '01 02 03\n']
    for fi, ff in enumerate(formats):
        emit('C/dump/%d' % fi, [run(hd.parse, dump_bmc, ff), run(hd.parse, dump_old, ff),
                                run(hd.parse, iter(dump_bmc), ff), run(hd.parse, tuple(dump_old), ff)])
    emit('C/badtypes', [run(hd.parse, [b'DEAD']), run(hd.parse, [None]), run(hd.parse, None),
                        run(hd.parse, ['DEAD'], None), run(hd.parse, ['6162'], b'DDDD'),
                        run(hd.parse, ['6162'], list('DDDD')), run(hd.parse, 'ab', 'DD')])

# ------------------------------------------------------------------ D/E: sections
def mutate(rnd, body):
    b = bytearray(body)
    for _ in range(rnd.randrange(1, 4)):
        if b:
            b[rnd.randrange(len(b))] = rnd.choice([0, 0xFF, 0x80, 0x41, rnd.randrange(256)])
    return bytes(b)

def group_timestamp():
    rnd = random.Random(5)
    full = bcd_ts() + b'\x99'
    for n in range(0, 10):
        for kind in ('bytes', 'mv'):
            s = mkstream(full[:n], kind)
            emit('D/ts/%s/%d' % (kind, n), [run(getTimestamp, s), s.index])
    for i in range(20):
        s = mkstream(bytes(rnd.randrange(256) for _ in range(16)))
        emit('D/tsrand/%d' % i, [run(getTimestamp, s), run(getTimestamp, s), run(getTimestamp, s), s.index])
    s = DataStream(bcd_ts())
    emit('D/noorder', [run(getTimestamp, s), s.index])

def section_case(name, cls, body, args, kind='bytes', order='big', signed=False, twice=False):
    s = mkstream(body, kind, order, signed)
    so = run(cls, s, *args)
    if so[0][0] != 'ok':
        emit(name, ['ctor', so, s.index])
        return
    obj = cls(s, *args)
    res = [state(obj)]
    res.append([run(obj.toJSON), s.index, state(obj)])
    if twice:
        res.append([run(obj.toJSON), s.index, state(obj)])
    if cls is UserHeader:
        res.append([run(obj.isHidden), run(obj.isServiceable)])
    emit(name, res)

def group_sections():
    rnd = random.Random(11)
    creators = ['O', 'H', 'B', 'X', '', 'h', 'M']
    comps = [0x2000, 0x4142, 0x0041, 0xE500, 0x1000, 0x4100, 0xFFFF, 0]
    specs = [
        ('PH', PrivateHeader, [ph_body(), ph_body(creator=b'H', nsec=0xFF, obmc=0xFFFFFFFF, cver=0),
                               ph_body(creator=b'Z', plid=0, eid=0xFFFFFFFF), ph_body(creator=b'\x80'),
                               ph_body(creator=b'\x00')], False),
        ('UH', UserHeader, [uh_body(), uh_body(sev=0, flags=0x8000), uh_body(sev=0, flags=0x4000),
                            uh_body(sev=0x51, flags=0x6000, subsys=0x99, scope=0x77, etype=0x55, states=0xFFFFFFFF),
                            uh_body(sev=0x20, flags=0xFFFF, states=0x0302), uh_body(flags=0, states=0)], True),
        ('EH', ExtendedUserHeader, [eh_body(), eh_body(symptom=b''), eh_body(mtm=b'\x00' * 8, sn=b'\x00ab\x00' * 3),
                                    eh_body(symptom=b'\x00' * 5), eh_body(mtm=b'\xff' * 8),
                                    eh_body(symptom=b'\xc3\x28abc'), eh_body(symptom=b'x' * 255)], True),
        ('MT', FailingMTMS, [mt_body(), mt_body(mtm=b'\x00' * 8, sn=b'\x00' * 12), mt_body(sn=b'\x80' * 12),
                             mt_body(mtm=b'\x00AB\x00CD\x00\x00')], True),
        ('LP', ImpactedPartition, [lp_body(), lp_body(name=b'', lps=()), lp_body(lps=(1,)), lp_body(lps=(1,), pad=False),
                                   lp_body(name=b'\x00\x00', lps=(1, 2)), lp_body(name=b'\xff\xfe'),
                                   lp_body(name=b'n' * 255, lps=tuple(range(255)))], True),
    ]
    for tag, cls, bodies, has_creator in specs:
        case = 0
        def args_for(i):
            a = [0x1234, 8 + 10, 1 + i % 3, i % 5, comps[i % len(comps)]]
            if has_creator:
                a.append(creators[i % len(creators)])
            return a
        for bi, body in enumerate(bodies):
            for kind in ('bytes', 'mv', 'ba'):
                section_case('E/%s/full/%d/%s' % (tag, bi, kind), cls, body + b'TAIL', args_for(case), kind,
                             twice=(tag == 'LP' or bi == 0))
                case += 1
            # every truncation of the well-formed body
            step = 1 if len(body) < 120 else 7
            for n in range(0, len(body), step):
                section_case('E/%s/trunc/%d/%d' % (tag, bi, n), cls, body[:n], args_for(case))
                case += 1
            for m in range(25):
                section_case('E/%s/mut/%d/%d' % (tag, bi, m), cls, mutate(rnd, body), args_for(case),
                             twice=(m % 5 == 0))
                case += 1
        for r in range(60):
            body = bytes(rnd.randrange(256) for _ in range(rnd.randrange(0, 90)))
            if r % 2:
                body = bytes(rnd.choice(b'AZaz09 \x00') for _ in range(rnd.randrange(0, 90)))
            section_case('E/%s/rand/%d' % (tag, r), cls, body, args_for(case), twice=(r % 4 == 0))
            case += 1
        # streams lacking byte order / signedness, little endian, signed
        for oi, (order, signed) in enumerate([(None, None), ('big', None), (None, False), ('little', False),
                                                ('big', True), ('little', True)]):
            section_case('E/%s/order/%d' % (tag, oi), cls, bodies[0], args_for(oi), 'bytes', order, signed)
    # UserHeader predicates over the whole flag / severity space
    table = []
    for sev in [0x00, 0x01, 0x10, 0x20, 0x40, 0x51, 0x61, 0x71, 0xFF]:
        for flags in [0, 0x2000, 0x4000, 0x6000, 0x8000, 0xA000, 0xC000, 0xE000, 0x1FFF, 0xFFFF, 0x0020]:
            u = UserHeader(None, 0, 0, 0, 0, 0, 'O')
            u.eventSeverity, u.actionFlags = sev, flags
            table.append([sev, flags, run(u.isHidden), run(u.isServiceable)])
    emit('E/UH/predicates', table)

# --------------------------------------------------------------- F: ParseUserData
FAKE = {
    'x1111': "import json\ndef parseUDToJson(s, v, d):\n    return json.dumps({'Sub': s, 'Ver': v, 'Len': len(d), 'Hex': bytes(d).hex()})\n",
    'x2222': "def parseUDToJson(s, v, d):\n    return None\n",
    'x3333': "def parseUDToJson(s, v, d):\n    return 'null'\n",
    'x4444': "def parseUDToJson(s, v, d):\n    raise ValueError('boom %d' % s)\n",
    'x5555': "raise ImportError('deliberately missing dependency')\n",
    'x6666': "raise RuntimeError('import blew up')\n",
    'x7777': "def parseUDToJson(s, v, d):\n    return 'hello \\u00e9 world, not json'\n",
    'x8888': "def parseUDToJson(s, v, d):\n    return '[1, 2, {\"a\": null}]'\n",
    'x9999': "def parseUDToJson(s, v, d):\n    return {'not': 'a string'}\n",
    'xaaaa': "def parseUDToJson(s, v, d):\n    return '\"just a string\"'\n",
    'xbbbb': "VALUE = 1\n",
    'xcccc': "def parseUDToJson(s, v, d):\n    return ''\n",
    'xdddd': "def parseUDToJson(s, v, d):\n    return '{\"Section Version\": 99, \"Data\": [\"x\"]}'\n",
    'xeeee': "COUNT = [0]\ndef parseUDToJson(s, v, d):\n    COUNT[0] += 1\n    return '{\"calls\": %d}' % COUNT[0]\n",
}

def install_fake_plugins():
    base = os.path.join(workdir, 'fakeplugins')
    for name, text in FAKE.items():
        os.makedirs(os.path.join(base, name), exist_ok=True)
        open(os.path.join(base, name, '__init__.py'), 'w').close()
        with open(os.path.join(base, name, name + '.py'), 'w') as f:
            f.write(text)
    import udparsers
    udparsers.__path__.append(base)
    sys.dont_write_bytecode = True

def cache_view():
    return sorted([k, v is None] for k, v in pud.userDataParsers.items())

UD_DATAS = [b'', JSON_UD, TEXT_UD, b'not json', b'[1,2]', b'"str"', b'12', b'null', b'\xff\xfe\x00', b'\x00',
            b'   {"a": 1}  \x00\x00', b'\n\n', b'a\nb\n', b'\x00\x00\x00\x00', bytes(range(64)),
            b'{"a": 1} trailing', b'\xc3\xa9\n\xe2\x82\xac~\x7f', b' \x00 ']

def group_parse_user_data():
    install_fake_plugins()
    cfg_on, cfg_off = Config(), Config()
    cfg_off.allow_plugins = False
    combos = []
    for creator in ['O', 'B', 'M', 'H', 'X', 'Z', '.', '\x00', '', 'x', '\xe9', 'OO']:
        for comp in [0x2000, 0xE500, 0x2C00, 0x1234, 0]:
            combos.append((creator, comp))
    for comp in [0x1111, 0x2222, 0x3333, 0x4444, 0x5555, 0x6666, 0x7777, 0x8888, 0x9999, 0xAAAA, 0xBBBB,
                 0xCCCC, 0xDDDD, 0xEEEE]:
        combos.append(('X', comp))
        combos.append(('x', comp))
    case = 0
    for rep in range(2):
        for creator, comp in combos:
            for sub in [0, 1, 2, 3, 4, 5, 72, 84]:
                if creator not in ('O', 'X', 'M') and sub not in (1, 3, 72):
                    continue
                for di, data in enumerate(UD_DATAS):
                    if (case + di) % 3 and not (creator == 'O' and comp == 0x2000):
                        continue
                    p = pud.ParseUserData(creator, comp, sub, 1 + di % 2, data)
                    emit('F/parse/%d/%d' % (rep, case),
                         [creator, comp, sub, di, run(p.parse, cfg_on), run(p.parse, cfg_off),
                          run(p.parseCustom), run(p.getBuiltinFormatJSON)])
                    case += 1
            emit('F/cache/%d/%d' % (rep, case), cache_view())
    # memoryview payloads, odd configs
    for di, data in enumerate(UD_DATAS):
        p = pud.ParseUserData('O', 0x2000, 1 + di % 4, 1, memoryview(data))
        emit('F/mv/%d' % di, [run(p.parse, cfg_on), run(p.parseCustom), run(p.getBuiltinFormatJSON)])
        p = pud.ParseUserData('X', 0x1111, 1, 1, memoryview(data))
        emit('F/mvx/%d' % di, [run(p.parse, cfg_on), run(p.parse, cfg_off), run(p.parse, None)])
        p = pud.ParseUserData('O', 0x2000, 3, 1, data)
        emit('F/nocfg/%d' % di, [run(p.parse, None)])
    emit('F/fmt', [[m.name, m.value] for m in pud.UserDataFormat])
    emit('F/getvalue', [run(pud.get_value, b'\x01\x02\x03\x04', 1, 2), run(pud.get_value, b'', 0, 4)])

# ------------------------------------------------------ G: UserData / ExtUserData
def group_user_data_sections():
    cfg_on, cfg_off = Config(), Config()
    cfg_off.allow_plugins = False
    case = 0
    for rep in range(2):
        for creator, comp in [('O', 0x2000), ('B', 0x0100), ('X', 0x1111), ('X', 0x2222), ('X', 0x3333),
                              ('X', 0x4444), ('X', 0x5555), ('X', 0x6666), ('X', 0x7777), ('X', 0x8888),
                              ('X', 0x9999), ('X', 0xAAAA), ('X', 0xBBBB), ('X', 0xCCCC), ('X', 0xDDDD),
                              ('X', 0xEEEE), ('M', 0x2C00), ('O', 0xE500), ('H', 0x4142), ('Q', 0x0001)]:
            for sub in [1, 2, 3, 4, 72]:
                for di, data in enumerate(UD_DATAS):
                    if (case + di + sub) % 4 and creator != 'O':
                        continue
                    for cfg_name, cfg in (('on', cfg_on), ('off', cfg_off)):
                        s = mkstream(data + b'NEXT')
                        r = run(UserData, s, 0x5544, len(data) + 8, 1, sub, comp, creator)
                        rec = [r, s.index]
                        if r[0][0] == 'ok':
                            s = mkstream(data + b'NEXT')
                            o = UserData(s, 0x5544, len(data) + 8, 1, sub, comp, creator)
                            rec += [run(o.toJSON, cfg), s.index, state(o)]
                        s = mkstream(creator.encode('latin-1', 'replace')[:1] + b'\x00\x00\x00' + data + b'NEXT')
                        r = run(ExtUserData, s, 0x4544, len(data) + 12, 1, sub, comp)
                        rec += [r, s.index]
                        if r[0][0] == 'ok':
                            s = mkstream(creator.encode('latin-1', 'replace')[:1] + b'\x00\x00\x00' + data + b'NEXT')
                            o = ExtUserData(s, 0x4544, len(data) + 12, 1, sub, comp)
                            rec += [run(o.toJSON, cfg), s.index, state(o)]
                        emit('G/ud/%d/%d/%s' % (rep, case, cfg_name), rec)
                    case += 1
    rnd = random.Random(21)
    for i in range(150):
        data = bytes(rnd.randrange(256) for _ in range(rnd.randrange(0, 40)))
        seclen = rnd.choice([0, 4, 7, 8, 9, 11, 12, 13, len(data), len(data) + 8, len(data) + 12, len(data) + 20, 0xFFFF])
        kind = rnd.choice(['bytes', 'mv'])
        rec = []
        for cls, extra in ((UserData, ['O']), (ExtUserData, []), (Default, [])):
            s = mkstream(data, kind)
            r = run(cls, s, 0x1111, seclen, 2, i % 6, rnd.choice([0x2000, 0x1111, 0xE500, 0xABCD]), *extra)
            rec += [cls.__name__, r, s.index]
            if r[0][0] == 'ok':
                s = mkstream(data, kind)
                o = cls(s, 0x1111, seclen, 2, i % 6, 0x2000, *extra)
                rec += [run(o.toJSON, *([cfg_on] if cls is not Default else [])), s.index, state(o)]
                rec += [run(o.toJSON, *([cfg_off] if cls is not Default else []))]
        emit('G/rand/%d' % i, rec)
    for comp in [0, 0x1, 0xFF, 0x100, 0xFFFF, 0x12345]:
        s = mkstream(b'abcdefgh' * 5)
        o = Default(s, 0x4448, 8 + 33, 3, 4, comp)
        emit('G/default/%d' % comp, [run(o.toJSON), s.index, state(o)])

# ------------------------------------------------------------------ H: whole PELs
def configs():
    res = []
    for name, kw in [('default', {}), ('every', dict(every_pel=True)),
                     ('every_noplug', dict(every_pel=True, allow_plugins=False)),
                     ('hidden_only', dict(hidden=True, only=True)),
                     ('nonserv', dict(non_serviceable=True)),
                     ('term', dict(critSysTerm=True)),
                     ('sev', dict(severities=[4, 5], only=True)),
                     ('serv_sev', dict(serviceable=True, severities=[0])),
                     ('plid', dict(plid='50001234'))]:
        c = Config()
        for k, v in kw.items():
            setattr(c, k, v)
        res.append((name, c))
    return res

def decode_both(data, cfg):
    s1 = DataStream(data, byte_order='big', is_signed=False)
    r1 = run(pt.parsePEL, s1, cfg, False)
    s2 = DataStream(data, byte_order='big', is_signed=False)
    r2 = run(pt.parsePELSummary, s2, cfg)
    return [r1, s1.index, r2, s2.index]

def group_pels():
    pels = sample_pels()
    cfgs = configs()
    for name, data in pels.items():
        for cname, cfg in cfgs:
            emit('H/good/%s/%s' % (name, cname), decode_both(data, cfg))
        emit('H/exit/%s' % name, run(pt.parsePEL, DataStream(data[:70] + b'\x00' * 10, byte_order='big', is_signed=False),
                                     cfgs[1][1], True))
    every = cfgs[1][1]
    noplug = cfgs[2][1]
    for name in ['full_bmc', 'phyp', 'drawer', 'recovered']:
        data = pels[name]
        step = 1 if len(data) < 700 else 3
        for n in range(0, len(data), step):
            emit('H/trunc/%s/%d' % (name, n), decode_both(data[:n], every if n % 2 else noplug))
    rnd = random.Random(3)
    for name, data in pels.items():
        for i in range(60):
            b = bytearray(data)
            for _ in range(rnd.randrange(1, 5)):
                pos = rnd.randrange(len(b))
                b[pos] = rnd.choice([0, 0xFF, b[pos] ^ (1 << rnd.randrange(8)), rnd.randrange(256)])
            emit('H/mut/%s/%d' % (name, i), decode_both(bytes(b), every if i % 3 else cfgs[0][1]))
    for i in range(80):
        blob = bytes(rnd.randrange(256) for _ in range(rnd.randrange(0, 200)))
        if i % 2:
            blob = ph(nsec=rnd.randrange(2, 6)) + uh() + blob
        emit('H/rand/%d' % i, decode_both(blob, every))
    # repeated decode of the same PEL in one process
    data = pels['full_bmc']
    emit('H/repeat', [decode_both(data, every) for _ in range(3)])
    emit('H/hexprint', run(pt.printPELInHexFormat, pels['recovered']))

GROUPS = [group_datastream, group_hexdump, group_parse, group_timestamp, group_sections,
          group_parse_user_data, group_user_data_sections, group_pels]
for g in GROUPS:
    try:
        g()
    except BaseException as e:
        import traceback
        emit('CRASH/' + g.__name__, [type(e).__name__, str(e)])
        sys.stderr.write('driver crash in %s\n' % g.__name__)
        traceback.print_exc()
OUT.close()
'''

exec(COMMON)


def env_for(root):
    env = dict(os.environ)
    env['PYTHONPATH'] = os.path.join(root, 'modules')
    env['PYTHONDONTWRITEBYTECODE'] = '1'
    env['PYTHONHASHSEED'] = '0'
    return env


def run_driver(root, optimize, scratch):
    """Runs the API level driver against one tree; returns {case: payload}."""
    work = os.path.join(scratch, 'work')
    shutil.rmtree(work, ignore_errors=True)
    os.makedirs(work)
    driver = os.path.join(scratch, 'driver.py')
    with open(driver, 'w') as f:
        f.write(DRIVER)
    outfile = os.path.join(scratch, 'driver_out.jsonl')
    cmd = [PY] + (['-O'] if optimize else []) + [driver, work, outfile]
    p = subprocess.run(cmd, env=env_for(root), cwd=work, stdout=subprocess.PIPE, stderr=subprocess.PIPE,
                       timeout=3600)
    res = {}
    with open(outfile) as f:
        for line in f:
            # Compiler warnings and the like name the source file.
            case, payload = json.loads(line.replace(root, '<ROOT>'))
            if case in res:
                raise SystemExit('duplicate case id ' + case)
            res[case] = payload
    res['DRIVER/exit'] = [p.returncode, p.stdout.decode('utf-8', 'replace').replace(root, '<ROOT>'),
                          p.stderr.decode('utf-8', 'replace').replace(root, '<ROOT>')]
    return res


def snapshot(path):
    snap = []
    for dirpath, dirnames, filenames in sorted(os.walk(path)):
        dirnames.sort()
        for name in sorted(filenames):
            full = os.path.join(dirpath, name)
            with open(full, 'rb') as f:
                snap.append([os.path.relpath(full, path), f.read().hex()])
    return snap


def cli_cases():
    """(name, argv-template, optimize). {d} = PEL dir, {o} = output dir, {x} = exclude file."""
    cases = []
    def add(name, args, optimize=False):
        cases.append((name, args, optimize))
    add('help', ['--help'])
    add('noargs', [])
    add('nopath', ['-l'])
    for opts in ['-l', '-lE', '-lN', '-lH', '-lt', '-lsNH', '-lHO', '-lEr', '-lEx', '-lx', '-n', '-nE', '-nN',
                 '-nHO', '-a', '-aE', '-aEP', '-aH', '-aHO', '-aEx', '-aEr', '-at']:
        add('dir' + opts, ['-p', '{d}', opts])
    add('sev', ['-p', '{d}', '-l', '-S', 'Informational', 'Critical'])
    add('sevonly', ['-p', '{d}', '-a', '-O', '-S', 'Unrecoverable'])
    add('ext', ['-p', '{d}', '-aE', '-e', '.pel'])
    add('ext2', ['-p', '{d}', '-lE', '-e', '.bin'])
    add('aE-O', ['-p', '{d}', '-aE'], True)
    add('lE-O', ['-p', '{d}', '-lE'], True)
    for f in ['full_bmc.pel', 'phyp.pel', 'trunc_100.pel', 'trunc_30.pel', 'empty.pel', 'random.bin',
              'corrupt_1.pel', 'hidden_info.pel', 'missing.pel', 'badlen_ud.pel']:
        add('file/' + f, ['-f', '{d}/' + f])
        add('fileP/' + f, ['-f', '{d}/' + f, '-P'])
    add('filex', ['-f', '{d}/recovered.pel', '-x'])
    add('file-O', ['-f', '{d}/full_bmc.pel'], True)
    add('file-O-trunc', ['-f', '{d}/trunc_100.pel'], True)
    add('fileclean', ['-f', '{d}/recovered.pel', '-c'])
    add('filecleanbad', ['-f', '{d}/trunc_30.pel', '-c'])
    add('json', ['-p', '{d}', '-j', '-o', '{o}'])
    add('jsonE', ['-p', '{d}', '-j', '-E', '-o', '{o}'])
    add('jsonEc', ['-p', '{d}', '-j', '-E', '-c', '-o', '{o}'])
    add('jsoninplace', ['-p', '{d}', '-j', '-E', '-e', '.pel'])
    add('jsonbadout', ['-p', '{d}', '-j', '-o', '{o}/nope'])
    add('id', ['-p', '{d}', '-i', '50001235'])
    add('id0x', ['-p', '{d}', '-i', '0x50001235'])
    add('idbad', ['-p', '{d}', '-i', '123'])
    add('bmcid', ['-p', '{d}', '--bmc-id', '4660'])
    add('bmcid2', ['-p', '{d}', '--bmc-id', '1'])
    add('plid', ['-p', '{d}', '--plid', '50001234'])
    add('plidx', ['-p', '{d}', '--plid', '50001234', '-x'])
    add('src', ['-p', '{d}', '--src', 'B700'])
    add('srcE', ['-p', '{d}', '--src', 'BD8D', '-E'])
    add('srcex', ['-p', '{d}', '--src-exclude', '{x}', '-E'])
    add('delete', ['-p', '{d}', '-d', '50001235'])
    add('deleteall', ['-p', '{d}', '-D'])
    return cases


def build_pel_dir(path):
    import random
    shutil.rmtree(path, ignore_errors=True)
    os.makedirs(path)
    pels = sample_pels()
    rnd = random.Random(1234)
    files = {}
    for name, data in pels.items():
        files[name + '.pel'] = data
    full = pels['full_bmc']
    files['trunc_100.pel'] = full[:100]
    files['trunc_30.pel'] = full[:30]
    files['trunc_300.pel'] = full[:300]
    files['empty.pel'] = b''
    files['random.bin'] = bytes(rnd.randrange(256) for _ in range(500))
    for i in range(4):
        b = bytearray(full)
        for _ in range(6):
            b[rnd.randrange(len(b))] = rnd.randrange(256)
        files['corrupt_%d.pel' % i] = bytes(b)
    # file name containing the entry id, for -i / -d
    files['2024030818402755_50001235'] = pels['recovered']
    for name, data in files.items():
        with open(os.path.join(path, name), 'wb') as f:
            f.write(data)


def run_cli(root, scratch):
    res = {}
    peltool = os.path.join(root, 'modules', 'pel', 'peltool', 'peltool.py')
    d = os.path.join(scratch, 'cli', 'pels')
    o = os.path.join(scratch, 'cli', 'out')
    x = os.path.join(scratch, 'cli', 'exclude.txt')
    for name, args, optimize in cli_cases():
        shutil.rmtree(os.path.join(scratch, 'cli'), ignore_errors=True)
        os.makedirs(o)
        build_pel_dir(d)
        with open(x, 'w') as f:
            f.write('B7001111\n')
        argv = [a.format(d=d, o=o, x=x) for a in args]
        cmd = [PY] + (['-O'] if optimize else []) + [peltool] + argv
        p = subprocess.run(cmd, env=env_for(root), cwd=os.path.join(scratch, 'cli'),
                           stdout=subprocess.PIPE, stderr=subprocess.PIPE, timeout=600)
        res['CLI/' + name] = [p.returncode, p.stdout.decode('latin-1').replace(root, '<ROOT>'), p.stderr.decode('utf-8', 'replace').replace(root, '<ROOT>'),
                              snapshot(os.path.join(scratch, 'cli'))]
    return res


def observe(root, scratch):
    obs = {}
    for optimize in (False, True):
        tag = 'O1' if optimize else 'O0'
        for case, payload in run_driver(root, optimize, scratch).items():
            obs[tag + '/' + case] = payload
    obs.update(run_cli(root, scratch))
    return obs


def main():
    if len(sys.argv) != 3:
        sys.exit(__doc__)
    pristine, patched = (os.path.abspath(a) for a in sys.argv[1:3])
    base = tempfile.mkdtemp(prefix='diffcheck_', dir=os.path.dirname(os.path.abspath(__file__)))
    # The same scratch path is used for both trees so that any path that
    # ends up in an error message is the same on both sides.
    scratch = os.path.join(base, 'scratch')
    try:
        os.makedirs(scratch)
        a = observe(pristine, scratch)
        shutil.rmtree(scratch)
        os.makedirs(scratch)
        b = observe(patched, scratch)
    finally:
        shutil.rmtree(base, ignore_errors=True)

    problems = []
    for key in sorted(set(a) | set(b)):
        if key not in a or key not in b:
            problems.append((key, 'missing on one side'))
        elif a[key] != b[key]:
            problems.append((key, 'pristine=%s\n    patched =%s' % (json.dumps(a[key])[:1500],
                                                                 json.dumps(b[key])[:1500])))
    crashed = [k for k in a if '/CRASH/' in k] + [k for k in b if '/CRASH/' in k]
    for k in crashed:
        problems.append((k, 'driver group crashed'))
    for tag in ('O0', 'O1'):
        for side in (a, b):
            if side[tag + '/DRIVER/exit'][0] != 0:
                problems.append((tag + '/DRIVER/exit', 'driver exit status %r' % side[tag + '/DRIVER/exit']))
    if problems:
        print('DIFFERENT (%d of %d cases)' % (len(problems), len(a)))
        for key, what in problems[:25]:
            print('  ' + key + ': ' + what)
        sys.exit(1)
    print('IDENTICAL (%d cases)' % len(a))
    sys.exit(0)


if __name__ == '__main__':
    main()
