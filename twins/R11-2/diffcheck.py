#!/usr/bin/env python3
"""
Differential check for refactorings of modules/pel/peltool/peltool.py
(main(), argument handling, directory modes, getFileList).

usage: diffcheck.py <pristine_root> <patched_root>

Every case is executed twice - once with PYTHONPATH pointing at the pristine
tree and once pointing at the patched tree - in a freshly built work space
that lives at the *same* path for both runs (so paths that leak into the
output are the same).  For every case the following is compared:

  * exit status
  * stdout bytes
  * stderr (python tracebacks are reduced to their final "Error: text" line
    because frame names / line numbers necessarily differ after a refactoring)
  * the complete content of the work space afterwards (files created/removed)

Kinds of cases:
  cli     peltool.py run as a script with many option combinations
  cli -O  the same with assertions disabled
  bmc     peltool.py run through a tiny driver that makes the BMC default
          log directory "exist" (os.path.isdir / os.walk are redirected into
          the work space) so that the -A/--archive flavour of main() is run
  inproc  a driver importing pel.peltool.peltool and calling the directory
          mode functions / main() repeatedly in one process

Prints "IDENTICAL (<n> cases)" and exits 0 if everything is identical,
otherwise lists the differing cases and exits 1.
"""

import hashlib
import os
import random
import shutil
import struct
import subprocess
import sys
import tempfile
from concurrent.futures import ThreadPoolExecutor

PY = sys.executable

# --------------------------------------------------------------------------
# Building binary PELs
# --------------------------------------------------------------------------


def hdr(sid: bytes, length: int, ver=1, sub=0, comp=0x2000) -> bytes:
    return struct.pack('>2sHBBH', sid, length & 0xFFFF, ver, sub, comp)


def bcdtime(y=2023, mo=1, d=2, h=3, mi=4, s=5) -> bytes:
    return bytes.fromhex('%04d%02d%02d%02d%02d%02d00' % (y, mo, d, h, mi, s))


def PH(count, eid, plid=None, obmc=1, creator=b'O', comp=0x2000, sid=b'PH',
       day=2):
    if plid is None:
        plid = eid
    body = bcdtime(d=day) + bcdtime(d=day, s=6) + creator + b'\0\0' + \
        bytes([count & 0xFF]) + struct.pack('>IQII', obmc, 0x0102030405060708,
                                            plid, eid)
    return hdr(sid, 8 + len(body), comp=comp) + body


def UH(sev, flags, subsystem=0x70, scope=0x03, etype=0x00, states=0x0,
       comp=0x2000, sid=b'UH'):
    body = struct.pack('>BBBBIBBHI', subsystem, scope, sev, etype, 0, 0, 0,
                       flags, states)
    return hdr(sid, 8 + len(body), comp=comp) + body


def PS(ascii_str='BD8D0001', flags=0, wordcount=9, words=None, comp=0x2000,
       sid=b'PS', extra=b''):
    if words is None:
        words = [0x020000E0, 0x2E330000, 0x11111111, 0x02000000, 0x55555555,
                 0x66666666, 0x77777777, 0x88888888]
    body = bytes([2, flags, 0, wordcount]) + struct.pack('>HH', 0, 72)
    body += b''.join(struct.pack('>I', w) for w in words)
    body += ascii_str.encode().ljust(32, b' ')
    body += extra
    return hdr(sid, 8 + len(body), comp=comp) + body


def callouts():
    # one callout with a FRU identity (part number + ccin + sn)
    fru = b'ID' + bytes([28, 0x0D | 0x20]) + b'PN123456' + b'CCIN' + \
        b'SN1234567890'
    loc = b'U78DA.ND1-P0\0\0\0\0'
    co = bytes([4 + len(loc) + len(fru), 0, ord('H'), len(loc)]) + loc + fru
    sub = bytes([0xC0, 0]) + struct.pack('>H', (4 + len(co)) // 4) + co
    return sub


def SEC(sid: bytes, payload: bytes, ver=1, sub=0, comp=0x2000):
    return hdr(sid, 8 + len(payload), ver, sub, comp) + payload


def pel(eid, sev, flags, creator=b'O', sections=None, plid=None, obmc=1,
        src='BD8D0001', count=None, day=2, srcflags=0, srcextra=b''):
    if sections is None:
        sections = [PS(src, flags=srcflags, extra=srcextra)]
    n = 2 + len(sections) if count is None else count
    return PH(n, eid, plid, obmc, creator, day=day) + UH(sev, flags) + \
        b''.join(sections)


def good_pels():
    """name -> bytes"""
    out = {}
    ud_json = SEC(b'UD', b'{"Key": "Value", "N": 5}', ver=1, sub=1,
                  comp=0x2000)
    ud_text = SEC(b'UD', b'plain text\0', ver=1, sub=3, comp=0x2000)
    ud_unknown = SEC(b'UD', bytes(range(40)), ver=3, sub=7, comp=0x1234)
    out['2023010203040500_50000001'] = pel(
        0x50000001, 0x40, 0xA000, obmc=1, sections=[PS('BD8D0001'), ud_json])
    out['2023010203040501_50000002.pel'] = pel(
        0x50000002, 0x00, 0x0000, obmc=2, src='BD8D0002')
    out['2023010203040502_50000003.pel'] = pel(
        0x50000003, 0x20, 0x6000, obmc=3, src='BD8D0003')
    out['2023010203040503_50000004.txt'] = pel(
        0x50000004, 0x51, 0xA000, obmc=4, src='BD8D0004')
    out['2023010203040504_50000005'] = pel(
        0x50000005, 0x10, 0x2000, obmc=5, src='BD8D0005', plid=0x50000001)
    out['2023010203040505_50000006.pel'] = pel(
        0x50000006, 0x00, 0x8000, obmc=6, src='110015F0')
    # PHYP PEL without a primary SRC
    out['2023010203040506_50000007.pel'] = pel(
        0x50000007, 0x40, 0xA000, creator=b'H', obmc=7,
        sections=[SEC(b'UD', b'\x01\x02\x03\x04', comp=0x4142)])
    # hostboot PEL, many sections, duplicate names, unknown section ids
    out['2023010203040507_90000008.txt'] = pel(
        0x90000008, 0x40, 0xA000, creator=b'B', obmc=8, sections=[
            PS('BC801234', flags=1, extra=callouts()),
            ud_json, ud_text, ud_unknown,
            SEC(b'ZZ', b'unknown section payload'),
            SEC(b'SS', PS('BC801235')[8:]),
            SEC(b'ZZ', b'\xff' * 17)])
    # same EID as the first one -> overwrites in the summaries
    out['2023010203040508_50000001.pel'] = pel(
        0x50000001, 0x70, 0xA000, obmc=9, src='BD8D0009', day=9)
    # BMC callouts with a maintenance procedure
    fru = b'ID' + bytes([12, 0x02 | 0x30]) + b'BMC0001\0'
    co = bytes([4 + len(fru), 0, ord('M'), 0]) + fru
    sub = bytes([0xC0, 0]) + struct.pack('>H', (4 + len(co)) // 4) + co
    out['2023010203040509_5000000A'] = pel(
        0x5000000A, 0x40, 0xA000, obmc=10, src='BD8D000A', srcflags=1,
        srcextra=sub)
    return out


def bad_files(goods):
    rnd = random.Random(20240611)
    base = goods['2023010203040500_50000001']
    big = goods['2023010203040507_90000008.txt']
    out = {}
    out['empty_5000000B'] = b''
    out['random1_5000000C.pel'] = bytes(rnd.randrange(256) for _ in range(300))
    out['random2'] = bytes(rnd.randrange(256) for _ in range(7))
    for cut in (1, 7, 8, 20, 47, 48, 50, 56, 71, 72, 80, 100, 151,
                len(base) - 1):
        out['trunc%03d_5000000D.pel' % cut] = base[:cut]
    for cut in (200, 260, len(big) - 3):
        out['trunctxt%03d.txt' % cut] = big[:cut]
    for i in range(12):
        b = bytearray(big if i % 2 else base)
        for _ in range(1 + i % 4):
            b[rnd.randrange(len(b))] = rnd.randrange(256)
        out['corrupt%02d_5000000E' % i] = bytes(b)
    out['wrongph.pel'] = b'XX' + base[2:]
    out['wronguh.pel'] = base[:48] + b'YY' + base[50:]
    # section count larger than what is in the file
    b = bytearray(base)
    b[8 + 19] = 9
    out['toomany.pel'] = bytes(b)
    for n in (0, 1, 2):
        b = bytearray(base)
        b[8 + 19] = n
        out['count%d.pel' % n] = bytes(b)
    # non utf-8 SRC text
    b = bytearray(base)
    b[72 + 8 + 8 + 32 + 2] = 0xFF
    out['badutf8.pel'] = bytes(b)
    # non utf-8 creator
    b = bytearray(base)
    b[8 + 16] = 0xC3
    out['badcreator'] = bytes(b)
    # section length smaller than the header
    out['shortsec.pel'] = pel(0x5000000F, 0x40, 0xA000,
                              sections=[hdr(b'UD', 4), PS()])
    return out


def write_files(d, files):
    os.makedirs(d, exist_ok=True)
    for name, data in files.items():
        with open(os.path.join(d, name), 'wb') as f:
            f.write(data)


GOODS = good_pels()
BADS = bad_files(GOODS)


def build_workspace(w):
    """Creates all fixtures below w."""
    os.makedirs(w)
    good = os.path.join(w, 'good')
    write_files(good, GOODS)
    # sub directories must be ignored by every mode
    write_files(os.path.join(good, 'archive'), {
        '2023010203040600_5000AAAA.pel':
            pel(0x5000AAAA, 0x40, 0xA000, obmc=77, src='BD8DAAAA'),
        '2023010203040601_50000001':
            pel(0x50000001, 0x40, 0xA000, obmc=78, src='BD8DAAAB')})
    mixed = os.path.join(w, 'mixed')
    write_files(mixed, GOODS)
    write_files(mixed, BADS)
    write_files(os.path.join(mixed, 'sub_50000001'), {
        'x_50000001': GOODS['2023010203040500_50000001']})
    bad = os.path.join(w, 'bad')
    write_files(bad, BADS)
    os.makedirs(os.path.join(w, 'empty'))
    dang = os.path.join(w, 'dangling')
    write_files(dang, {
        'a_50000001': GOODS['2023010203040500_50000001'],
        'z_50000002': GOODS['2023010203040501_50000002.pel']})
    os.symlink(os.path.join(w, 'does-not-exist'),
               os.path.join(dang, 'm_link_50000003'))
    os.symlink(os.path.join(w, 'good'), os.path.join(dang, 'n_dirlink'))
    os.makedirs(os.path.join(w, 'out'))
    with open(os.path.join(w, 'exclude.txt'), 'w') as f:
        f.write('BD8D0001\nBD8D0003 BC801234\n')
    with open(os.path.join(w, 'exclude_empty.txt'), 'w') as f:
        pass
    with open(os.path.join(w, 'single.pel'), 'wb') as f:
        f.write(GOODS['2023010203040507_90000008.txt'])
    with open(os.path.join(w, 'single_info.pel'), 'wb') as f:
        f.write(GOODS['2023010203040501_50000002.pel'])
    with open(os.path.join(w, 'single_trunc.pel'), 'wb') as f:
        f.write(GOODS['2023010203040500_50000001'][:60])
    with open(os.path.join(w, 'single_bad.pel'), 'wb') as f:
        f.write(BADS['wrongph.pel'])
    with open(os.path.join(w, 'single_baduh.pel'), 'wb') as f:
        f.write(BADS['wronguh.pel'])
    with open(os.path.join(w, 'single_rand.pel'), 'wb') as f:
        f.write(BADS['random1_5000000C.pel'])


def snapshot(w):
    items = []
    for root, dirs, files in os.walk(w):
        dirs.sort()
        for d in dirs:
            p = os.path.join(root, d)
            items.append((os.path.relpath(p, w), 'L' if os.path.islink(p)
                          else 'D', ''))
        for f in sorted(files):
            p = os.path.join(root, f)
            if os.path.islink(p):
                items.append((os.path.relpath(p, w), 'L', os.readlink(p)))
            else:
                with open(p, 'rb') as fd:
                    items.append((os.path.relpath(p, w), 'F',
                                  hashlib.sha256(fd.read()).hexdigest()))
    items.sort()
    return items


# --------------------------------------------------------------------------
# Drivers
# --------------------------------------------------------------------------

BMC_DRIVER = r'''
import os, sys, runpy
script, fake = sys.argv[1], sys.argv[2]
P = "/var/lib/phosphor-logging/extensions/pels/logs/"
A = "/var/lib/phosphor-logging/extensions/pels/logs/archive"
real_isdir = os.path.isdir
real_walk = os.walk
def isdir(p):
    if p == P:
        return True
    return real_isdir(p)
def walk(p, *a, **k):
    if p == P:
        p = fake
    elif p == A:
        p = os.path.join(fake, "archive")
    return real_walk(p, *a, **k)
os.path.isdir = isdir
os.walk = walk
sys.argv = [script] + sys.argv[3:]
runpy.run_path(script, run_name="__main__")
'''

INPROC_DRIVER = r'''
import os, sys, io, json, contextlib
w = sys.argv[1]
which = sys.argv[2]
import pel.peltool.peltool as pt
from pel.peltool.config import Config

def call(label, fn, *a, **k):
    print("==", label)
    sys.stdout.flush()
    try:
        r = fn(*a, **k)
        print("-> returned", repr(r))
    except SystemExit as e:
        print("-> SystemExit", repr(e.code))
    except BaseException as e:
        print("-> raised", type(e).__name__, e)
    sys.stdout.flush()
    sys.stderr.flush()

def cfg(**kw):
    c = Config()
    for k, v in kw.items():
        setattr(c, k, v)
    return c

def run_main(*argv):
    old = sys.argv
    sys.argv = ["peltool.py"] + list(argv)
    try:
        call("main " + " ".join(argv), pt.main)
    finally:
        sys.argv = old

good = os.path.join(w, "good")
mixed = os.path.join(w, "mixed")
bad = os.path.join(w, "bad")

if which == "filelist":
    for d in (good, mixed, bad, os.path.join(w, "empty"),
              os.path.join(w, "nonexistent"), os.path.join(w, "single.pel"),
              os.path.join(w, "dangling"), good + "/"):
        for ext in (None, "", ".pel", ".txt", "pel", ".", ".PEL"):
            call("getFileList %s %r" % (os.path.relpath(d, w), ext),
                 pt.getFileList, d, ext)
            for rev in (False, True, 0, 1, None):
                call("getFileList %s %r rev=%r" % (os.path.relpath(d, w), ext, rev),
                     pt.getFileList, d, ext, rev)
    call("getFileList kw", pt.getFileList, path=mixed, extension=".pel", rev=True)
elif which == "modes":
    for rep in range(2):
        for d in (good, mixed):
            for kw in ({}, {"hex": True}, {"rev": True}, {"every_pel": True},
                       {"extension": ".pel"}, {"hidden": True, "only": True},
                       {"severities": [4], "only": True},
                       {"every_pel": True, "hex": True, "rev": True}):
                call("listOption %r" % kw, pt.listOption, d, cfg(**kw))
                call("printPELCount %r" % kw, pt.printPELCount, d, cfg(**kw))
                call("extractAllPELsData %r" % kw, pt.extractAllPELsData, d, cfg(**kw))
    call("listOption nonexistent", pt.listOption, os.path.join(w, "nope"), cfg())
    call("printPELCount nonexistent", pt.printPELCount, os.path.join(w, "nope"), cfg())
    call("extractAllPELsData nonexistent", pt.extractAllPELsData, os.path.join(w, "nope"), cfg())
    call("extractAllPELsData nonexistent hex", pt.extractAllPELsData, os.path.join(w, "nope"), cfg(hex=True))
    call("listOption dangling", pt.listOption, os.path.join(w, "dangling"), cfg(every_pel=True))
    call("printPELCount dangling", pt.printPELCount, os.path.join(w, "dangling"), cfg(every_pel=True))
    call("extractAllPELsData dangling", pt.extractAllPELsData, os.path.join(w, "dangling"), cfg(every_pel=True))
elif which == "ids":
    for rep in range(2):
        for d in (good, mixed, os.path.join(w, "empty"), os.path.join(w, "nope"),
                  os.path.join(w, "dangling")):
            for pid in ("50000001", "0x50000002", "0X90000008", "5000000d",
                        "12345678", "5000", "", "0x", "5000000B", "5000000C",
                        "50000003"):
                for hx in (False, True):
                    call("parsePelFromID %s hex=%s" % (pid, hx), pt.parsePelFromID, d,
                         cfg(pelID=pid, hex=hx))
                call("parsePelFromPLID %s" % pid, pt.parsePelFromPLID, d, cfg(plid=pid))
                call("parsePelFromPLID %s hex rev E" % pid, pt.parsePelFromPLID, d,
                     cfg(plid=pid, hex=True, rev=True, every_pel=True))
                call("parsePelFromPLID %s ext" % pid, pt.parsePelFromPLID, d,
                     cfg(plid=pid, extension=".pel"))
            for bid in ("1", "2", "3", "8", "9", "10", "77", "0", "", "abc", "01"):
                for hx in (False, True):
                    call("parsePelFromBmcID %s hex=%s" % (bid, hx), pt.parsePelFromBmcID,
                         d, cfg(bmcID=bid, hex=hx))
            call("parsePelFromBmcID None", pt.parsePelFromBmcID, d, cfg())
            call("parsePelFromID None", pt.parsePelFromID, d, cfg())
            call("parsePelFromPLID None", pt.parsePelFromPLID, d, cfg())
elif which == "src":
    ex = os.path.join(w, "exclude.txt")
    exe = os.path.join(w, "exclude_empty.txt")
    for rep in range(2):
        for d in (good, mixed, os.path.join(w, "empty"), os.path.join(w, "nope"),
                  os.path.join(w, "dangling")):
            for src in ("BD8D0001", "BD8D", "BC80", "1100", "XXXX", "", None,
                        "B" * 32, "B" * 33, "bd8d0001"):
                for exf in (None, ex, exe, os.path.join(w, "nofile")):
                    for kw in ({}, {"hex": True}, {"rev": True, "every_pel": True},
                               {"extension": ".pel", "hex": True, "every_pel": True}):
                        call("parsePelFromSRCID %r %r %r" % (src, exf and os.path.basename(exf), kw),
                             pt.parsePelFromSRCID, d,
                             cfg(src=src, srcExcludeFile=exf, **kw))
elif which == "main":
    out = os.path.join(w, "out")
    run_main()
    run_main("-p", good)
    run_main("-p", good, "-l")
    run_main("-p", good, "-l")
    run_main("-p", good, "-l", "-x")
    run_main("-p", mixed, "-n", "-E")
    run_main("-p", mixed, "-a", "-H", "-O")
    run_main("-p", mixed, "-i", "50000001")
    run_main("-p", mixed, "--plid", "50000001")
    run_main("-p", mixed, "--src", "BD8D")
    run_main("-p", mixed, "--src-exclude", os.path.join(w, "exclude.txt"))
    run_main("-p", mixed, "--bmc-id", "8")
    run_main("-f", os.path.join(w, "single.pel"))
    run_main("-f", os.path.join(w, "single.pel"), "-x")
    run_main("-f", os.path.join(w, "single_bad.pel"))
    run_main("-f", os.path.join(w, "single_baduh.pel"))
    run_main("-f", os.path.join(w, "single_trunc.pel"), "-c")
    run_main("-f", os.path.join(w, "single_info.pel"), "-c")
    run_main("-f", os.path.join(w, "single_info.pel"), "-c")
    run_main("-p", mixed, "-j", "-o", out, "-S", "Informational", "Recovered")
    run_main("-p", mixed, "-j", "-o", out, "-c", "-e", ".txt")
    run_main("-p", mixed, "-d", "50000001")
    run_main("-p", mixed, "-l", "-E")
    run_main("-p", mixed, "-D")
    run_main("-p", mixed, "-l", "-E")
    run_main("-p", os.path.join(w, "nope"), "-l")
    run_main("-l")
'''


# --------------------------------------------------------------------------
# Cases
# --------------------------------------------------------------------------

def cases():
    """yields (label, kind, pyflags, argv-template)"""
    c = []

    def cli(*argv, flags=()):
        c.append(('cli ' + ' '.join(flags) + ' ' + ' '.join(argv), 'cli',
                  list(flags), list(argv)))

    def bmc(*argv, fake='good'):
        c.append(('bmc[' + fake + '] ' + ' '.join(argv), 'bmc', [],
                  ['{W}/' + fake] + list(argv)))

    def inproc(which, flags=()):
        c.append(('inproc ' + which + ' ' + ' '.join(flags), 'inproc',
                  list(flags), [which]))

    filters = [
        [], ['-E'], ['-s'], ['-N'], ['-H'], ['-t'], ['-H', '-O'],
        ['-O', '-S', 'Unrecoverable'], ['-S', 'Informational'],
        ['-S', 'Informational', 'Recovered'],
        ['-s', '-O', '-S', 'Predictive'], ['-N', '-O', '-S', 'Informational'],
        ['-H', '-O', '-S', 'Predictive'], ['-O'], ['-r'], ['-x'],
        ['-x', '-r', '-E'], ['-e', '.pel'], ['-e', '.txt', '-E'],
        ['-e', 'pel'], ['-P', '-E'], ['-t', '-O'], ['-N', '-H', '-s'],
        ['-S', 'Critical', 'Symptom', 'Diagnostic', '-O'],
    ]
    for fx in ('good', 'mixed'):
        for mode in ('-l', '-n', '-a'):
            for f in filters:
                cli('-p', '{W}/' + fx, mode, *f)
    for mode in ('-l', '-n', '-a'):
        for fx in ('bad', 'empty', 'dangling', 'nonexistent', 'single.pel'):
            cli('-p', '{W}/' + fx, mode)
            cli('-p', '{W}/' + fx, mode, '-E', '-x')
        cli('-p', '{W}/good/', mode, '-E')
        cli('--path', '{W}/good', mode, '--every-pel', '--reverse')
    # long option spellings
    cli('--path', '{W}/mixed', '--list', '--hidden', '--only', '--hex')
    cli('--path', '{W}/mixed', '--show-pel-count', '--non-serviceable')
    cli('--path', '{W}/mixed', '--all-pels', '--serviceable', '--termination',
        '--severities', 'Recovered', '--skip-parser-plugins',
        '--extension', '.pel')
    # precedence between several modes
    cli('-p', '{W}/good', '-l', '-n', '-a')
    cli('-p', '{W}/good', '-n', '-a')
    cli('-p', '{W}/good', '-a', '-D')
    cli('-p', '{W}/good', '-n', '-d', '50000001')
    cli('-p', '{W}/good', '-d', '50000001', '-D')
    cli('-p', '{W}/good', '-i', '50000001', '--plid', '50000001', '-l')
    cli('-p', '{W}/good', '--bmc-id', '3', '--plid', '50000001')
    cli('-p', '{W}/good', '--plid', '50000003', '--src', 'BD8D')
    cli('-p', '{W}/good', '--src', 'BD8D0003', '--src-exclude',
        '{W}/exclude.txt')
    cli('-p', '{W}/good', '--src-exclude', '{W}/exclude.txt', '-l')
    cli('-p', '{W}/good', '-j', '-o', '{W}/out', '-i', '50000001')
    cli('-p', '{W}/good', '-f', '{W}/single.pel', '-l')
    cli('-p', '{W}/good', '-i', '', '-l')
    cli('-p', '{W}/good', '--bmc-id', '', '--plid', '', '--src', '',
        '--src-exclude', '', '-d', '', '-n')
    # id based modes
    for fx in ('good', 'mixed', 'empty', 'dangling'):
        for pid in ('50000001', '0x50000002', '0X90000008', '5000000d',
                    '12345678', '5000', '0x', '5000000B', '5000000C',
                    '50000003', '5000AAAA', 'archive0'):
            cli('-p', '{W}/' + fx, '-i', pid)
            cli('-p', '{W}/' + fx, '-i', pid, '-x', '-E')
            cli('-p', '{W}/' + fx, '--plid', pid)
            cli('-p', '{W}/' + fx, '--plid', pid, '-x', '-r')
            cli('-p', '{W}/' + fx, '-d', pid)
        for bid in ('1', '2', '3', '8', '9', '10', '77', '0', 'abc', '01'):
            cli('-p', '{W}/' + fx, '--bmc-id', bid)
            cli('-p', '{W}/' + fx, '--bmc-id', bid, '-x')
        for src in ('BD8D0001', 'BD8D', 'BC80', '1100', 'XXXX', 'B' * 32,
                    'B' * 33, 'bd8d0001'):
            cli('-p', '{W}/' + fx, '--src', src)
            cli('-p', '{W}/' + fx, '--src', src, '-x', '-E', '-r')
            cli('-p', '{W}/' + fx, '--src', src, '-e', '.pel', '-N')
        for ex in ('exclude.txt', 'exclude_empty.txt', 'nofile', 'good'):
            cli('-p', '{W}/' + fx, '--src-exclude', '{W}/' + ex)
            cli('-p', '{W}/' + fx, '--src-exclude', '{W}/' + ex, '-x', '-E')
            cli('-p', '{W}/' + fx, '--src-exclude', '{W}/' + ex, '-r', '-H',
                '-O')
        cli('-p', '{W}/' + fx, '-D')
        cli('-p', '{W}/' + fx, '--delete-all', '-x')
        # json mode
        cli('-p', '{W}/' + fx, '-j')
        cli('-p', '{W}/' + fx, '-j', '-E')
        cli('-p', '{W}/' + fx, '-j', '-o', '{W}/out')
        cli('-p', '{W}/' + fx, '-j', '-o', '{W}/out', '-c', '-E')
        cli('-p', '{W}/' + fx, '-j', '-c')
        cli('-p', '{W}/' + fx, '-j', '-o', '{W}/nonexistent')
        cli('-p', '{W}/' + fx, '-j', '-o', '{W}/single.pel')
        cli('-p', '{W}/' + fx, '-j', '-e', '.pel', '-o', '{W}/out', '-H')
        cli('-p', '{W}/' + fx, '--json', '--output-dir', '{W}/out', '--clean',
            '-e', '.txt', '-P')
    # single file mode
    for f in ('single.pel', 'single_info.pel', 'single_trunc.pel',
              'single_bad.pel', 'single_baduh.pel', 'single_rand.pel',
              'nonexistent.pel', 'good', 'exclude_empty.txt'):
        cli('-f', '{W}/' + f)
        cli('-f', '{W}/' + f, '-x')
        cli('-f', '{W}/' + f, '-c')
        cli('-f', '{W}/' + f, '-c', '-E', '-x')
        cli('-f', '{W}/' + f, '-P', '-E')
        cli('--file', '{W}/' + f, '--clean', '-S', 'Informational')
        cli('-f', '{W}/' + f, '-p', '{W}/nonexistent', '-l')
    # argument errors / help
    cli()
    cli('-h')
    cli('--help')
    cli('-l')
    cli('-p')
    cli('-p', '{W}/nonexistent')
    cli('-p', '{W}/single.pel', '-l')
    cli('-p', '{W}/good')
    cli('-p', '{W}/good', '-x', '-r', '-E')
    cli('-p', '{W}/good', '-l', '-S')
    cli('-p', '{W}/good', '-l', '-S', 'Bogus')
    cli('-p', '{W}/good', '-l', '-S', 'Critical', 'Bogus')
    cli('-p', '{W}/good', '-A', '-l')
    cli('-p', '{W}/good', '--archive')
    cli('-p', '{W}/good', '-l', '--unknown')
    cli('-p', '{W}/good', '-l', 'positional')
    cli('-p', '{W}/good', '-i')
    cli('-p', '{W}/good', '-o', '{W}/out', '-l')
    cli('-p', '{W}/good', '-c', '-l')
    cli('-p', '{W}/good', '--li')
    cli('-p', '{W}/good', '--s')
    cli('-p', '{W}/good', '--src-ex', '{W}/exclude.txt')
    # python -O
    O = ('-O',)
    for fx in ('good', 'mixed'):
        for mode in ('-l', '-n', '-a'):
            cli('-p', '{W}/' + fx, mode, flags=O)
            cli('-p', '{W}/' + fx, mode, '-E', '-x', '-r', flags=O)
        cli('-p', '{W}/' + fx, '-i', '50000001', flags=O)
        cli('-p', '{W}/' + fx, '--bmc-id', '8', flags=O)
        cli('-p', '{W}/' + fx, '--plid', '50000001', flags=O)
        cli('-p', '{W}/' + fx, '--src', 'BD8D', flags=O)
        cli('-p', '{W}/' + fx, '--src-exclude', '{W}/exclude.txt', flags=O)
        cli('-p', '{W}/' + fx, '-j', '-o', '{W}/out', '-c', flags=O)
        cli('-p', '{W}/' + fx, '-d', '0x50000001', flags=O)
        cli('-p', '{W}/' + fx, '-D', flags=O)
    cli('-f', '{W}/single.pel', flags=O)
    cli('-f', '{W}/single_trunc.pel', '-c', flags=O)
    cli('--help', flags=O)
    cli(flags=O)
    # BMC flavour of main()
    for fake in ('good', 'mixed'):
        bmc(fake=fake)
        bmc('-h', fake=fake)
        bmc('-l', fake=fake)
        bmc('-l', '-A', fake=fake)
        bmc('--archive', '-n', '-E', fake=fake)
        bmc('-A', '-a', '-x', fake=fake)
        bmc('-a', '-H', fake=fake)
        bmc('-A', '-i', '5000AAAA', fake=fake)
        bmc('-i', '5000AAAA', fake=fake)
        bmc('-i', '50000001', fake=fake)
        bmc('--bmc-id', '77', '-A', fake=fake)
        bmc('--plid', '50000001', '-A', fake=fake)
        bmc('--src', 'BD8D', fake=fake)
        bmc('--src-exclude', '{W}/exclude.txt', '-A', fake=fake)
        bmc('-p', '{W}/good', '-l', fake=fake)
        bmc('-j', fake=fake)
        bmc('-j', '-A', '-o', '{W}/out', fake=fake)
        bmc('-j', '-o', '{W}/out', '-c', fake=fake)
        bmc('-j', '-o', '{W}/nonexistent', fake=fake)
        bmc('-d', '50000001', fake=fake)
        bmc('-A', '-d', '50000001', fake=fake)
        bmc('-D', fake=fake)
        bmc('-A', '-D', fake=fake)
        bmc('-f', '{W}/single.pel', '-A', fake=fake)
    bmc('-l', '-A', fake='empty')
    bmc('-l', fake='nonexistent')
    # in-process, repeated calls
    for which in ('filelist', 'modes', 'ids', 'src', 'main'):
        inproc(which)
        inproc(which, flags=O)
    return c


def normalise_stderr(text: str) -> str:
    out = []
    lines = text.split('\n')
    i = 0
    while i < len(lines):
        if lines[i].startswith('Traceback (most recent call last):'):
            out.append('<traceback>')
            i += 1
            while i < len(lines) and (lines[i].startswith(' ') or
                                      lines[i] == ''):
                i += 1
            continue
        out.append(lines[i])
        i += 1
    return '\n'.join(out)


def run_one(root, w, drivers, kind, pyflags, argv):
    if os.path.exists(w):
        shutil.rmtree(w)
    build_workspace(w)
    argv = [a.replace('{W}', w) for a in argv]
    env = dict(os.environ)
    env['PYTHONPATH'] = os.path.join(root, 'modules')
    env['PYTHONDONTWRITEBYTECODE'] = '1'
    env['PYTHONHASHSEED'] = '0'
    env['COLUMNS'] = '100'
    env.pop('PYTHONOPTIMIZE', None)
    script = os.path.join(root, 'modules', 'pel', 'peltool', 'peltool.py')
    if kind == 'cli':
        # run through runpy so that argv[0] (and thus "usage: <prog>") does
        # not contain the root specific path
        cmd = [PY] + pyflags + ['-c',
                                'import sys, runpy; s = sys.argv[1]; '
                                'sys.argv = ["peltool.py"] + sys.argv[2:]; '
                                'runpy.run_path(s, run_name="__main__")',
                                script] + argv
    elif kind == 'bmc':
        cmd = [PY] + pyflags + [drivers['bmc'], script] + argv
    else:
        cmd = [PY] + pyflags + [drivers['inproc'], w] + argv
    p = subprocess.run(cmd, env=env, cwd=w, stdin=subprocess.DEVNULL,
                       stdout=subprocess.PIPE, stderr=subprocess.PIPE,
                       timeout=600)
    err = p.stderr.decode('utf-8', 'replace').replace(root, '<ROOT>')
    snap = snapshot(w)
    shutil.rmtree(w)
    return (p.returncode, p.stdout, normalise_stderr(err), snap)


def main():
    if len(sys.argv) != 3:
        sys.exit(__doc__)
    pristine = os.path.abspath(sys.argv[1])
    patched = os.path.abspath(sys.argv[2])
    here = os.path.dirname(os.path.abspath(__file__))
    base = tempfile.mkdtemp(prefix='r11diff_',
                            dir=here if os.access(here, os.W_OK) else None)
    drivers = {'bmc': os.path.join(base, 'bmc_driver.py'),
               'inproc': os.path.join(base, 'inproc_driver.py')}
    with open(drivers['bmc'], 'w') as f:
        f.write(BMC_DRIVER)
    with open(drivers['inproc'], 'w') as f:
        f.write(INPROC_DRIVER)
    # the bmc driver rewrites sys.argv itself: [driver, script, fake, args...]
    allcases = cases()

    def work(item):
        idx, (label, kind, pyflags, argv) = item
        w = os.path.join(base, 'w%04d' % idx)
        a = run_one(pristine, w, drivers, kind, pyflags, argv)
        b = run_one(patched, w, drivers, kind, pyflags, argv)
        return label, a, b

    diffs = 0
    nonempty = 0
    try:
        workers = min(16, os.cpu_count() or 4)
        with ThreadPoolExecutor(max_workers=workers) as ex:
            for label, a, b in ex.map(work, enumerate(allcases)):
                if a[1] or a[2]:
                    nonempty += 1
                if a != b:
                    diffs += 1
                    print('DIFFERENT:', label)
                    for name, x, y in zip(('exit', 'stdout', 'stderr',
                                           'files'), a, b):
                        if x != y:
                            print('   %s differs' % name)
                            print('      pristine: %r' % (x if name != 'stdout'
                                                           else x[-600:],))
                            print('      patched : %r' % (y if name != 'stdout'
                                                           else y[-600:],))
    finally:
        shutil.rmtree(base, ignore_errors=True)
    if diffs:
        print('DIFFERENT (%d of %d cases)' % (diffs, len(allcases)))
        sys.exit(1)
    if nonempty < len(allcases) // 2:
        print('suspicious: most cases produced no output')
        sys.exit(1)
    print('IDENTICAL (%d cases)' % len(allcases))
    sys.exit(0)


if __name__ == '__main__':
    main()
