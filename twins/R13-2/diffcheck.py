#!/usr/bin/env python
"""
Differential check for refactorings in the area

    modules/pel/datastream.py, modules/pel/hexdump.py,
    modules/pel/peltool/{default,user_data,ext_user_data}.py and
    parsePEL / parsePELSummary / sectionFun / buildOutput in peltool.py

usage: diffcheck.py <pristine_root> <patched_root>

Two kinds of checks are made, both for the normal interpreter and `python -O`:

 1. An in-process driver (run once per tree in a subprocess with PYTHONPATH
    pointing into that tree) executes a large, deterministic list of cases on
    the API level and dumps for each case the normalised return value or the
    exception (type + message), everything written to stdout / stderr and some
    object state.  All decodes of one driver run happen in one process, so
    "repeated decodes in one process" are covered as well.
 2. The peltool CLI is started as a real subprocess on a directory of
    generated PEL files with several option combinations; stdout, stderr, exit
    status and the resulting directory contents (created / removed files and
    their bytes) are compared.

Prints "IDENTICAL (<n> cases)" and exits 0 when everything is the same,
otherwise describes the first differences and exits 1.
"""
import json
import os
import shutil
import subprocess
import sys
import tempfile

PY = sys.executable

DRIVER = r'''
import contextlib
import io
import json
import random
import struct
import sys
import types
from collections import OrderedDict

results = []


def norm(v, depth=0):
    """Normalise a value into something JSON serialisable that still keeps
    the type information."""
    if depth > 12:
        return 'TOO DEEP'
    if v is None or isinstance(v, (bool, int, float, str)):
        return [type(v).__name__, v]
    if isinstance(v, memoryview):
        return ['memoryview', v.format, v.tobytes().hex()]
    if isinstance(v, (bytes, bytearray)):
        return [type(v).__name__, bytes(v).hex()]
    if isinstance(v, (list, tuple)):
        return [type(v).__name__, [norm(x, depth + 1) for x in v]]
    if isinstance(v, dict):
        return [type(v).__name__,
                [[norm(k, depth + 1), norm(x, depth + 1)]
                 for k, x in v.items()]]
    return ['obj', type(v).__name__]


def rec(name, fn, *post):
    out, err = io.StringIO(), io.StringIO()
    with contextlib.redirect_stdout(out), contextlib.redirect_stderr(err):
        try:
            r = ['ok', norm(fn())]
        except SystemExit as e:
            r = ['exit', repr(e.code)]
        except BaseException as e:
            r = ['exc', type(e).__name__, str(e)]
        extra = []
        for p in post:
            try:
                extra.append(norm(p()))
            except BaseException as e:
                extra.append(['exc', type(e).__name__, str(e)])
    results.append([name, r, extra, out.getvalue(), err.getvalue()])


rnd = random.Random(20240613)

from pel.datastream import DataStream
from pel import hexdump as hexdump_mod
from pel.hexdump import hexdump, parse
from pel.peltool.config import Config

# --------------------------------------------------------------------------
# Fake user data parser plugins (creator 'B', several component IDs)
# --------------------------------------------------------------------------


def make_plugin(name, fn):
    full = 'udparsers.' + name + '.' + name
    pkg = types.ModuleType('udparsers.' + name)
    pkg.__path__ = []
    mod = types.ModuleType(full)
    mod.parseUDToJson = fn
    sys.modules['udparsers.' + name] = pkg
    sys.modules[full] = mod


PLUGIN_CALLS = []


def plugin_ab00(subType, version, data):
    PLUGIN_CALLS.append((subType, version, bytes(data).hex(),
                         type(data).__name__))
    table = {
        0: None,
        1: 'null',
        2: '"just a string"',
        3: '[1, 2, "three"]',
        4: '{"a": 1, "b": {"c": [1, 2]}}',
        5: 'this is not json',
        6: '{"Data": 5, "Section Version": "overridden"}',
        7: '',
        8: '17',
        9: 'true',
        10: '{"k": "v"} trailing',
        11: b'{"bytes": 1}',
        12: b'bytes but not json',
        13: 5,
        14: '\udcff not encodable {',
        15: '{"Created by": "me", "Sub-section type": 99}',
        16: ' null',
        17: 'nul',
        18: b'\x80abc not utf-8',
        19: bytearray(b'[1]'),
    }
    if subType == 20:
        raise ValueError('plugin failure')
    if subType == 21:
        raise ImportError('plugin import failure')
    if subType == 22:
        raise KeyError('plugin key')
    if subType == 23:
        return json.dumps({'len': len(data), 'ver': version,
                           'first': data[0] if len(data) else None})
    return table.get(subType, '{"default": true}')


make_plugin('bab00', plugin_ab00)


def configs():
    c1 = Config()
    c2 = Config()
    c2.allow_plugins = False
    return [('plug', c1), ('noplug', c2)]


# --------------------------------------------------------------------------
# A. DataStream
# --------------------------------------------------------------------------


def datastream_cases():
    datas = [b'', b'\x00', bytes(range(8)), bytes(range(240, 256)) * 2,
             bytes(rnd.randrange(256) for _ in range(37))]
    wrappers = [('bytes', lambda d: d), ('mv', lambda d: memoryview(d)),
                ('ba', lambda d: bytearray(d))]
    ctor_args = [dict(), dict(byte_order='big', is_signed=False),
                 dict(byte_order='little', is_signed=True),
                 dict(byte_order='big'), dict(is_signed=False),
                 dict(byte_order='middle', is_signed=False),
                 dict(byte_order='little', is_signed=0)]
    n = 0
    for di, d in enumerate(datas):
        for wn, w in wrappers:
            for ci, ca in enumerate(ctor_args):
                s = DataStream(w(d), **ca)
                state = lambda s=s: (s.index, s.size, s.byte_order,
                                     s.is_signed, type(s.data).__name__,
                                     sorted(vars(s).keys()))
                rec('ds/init/%d/%s/%d' % (di, wn, ci), lambda: None, state)
                for step in range(14):
                    op = rnd.choice(['check', 'inc', 'mem', 'int', 'int2',
                                     'int3'])
                    nb = rnd.choice([0, -1, -5, 1, 1, 2, 2, 3, 4, 4, 8, 7,
                                     16, 100, len(d), len(d) + 1, None,
                                     '2', 1.0, 2.5, True])
                    if op == 'check':
                        f = lambda: s.check_range(nb)
                    elif op == 'inc':
                        f = lambda: s.inc_index(nb)
                    elif op == 'mem':
                        f = lambda: s.get_mem(nb)
                    elif op == 'int':
                        f = lambda: s.get_int(nb)
                    elif op == 'int2':
                        bo = rnd.choice(['big', 'little', None, 'x', ''])
                        f = lambda: s.get_int(nb, byte_order=bo)
                    else:
                        bo = rnd.choice(['big', 'little', None])
                        sg = rnd.choice([True, False, None, 0, 1])
                        f = lambda: s.get_int(nb, bo, sg)
                    rec('ds/%d/%s/%d/%d/%s/%r' % (di, wn, ci, step, op, nb),
                        f, state)
                    n += 1
    # sequential full reads
    for size in (1, 2, 3, 4, 8):
        d = bytes(rnd.randrange(256) for _ in range(33))
        s = DataStream(memoryview(d), byte_order='big', is_signed=False)

        def readall():
            vals = []
            while s.check_range(size):
                vals.append(s.get_int(size))
            return vals, s.index
        rec('ds/readall/%d' % size, readall)
        rec('ds/readall-after/%d' % size, lambda: s.get_mem(size),
            lambda: s.index)


# --------------------------------------------------------------------------
# B. hexdump / parse
# --------------------------------------------------------------------------


def hexdump_cases():
    sizes = [0, 1, 2, 3, 4, 5, 15, 16, 17, 31, 32, 33, 64, 100, 255, 256, 300]
    for sz in sizes:
        d = bytes(rnd.randrange(256) for _ in range(sz))
        rec('hd/def/mv/%d' % sz, lambda: hexdump(memoryview(d)))
        rec('hd/def/bytes/%d' % sz, lambda: hexdump(d))
        rec('hd/def/ba/%d' % sz, lambda: hexdump(bytearray(d)))
        asc = bytes(rnd.choice(b' ~\x7f\x1f\x20AZaz09.\x00\xff')
                    for _ in range(sz))
        rec('hd/asc/%d' % sz, lambda: hexdump(memoryview(asc)))
    params = [(16, 4), (8, 2), (8, 8), (1, 1), (3, 2), (5, 3), (7, 7),
              (16, 1), (16, 16), (16, 32), (256, 256), (256, 1), (10, 4),
              (0, 4), (16, 0), (257, 4), (16, 257), (-1, 4), (4, -1),
              (2.0, 1), (4, 2.0), (4.5, 2), (None, 4), (4, None),
              ('16', 4), (True, True)]
    for bpl, bpc in params:
        for sz in (0, 1, 9, 40):
            d = bytes(rnd.randrange(256) for _ in range(sz))
            rec('hd/p/%r/%r/%d' % (bpl, bpc, sz),
                lambda: hexdump(memoryview(d), bpl, bpc))
            rec('hd/pk/%r/%r/%d' % (bpl, bpc, sz),
                lambda: hexdump(memoryview(d), bytes_per_line=bpl,
                                bytes_per_chunk=bpc))
    # odd element types
    rec('hd/list', lambda: hexdump([1, 2, 255, 65]))
    rec('hd/list-big', lambda: hexdump([1, 256, 65]))
    rec('hd/list-neg', lambda: hexdump([-1]))
    rec('hd/str', lambda: hexdump('abc'))
    rec('hd/none', lambda: hexdump(None))
    rec('hd/mv-H', lambda: hexdump(memoryview(b'\x01\x02\x03\x04').cast('H')))
    rec('hd/mv-c', lambda: hexdump(memoryview(b'ab').cast('c')))
    rec('hd/mv-b', lambda: hexdump(memoryview(b'\xff\x01').cast('b')))

    rec('hd/const', lambda: hexdump_mod.DEFAULT_LINE_FORMAT)

    # parse(): round trips and corruptions
    fmts = [None,
            'DD DD DD DD DD DD DD DD DD DD DD DD DD DD DD DD CCCCCCCCCCCCCCCC',
            'AAAA:  DDDDDDDD DDDDDDDD DDDDDDDD DDDDDDDD  <CCCCCCCCCCCCCCCC>',
            '[AAAA] DDDD DDDD DDDD DDDD',
            'DDDDDDDD', 'D', 'DDD DDD', 'AADDCC', '', 'xyz', 'AAAA',
            'CCCC', 'A-D-D-C', 'DDDD|DDDD|']
    for sz in (0, 1, 7, 16, 17, 40, 64):
        d = bytes(rnd.randrange(256) for _ in range(sz))
        lines = hexdump(memoryview(d))
        rec('hp/rt/%d' % sz, lambda: parse(lines))
        rec('hp/rt-nl/%d' % sz, lambda: parse([l + '\n' for l in lines]))
        rec('hp/rt-crlf/%d' % sz, lambda: parse([l + '\r\n' for l in lines]))
        rec('hp/rt-low/%d' % sz, lambda: parse([l.lower() for l in lines]))
        rec('hp/rt-tuple/%d' % sz, lambda: parse(tuple(lines)))
        for k in range(12):
            mut = []
            for l in lines:
                l = list(l)
                for _ in range(rnd.randrange(0, 4)):
                    if not l:
                        break
                    how = rnd.randrange(4)
                    pos = rnd.randrange(len(l))
                    if how == 0:
                        l[pos] = rnd.choice('GXz .-|0aF\t')
                    elif how == 1:
                        del l[pos]
                    elif how == 2:
                        l.insert(pos, rnd.choice('0fA x'))
                    else:
                        l = l[:pos]
                mut.append(''.join(l))
            for fi, fmt in enumerate(fmts[:4]):
                if fmt is None:
                    rec('hp/mut/%d/%d/def' % (sz, k), lambda: parse(mut))
                else:
                    rec('hp/mut/%d/%d/%d' % (sz, k, fi),
                        lambda: parse(mut, fmt))
    texts = ['', '\n', 'DEADBEEF', 'DE AD BE EF', '0', '00', '000',
             '[0000] 0120 0142 4641 4E53\n', '[0018] AX\n', '[0018] DD\n',
             '00000000     DEADBEEF  BADC0FFE  4241',
             '00000000     DEADBEEF  BADC0FFE  424',
             '00000000     DEADBEEF  BADC0FFE  42414443  30464645     ........BADC0FFE',
             '00000000     DEADBEEF  BADC0FFE  42414443  30464645     ........BADC0FFEX',
             '0000000      DEADBEEF', 'A-1-2-x', 'F-a-b-', '1234|5678|',
             '1234|5678', '12345678', '\u00e9\u00e9', '\u0660\u0661',
             '\uff11\uff12', 'ab\n\n', 'abcd   ', 'xyz', 'xy', 'AB12zz']
    for fi, fmt in enumerate(fmts):
        if fmt is None:
            rec('hp/txt/def', lambda: parse(texts))
            for ti, t in enumerate(texts):
                rec('hp/txt/def/%d' % ti, lambda: parse([t]))
        else:
            rec('hp/txt/%d' % fi, lambda: parse(texts, fmt))
            rec('hp/txtk/%d' % fi, lambda: parse(texts, line_format=fmt))
            for ti, t in enumerate(texts):
                rec('hp/txt/%d/%d' % (fi, ti), lambda: parse([t], fmt))
    rec('hp/nonstr', lambda: parse([b'00000000     DEADBEEF']))
    rec('hp/none', lambda: parse(None))
    rec('hp/nonefmt', lambda: parse(['00'], None))
    rec('hp/int', lambda: parse([5]))
    rec('hp/gen', lambda: parse(l for l in ['00000000     DEADBEEF']))
    for k in range(60):
        ln = ''.join(rnd.choice('0123456789abcdefABCDEF  .|[]:xG\n')
                     for _ in range(rnd.randrange(0, 80)))
        fmt = ''.join(rnd.choice('AADDDDCC  |[]:')
                      for _ in range(rnd.randrange(0, 80)))
        rec('hp/rand/%d' % k, lambda: parse([ln, ln[:10], ln], fmt))
        rec('hp/rand-def/%d' % k, lambda: parse([ln]))


# --------------------------------------------------------------------------
# PEL building blocks
# --------------------------------------------------------------------------


def hdr(sid, length, ver=1, sub=0, comp=0x2000):
    return struct.pack('>HHBBH', sid & 0xFFFF, length & 0xFFFF, ver & 0xFF,
                       sub & 0xFF, comp & 0xFFFF)


def sec_ph(nsec, creator=b'O', obmc=0x1234, plid=0x50000001, eid=0x50000001,
           comp=0x2000, sid=0x5048):
    body = bytes.fromhex('2024061312304500') + \
        bytes.fromhex('2024061312304612') + creator + b'\x00\x00' + \
        bytes([nsec & 0xFF]) + struct.pack('>I', obmc) + \
        b'\x00\x00\x00\x00\x00\x00\x00\x02' + struct.pack('>II', plid, eid)
    return hdr(sid, 48, 1, 0, comp) + body


def sec_uh(sev=0x40, action=0xA000, subsystem=0x10, scope=0x03, etype=0,
           states=0, comp=0x2000, sid=0x5548):
    body = struct.pack('>BBBBIBBHI', subsystem, scope, sev, etype, 0, 0, 0,
                       action, states)
    return hdr(sid, 24, 1, 0, comp) + body


def sec_src(ascii_str='BD8D1234', flags=0, wordcount=9, sid=0x5053,
            callouts=b'', hexdata=None, comp=0x2000):
    if hexdata is None:
        hexdata = [0x020000E0, 0x2C010000, 0x11111111, 0x22000000,
                   0x33333333, 0x44444444, 0x55555555, 0x66666666]
    a = ascii_str.encode().ljust(32, b' ')[:32]
    body = bytes([2, flags, 0, wordcount]) + b'\x00\x00' + \
        struct.pack('>H', 72 + len(callouts)) + \
        b''.join(struct.pack('>I', h) for h in hexdata) + a + callouts
    return hdr(sid, 8 + len(body), 1, 1, comp) + body


def callouts_block():
    fru = struct.pack('>HBB', 0x4944, 28, 0x2F) + b'PN123456' + b'CCIN' + \
        b'SN1234567890'
    loc = b'U78DA.ND1-P0\x00\x00\x00\x00'
    co = bytes([4 + len(loc) + len(fru), 0x3E, ord('H'), len(loc)]) + loc + fru
    fru2 = struct.pack('>HBB', 0x4944, 12, 0x12) + b'BMC0001\x00'
    co2 = bytes([4 + len(fru2), 0x3E, ord('M'), 0]) + fru2
    total = 4 + len(co) + len(co2)
    return bytes([0xC0, 0]) + struct.pack('>H', total // 4) + co + co2


def sec_eh():
    body = b'9105-22A'.ljust(8, b'\0') + b'SN1234567'.ljust(12, b'\0') + \
        b'fw1050.00-12'.ljust(16, b'\0') + b'fw1050.00-sub'.ljust(16, b'\0') + \
        b'\0\0\0\0' + bytes.fromhex('2024061312304500') + b'\0\0\0' + \
        bytes([8]) + b'BD8D1234'
    return hdr(0x4548, 8 + len(body), 1, 0, 0x2000) + body


def sec_mt():
    body = b'9105-22A'.ljust(8, b'\0') + b'SN1234567'.ljust(12, b'\0')
    return hdr(0x4D54, 8 + len(body)) + body


def sec_ip(ntargets=3):
    name = b'lpar-one\0\0\0\0'
    body = struct.pack('>HBBI', 1, len(name), ntargets, 0x77) + name + \
        b''.join(struct.pack('>H', i + 2) for i in range(ntargets))
    if ntargets % 2:
        body += b'\0\0'
    return hdr(0x4C50, 8 + len(body)) + body


def sec_ud(data, sub=1, ver=1, comp=0x2000, length=None, sid=0x5544):
    ln = 8 + len(data) if length is None else length
    return hdr(sid, ln, ver, sub, comp) + data


def sec_ed(data, creator=b'O', sub=1, ver=1, comp=0x2000, length=None):
    ln = 12 + len(data) if length is None else length
    return hdr(0x4544, ln, ver, sub, comp) + creator + b'\0\0\0' + data


def sec_other(sid, data, sub=0, ver=1, comp=0x1234, length=None):
    ln = 8 + len(data) if length is None else length
    return hdr(sid, ln, ver, sub, comp) + data


def pel(sections, creator=b'O', nsec=None, **kw):
    uhkw = {k: kw.pop(k) for k in list(kw) if k in
            ('sev', 'action', 'subsystem', 'scope', 'etype', 'states')}
    n = len(sections) + 2 if nsec is None else nsec
    return sec_ph(n, creator=creator, **kw) + sec_uh(**uhkw) + \
        b''.join(sections)


JSON_UD = json.dumps({'Key': 'value', 'List': [1, 2, 3],
                      'Nested': {'q"uote': 'a\\b', 'x': None}}).encode()
TEXT_UD = b'line one\nline \x01two\xc3\xa9\nlast line\n\0\0'
RAW_UD = bytes(range(0, 70))


def sample_pels():
    pels = OrderedDict()
    pels['minimal'] = pel([])
    pels['src-only'] = pel([sec_src()])
    pels['src-callouts'] = pel([sec_src(flags=1, callouts=callouts_block())])
    pels['full'] = pel([
        sec_src(flags=1, callouts=callouts_block()), sec_eh(), sec_mt(),
        sec_ud(JSON_UD, sub=1), sec_ud(TEXT_UD, sub=3), sec_ud(RAW_UD, sub=2),
        sec_ud(RAW_UD, sub=4), sec_ud(RAW_UD, sub=9),
        sec_ed(JSON_UD, creator=b'O', sub=1), sec_ed(RAW_UD, creator=b'B',
                                                     comp=0xAB00, sub=4),
        sec_ip(3), sec_other(0x4448, b'dumpdump'), sec_other(0x5357, RAW_UD),
        sec_src(ascii_str='11001234', sid=0x5353),
        sec_src(ascii_str='BC801234', sid=0x5353),
        sec_other(0x1234, b'\x01\x02\x03\x04'),
        sec_other(0x4549, b'E' * 20), sec_other(0x4549, b'F' * 5),
    ])
    pels['dup-names'] = pel([sec_src(), sec_ud(JSON_UD), sec_mt(),
                             sec_ud(b'not json at all', sub=1),
                             sec_ud(b'[1, 2]', sub=1), sec_mt(),
                             sec_ed(b'"str"', sub=1),
                             sec_ed(b'{"Data": 1}', sub=1),
                             sec_ed(b'null', sub=1)])
    pels['hostboot'] = pel([sec_src(ascii_str='BC8A1234'),
                            sec_ud(RAW_UD, comp=0x0100, sub=5)],
                           creator=b'B')
    pels['phyp'] = pel([sec_src(ascii_str='B7001111', comp=0x4142),
                        sec_ud(RAW_UD, comp=0x4142, sub=5),
                        sec_ud(RAW_UD, comp=0x4100, sub=5)], creator=b'H',
                       comp=0x4142)
    pels['plugin-all'] = pel(
        [sec_src()] +
        [sec_ud(b'payload-%d' % i, comp=0xAB00, sub=i, ver=i + 1)
         for i in list(range(0, 24))] +
        [sec_ud(b'', comp=0xAB00, sub=4), sec_ud(b'', comp=0xAB00, sub=0),
         sec_ud(b'', comp=0xAB00, sub=20)], creator=b'B')
    pels['plugin-ext'] = pel(
        [sec_src()] +
        [sec_ed(b'payload-%d' % i, creator=b'B', comp=0xAB00, sub=i)
         for i in list(range(0, 24))] +
        [sec_ed(b'', creator=b'B', comp=0xAB00, sub=4)], creator=b'O')
    for i in range(24):
        # one PEL per plugin behaviour: a failing section ends the decode
        pels['plugin-ud-%d' % i] = pel(
            [sec_src(), sec_ud(b'solo-%d' % i, comp=0xAB00, sub=i),
             sec_ud(JSON_UD)], creator=b'B')
        pels['plugin-ed-%d' % i] = pel(
            [sec_src(), sec_ed(b'solo-%d' % i, creator=b'B', comp=0xAB00,
                               sub=i), sec_ud(JSON_UD)])
    pels['real-plugins'] = pel([
        sec_src(),
        sec_ud(struct.pack('>I', 2) + bytes(range(24)), comp=0xE500, sub=1),
        sec_ud(struct.pack('>I', 9) + bytes(range(24)), comp=0xE500, sub=1),
        sec_ud(RAW_UD, comp=0xE500, sub=2),
        sec_ud(JSON_UD, comp=0xE500, sub=3),
        sec_ud(RAW_UD, comp=0xE500, sub=4),
        sec_ud(RAW_UD, comp=0xE500, sub=77),
        sec_ed(RAW_UD, creator=b'M', comp=0x2C00, sub=1),
        sec_ed(RAW_UD, creator=b'M', comp=0x2C00, sub=2),
        sec_ed(RAW_UD, creator=b'M', comp=0x2C00, sub=3),
        sec_ed(RAW_UD, creator=b'M', comp=0x2C00, sub=50),
        sec_ud(RAW_UD, comp=0x9999, sub=1),
    ])
    pels['ud-empty'] = pel([sec_src(), sec_ud(b''), sec_ud(JSON_UD)])
    pels['ud-neg'] = pel([sec_src(), sec_ud(b'', length=4), sec_ud(JSON_UD)])
    pels['ed-empty'] = pel([sec_src(), sec_ed(b''), sec_ud(JSON_UD)])
    pels['ed-short'] = pel([sec_src(), sec_ed(b'', length=9)])
    pels['def-empty'] = pel([sec_src(), sec_other(0x4448, b'')])
    pels['ud-long'] = pel([sec_src(), sec_ud(JSON_UD, length=400)])
    pels['ud-bad-utf8'] = pel([sec_src(), sec_ud(b'\xff\xfe{"a":1}', sub=1),
                               sec_ud(b'\xff\xfe', sub=3)])
    pels['count-more'] = pel([sec_src(), sec_ud(JSON_UD)], nsec=9)
    pels['count-less'] = pel([sec_src(), sec_ud(JSON_UD), sec_mt()], nsec=3)
    pels['count-0'] = pel([sec_src()], nsec=0)
    pels['count-255'] = pel([sec_src()], nsec=255)
    pels['no-src'] = pel([sec_ud(JSON_UD), sec_mt()])
    pels['src-late'] = pel([sec_ud(JSON_UD), sec_mt(), sec_src(),
                            sec_ud(TEXT_UD, sub=3)])
    pels['two-primary'] = pel([sec_src(), sec_src(ascii_str='BD8D9999')])
    pels['info'] = pel([sec_src()], sev=0x00, action=0x0000)
    pels['info-svc'] = pel([sec_src()], sev=0x00, action=0x8000)
    pels['hidden'] = pel([sec_src()], sev=0x40, action=0x6000)
    pels['recovered'] = pel([sec_src()], sev=0x10, action=0x2000)
    pels['critterm'] = pel([sec_src()], sev=0x51, action=0x2000)
    pels['predictive'] = pel([sec_src()], sev=0x20, action=0xA000)
    pels['bad-ph'] = sec_ph(3, sid=0x5049) + sec_uh() + sec_src()
    pels['bad-uh'] = sec_ph(3) + sec_uh(sid=0x5549) + sec_src()
    pels['eid-odd'] = pel([sec_src()], eid=0x0000000A, plid=0xFFFFFFFF)
    pels['creator-unknown'] = pel([sec_src(), sec_ud(RAW_UD, comp=0x1111)],
                                  creator=b'Z')
    pels['creator-nonascii'] = pel([sec_src(), sec_ud(RAW_UD, comp=0x1111)],
                                   creator=b'\xff')
    pels['ed-creator-nonascii'] = pel([sec_src(),
                                       sec_ed(RAW_UD, creator=b'\xe9'),
                                       sec_ed(RAW_UD, creator=b'\x00')])
    pels['src-bad-ascii'] = pel([sec_src(ascii_str='BD8D\u00e9')])
    pels['src-wordcount'] = pel([sec_src(wordcount=12)])
    pels['empty'] = b''
    pels['tiny'] = b'PH'
    return pels


def all_configs():
    cfgs = []

    def mk(name, **kw):
        c = Config()
        for k, v in kw.items():
            setattr(c, k, v)
        cfgs.append((name, c))
    mk('default')
    mk('noplug', allow_plugins=False)
    mk('every', every_pel=True)
    mk('every-noplug', every_pel=True, allow_plugins=False)
    mk('hidden-only', hidden=True, only=True)
    mk('nonsvc', non_serviceable=True)
    mk('svc-only-sev', serviceable=True, only=True, severities=[4])
    mk('sev-info', severities=[0])
    mk('sev-only', severities=[2, 1], only=True)
    mk('term', critSysTerm=True, only=True)
    mk('plid-only', only=True, plid='50000001')
    mk('hex', hex=True, every_pel=True)
    return cfgs


def mutate(blob, k):
    b = bytearray(blob)
    if not b:
        return bytes(b)
    how = k % 5
    if how == 0:
        for _ in range(1 + rnd.randrange(3)):
            b[rnd.randrange(len(b))] = rnd.randrange(256)
    elif how == 1:
        pos = rnd.randrange(len(b))
        b[pos] ^= 1 << rnd.randrange(8)
    elif how == 2:
        pos = rnd.randrange(len(b))
        del b[pos:pos + rnd.randrange(1, 9)]
    elif how == 3:
        pos = rnd.randrange(len(b))
        b[pos:pos] = bytes(rnd.randrange(256)
                           for _ in range(rnd.randrange(1, 9)))
    else:
        # target a section length / id / count field
        pos = rnd.choice([0, 1, 2, 3, 27, 48, 49, 50, 51, 72, 73, 74, 75,
                          76, 77, 78, 79])
        if pos < len(b):
            b[pos] = rnd.choice([0, 1, 4, 7, 8, 9, 12, 0x50, 0x55, 0xFF,
                                 rnd.randrange(256)])
    return bytes(b)


# --------------------------------------------------------------------------
# C. section classes directly
# --------------------------------------------------------------------------


def section_class_cases():
    from pel.peltool.default import Default
    from pel.peltool.user_data import UserData
    from pel.peltool.ext_user_data import ExtUserData
    import pel.peltool.default as default_mod
    import pel.peltool.user_data as ud_mod
    import pel.peltool.ext_user_data as ed_mod

    def attrs(o):
        d = {}
        for k, v in sorted(vars(o).items()):
            if k == 'stream':
                d[k] = ('stream', v.index)
            else:
                d[k] = v
        return d

    payloads = [b'', b'\x00', JSON_UD, TEXT_UD, RAW_UD, b'[1,2,3]', b'"s"',
                b'12', b'null', b'true', b'not json', b'{"Data": [1]}',
                b'{"a": 1}\0\0\0', b'  {"a": 1}  \n', b'\xff\xfe\xfd',
                b'{"dup": 1, "dup": 2}', b'{"Section Version": 7}', b'{',
                b'NaN', b'{"a": NaN}', b'1e400', b'"\\ud800"',
                bytes(rnd.randrange(256) for _ in range(50))]
    combos = []
    for creator in ('O', 'B', 'H', 'M', 'Z', '', '\u00e9', 'o'):
        for comp in (0x2000, 0xAB00, 0xE500, 0x2C00, 0x4142, 0x0000):
            combos.append((creator, comp))
    n = 0
    for pi, p in enumerate(payloads):
        for wrap in ('bytes', 'mv'):
            for lendelta in (0, 3, -3, -len(p) - 8, 1000):
                blob = b'\x4f\x00\x00\x00'[:0] + p
                for sub in (0, 1, 2, 3, 4, 5, 23):
                    creator, comp = combos[n % len(combos)]
                    n += 1
                    for cname, cfg in configs():
                        def mkstream(prefix=b''):
                            d = prefix + blob + b'TAIL'
                            if wrap == 'mv':
                                d = memoryview(d)
                            return DataStream(d, byte_order='big',
                                              is_signed=False)
                        key = '%d/%s/%d/%d/%s/%04X/%s' % (
                            pi, wrap, lendelta, sub, creator, comp, cname)
                        slen = 8 + len(p) + lendelta

                        def run_ud():
                            s = mkstream()
                            o = UserData(s, 0x5544, slen, 2, sub, comp,
                                         creator)
                            a1 = attrs(o)
                            j = o.toJSON(cfg)
                            j2 = o.toJSON(cfg)
                            return a1, j, j2, attrs(o), s.index
                        rec('cls/ud/' + key, run_ud)

                        def run_ed():
                            cb = creator.encode('latin-1', 'replace')[:1] \
                                or b'\0'
                            s = mkstream(cb + b'\x01\x02\x03')
                            o = ExtUserData(s, 0x4544, slen + 4, 2, sub,
                                            comp)
                            a1 = attrs(o)
                            j = o.toJSON(cfg)
                            j2 = o.toJSON(cfg)
                            return a1, j, j2, attrs(o), s.index
                        rec('cls/ed/' + key, run_ed)

                        if cname == 'plug':
                            def run_def():
                                s = mkstream()
                                o = Default(s, 0x4448, slen, 2, sub, comp)
                                a1 = attrs(o)
                                j = o.toJSON()
                                j2 = o.toJSON()
                                return a1, j, j2, attrs(o), s.index
                            rec('cls/def/' + key, run_def)
    # stream without defaults / little endian / signed
    for kw in (dict(), dict(byte_order='little', is_signed=True),
               dict(byte_order='big')):
        def run():
            s = DataStream(b'O\x00\x00\x00{"a": 1}', **kw)
            o = ExtUserData(s, 0x4544, 20, 1, 1, 0x2000)
            return attrs(o), o.toJSON(Config())
        rec('cls/ed-stream/%r' % sorted(kw), run)
    # every behaviour of the fake plugin, with and without data
    for sub in range(26):
        for p in (b'', b'xyz', JSON_UD):
            for cname, cfg in configs():
                def run(cls, extra, prefix):
                    s = DataStream(prefix + p + b'TAIL', byte_order='big',
                                   is_signed=False)
                    o = cls(s, 0x5544, 8 + len(prefix) + len(p), 1, sub,
                            0xAB00, *extra)
                    return o.toJSON(cfg), o.toJSON(cfg), s.index
                rec('cls/plugin/ud/%d/%d/%s' % (sub, len(p), cname),
                    lambda: run(UserData, ('B',), b''))
                rec('cls/plugin/ed/%d/%d/%s' % (sub, len(p), cname),
                    lambda: run(ExtUserData, (), b'B\0\0\0'))
    # odd section length types: the stream position afterwards matters too
    for slen in (None, '20', 20.0, 20.5, True, [], 2 ** 70, -2 ** 70):
        for cls, extra in ((UserData, ('O',)), (ExtUserData, ()),
                           (Default, ())):
            s = DataStream(b'O\x00\x00\x00{"a": 1}' * 3, byte_order='big',
                           is_signed=False)
            rec('cls/oddlen/%s/%r' % (cls.__name__, slen),
                lambda: attrs(cls(s, 0x5544, slen, 1, 1, 0x2000, *extra)),
                lambda: s.index)
    # odd header values are passed through / formatted the same way
    for comp in (0, 0xFFFF, 0x12345, -1, 1.5, None, 'x', True):
        for ver in (0, 255, None, 'v'):
            def run(cls, extra):
                s = DataStream(b'O\x00\x00\x00{"a": 1}', byte_order='big',
                               is_signed=False)
                o = cls(s, 0x5544, 20, ver, ver, comp, *extra)
                return o.toJSON(*([Config()] if cls is not Default else []))
            rec('cls/oddhdr/ud/%r/%r' % (comp, ver),
                lambda: run(UserData, ('B',)))
            rec('cls/oddhdr/ed/%r/%r' % (comp, ver),
                lambda: run(ExtUserData, ()))
            rec('cls/oddhdr/def/%r/%r' % (comp, ver),
                lambda: run(Default, ()))
    for m, names in ((default_mod, ['Default']), (ud_mod, ['UserData']),
                     (ed_mod, ['ExtUserData'])):
        rec('cls/public/' + m.__name__,
            lambda: [hasattr(m, x) for x in names])


# --------------------------------------------------------------------------
# D. peltool functions
# --------------------------------------------------------------------------


def peltool_cases():
    from pel.peltool import peltool as pt
    pels = sample_pels()
    cfgs = all_configs()

    def stream_of(blob, mv=False):
        return DataStream(memoryview(blob) if mv else blob, byte_order='big',
                          is_signed=False)

    def run_parse(blob, cfg, eoe, mv=False):
        s = stream_of(blob, mv)
        r = pt.parsePEL(s, cfg, eoe)
        return r, s.index

    def run_summary(blob, cfg, mv=False):
        s = stream_of(blob, mv)
        r = pt.parsePELSummary(s, cfg)
        return r, s.index

    for name, blob in pels.items():
        for cname, cfg in cfgs:
            rec('pt/parse/%s/%s' % (name, cname),
                lambda: run_parse(blob, cfg, False))
            rec('pt/summary/%s/%s' % (name, cname),
                lambda: run_summary(blob, cfg))
        rec('pt/parse-exit/%s' % name,
            lambda: run_parse(blob, cfgs[0][1], True))
        rec('pt/parse-mv/%s' % name,
            lambda: run_parse(blob, cfgs[2][1], False, True))
        rec('pt/summary-mv/%s' % name,
            lambda: run_summary(blob, cfgs[2][1], True))
        # repeated decode in the same process
        rec('pt/parse-again/%s' % name,
            lambda: run_parse(blob, cfgs[2][1], False))

    every = cfgs[2][1]
    every_np = cfgs[3][1]
    # truncation at every offset for a few PELs
    for name in ('full', 'dup-names', 'plugin-all', 'src-callouts'):
        blob = pels[name]
        step = 1 if len(blob) < 700 else 3
        for cut in range(0, len(blob), step):
            rec('pt/trunc/%s/%d' % (name, cut),
                lambda: run_parse(blob[:cut], every, False))
            if cut % 2 == 0:
                rec('pt/trunc-sum/%s/%d' % (name, cut),
                    lambda: run_summary(blob[:cut], every))
            if cut % 5 == 0:
                rec('pt/trunc-exit/%s/%d' % (name, cut),
                    lambda: run_parse(blob[:cut], every_np, True))
    # corruptions
    for name in ('full', 'dup-names', 'plugin-ext', 'real-plugins',
                 'src-callouts', 'hostboot', 'phyp', 'minimal'):
        blob = pels[name]
        for k in range(70):
            m = mutate(blob, k)
            cfg = every if k % 3 else every_np
            rec('pt/mut/%s/%d' % (name, k), lambda: run_parse(m, cfg, False))
            rec('pt/mut-sum/%s/%d' % (name, k), lambda: run_summary(m, cfg))
            if k % 7 == 0:
                rec('pt/mut-exit/%s/%d' % (name, k),
                    lambda: run_parse(m, cfgs[0][1], True))
    # random garbage, with and without valid headers
    for k in range(120):
        junk = bytes(rnd.randrange(256)
                     for _ in range(rnd.randrange(0, 300)))
        rec('pt/rand/%d' % k, lambda: run_parse(junk, every, False))
        rec('pt/rand-sum/%d' % k, lambda: run_summary(junk, every))
        withhdr = sec_ph(rnd.randrange(0, 8)) + sec_uh() + junk
        rec('pt/randh/%d' % k, lambda: run_parse(withhdr, every, False))
        rec('pt/randh-sum/%d' % k, lambda: run_summary(withhdr, every))
        # random section ids / lengths followed by junk
        secs = b''
        for _ in range(rnd.randrange(1, 6)):
            sid = rnd.choice([0x5053, 0x5353, 0x4548, 0x4D54, 0x4544, 0x5544,
                              0x4C50, 0x4448, 0x5357, 0x0000, 0xFFFF,
                              0x5048, 0x5548, rnd.randrange(65536)])
            body = bytes(rnd.randrange(256)
                         for _ in range(rnd.randrange(0, 100)))
            ln = rnd.choice([8 + len(body), 8 + len(body), 0, 7, 8, 9, 12,
                             len(body), 0xFFFF])
            secs += hdr(sid, ln, rnd.randrange(256), rnd.randrange(8),
                        rnd.choice([0x2000, 0xAB00, 0xE500,
                                    rnd.randrange(65536)])) + body
        p = sec_ph(rnd.randrange(2, 9),
                   creator=rnd.choice([b'O', b'B', b'H', b'M'])) + \
            sec_uh() + secs
        rec('pt/randsec/%d' % k,
            lambda: run_parse(p, every if k % 2 else every_np, False))
        rec('pt/randsec-sum/%d' % k, lambda: run_summary(p, every))

    # sectionFun directly
    sids = [0x5053, 0x5353, 0x4548, 0x4D54, 0x4544, 0x5544, 0x4C50, 0x4448,
            0x5357, 0x4C52, 0x484D, 0x4550, 0x4945, 0x4D49, 0x4348, 0x4549,
            0x5048, 0x5548, 0, 0xFFFF, 0x10000 + 0x5544, -1, 0x5544 + 0.0]
    bodies = {'src': sec_src()[8:], 'eh': sec_eh()[8:], 'mt': sec_mt()[8:],
              'ip': sec_ip()[8:], 'ed': sec_ed(JSON_UD)[8:],
              'json': JSON_UD, 'raw': RAW_UD, 'empty': b'', 'short': b'ab'}
    for sid in sids:
        for bname, body in bodies.items():
            for slen in (8 + len(body), 8, 0, 20, 12):
                for cname, cfg in cfgs[:2]:
                    def run():
                        s = stream_of(body)
                        out = OrderedDict()
                        out['pre-existing'] = 1
                        r = pt.sectionFun(s, out, sid, slen, 3, 1, 0x2000,
                                          'O', cfg)
                        return r, out, s.index
                    rec('pt/secfun/%r/%s/%d/%s' % (sid, bname, slen, cname),
                        run)
    rec('pt/secfun/sig', lambda: pt.sectionFun.__code__.co_varnames[
        :pt.sectionFun.__code__.co_argcount])

    # buildOutput directly
    def bo(sections, pre=None):
        out = OrderedDict(pre or {})
        r = pt.buildOutput(sections, out)
        return r, out, sections
    names = ['User Data', 'Primary SRC', 'Failing MTMS', 'Unknown',
             'User Data 0', 'User Data 1', '', 'X']
    rec('pt/bo/empty', lambda: bo([]))
    for k in range(150):
        secs = []
        for i in range(rnd.randrange(0, 9)):
            nm = rnd.choice(names)
            d = OrderedDict()
            d[nm] = {'i': i, 'n': nm}
            if rnd.random() < 0.15:
                d['second key'] = i
            secs.append(d)
        pre = {'Private Header': 1, 'User Data': 'pre'} if k % 4 == 0 else None
        rec('pt/bo/%d' % k, lambda: bo(secs, pre))
    rec('pt/bo/plain-dict', lambda: bo([{'a': 1}, {'a': 2}, {'b': 3}]))
    rec('pt/bo/empty-sec', lambda: bo([{'a': 1}, {}]))
    rec('pt/bo/intkeys', lambda: bo([{1: 'x'}, {1: 'y'}, {2: 'z'}]))
    rec('pt/bo/intkey-single', lambda: bo([{1: 'x'}, {2: 'z'}]))
    rec('pt/bo/tuplekeys', lambda: bo([{(1, 2): 'x'}, {(1, 2): 'y'}]))
    rec('pt/bo/tuple-arg', lambda: bo(({'a': 1}, {'a': 2})))
    rec('pt/bo/unhashable', lambda: bo([[1]]))
    # (only sequences are passed as sections: the parameter is annotated as
    # list and the only caller passes a list)

    # other public helpers of the touched module keep working
    rec('pt/names', lambda: [pt.getSectionName(s) for s in sids[:20]])
    rec('pt/parseHeader', lambda: pt.parseHeader(stream_of(hdr(1, 2, 3, 4, 5))))
    rec('pt/public', lambda: [n for n in (
        'getSectionName', 'parseHeader', 'generatePH', 'generateUH',
        'generateSRC', 'generateEH', 'generateMT', 'generateED', 'generateUD',
        'generateIP', 'generateDefault', 'sectionFun', 'buildOutput',
        'prettyPrint', 'considerPEL', 'parsePEL', 'parsePELSummary',
        'parseAndWriteOutput', 'parseAndPrintPELFile', 'main')
        if not hasattr(pt, n)])
    for gen in ('generateSRC', 'generateEH', 'generateMT', 'generateED',
                'generateUD', 'generateIP', 'generateDefault', 'generatePH',
                'generateUH', 'parsePEL', 'parsePELSummary', 'buildOutput'):
        rec('pt/sig/' + gen, lambda: getattr(pt, gen).__code__.co_varnames[
            :getattr(pt, gen).__code__.co_argcount])

    # generateXX called directly
    def gen_direct(fname, body, *extra):
        s = stream_of(body)
        out = OrderedDict()
        r = getattr(pt, fname)(s, out, *extra)
        return r[0], type(r[1]).__name__, out, s.index
    c0 = cfgs[0][1]
    rec('pt/gen/src', lambda: gen_direct('generateSRC', bodies['src'], 0x5053,
                                         80, 1, 1, 0x2000, 'O', c0))
    rec('pt/gen/eh', lambda: gen_direct('generateEH', bodies['eh'], 0x4548,
                                        80, 1, 1, 0x2000, 'O'))
    rec('pt/gen/mt', lambda: gen_direct('generateMT', bodies['mt'], 0x4D54,
                                        28, 1, 1, 0x2000, 'O'))
    rec('pt/gen/ed', lambda: gen_direct('generateED', bodies['ed'], 0x4544,
                                        len(bodies['ed']) + 8, 1, 1, 0x2000,
                                        c0))
    rec('pt/gen/ud', lambda: gen_direct('generateUD', JSON_UD, 0x5544,
                                        len(JSON_UD) + 8, 1, 1, 0x2000, 'O',
                                        c0))
    rec('pt/gen/ip', lambda: gen_direct('generateIP', bodies['ip'], 0x4C50,
                                        40, 1, 1, 0x2000, 'O'))
    rec('pt/gen/def', lambda: gen_direct('generateDefault', RAW_UD, 0x4448,
                                         len(RAW_UD) + 8, 1, 1, 0x2000))


datastream_cases()
hexdump_cases()
section_class_cases()
peltool_cases()
rec('plugin-calls', lambda: PLUGIN_CALLS)
from pel.peltool import parse_user_data as _pud
rec('plugin-cache', lambda: sorted((k, v is None)
                                   for k, v in _pud.userDataParsers.items()))

with open(sys.argv[1], 'w') as f:
    json.dump(results, f)
'''

# The part of the driver that defines the PEL builders is reused to create the
# files for the CLI runs.
GEN_FILES = r'''
import os
dest = sys.argv[2]
pels = sample_pels()
for name, blob in pels.items():
    if name.startswith('plugin-ud-') or name.startswith('plugin-ed-'):
        continue
    ext = '.pel' if name not in ('info', 'hidden') else '.txt'
    with open(os.path.join(dest, '%s%s' % (name, ext)), 'wb') as f:
        f.write(blob)
blob = pels['full']
for cut in (10, 47, 48, 60, 72, 80, 100, 151, 152, 300, len(blob) - 1):
    with open(os.path.join(dest, 'trunc_%04d.pel' % cut), 'wb') as f:
        f.write(blob[:cut])
for k in range(12):
    with open(os.path.join(dest, 'mut_%02d.pel' % k), 'wb') as f:
        f.write(mutate(pels['dup-names'], k))
with open(os.path.join(dest, '50000001.pel'), 'wb') as f:
    f.write(pels['dup-names'])
os.mkdir(os.path.join(dest, 'subdir'))
with open(os.path.join(dest, 'subdir', 'nested.pel'), 'wb') as f:
    f.write(pels['src-only'])
'''


def run_driver(root, workdir, tag, opt):
    out = os.path.join(workdir, 'driver_%s.json' % tag)
    script = os.path.join(workdir, 'driver.py')
    with open(script, 'w') as f:
        f.write(DRIVER)
    env = dict(os.environ)
    env['PYTHONPATH'] = os.path.join(root, 'modules')
    env['PYTHONHASHSEED'] = '0'
    env['PYTHONDONTWRITEBYTECODE'] = '1'
    cmd = [PY] + (['-O'] if opt else []) + [script, out]
    p = subprocess.run(cmd, env=env, stdout=subprocess.PIPE,
                       stderr=subprocess.PIPE, universal_newlines=True,
                       cwd=workdir)
    if p.returncode != 0:
        print('driver failed for', root, 'opt' if opt else '')
        print(p.stdout[-3000:])
        print(p.stderr[-3000:])
        sys.exit(1)
    with open(out) as f:
        # Warnings / messages may mention the location of the tree.
        return json.loads(f.read().replace(root, '<ROOT>'))


def make_pel_dir(workdir, root, dest):
    """Generate the PEL files for the CLI runs (always the same bytes)."""
    script = os.path.join(workdir, 'genfiles.py')
    # Only the definitions of the driver are needed: cut off the execution
    # part at the end.
    defs = DRIVER.split('\ndatastream_cases()\nhexdump_cases()')[0]
    with open(script, 'w') as f:
        f.write(defs + GEN_FILES)
    env = dict(os.environ)
    env['PYTHONPATH'] = os.path.join(root, 'modules')
    env['PYTHONDONTWRITEBYTECODE'] = '1'
    subprocess.run([PY, script, 'unused', dest], env=env, check=True,
                   cwd=workdir)


def snapshot(path):
    snap = {}
    for r, dirs, files in os.walk(path):
        dirs.sort()
        for fn in sorted(files):
            full = os.path.join(r, fn)
            with open(full, 'rb') as f:
                snap[os.path.relpath(full, path)] = f.read().hex()
        for d in dirs:
            snap[os.path.relpath(os.path.join(r, d), path) + '/'] = 'dir'
    return snap


def cli_cases():
    """(name, argv with {D} = pel dir, {O} = output dir, opt flag)"""
    cases = []

    def add(name, args, opt=False):
        cases.append((name, args, opt))
    files = ['full', 'dup-names', 'plugin-all', 'plugin-ext', 'real-plugins',
             'minimal', 'bad-ph', 'bad-uh', 'empty', 'tiny', 'ud-neg',
             'ed-short', 'count-more', 'hostboot', 'phyp', 'src-late',
             'ud-bad-utf8', 'eid-odd']
    for f in files:
        add('f/' + f, ['-f', '{D}/%s.pel' % f])
        add('f-O/' + f, ['-f', '{D}/%s.pel' % f], True)
    for f in ('full', 'dup-names', 'bad-ph', 'ud-neg'):
        add('fP/' + f, ['-f', '{D}/%s.pel' % f, '-P'])
        add('fx/' + f, ['-f', '{D}/%s.pel' % f, '-x'])
        add('fc/' + f, ['-f', '{D}/%s.pel' % f, '-c'])
        add('fc-O/' + f, ['-f', '{D}/%s.pel' % f, '-c', '-P'], True)
    for f in ('trunc_0010', 'trunc_0047', 'trunc_0060', 'trunc_0100',
              'trunc_0151', 'trunc_0300', 'mut_00', 'mut_03', 'mut_07'):
        add('f/' + f, ['-f', '{D}/%s.pel' % f])
    add('f/info', ['-f', '{D}/info.txt'])
    add('f/info-E', ['-f', '{D}/info.txt', '-E'])
    add('f/missing', ['-f', '{D}/does-not-exist.pel'])
    add('f/dir', ['-f', '{D}'])
    for extra in ([], ['-E'], ['-E', '-P'], ['-H', '-O'], ['-r'],
                  ['-e', '.pel'], ['-e', '.txt', '-E'], ['-x', '-E'],
                  ['-S', 'Informational'], ['-O', '-S', 'Predictive'],
                  ['-N'], ['-t', '-O'], ['-s', '-O', '-S', 'Unrecoverable']):
        tag = '_'.join(extra) or 'plain'
        add('l/' + tag, ['-p', '{D}', '-l'] + extra)
        add('a/' + tag, ['-p', '{D}', '-a'] + extra)
        add('n/' + tag, ['-p', '{D}', '-n'] + extra)
    add('l-O/E', ['-p', '{D}', '-l', '-E'], True)
    add('a-O/E', ['-p', '{D}', '-a', '-E'], True)
    add('a-O/EP', ['-p', '{D}', '-a', '-E', '-P'], True)
    add('n-O/E', ['-p', '{D}', '-n', '-E'], True)
    add('j/plain', ['-p', '{D}', '-j'])
    add('j/E', ['-p', '{D}', '-j', '-E'])
    add('j/Eo', ['-p', '{D}', '-j', '-E', '-o', '{O}'])
    add('j/Eoc', ['-p', '{D}', '-j', '-E', '-o', '{O}', '-c'])
    add('j/Ec', ['-p', '{D}', '-j', '-E', '-c', '-P'])
    add('j/Ece', ['-p', '{D}', '-j', '-E', '-c', '-e', '.txt'])
    add('j-O/Eoc', ['-p', '{D}', '-j', '-E', '-o', '{O}', '-c'], True)
    add('j/badout', ['-p', '{D}', '-j', '-o', '{D}/nope'])
    add('i/ok', ['-p', '{D}', '-i', '0x50000001'])
    add('i/full', ['-p', '{D}', '-i', 'full.pel'])
    add('i/short', ['-p', '{D}', '-i', '5000'])
    add('i/none', ['-p', '{D}', '-i', '12345678'])
    add('bmc/ok', ['-p', '{D}', '--bmc-id', '4660'])
    add('bmc/okE', ['-p', '{D}', '--bmc-id', '4660', '-E'])
    add('bmc/x', ['-p', '{D}', '--bmc-id', '4660', '-x'])
    add('bmc/none', ['-p', '{D}', '--bmc-id', '1'])
    add('plid/ok', ['-p', '{D}', '--plid', '0x50000001'])
    add('plid/okE', ['-p', '{D}', '--plid', '50000001', '-E', '-r'])
    add('plid/x', ['-p', '{D}', '--plid', '50000001', '-x'])
    add('plid/none', ['-p', '{D}', '--plid', 'FFFFFFF0'])
    add('plid-O/ok', ['-p', '{D}', '--plid', '0x50000001'], True)
    add('src/ok', ['-p', '{D}', '--src', 'BD8D1234'])
    add('src/E', ['-p', '{D}', '--src', 'BC8', '-E'])
    add('src/x', ['-p', '{D}', '--src', 'BD8D', '-x'])
    add('src/long', ['-p', '{D}', '--src', 'B' * 40])
    add('srcex/ok', ['-p', '{D}', '--src-exclude', '{D}/exclude.lst', '-E'])
    add('srcex/missing', ['-p', '{D}', '--src-exclude', '{D}/nope.lst'])
    add('d/ok', ['-p', '{D}', '-d', '0x50000001'])
    add('d/none', ['-p', '{D}', '-d', '12345678'])
    add('D/all', ['-p', '{D}', '-D'])
    add('nopath', ['-l'])
    add('badpath', ['-p', '{D}/nope', '-l'])
    add('help', ['--help'])
    return cases


def run_cli(root, workdir, template_dir, cases):
    res = []
    peltool = os.path.join(root, 'modules', 'pel', 'peltool', 'peltool.py')
    d = os.path.join(workdir, 'pels')
    o = os.path.join(workdir, 'outdir')
    env = dict(os.environ)
    env['PYTHONPATH'] = os.path.join(root, 'modules')
    env['PYTHONHASHSEED'] = '0'
    env['PYTHONDONTWRITEBYTECODE'] = '1'
    env['COLUMNS'] = '100'
    for name, args, opt in cases:
        for p in (d, o):
            if os.path.exists(p):
                shutil.rmtree(p)
        shutil.copytree(template_dir, d)
        with open(os.path.join(d, 'exclude.lst'), 'w') as f:
            f.write('BD8D1234\nBC8A1234\n')
        os.mkdir(o)
        argv = [a.replace('{D}', d).replace('{O}', o) for a in args]
        cmd = [PY] + (['-O'] if opt else []) + [peltool] + argv
        p = subprocess.run(cmd, env=env, stdout=subprocess.PIPE,
                           stderr=subprocess.PIPE, cwd=workdir)
        res.append([name, p.returncode,
                    p.stdout.decode('utf-8', 'replace').replace(root, '<ROOT>'),
                    p.stderr.decode('utf-8', 'replace').replace(root, '<ROOT>'),
                    snapshot(d), snapshot(o)])
    return res


def compare(kind, a, b, diffs):
    n = 0
    if len(a) != len(b):
        diffs.append('%s: different number of cases %d vs %d' %
                     (kind, len(a), len(b)))
    for x, y in zip(a, b):
        n += 1
        if x != y:
            msg = '%s: case %s differs' % (kind, x[0])
            for i, (p, q) in enumerate(zip(x, y)):
                if p != q:
                    msg += '\n   field %d:\n     pristine: %s\n     patched : %s' \
                        % (i, json.dumps(p)[:1500], json.dumps(q)[:1500])
            diffs.append(msg)
    return n


def main():
    if len(sys.argv) != 3:
        print(__doc__)
        sys.exit(2)
    pristine = os.path.abspath(sys.argv[1])
    patched = os.path.abspath(sys.argv[2])
    workdir = tempfile.mkdtemp(prefix='diffcheck_')
    diffs = []
    total = 0
    try:
        for opt in (False, True):
            a = run_driver(pristine, workdir, 'a%d' % opt, opt)
            b = run_driver(patched, workdir, 'b%d' % opt, opt)
            total += compare('api%s' % (' -O' if opt else ''), a, b, diffs)

        template = os.path.join(workdir, 'template')
        os.mkdir(template)
        make_pel_dir(workdir, pristine, template)
        cases = cli_cases()
        a = run_cli(pristine, workdir, template, cases)
        b = run_cli(patched, workdir, template, cases)
        total += compare('cli', a, b, diffs)
    finally:
        shutil.rmtree(workdir, ignore_errors=True)

    if diffs:
        print('DIFFERENT: %d of %d cases' % (len(diffs), total))
        for d in diffs[:25]:
            print(d)
        sys.exit(1)
    print('IDENTICAL (%d cases)' % total)
    sys.exit(0)


if __name__ == '__main__':
    main()
