#!/usr/bin/env python3
"""
Differential check for refactorings of modules/io_drawer/ and
modules/udparsers/m2c00/.

Usage: diffcheck.py <pristine_root> <patched_root>

An in-process driver (see DRIVER below) is executed once per root and per
interpreter mode (normal / -O) in a subprocess with PYTHONPATH pointing at the
root, so the two versions never share a module cache.  The driver builds many
binary inputs (well-formed, truncated, corrupted, random), header files and
trace string files and records the observable result of every call (return
value or exception type + text, plus object state such as stream index and
attributes).  In addition the dump.py script and peltool.py are executed as
command lines and stdout / stderr / exit status are compared.

Prints "IDENTICAL (<n> cases)" and exits 0 when everything matches, exits 1
otherwise.
"""

import json
import os
import shutil
import struct
import subprocess
import sys
import tempfile

PY = sys.executable

DRIVER = r'''
import io, json, os, random, struct, sys, contextlib

ROOT = sys.argv[1]
WORK = sys.argv[2]

from io_drawer import drawer_type as DT, dump as DUMP, hlog as HLOG
from io_drawer import ilog as ILOG, trace as TRACE, utils as UTILS
from udparsers.m2c00 import m2c00 as M2
from pel.datastream import DataStream

RESULTS = []
PASS = ['']


def san(text):
    return text.replace(ROOT, '<ROOT>').replace(WORK, '<WORK>')


def norm(v):
    """Convert a value to a deterministic, JSON friendly representation."""
    if isinstance(v, memoryview):
        return ['mv', bytes(v).hex()]
    if isinstance(v, (bytes, bytearray)):
        return [type(v).__name__, bytes(v).hex()]
    if isinstance(v, bool) or v is None or isinstance(v, (int, float)):
        return v
    if isinstance(v, str):
        return san(v)
    if isinstance(v, tuple):
        return ['t'] + [norm(x) for x in v]
    if isinstance(v, list):
        return ['l'] + [norm(x) for x in v]
    if isinstance(v, dict):
        return ['d', type(v).__name__] + [[norm(k), norm(x)]
                                         for (k, x) in v.items()]
    return ['obj', type(v).__name__]


def rec(case_id, fn, *args, **kwargs):
    out = io.StringIO()
    err = io.StringIO()
    try:
        with contextlib.redirect_stdout(out), contextlib.redirect_stderr(err):
            value = fn(*args, **kwargs)
        res = ['ok', norm(value)]
    except BaseException as e:      # noqa
        res = ['exc', type(e).__name__, san(str(e))]
    RESULTS.append([PASS[0] + case_id, res, san(out.getvalue()),
                    san(err.getvalue())])
    return res


# ---------------------------------------------------------------------------
# Input files
# ---------------------------------------------------------------------------

def write(name, text, mode='w'):
    path = os.path.join(WORK, name)
    with open(path, mode) as f:
        f.write(text)
    return path


MEX_H = DT.MEX_DRAWER_TYPE.get_header_file_path()
NIM_H = DT.NIMITZ_DRAWER_TYPE.get_header_file_path()
MEX_S = DT.MEX_DRAWER_TYPE.get_trace_string_file_path()
NIM_S = DT.NIMITZ_DRAWER_TYPE.get_trace_string_file_path()

HDR_A = write('hdr_a.h', r"""
// synthetic header
  { "FFFF0000", "outside table", {}, "x.cpp", 1 },
static struct pte_entry_struct static_pte_entry_table[PTE_TABLE_SIZE] =
{
  { "01040000", "Power on complete", {}, "states.cpp", 601 },
  { "100100**", "PS%d - Faults Cleared", {4}, "mps.cpp", 759 },
  { "0200****", "  This PEROM level = %c%c  ", {3, 4}, "states.cpp", 254 },
  { "E2082690", "P1 IO Bay VRM in \"N-Mode\"", {}, "vrm_monitor.cpp", 145 },
  { "E20826**", "Generic VRM %02X fault", {4}, "vrm_monitor.cpp", 146 },
  { "E3******", "err %d %d %d %d %d", {1,2,3,4,4}, "a.cpp", 7 },
  { "E4******", "bad params %d", {0, 5, 9, 2}, "a.cpp", 8 },
  { "E5******", "multi digit %d %d", {12}, "a.cpp", 9 },
  { "E6******", "too few %d %d", {1}, "a.cpp", 10 },
  { "E7******", "too many %d", {1, 2}, "a.cpp", 11 },
  { "E8******", "100% sure", {}, "a.cpp", 12 },
  { "E9******", "percent %% ok %s %x %5.1f %c", {1, 2, 3, 4}, "a.cpp", 13 },
  { "ea0400ab", "lower case pattern", {}, "a.cpp", 14 },
  { "EB04[0-9]*0*", "regex meta %u", {2}, "a.cpp", 15 },
  { "EC", "short pattern", {}, "a.cpp", 16 },
  { "ED0400AB77", "long pattern", {}, "a.cpp", 17 },
  { "EE******", "", {}, "", 0 },
  { "EF******", "no trailing comma", {}, "a.cpp", 18 }
  { "F0******" , "spaces" , { 1 , 2 } , "a b.cpp" , 0019 } ,
  {"F1******","tight",{3},"a.cpp",20},
  { "F2******", "%(name)s mapping", {1}, "a.cpp", 21 },
  { "F3******", "%*d star", {1, 2}, "a.cpp", 22 },
  { "********", "catch all %X%X%X%X", {1, 2, 3, 4}, "z.cpp", 99 },
  { "F4******", "after catch all", {}, "a.cpp", 23 },
  { ""        , "The End" }
};
  { "FFFF0001", "after table", {}, "x.cpp", 2 },
struct pte_entry_struct static_pte_entry_table[] = {
  { "AB******", "second table %d", {4}, "b.cpp", 1 },
  { ""        , "The End" }, // comment
  { "AC******", "after second end", {}, "b.cpp", 2 },

#define MEX_HLOG_FIELD_COUNT 6
static struct mex_hlog_field mex_hlog_fields[MEX_HLOG_FIELD_COUNT] =
{
  { 1, "hl_one" },
  { 2, "hl_two" },
  { 3, "hl_bad_size" },
  {2,"hl_tight"},
  { 1 , "hl spaces" } ,
  { 1, "hl_last" }
};
  { 1, "hl_outside" },
struct mex_hlog_field mex_hlog_fields[] = {
  { 2, "hl_second_array" },
  };
""")

HDR_NO_DECIMAL = write('hdr_b.h', """
struct pte_entry_struct static_pte_entry_table[2] = {
  { "E1******", "arabic digits %d", {٣}, "a.cpp", 1 },
  { "E2******", "superscript %d", {²}, "a.cpp", 2 },
  { "E0******", "fine", {}, "a.cpp", 3 },
""")

HDR_BAD_RE = write('hdr_c.h', """
struct pte_entry_struct static_pte_entry_table[2] = {
  { "01040000", "fine", {}, "a.cpp", 3 },
  { "E1(*****", "bad regex", {1}, "a.cpp", 1 },
  { "E0******", "never reached", {}, "a.cpp", 3 },
""")

HDR_HUGE_LINE = write('hdr_d.h', """
struct pte_entry_struct static_pte_entry_table[2] = {
  { "01040000", "fine", {}, "a.cpp", %s },
  { "E0******", "never reached", {}, "a.cpp", 3 },
""" % ('9' * 5000))

HDR_EMPTY = write('hdr_e.h', '')
HDR_BINARY = write('hdr_f.h', b'\xff\xfe\x00struct\n\x80\x81', 'wb')
HDR_NONE = os.path.join(WORK, 'does_not_exist.h')
HEADERS = [('mex', MEX_H), ('nim', NIM_H), ('a', HDR_A),
           ('nodec', HDR_NO_DECIMAL), ('badre', HDR_BAD_RE),
           ('huge', HDR_HUGE_LINE), ('empty', HDR_EMPTY),
           ('binary', HDR_BINARY), ('none', HDR_NONE)]

STR_A = write('str_a', """#FSP_TRACE_v2|||Thu Sep 24 12:55:43 2020|||BUILD:Release
32403714||E> ADT7470: Controller 0x%X: Failure count = %d||adt7470_fan_ctl.cpp(324)
  38405017  ||  I2C read failed: Address 0x%X, rc %d  ||  adt7470_fan_ctl.cpp(384)
45603949||no args here||a.cpp(456)
45703949||partial one %d||a.cpp(457)
45803949||partial two %d||a.cpp(458)
52304371||five %u %u %u %u %u||a.cpp(523)
52404371||six %u %u %u %u %u %u||a.cpp(524)
56504561||Setting PWM %d to 0x%X (%u.%02u%%)||a.cpp(565)
59404261||string %s char %c||a.cpp(594)
63103988||bad spec %p %q||a.cpp(631)
68204296||100% literal||a.cpp(682)
75004901||||
92504394||pipes || inside || message||loc(1)
abc||not a number||x
12345|missing pipe|x
12345||only two fields
   ||no hash||x
77700001||dup first %d||dup.cpp(1)
77700001||dup second %d||dup.cpp(2)
4294967295||max hash %08x||m.cpp(9)
99999999999||too big hash||m.cpp(10)
00000042||leading zeros %d||z.cpp(0)
88800002||%(k)s mapping||k.cpp(3)
88900002||%*d star||k.cpp(4)
""")
STR_NO_NL = write('str_b', '100||last line without newline %d||f.cpp(1)')
STR_EMPTY = write('str_c', '')
STR_HUGE = write('str_d', '5||ok||a\n%s||huge||b\n6||never||c\n' % ('7' * 5000))
STR_BINARY = write('str_e', b'1||ok||a\n\xff\xfe||x||y\n', 'wb')
STR_NONE = os.path.join(WORK, 'does_not_exist_strings')
STRFILES = [('mex', MEX_S), ('nim', NIM_S), ('a', STR_A), ('nonl', STR_NO_NL),
            ('empty', STR_EMPTY), ('huge', STR_HUGE), ('binary', STR_BINARY),
            ('none', STR_NONE)]


# ---------------------------------------------------------------------------
# Binary builders
# ---------------------------------------------------------------------------

RNG = random.Random(20240611)


def rbytes(n):
    return bytes(RNG.getrandbits(8) for _ in range(n))


def ilog_entry(ts, seq, pte):
    return struct.pack('>HHI', ts & 0xFFFF, seq & 0xFFFF, pte & 0xFFFFFFFF)


INTERESTING_PTES = [
    0x00000000, 0x01040000, 0x10010003, 0x100100FF, 0x02004142, 0x02000000,
    0xE2082690, 0xE20C2690, 0xE2082655, 0xE20C2655, 0xE3010203, 0xE3050607,
    0xE4AABBCC, 0xE5112233, 0xE6000000, 0xE7000000, 0xE8000000, 0xE9414243,
    0xE90000FF, 0xEA0400AB, 0xEB041000, 0xEB04A000, 0xEC000000, 0xED0400AB,
    0xEE000000, 0xEE040000, 0xEF000000, 0xF0123456, 0xF1FFFFFF, 0xF2000000,
    0xF3000000, 0xF4000000, 0xAB000001, 0xAC000000, 0xFFFF0000, 0xFFFF0001,
    0xE00800AC, 0xE00C00AC, 0xE0040000, 0xD0040000, 0xFFFFFFFF, 0x12345678,
    0xE1000000, 0xE1040000, 0xE0000000, 0xE2000000, 0x7FFFFFFF, 0x80000000,
]


def trace_header(comp=b'POWR', size=None, ver=2, hdr_len=0x20, time_flg=1,
                 endian=0x42, wraps=0, next_free=0x20, total=None):
    comp = comp.ljust(12, b'\0')[:12]
    if size is None:
        size = total if total is not None else 0x20
    return struct.pack('>BBBB12s4sIII', ver, hdr_len, time_flg, endian, comp,
                       b'\0\0\0\0', size & 0xFFFFFFFF, wraps & 0xFFFFFFFF,
                       next_free & 0xFFFFFFFF)


def trace_entry(tbh=1, tbl=1, tag=0x4654, hash_value=0, line=1, data=b'',
                length=None, entry_size=None, pad=None):
    if length is None:
        length = len(data)
    if pad is None:
        pad = (4 - (len(data) % 4)) % 4
    body = struct.pack('>HHHHII', tbh & 0xFFFF, tbl & 0xFFFF, length & 0xFFFF,
                       tag & 0xFFFF, hash_value & 0xFFFFFFFF,
                       line & 0xFFFFFFFF) + data + (b'\0' * pad)
    if entry_size is None:
        entry_size = len(body) + 4
    return body + struct.pack('>I', entry_size & 0xFFFFFFFF)


def args_data(*vals):
    return b''.join(struct.pack('>I', v & 0xFFFFFFFF) for v in vals)


HASHES = [32403714, 38405017, 45603949, 45703949, 45803949, 45903949,
          52304371, 52404371, 56504561, 59404261, 63103988, 68204296,
          75004901, 92504394, 77700001, 77800001, 4294967295, 42, 100042,
          88800002, 88900002, 0, 1, 99999, 100000, 103402736, 48602109,
          5, 6, 100, 100100, 1, 3949, 4371]


def good_entries():
    ents = []
    ents.append(trace_entry(10, 1, 0x4654, 32403714, 324, args_data(0x2E, 3)))
    ents.append(trace_entry(3700, 2, 0x4654, 38405017, 384,
                            args_data(0x5C, 0xFFFFFFFF)))
    ents.append(trace_entry(0xFFFE, 3, 0x4654, 45603949, 456))
    ents.append(trace_entry(0xFFFF, 4, 0x4654, 45903949, 459,
                            args_data(7)))
    ents.append(trace_entry(65, 5, 0x4654, 52304371, 523,
                            args_data(1, 2, 3, 4, 5)))
    ents.append(trace_entry(66, 6, 0x4654, 52304371, 523,
                            args_data(1, 2, 3, 4, 5, 6, 7)))
    ents.append(trace_entry(67, 7, 0x4654, 52404371, 524,
                            args_data(1, 2, 3, 4, 5, 6)))
    ents.append(trace_entry(68, 8, 0x4654, 56504561, 99999,
                            args_data(1, 0x80, 50, 7)))
    ents.append(trace_entry(69, 9, 0x4654, 59404261, 100000,
                            args_data(65, 66)))
    ents.append(trace_entry(70, 10, 0x4654, 59404261, 594,
                            args_data(65, 0x110000)))
    ents.append(trace_entry(71, 11, 0x4654, 63103988, 631, args_data(1, 2)))
    ents.append(trace_entry(72, 12, 0x4654, 68204296, 682))
    ents.append(trace_entry(73, 13, 0x4644, 32403714, 1,
                            b'binary data of odd length!'))
    ents.append(trace_entry(74, 14, 0x4644, 123, 2, b'\x01\x02\x03'))
    ents.append(trace_entry(75, 15, 0x4644, 45703949, 3, b''))
    ents.append(trace_entry(76, 16, 0x4654, 987654321, 4, b'\xde\xad\xbe'))
    ents.append(trace_entry(77, 17, 0x1234, 77700001, 5, args_data(9)))
    ents.append(trace_entry(78, 18, 0x4654, 77800001, 6, args_data(9)))
    ents.append(trace_entry(79, 19, 0x4654, 4294967295, 4294967295,
                            args_data(0xABC)))
    ents.append(trace_entry(80, 20, 0x4654, 42, 7, args_data(1)))
    ents.append(trace_entry(81, 21, 0x4654, 100042, 8, args_data(1)))
    ents.append(trace_entry(82, 22, 0x4654, 88800002, 9, args_data(1)))
    ents.append(trace_entry(83, 23, 0x4654, 88900002, 10, args_data(4, 2)))
    ents.append(trace_entry(84, 24, 0x4654, 75004901, 11, args_data(4, 2)))
    ents.append(trace_entry(85, 25, 0x4644, 5, 12, rbytes(1024)))
    ents.append(trace_entry(86, 26, 0x4654, 92504394, 13, rbytes(1021)))
    return ents


def bad_entries():
    ents = []
    ents.append(trace_entry(1, 1, 0x4654, 5, 1, rbytes(1025)))
    ents.append(trace_entry(1, 1, 0x4654, 5, 1, b'abcd', length=1028))
    ents.append(trace_entry(1, 1, 0x4654, 5, 1, b'abcd', length=0xFFFF))
    ents.append(trace_entry(1, 1, 0x4654, 5, 1, b'abcd', entry_size=0))
    ents.append(trace_entry(1, 1, 0x4654, 5, 1, b'abcd', entry_size=25))
    ents.append(trace_entry(1, 1, 0x4654, 5, 1, b'abc', pad=0))
    ents.append(trace_entry(1, 1, 0x4654, 5, 1, b'abc', pad=3))
    ents.append(trace_entry(1, 1, 0x4654, 5, 1, b'abcde', length=3))
    ents.append(trace_entry(1, 1, 0x4654, 5, 1, b'abcd', length=8))
    ents.append(trace_entry(1, 1, 0x4654, 5, 1, b'', length=2))
    ents.append(trace_entry(1, 1, 0x4654, 5, 1, b'', length=4))
    ents.append(trace_entry(1, 1, 0x4654, 5, 1, b'ab', length=0))
    return ents


def build_buffer(comp, entries, size=None, **kw):
    body = b''.join(entries)
    total = 32 + len(body)
    return trace_header(comp, size=size, total=total, **kw) + body


def entry_state(e):
    return [e.tbh, e.tbl, e.length, e.tag, e.hash_value, e.line, norm(e.data)]


def header_state(h):
    if h is None:
        return None
    return [h.ver, h.hdr_len, h.time_flg, h.endian_flg, norm(h.comp), h.size,
            h.times_wrap, h.next_free]


def views(data):
    """Same bytes as bytes / bytearray / memoryview / sliced memoryview."""
    yield 'mv', memoryview(data)
    yield 'by', bytes(data)
    yield 'ba', bytearray(data)
    yield 'ms', memoryview(b'\xAA' + data + b'\xBB')[1:-1]


# ---------------------------------------------------------------------------
# Case groups
# ---------------------------------------------------------------------------

def cases_utils():
    vals = list(range(-3, 130)) + list(range(3590, 3610)) + \
        list(range(35990, 36010)) + list(range(65520, 65545)) + \
        [RNG.randrange(0, 70000) for _ in range(60)] + \
        [True, False, 1 << 40, -1 << 40]
    for (i, v) in enumerate(vals):
        rec(f'utils/ts/{i}/{v}', UTILS.format_timestamp, v)
    for (i, v) in enumerate([3.5, 3600.0, '12', None, b'1']):
        rec(f'utils/ts_odd/{i}', UTILS.format_timestamp, v)


def cases_drawer_type():
    for dt in DT.DRAWER_TYPES:
        rec(f'dt/{dt.name}', lambda d: [d.name, d.header_file_name,
                                        d.string_file_name,
                                        d.user_data_version,
                                        d.get_header_file_path(),
                                        d.get_trace_string_file_path()], dt)
    rec('dt/custom', lambda: [DT.DrawerType('x', 'h', 's', 7)
                              .get_header_file_path(),
                              DT.DrawerType('x', 'h', 's', 7)
                              .get_trace_string_file_path()])
    rec('dt/list', lambda: [d.name for d in DT.DRAWER_TYPES])


def table_state(t):
    return [[e.pte_pattern, e.message_format, e.params, e.file, e.line,
             e.pte_re.pattern, e.pte_re.flags] for e in t.entries]


def cases_ilog():
    tables = {}
    for (hn, hp) in HEADERS:
        def make(hp=hp):
            t = ILOG.PTETable(hp)
            return t
        res = rec(f'ilog/table/{hn}', lambda: table_state(make()))
        if res[0] == 'ok':
            tables[hn] = ILOG.PTETable(hp)
            rec(f'ilog/table_path/{hn}',
                lambda t: [t.header_file_path, len(t.entries)], tables[hn])

    # lookups in every table
    for (hn, t) in tables.items():
        ptes = list(INTERESTING_PTES)
        if hn in ('mex', 'nim'):
            ptes = ptes[::3] + [RNG.getrandbits(32) for _ in range(25)]
        else:
            ptes += [RNG.getrandbits(32) for _ in range(40)]
            ptes += [0xE0000000 | RNG.getrandbits(28) for _ in range(40)]
        for (i, pte) in enumerate(ptes):
            def look(t=t, pte=pte):
                e = t.get_entry(pte)
                if e is None:
                    return None
                return [t.entries.index(e), e.get_message(pte),
                        e.matches(pte), e._is_exact_match(pte),
                        e._is_reported_error_pte(pte)]
            rec(f'ilog/lookup/{hn}/{i}/{pte:08X}', look)

    # calling the parsing helpers again on an existing table
    for hn in ('a', 'empty'):
        if hn in tables:
            t = ILOG.PTETable(dict(HEADERS)[hn])
            rec(f'ilog/reparse/{hn}', lambda t=t: [t._parse_header_file(),
                                                   table_state(t)])
    t = ILOG.PTETable(HDR_EMPTY)
    field_sets = [
        ('0200****', 'PEROM level = %c%c  ', '3, 4', 'states.cpp', '254'),
        ('E1******', r' a \"q\" b ', '', 'f.cpp', '0'),
        ('E1******', 'x', '1,2,3,4,5,6,0', 'f.cpp', '12'),
        ('E1******', 'x', '44', 'f.cpp', '12'),
        ('E1******', 'x', '4', 'f.cpp'),
        ('E1******', 'x', '4', 'f.cpp', '1', 'extra'),
        (),
        ('E1******', 'x', '4', 'f.cpp', 'notanumber'),
        ('E1(', 'x', '4', 'f.cpp', '5'),
        ['E2******', 'list fields', '2', 'f.cpp', '6'],
    ]
    for (i, fields) in enumerate(field_sets):
        rec(f'ilog/add_entry/{i}',
            lambda f=fields: [t._add_entry(f), table_state(t)])

    # direct entry construction
    ctor_args = [
        ('0200****', 'PEROM %c%c', (3, 4), 'states.cpp', 254),
        ('0200****', 'PEROM %c%c', [3, 4], 'states.cpp', 254),
        ('E2082690', 'no params', (), 'v.cpp', 1),
        ('E208****', 'range %d %d', (0, 1, 4, 5, -1, 2), 'v.cpp', 2),
        ('e2**26*0', 'mixed %d', (2,), 'v.cpp', 3),
        ('E2', 'short', (1,), 'v.cpp', 4),
        ('', 'empty pattern', (), 'v.cpp', 5),
        ('E2[', 'bad', (), 'v.cpp', 6),
        ('E2082690', 'bad param type %d', ('1',), 'v.cpp', 7),
        ('E2082690', 'generator params %d %d', iter((1, 2)), 'v.cpp', 8),
        ('........', 'dots %d', (4,), 'v.cpp', 9),
        ('E2082690', None, (), 'v.cpp', 10),
        ('E20C2690', 'reported pattern', (), 'v.cpp', 11),
    ]
    for (i, a) in enumerate(ctor_args):
        def ctor(a=a):
            e = ILOG.PTETableEntry(*a)
            out = [e.pte_pattern, e.message_format, e.params, e.file, e.line,
                   e.pte_re.pattern, e.pte_re.flags]
            for pte in (0x02004142, 0xE2082690, 0xE20C2690, 0xE2082600,
                        0xE20C2600, 0xE2FFFFFF, 0, 0xFFFFFFFF, 0x1FFFFFFFF,
                        -1, 0xE2):
                try:
                    out.append([e.matches(pte), e._is_exact_match(pte),
                                e._is_reported_error_pte(pte),
                                e.get_message(pte)])
                except Exception as ex:
                    out.append([type(ex).__name__, str(ex)])
            return out
        rec(f'ilog/ctor/{i}', ctor)

    # parse_ilog_data
    datasets = []
    datasets.append(('empty', b''))
    datasets.append(('interesting', b''.join(
        ilog_entry(i * 37, i, p) for (i, p) in enumerate(INTERESTING_PTES))))
    datasets.append(('zeros', b'\0' * 40))
    datasets.append(('zero_then_data', b'\0' * 16 + ilog_entry(5, 6, 0x01040000)
                     + b'\0' * 8 + ilog_entry(0, 0, 1) + ilog_entry(0, 1, 0)
                     + ilog_entry(1, 0, 0)))
    datasets.append(('ts_edges', b''.join(
        ilog_entry(ts, 0xFFFF, 0xE2082690)
        for ts in (0, 1, 59, 60, 3599, 3600, 0xFFFE, 0xFFFF, 36000))))
    for n in range(1, 20):
        datasets.append((f'trunc{n}', (ilog_entry(100, 1, 0xE20C2690)
                                       + ilog_entry(200, 2, 0x10010002)
                                       + ilog_entry(300, 3, 0x02004142))[:n]))
    for n in range(12):
        datasets.append((f'rand{n}', rbytes(RNG.randrange(0, 120))))
    for (dn, d) in datasets:
        for (hn, hp) in HEADERS:
            if hn in ('mex', 'nim') and dn.startswith('trunc'):
                continue
            rec(f'ilog/parse/{hn}/{dn}', ILOG.parse_ilog_data,
                memoryview(d), hp)
    for (vn, v) in views(datasets[1][1][:83]):
        rec(f'ilog/parse_view/{vn}', ILOG.parse_ilog_data, v, HDR_A)


def cases_trace_strings():
    files = {}
    for (sn, sp) in STRFILES:
        def state(sp=sp):
            f = TRACE.TraceStringFile(sp)
            return [f.string_file_path,
                    [[t.hash_value, t.message_format, t.location]
                     for t in f.trace_strings]]
        res = rec(f'trace/strfile/{sn}', state)
        if res[0] == 'ok':
            files[sn] = TRACE.TraceStringFile(sp)
    for (sn, f) in files.items():
        hashes = list(HASHES)
        if sn in ('mex', 'nim'):
            hashes = hashes[::2] + [t.hash_value + d
                                    for t in f.trace_strings[::97]
                                    for d in (0, 100000, -100000, 1)]
        else:
            hashes += [RNG.randrange(0, 1 << 32) for _ in range(20)]
        for (i, h) in enumerate(hashes):
            def look(f=f, h=h):
                t = f.get_trace_string(h)
                if t is None:
                    return None
                return [f.trace_strings.index(t), t.is_match(h),
                        t.is_partial_match(h), t.location]
            rec(f'trace/lookup/{sn}/{i}/{h}', look)
    f = TRACE.TraceStringFile(STR_EMPTY)
    field_sets = [
        ('92602121', 'I> ADT7470: trace_level = %u', 'adt7470.cpp(926)'),
        (' 5 ', '  padded  ', '  loc  '),
        ('5', 'x'),
        ('5', 'x', 'y', 'z'),
        (),
        ('abc', 'x', 'y'),
        ['6', 'list fields', 'l'],
        ('7', '', ''),
    ]
    for (i, fields) in enumerate(field_sets):
        rec(f'trace/add_string/{i}', lambda fl=fields: [
            f._add_trace_string(fl),
            [[t.hash_value, t.message_format, t.location]
             for t in f.trace_strings]])
    fmts = ['plain', 'one %d', 'two %d %x', 'pct %d%%', '100%', '%s %c',
            '%c', '%p', '%5d|%-5d|%05d|%+d', '%u %lu %hd', '%(a)s', '%*d',
            '%.3f', '%e', '%i', '%o', '%r', '%a', '', '%%', '%']
    arg_sets = [(), (1,), (1, 2), (65, 66), (0x110000,), (3, 0xFFFFFFFF),
                (1, 2, 3, 4, 5)]
    for (i, fmt) in enumerate(fmts):
        ts = TRACE.TraceString(1234500042, fmt, 'loc.cpp(1)')
        for (j, a) in enumerate(arg_sets):
            rec(f'trace/msg/{i}/{j}', ts.get_message, a)
    ts = TRACE.TraceString(32403714, 'x', 'y')
    for h in (32403714, 32503714, 3714, 103714, 32403715, 0, -96286,
              32403714 + 100000 * 7, 132403714):
        rec(f'trace/match/{h}', lambda h=h: [ts.is_match(h),
                                             ts.is_partial_match(h)])


def cases_trace_binary():
    # headers
    hdrs = [trace_header(), trace_header(b'IICS', size=0x1000, wraps=7,
                                         next_free=0x40),
            trace_header(b'FANS    \0\0\0\0'), trace_header(b'  ERRL  '),
            trace_header(b'\0\0INFO'), trace_header(b'A\xffB\x80C  \0 \0'),
            trace_header(b'TWELVECHARSX'), trace_header(b''),
            trace_header(b'POWR', ver=9, hdr_len=1, time_flg=2, endian=0x4C),
            rbytes(32), rbytes(40), b'\xff' * 32, b'\0' * 32]
    for (i, h) in enumerate(hdrs):
        for cut in sorted({0, 1, 4, 16, 31, 32, len(h)}):
            for extra in (b'', b'tail'):
                d = h[:cut] + (extra if cut == len(h) else b'')
                def rd(d=d):
                    s = DataStream(memoryview(d), byte_order='big',
                                   is_signed=False)
                    hd = TRACE.TraceBufferHeader()
                    before = header_state(hd)
                    r = hd.read(s)
                    return [before, r, header_state(hd), s.index]
                rec(f'trace/hdr/{i}/{cut}/{len(extra)}', rd)
    rec('trace/hdr/consts', lambda: [TRACE.TraceBufferHeader.SIZE,
                                     TRACE.TraceBufferHeader.BUFFER_NAMES,
                                     TRACE.TraceEntry.FIXED_SIZE,
                                     TRACE.TraceEntry.MAX_DATA_LEN,
                                     TRACE.TraceEntry.TYPE_FIELDTRACE,
                                     TRACE.TraceEntry.TYPE_FIELDBIN,
                                     TRACE.TraceEntry.MAX_ARGS,
                                     TRACE.TraceStringFile.LINE_RE.pattern])

    # entries
    ents = good_entries() + bad_entries()
    blobs = []
    for (i, e) in enumerate(ents):
        blobs.append((f'e{i}', e))
        blobs.append((f'e{i}+tail', e + b'\x11\x22\x33'))
        if len(e) < 80:
            for cut in range(0, len(e)):
                blobs.append((f'e{i}/cut{cut}', e[:cut]))
        else:
            for cut in (0, 15, 16, 17, len(e) - 5, len(e) - 4, len(e) - 1):
                blobs.append((f'e{i}/cut{cut}', e[:cut]))
    for n in range(60):
        blobs.append((f'rand{n}', rbytes(RNG.randrange(0, 64))))
    for n in range(40):
        # random mutation of a good entry
        e = bytearray(ents[RNG.randrange(0, 24)])
        for _ in range(RNG.randrange(1, 4)):
            e[RNG.randrange(0, len(e))] = RNG.getrandbits(8)
        blobs.append((f'mut{n}', bytes(e)))
    for (bn, b) in blobs:
        def rd(b=b, offset=0):
            s = DataStream(memoryview(b), byte_order='big', is_signed=False)
            e = TRACE.TraceEntry()
            before = entry_state(e)
            r = e.read(s)
            out = [before, r, entry_state(e), s.index]
            try:
                out.append([e.get_args(), e.is_binary_trace()])
            except Exception as ex:
                out.append([type(ex).__name__, str(ex)])
            return out
        rec(f'trace/entry/{bn}', rd)
    # entry read at a non-zero stream offset
    for (i, e) in enumerate(ents[:8]):
        def rd2(e=e):
            s = DataStream(memoryview(b'\x99' * 7 + e + b'\x77' * 3),
                           byte_order='big', is_signed=False)
            s.inc_index(7)
            en = TRACE.TraceEntry()
            r = en.read(s)
            return [r, entry_state(en), s.index]
        rec(f'trace/entry_off/{i}', rd2)

    # get_args on hand made entries
    datas = [None, b'', b'\1', b'\1\2\3', b'\1\2\3\4', b'\1\2\3\4\5',
             args_data(1, 2, 3, 4, 5), args_data(1, 2, 3, 4, 5, 6),
             args_data(1, 2, 3, 4, 5) + b'\1\2', rbytes(19), rbytes(21)]
    for (i, d) in enumerate(datas):
        for tag in (0x4654, 0x4644, None, 0):
            for (vn, conv) in (('mv', lambda x: memoryview(x)),
                               ('by', lambda x: x),
                               ('ba', lambda x: bytearray(x))):
                def ga(d=d, tag=tag, conv=conv):
                    e = TRACE.TraceEntry()
                    e.tag = tag
                    e.data = None if d is None else conv(d)
                    return [e.get_args(), e.is_binary_trace()]
                rec(f'trace/get_args/{i}/{tag}/{vn}', ga)

    # buffers
    good = good_entries()
    bad = bad_entries()
    bufs = []
    bufs.append(('empty', b''))
    bufs.append(('hdr_only', build_buffer(b'POWR', [])))
    bufs.append(('all_good', build_buffer(b'IICS', good, wraps=3)))
    bufs.append(('good_small_size', build_buffer(b'IICM', good, size=100)))
    bufs.append(('good_size0', build_buffer(b'FANS', good, size=0)))
    bufs.append(('good_size32', build_buffer(b'FANS', good, size=32)))
    bufs.append(('good_size33', build_buffer(b'FANS', good, size=33)))
    bufs.append(('good_huge_size', build_buffer(b'INFO', good[:5],
                                                size=0xFFFFFFFF)))
    for (i, b) in enumerate(bad):
        bufs.append((f'bad{i}', build_buffer(b'ERRL', good[:3] + [b]
                                             + good[3:6], size=0x10000)))
    full = build_buffer(b'POWR', good[:6])
    for cut in list(range(0, 40)) + list(range(40, len(full), 3)):
        bufs.append((f'cut{cut}', full[:cut]))
    for n in range(25):
        bufs.append((f'rand{n}', rbytes(RNG.randrange(0, 200))))
    for n in range(25):
        bufs.append((f'randbody{n}', trace_header(b'POWR', size=4096)
                     + rbytes(RNG.randrange(0, 120))))
    for n in range(40):
        b = bytearray(build_buffer(b'IICS', good[:10]))
        for _ in range(RNG.randrange(1, 5)):
            b[RNG.randrange(0, len(b))] = RNG.getrandbits(8)
        bufs.append((f'mut{n}', bytes(b)))
    for (bn, b) in bufs:
        def rb(b=b):
            s = DataStream(memoryview(b), byte_order='big', is_signed=False)
            buf = TRACE.TraceBuffer()
            before = [header_state(buf.header), len(buf.entries)]
            r = buf.read(s)
            out = [before, r, header_state(buf.header),
                   [entry_state(e) for e in buf.entries], s.index]
            # second read on the same object with a fresh stream
            s2 = DataStream(memoryview(b), byte_order='big', is_signed=False)
            r2 = buf.read(s2)
            out.append([r2, len(buf.entries), s2.index])
            return out
        rec(f'trace/buffer/{bn}', rb)
        for (sn, sp) in (('a', STR_A), ('empty', STR_EMPTY)):
            rec(f'trace/parse/{sn}/{bn}', TRACE.parse_trace_data,
                memoryview(b), sp)
    for (sn, sp) in STRFILES:
        rec(f'trace/parse_files/{sn}', TRACE.parse_trace_data,
            memoryview(bufs[2][1]), sp)
        rec(f'trace/parse_files_bad/{sn}', TRACE.parse_trace_data,
            memoryview(b'short'), sp)
    for (vn, v) in views(bufs[2][1]):
        rec(f'trace/parse_view/{vn}', TRACE.parse_trace_data, v, STR_A)

    # _format_trace_entry
    sf = TRACE.TraceStringFile(STR_A)
    for (i, e) in enumerate(good):
        def fe(e=e):
            s = DataStream(memoryview(e), byte_order='big', is_signed=False)
            en = TRACE.TraceEntry()
            en.read(s)
            lines = ['existing']
            r = TRACE._format_trace_entry(en, sf, lines)
            return [r, lines]
        rec(f'trace/format_entry/{i}', fe)
    for (i, (tag, data, hv)) in enumerate([
            (0x4654, None, 45603949), (0x4644, None, 45603949),
            (0x4654, None, 45903949), (0x4654, None, 1),
            (0x4644, memoryview(b''), 45903949),
            (0x4654, memoryview(b'abc'), 2)]):
        def fe2(tag=tag, data=data, hv=hv):
            en = TRACE.TraceEntry()
            en.tbh = 3661
            en.tbl = 0xAB
            en.line = 12
            en.hash_value = hv
            en.tag = tag
            en.data = data
            lines = []
            TRACE._format_trace_entry(en, sf, lines)
            return lines
        rec(f'trace/format_entry_manual/{i}', fe2)
    return bufs


def cases_hlog():
    for (hn, hp) in HEADERS:
        rec(f'hlog/fields/{hn}', lambda hp=hp: [
            [type(f).__name__, f.name, f.size, tuple(f)]
            for f in HLOG.get_hlog_fields(hp)])
        datas = [b'', b'\0', b'\1', b'\0\1\0\2', rbytes(5), rbytes(9),
                 rbytes(47), rbytes(48), rbytes(49), b'\0' * 60, rbytes(200),
                 b'\xff' * 64]
        for (i, d) in enumerate(datas):
            rec(f'hlog/parse/{hn}/{i}', HLOG.parse_hlog_data, memoryview(d),
                hp)
    for (vn, v) in views(rbytes(50)):
        rec(f'hlog/parse_view/{vn}', HLOG.parse_hlog_data, v, HDR_A)


def hexdump_bmc(data):
    lines = ['Some heading line\n']
    for i in range(0, len(data), 16):
        chunk = data[i:i + 16]
        words = ' '.join(chunk[j:j + 4].hex().upper()
                         for j in range(0, len(chunk), 4))
        text = ''.join(chr(b) if 0x20 <= b < 0x7f else '.' for b in chunk)
        lines.append(f'{i:04X}:  {words}  <{text}>\n')
    lines.append('\n')
    return ''.join(lines)


def hexdump_pre(data):
    lines = []
    for i in range(0, len(data), 16):
        chunk = data[i:i + 16]
        hx = ' '.join(f'{b:02x}' for b in chunk)
        text = ''.join(chr(b) if 0x20 <= b < 0x7f else '.' for b in chunk)
        lines.append(f'{hx} {text}\n')
    return ''.join(lines)


def dump_images():
    good = good_entries()
    ilog = b''.join(ilog_entry(i * 61, i, p)
                    for (i, p) in enumerate(INTERESTING_PTES[:20]))
    imgs = []
    imgs.append(('empty', b''))
    imgs.append(('ilog_only', ilog))
    imgs.append(('one_byte', b'\x07'))
    imgs.append(('one_buffer', ilog + build_buffer(b'POWR', good[:4])))
    imgs.append(('all_buffers', ilog + b''.join(
        build_buffer(n.encode(), good[i:i + 3])
        for (i, n) in enumerate(['IICS', 'IICM', 'POWR', 'FANS', 'INFO',
                                 'ERRL']))))
    imgs.append(('reverse_order', ilog[:16] + b''.join(
        build_buffer(n.encode(), good[i:i + 2])
        for (i, n) in enumerate(['ERRL', 'INFO', 'FANS', 'POWR', 'IICM',
                                 'IICS']))))
    imgs.append(('dup_name', ilog[:24] + build_buffer(b'POWR', good[:2])
                 + build_buffer(b'FANS', good[2:4])
                 + build_buffer(b'POWR', good[4:6])))
    imgs.append(('no_ilog', build_buffer(b'INFO', good[:2])
                 + build_buffer(b'ERRL', good[5:9])))
    imgs.append(('unknown_name', ilog[:8] + build_buffer(b'ABCD', good[:2])))
    imgs.append(('name_suffix', ilog[:8] + build_buffer(b'POWRX', good[:2])))
    imgs.append(('truncated_buffer', ilog[:11]
                 + build_buffer(b'IICM', good[:2])[:45]))
    imgs.append(('header_start_only', ilog[:8] + b'\x02\x20\x01\x42'))
    imgs.append(('header_start_at_end', ilog[:8] + b'\x02\x20\x01\x42POWR'))
    imgs.append(('bad_entries', ilog[:8] + build_buffer(
        b'FANS', good[:2] + bad_entries()[:1] + good[2:4])))
    for n in range(10):
        imgs.append((f'rand{n}', rbytes(RNG.randrange(1, 300))))
    for n in range(10):
        b = bytearray(imgs[4][1])
        for _ in range(RNG.randrange(1, 6)):
            b[RNG.randrange(0, len(b))] = RNG.getrandbits(8)
        imgs.append((f'mut{n}', bytes(b)))
    return imgs


def cases_dump():
    rec('dump/names', DUMP._get_drawer_type_names)
    for n in ('mex', 'nimitz', 'MEX', '', 'other', None, 1):
        rec(f'dump/get_type/{n}', lambda n=n: (
            lambda d: None if d is None else d.name)(DUMP._get_drawer_type(n)))
    rec('dump/consts', lambda: [DUMP.TRACE_BUFFER_HEADER_START,
                                DUMP.HEX_DUMP_LINE_FORMATS,
                                DUMP.DIVIDER_LINE])
    imgs = dump_images()
    combos = [('a', HDR_A, STR_A), ('mex', MEX_H, MEX_S),
              ('nim', NIM_H, NIM_S), ('nohdr', HDR_NONE, STR_A),
              ('nostr', HDR_A, STR_NONE), ('badre', HDR_BAD_RE, STR_A)]
    for (iname, img) in imgs:
        for (cn, hp, sp) in combos:
            if cn in ('mex', 'nim') and iname.startswith(('rand', 'mut')):
                continue
            rec(f'dump/data/{cn}/{iname}', DUMP.parse_dump_data,
                memoryview(img), hp, sp)
        rec(f'dump/fmt_ilog/{iname}', lambda img=img: (
            lambda lines: [DUMP._format_ilog_data(memoryview(img), lines,
                                                  HDR_A), lines])(['pre']))
        rec(f'dump/fmt_trace/{iname}', lambda img=img: (
            lambda lines: [DUMP._format_trace_data(memoryview(img), lines,
                                                   STR_A), lines])(['pre']))
        # dump files in both hex dump formats
        for (fn, conv) in (('bmc', hexdump_bmc), ('pre', hexdump_pre)):
            path = write(f'dump_{iname}_{fn}.txt', conv(img))
            rec(f'dump/file/{fn}/{iname}', DUMP.parse_dump_file, path, HDR_A,
                STR_A)
    for (vn, v) in views(imgs[4][1]):
        if vn == 'mv' or vn == 'ms':
            rec(f'dump/data_view/{vn}', DUMP.parse_dump_data, v, HDR_A, STR_A)
        else:
            # bytes / bytearray have no tobytes(): error must be the same
            rec(f'dump/data_view/{vn}', DUMP.parse_dump_data, v, HDR_A, STR_A)
    odd_files = [('garbage', 'this is not a hex dump\nat all\n'),
                 ('empty', ''),
                 ('mixed', hexdump_bmc(imgs[3][1]) + hexdump_pre(imgs[3][1])),
                 ('pre_then_bmc', hexdump_pre(imgs[1][1])
                  + hexdump_bmc(imgs[3][1])),
                 ('short_last', hexdump_bmc(imgs[3][1])[:-30]),
                 ('lower', hexdump_bmc(imgs[3][1]).lower())]
    for (on, text) in odd_files:
        path = write(f'dump_odd_{on}.txt', text)
        rec(f'dump/file_odd/{on}', DUMP.parse_dump_file, path, HDR_A, STR_A)
    rec('dump/file_missing', DUMP.parse_dump_file,
        os.path.join(WORK, 'no_such_dump'), HDR_A, STR_A)
    path = write('dump_for_missing.txt', hexdump_bmc(imgs[3][1]))
    rec('dump/file_missing_hdr', DUMP.parse_dump_file, path, HDR_NONE, STR_A)
    rec('dump/file_missing_str', DUMP.parse_dump_file, path, HDR_A, STR_NONE)

    # main() / parse_args() in process with patched argv
    argvs = [
        [path, '-t', 'mex'],
        [path, '-t', 'nimitz'],
        [path, '--drawer-type', 'mex', '-d', HDR_A, '-s', STR_A],
        [path, '-t', 'mex', '--header-file', HDR_A],
        [path, '-t', 'mex', '--string-file', STR_A],
        [path, '-t', 'mex', '-d', '', '-s', ''],
        [path, '-t', 'bogus'],
        [path],
        [],
        ['-t', 'mex'],
        [path, '-t', 'mex', '-d', HDR_NONE],
        [path, '-t', 'mex', '-s', STR_NONE],
        [os.path.join(WORK, 'no_such_dump'), '-t', 'nimitz'],
        [write('dump_garbage.txt', 'garbage\n'), '-t', 'mex'],
        [path, '-t', 'mex', '-d', HDR_BAD_RE],
        ['--help'],
        [path, '-t', 'mex', '--bogus'],
    ]
    for (i, argv) in enumerate(argvs):
        def run_args(argv=argv):
            old = sys.argv
            sys.argv = ['dump.py'] + argv
            try:
                return DUMP.parse_args()
            finally:
                sys.argv = old
        def run_main(argv=argv):
            old = sys.argv
            sys.argv = ['dump.py'] + argv
            try:
                return DUMP.main()
            finally:
                sys.argv = old
        rec(f'dump/parse_args/{i}', run_args)
        rec(f'dump/main/{i}', run_main)


def cases_m2c00():
    rec('m2/consts', lambda: [M2.SUB_TYPE_HLOG, M2.SUB_TYPE_ILOG,
                              M2.SUB_TYPE_TRACE])
    for v in (0, 1, 2, 3, -1, 255, None, '1', 1.0, True):
        rec(f'm2/get_type/{v}', lambda v=v: M2._get_drawer_type(v).name)
    good = good_entries()
    ilog = b''.join(ilog_entry(i * 61, i, p)
                    for (i, p) in enumerate(INTERESTING_PTES))
    datas = [('empty', b''), ('ilog', ilog), ('ilog_trunc', ilog[:43]),
             ('trace', build_buffer(b'POWR', good, wraps=2)),
             ('trace_trunc', build_buffer(b'POWR', good)[:77]),
             ('trace_bad', build_buffer(b'IICS', good[:2] + bad_entries()[:2])),
             ('hlog', rbytes(48)), ('hlog_zero', b'\0' * 48),
             ('short', b'\x01'), ('rand', rbytes(100))]
    for (dn, d) in datas:
        for version in (0, 1, 2, 3):
            for sub_type in (72, 73, 84, 0, 1, 85, 255):
                rec(f'm2/ud/{dn}/{version}/{sub_type}', M2.parseUDToJson,
                    sub_type, version, memoryview(d))
            rec(f'm2/hlog/{dn}/{version}', M2._parse_hlog, version,
                memoryview(d))
            rec(f'm2/ilog/{dn}/{version}', M2._parse_ilog, version,
                memoryview(d))
            rec(f'm2/trace/{dn}/{version}', M2._parse_trace, version,
                memoryview(d))
            rec(f'm2/unsup/{dn}/{version}', M2._parse_unsupported, version,
                memoryview(d))
    for (vn, v) in views(datas[3][1]):
        for sub_type in (72, 73, 84, 9):
            rec(f'm2/ud_view/{vn}/{sub_type}', M2.parseUDToJson, sub_type, 1, v)
    # odd argument types
    rec('m2/ud_odd/none_data', M2.parseUDToJson, 73, 1, None)
    rec('m2/ud_odd/str_subtype', M2.parseUDToJson, '73', 1,
        memoryview(b'12345678'))
    rec('m2/ud_odd/list_subtype', M2.parseUDToJson, [73], 1,
        memoryview(b'12345678'))
    rec('m2/ud_odd/float_subtype', M2.parseUDToJson, 73.0, 2,
        memoryview(ilog[:16]))
    rec('m2/ud_odd/bool_subtype', M2.parseUDToJson, True, 2,
        memoryview(ilog[:16]))
    rec('m2/ud_odd/str_data', M2.parseUDToJson, 84, 1, 'text')
    rec('m2/ud_odd/int_data', M2.parseUDToJson, 72, 1, 5)


def run_all():
    cases_utils()
    cases_drawer_type()
    cases_ilog()
    cases_trace_strings()
    cases_trace_binary()
    cases_hlog()
    cases_dump()
    cases_m2c00()


# Two passes in the same process: a second decode must behave like the first
# (no state leaking between calls).  The RNG is re-seeded so inputs repeat.
for p in ('p1:', 'p2:'):
    PASS[0] = p
    RNG.seed(20240611)
    run_all()

json.dump(RESULTS, sys.stdout)
'''


def build_pel(sections):
    """
    Builds a minimal PEL: Private Header, User Header and the given user data
    sections, each a tuple (sub_type, version, comp_id, data).
    """
    def hdr(sid, length, ver, sub_type, comp):
        return sid + struct.pack('>HBBH', length, ver, sub_type, comp)

    ts = bytes.fromhex('2024061112304500')
    ph = hdr(b'PH', 48, 1, 0, 0x2C00) + ts + ts + b'M' + b'\0\0' + \
        bytes([2 + len(sections)]) + struct.pack('>I', 0x1234) + \
        b'\0' * 8 + struct.pack('>II', 0x50000001, 0x50000001)
    uh = hdr(b'UH', 24, 1, 0, 0x2C00) + bytes([0x76, 0x03, 0x40, 0x00]) + \
        b'\0' * 4 + bytes([0, 0]) + struct.pack('>H', 0xA000) + b'\0' * 4
    out = ph + uh
    for (sub_type, version, comp, data) in sections:
        out += hdr(b'UD', 8 + len(data), version, sub_type, comp) + data
    return out


def make_cli_inputs(work):
    """Creates input files for the command line cases; returns a dict."""
    sys.path.insert(0, os.path.dirname(os.path.abspath(__file__)))
    ns = {}
    # Re-use the binary builders of the driver without importing the package
    src = DRIVER.split('# Binary builders')[1].split('# Case groups')[0]
    ns.update({'random': __import__('random'), 'struct': struct})
    exec('import random, struct\n' + src.split('def entry_state')[0], ns)
    good = ns['good_entries']()
    bad = ns['bad_entries']()
    ilog = b''.join(ns['ilog_entry'](i * 61, i, p)
                    for (i, p) in enumerate(ns['INTERESTING_PTES']))
    trace = ns['build_buffer'](b'POWR', good, wraps=2)
    files = {}

    def put(name, blob, mode='wb'):
        path = os.path.join(work, name)
        with open(path, mode) as f:
            f.write(blob)
        files[name] = path
        return path

    hl = bytes(range(1, 61))
    put('pel_all_v1', build_pel([(72, 1, 0x2C00, hl), (73, 1, 0x2C00, ilog),
                                 (84, 1, 0x2C00, trace),
                                 (9, 1, 0x2C00, b'unsupported')]))
    put('pel_all_v2', build_pel([(72, 2, 0x2C00, hl), (73, 2, 0x2C00, ilog),
                                 (84, 2, 0x2C00, trace)]))
    put('pel_bad_version', build_pel([(72, 9, 0x2C00, hl),
                                      (73, 0, 0x2C00, ilog),
                                      (84, 3, 0x2C00, trace)]))
    put('pel_truncated', build_pel([(73, 1, 0x2C00, ilog[:13]),
                                    (84, 2, 0x2C00, trace[:50]),
                                    (84, 2, 0x2C00, trace[:20]),
                                    (72, 1, 0x2C00, hl[:3])]))
    put('pel_corrupt', build_pel([(84, 1, 0x2C00, ns['build_buffer'](
        b'IICS', good[:3] + bad[:2] + good[3:5])),
        (84, 1, 0x2C00, bytes(reversed(trace)))]))
    put('pel_empty_ud', build_pel([(73, 1, 0x2C00, b''),
                                   (84, 1, 0x2C00, b'')]))

    # dump files
    def hexdump_bmc(data):
        lines = ['IO drawer dump\n']
        for i in range(0, len(data), 16):
            chunk = data[i:i + 16]
            words = ' '.join(chunk[j:j + 4].hex().upper()
                             for j in range(0, len(chunk), 4))
            text = ''.join(chr(b) if 0x20 <= b < 0x7f else '.' for b in chunk)
            lines.append(f'{i:04X}:  {words}  <{text}>\n')
        return ''.join(lines)

    def hexdump_pre(data):
        lines = []
        for i in range(0, len(data), 16):
            chunk = data[i:i + 16]
            hx = ' '.join(f'{b:02x}' for b in chunk)
            text = ''.join(chr(b) if 0x20 <= b < 0x7f else '.' for b in chunk)
            lines.append(f'{hx} {text}\n')
        return ''.join(lines)

    image = ilog + b''.join(
        ns['build_buffer'](n.encode(), good[i * 3:i * 3 + 4])
        for (i, n) in enumerate(['IICS', 'POWR', 'ERRL', 'FANS']))
    put('dump_bmc.txt', hexdump_bmc(image), 'w')
    put('dump_pre.txt', hexdump_pre(image), 'w')
    put('dump_ilog_only.txt', hexdump_bmc(ilog[:40]), 'w')
    put('dump_trunc.txt', hexdump_pre(image[:len(ilog) + 70]), 'w')
    put('dump_garbage.txt', 'nothing useful here\n', 'w')
    put('dump_empty.txt', '', 'w')
    put('hdr_custom.h', """
struct pte_entry_struct static_pte_entry_table[2] = {
  { "01040000", "custom power on", {}, "a.cpp", 3 },
  { "E*******", "custom error %d", {4}, "a.cpp", 1 },
  { ""        , "The End" }
""", 'w')
    put('hdr_badre.h', """
struct pte_entry_struct static_pte_entry_table[2] = {
  { "E1(*****", "bad regex", {1}, "a.cpp", 1 },
""", 'w')
    put('str_custom', '32403714||custom string %d %d||c.cpp(1)\n', 'w')
    return files


def strip_compile_warnings(stderr: bytes) -> bytes:
    """
    Removes the compile time "SyntaxWarning: invalid escape sequence" reports
    (and the source line echoed after each of them) from stderr.  They carry
    the line number of pre-existing regex literals inside the source file and
    are only emitted when the module is compiled (no .pyc), i.e. they are not
    program behaviour; a refactoring that moves those literals to another line
    would otherwise be reported as a difference.
    """
    out = []
    skip_next = False
    for line in stderr.split(b'\n'):
        if skip_next:
            skip_next = False
            if line.startswith(b'  '):
                continue
        if b': SyntaxWarning: invalid escape sequence' in line:
            skip_next = True
            continue
        out.append(line)
    return b'\n'.join(out)


def run(cmd, env, cwd):
    p = subprocess.run(cmd, env=env, cwd=cwd, stdout=subprocess.PIPE,
                       stderr=subprocess.PIPE, timeout=600)
    return p


def cli_cases(files):
    """Returns list of (case name, argv builder(root))."""
    cases = []

    def dump(name, *args, opt=False):
        def build(root):
            cmd = [PY] + (['-O'] if opt else []) + \
                [os.path.join(root, 'modules', 'io_drawer', 'dump.py')]
            return cmd + list(args)
        cases.append((f'cli/dump/{name}' + ('/O' if opt else ''), build))

    def peltool(name, *args, opt=False):
        def build(root):
            cmd = [PY] + (['-O'] if opt else []) + \
                [os.path.join(root, 'modules', 'pel', 'peltool', 'peltool.py')]
            return cmd + list(args)
        cases.append((f'cli/peltool/{name}' + ('/O' if opt else ''), build))

    f = files
    for opt in (False, True):
        dump('bmc_mex', f['dump_bmc.txt'], '-t', 'mex', opt=opt)
        dump('pre_nimitz', f['dump_pre.txt'], '-t', 'nimitz', opt=opt)
        dump('custom_files', f['dump_bmc.txt'], '-t', 'mex', '-d',
             f['hdr_custom.h'], '-s', f['str_custom'], opt=opt)
        dump('missing_dump', os.path.join(os.path.dirname(f['dump_bmc.txt']),
                                          'nope.txt'), '-t', 'mex', opt=opt)
        peltool('all_v1', '-f', f['pel_all_v1'], opt=opt)
        peltool('truncated', '-f', f['pel_truncated'], opt=opt)
    dump('ilog_only', f['dump_ilog_only.txt'], '--drawer-type', 'nimitz')
    dump('trunc', f['dump_trunc.txt'], '-t', 'mex')
    dump('garbage', f['dump_garbage.txt'], '-t', 'mex')
    dump('empty', f['dump_empty.txt'], '-t', 'mex')
    dump('custom_hdr_only', f['dump_pre.txt'], '-t', 'nimitz', '--header-file',
         f['hdr_custom.h'])
    dump('custom_str_only', f['dump_pre.txt'], '-t', 'nimitz', '--string-file',
         f['str_custom'])
    dump('bad_regex_hdr', f['dump_bmc.txt'], '-t', 'mex', '-d',
         f['hdr_badre.h'])
    dump('missing_hdr', f['dump_bmc.txt'], '-t', 'mex', '-d', '/nonexistent/h')
    dump('missing_str', f['dump_bmc.txt'], '-t', 'mex', '-s', '/nonexistent/s')
    dump('bad_type', f['dump_bmc.txt'], '-t', 'bogus')
    dump('no_type', f['dump_bmc.txt'])
    dump('no_args')
    dump('help', '--help')
    dump('h', '-h')
    dump('unknown_opt', f['dump_bmc.txt'], '-t', 'mex', '--frobnicate')
    peltool('all_v2', '-f', f['pel_all_v2'])
    peltool('bad_version', '-f', f['pel_bad_version'])
    peltool('corrupt', '-f', f['pel_corrupt'])
    peltool('empty_ud', '-f', f['pel_empty_ud'])
    peltool('all_v1_hex', '-f', f['pel_all_v1'], '-x')
    peltool('all_v1_noplugins', '-f', f['pel_all_v1'], '-P')
    return cases


def main():
    if len(sys.argv) != 3:
        print('usage: diffcheck.py <pristine_root> <patched_root>')
        sys.exit(2)
    roots = [os.path.abspath(sys.argv[1]), os.path.abspath(sys.argv[2])]
    base = tempfile.mkdtemp(prefix='diffcheck_')
    total = 0
    diffs = []
    try:
        driver_path = os.path.join(base, 'driver.py')
        with open(driver_path, 'w') as f:
            f.write(DRIVER)

        # ---- in-process driver, normal and -O ----
        for mode in ([], ['-O']):
            outputs = []
            for (ri, root) in enumerate(roots):
                work = os.path.join(base, 'work')   # same path for both roots
                shutil.rmtree(work, ignore_errors=True)
                os.makedirs(work)
                env = dict(os.environ)
                env['PYTHONPATH'] = os.path.join(root, 'modules')
                env['PYTHONDONTWRITEBYTECODE'] = '1'
                env['PYTHONHASHSEED'] = '0'
                env['COLUMNS'] = '80'
                p = run([PY] + mode + [driver_path, root, work], env, work)
                if p.returncode != 0:
                    print(f'driver failed for {root} (mode {mode}):')
                    print(p.stderr.decode(errors='replace')[-3000:])
                    sys.exit(1)
                outputs.append(json.loads(p.stdout.decode()))
            (a, b) = outputs
            tag = 'O' if mode else 'N'
            if len(a) != len(b):
                diffs.append((f'{tag}:case-count', len(a), len(b)))
            for (ca, cb) in zip(a, b):
                total += 1
                if ca != cb:
                    diffs.append((f'{tag}:{ca[0]}', ca[1:], cb[1:]))

        # ---- command line cases ----
        work = os.path.join(base, 'cli')
        os.makedirs(work)
        files = make_cli_inputs(work)
        for (name, build) in cli_cases(files):
            results = []
            for root in roots:
                env = dict(os.environ)
                env['PYTHONPATH'] = os.path.join(root, 'modules')
                env['PYTHONDONTWRITEBYTECODE'] = '1'
                env['PYTHONHASHSEED'] = '0'
                env['COLUMNS'] = '80'
                p = run(build(root), env, work)
                results.append((p.returncode,
                                p.stdout.replace(root.encode(), b'<ROOT>'),
                                strip_compile_warnings(
                                    p.stderr.replace(root.encode(),
                                                     b'<ROOT>')),
                                sorted(os.listdir(work))))
            total += 1
            if results[0] != results[1]:
                diffs.append((name, results[0], results[1]))
    finally:
        shutil.rmtree(base, ignore_errors=True)

    if diffs:
        for (name, x, y) in diffs[:40]:
            print(f'DIFFERENT: {name}')
            print(f'  pristine: {str(x)[:1500]}')
            print(f'  patched : {str(y)[:1500]}')
        print(f'{len(diffs)} of {total} cases differ')
        sys.exit(1)
    print(f'IDENTICAL ({total} cases)')
    sys.exit(0)


if __name__ == '__main__':
    main()
