#!/usr/bin/env python3
"""
Differential check for refactorings of the user data decoding of
openpower-pel-parsers (pel/peltool/parse_user_data.py, user_data.py,
ext_user_data.py and the plug-ins udparsers/m2c00 and udparsers/oe500).

usage: diffcheck.py <pristine_root> <patched_root>

Both trees are exercised in separate subprocesses (PYTHONPATH points to the
tree under test), with and without `python -O`:

  * an in-process worker imports the modules and calls the public and the
    test-visible private functions with many well-formed, truncated,
    corrupted, random and wrongly typed inputs; several fake plug-ins
    (returning None / 'null' / garbage, raising at import or at run time ...)
    are made importable to drive every path of the plug-in loader, including
    its per-process module cache (repeated decodes in one process);
  * the peltool CLI is run on generated binary PEL files (-f, -f -P, -a, -aE,
    -a -P, -l, -n, -x, -j -o <dir> [-c]) and stdout, stderr, exit status and
    the created / removed files are recorded.

Exit 0 and print "IDENTICAL (<n> cases)" if every recorded result of the
patched tree equals that of the pristine tree, exit 1 otherwise.
"""

import hashlib
import io
import json
import os
import random
import shutil
import struct
import subprocess
import sys
import tempfile
from concurrent.futures import ThreadPoolExecutor

PYTHON = sys.executable
HERE = os.path.dirname(os.path.abspath(__file__))


# ---------------------------------------------------------------------------
# Fake plug-ins
# ---------------------------------------------------------------------------

FAKE_PLUGINS = {
    'x0001': "def parseUDToJson(subtype, version, data):\n    return None\n",
    'x0002': "def parseUDToJson(subtype, version, data):\n    return 'null'\n",
    'x0003': "def parseUDToJson(subtype, version, data):\n"
             "    raise ImportError('late import error')\n",
    'x0004': "raise ImportError('boom at import')\n",
    'x0005': "def parseUDToJson(subtype, version, data)\n    return 1 +\n",
    'x0006': "def parseUDToJson(subtype, version, data):\n"
             "    raise ValueError('weird \"quoted\" \\n msg \\u00e9 {} %s')\n",
    'x0007': "def parseUDToJson(subtype, version, data):\n"
             "    return 'not json { \\u00e9 ' + bytes(data).hex()\n",
    'x0008': "def parseUDToJson(subtype, version, data):\n    return '[1, 2, \"x\"]'\n",
    'x0009': "VALUE = 1\n",
    'x000a': "import json\n"
             "def parseUDToJson(subtype, version, data):\n"
             "    return json.dumps({'st': subtype, 'ver': version,\n"
             "                       'hex': bytes(data).hex(),\n"
             "                       'type': type(data).__name__,\n"
             "                       'Data': 'override', 'Section Version': 'x'})\n",
    'x000b': "import sys\n"
             "if not getattr(sys, '_dc_x000b_attempted', False):\n"
             "    sys._dc_x000b_attempted = True\n"
             "    raise ImportError('first attempt fails')\n"
             "def parseUDToJson(subtype, version, data):\n    return '{\"second\": true}'\n",
    'x000c': "def parseUDToJson(subtype, version, data):\n    raise KeyboardInterrupt('stop')\n",
    'x000d': "def parseUDToJson(subtype, version, data):\n    return {'a': 1}\n",
    'x000e': "def parseUDToJson(subtype, version, data):\n    return ''\n",
    'x000f': "class Eq:\n"
             "    def __eq__(self, other):\n        return True\n"
             "    def __hash__(self):\n        return 1\n"
             "def parseUDToJson(subtype, version, data):\n    return Eq()\n",
    'x0010': "import a_module_that_does_not_exist_xyz\n"
             "def parseUDToJson(subtype, version, data):\n    return '{}'\n",
    'x0011': "class Bad(Exception):\n"
             "    def __str__(self):\n        raise RuntimeError('no str')\n"
             "def parseUDToJson(subtype, version, data):\n    raise Bad()\n",
    'x0012': "def parseUDToJson(subtype, version, data):\n    return 'null '\n",
    'x0013': "def parseUDToJson(subtype, version, data):\n    return '\"just a string\"'\n",
    'x0014': "def parseUDToJson(subtype, version, data):\n    return '12.5'\n",
    'x0015': "def parseUDToJson(subtype, version, data):\n"
             "    return '{\"k\": [1, {\"n\": null}], \"Created by\": \"me\"}'\n",
    'x0016': "def parseUDToJson(subtype, version, data):\n    raise SystemExit(3)\n",
    'x0017': "import json\ncalls = []\n"
             "def parseUDToJson(subtype, version, data):\n"
             "    calls.append(subtype)\n"
             "    return json.dumps({'calls': len(calls)})\n",
    'x0018': "def parseUDToJson(subtype, version, data):\n    return b'{}'\n",
    'x0019': "def parseUDToJson(subtype, version, data):\n    return '\\ud800'\n",
}


def write_plugins(plugins_dir):
    os.makedirs(plugins_dir, exist_ok=True)
    for name, code in FAKE_PLUGINS.items():
        d = os.path.join(plugins_dir, name)
        os.makedirs(d, exist_ok=True)
        open(os.path.join(d, '__init__.py'), 'w').close()
        with open(os.path.join(d, name + '.py'), 'w', encoding='utf-8') as f:
            f.write(code)
    # package that exists but lacks the module, and a non-package directory
    d = os.path.join(plugins_dir, 'x00f0')
    os.makedirs(d, exist_ok=True)
    open(os.path.join(d, '__init__.py'), 'w').close()


def write_site(site_dir, plugins_dir):
    os.makedirs(site_dir, exist_ok=True)
    with open(os.path.join(site_dir, 'sitecustomize.py'), 'w') as f:
        f.write("import udparsers\nudparsers.__path__.append(%r)\n" % plugins_dir)


# ---------------------------------------------------------------------------
# Input data builders
# ---------------------------------------------------------------------------

def be(n, size):
    return n.to_bytes(size, 'big')


def sig_list(sigs, count=None):
    out = be(len(sigs) if count is None else count, 4)
    for a, b, c in sigs:
        out += be(a, 4) + be(b, 4) + be(c, 4)
    return out


def reg_dump(chips, count=None):
    out = be(len(chips) if count is None else count, 4)
    for model_ec, chip_pos, node_pos, regs, num_regs in chips:
        out += be(model_ec, 4) + be(chip_pos, 2) + be(node_pos, 1)
        out += be(len(regs) if num_regs is None else num_regs, 4)
        for reg_id, inst, buf, size in regs:
            out += be(reg_id, 3) + be(inst, 1)
            out += be(len(buf) if size is None else size, 1) + buf
    return out


def trace_header(size=None, comp=b'IICS', total=32):
    comp = comp.ljust(12, b'\0')[:12]
    return (b'\x02\x20\x01\x42' + comp + b'\0\0\0\0' +
            be(total if size is None else size, 4) + be(0, 4) + be(total, 4))


def trace_entry(tbh, tbl, tag, hash_value, line, data, length=None,
                entry_size=None):
    ln = len(data) if length is None else length
    body = be(tbh, 2) + be(tbl, 2) + be(ln, 2) + be(tag, 2)
    body += be(hash_value, 4) + be(line, 4) + data
    if len(data) % 4:
        body += b'\0' * (4 - len(data) % 4)
    total = len(body) + 4
    return body + be(total if entry_size is None else entry_size, 4)


def trace_buffer(entries, **kw):
    body = b''.join(entries)
    return trace_header(total=32 + len(body), **kw) + body


def oe500_inputs(rnd):
    """(subtype, data) pairs for the oe500 plug-in."""
    cases = []
    sigs = [(0x20DA0020, 0x00010002, 0x12340501),
            (0xAAAA0001, 0x00ff0103, 0xabcdef10),
            (0x00000000, 0x00000000, 0x00000000),
            (0xFFFFFFFF, 0xFFFFFFFF, 0xFFFFFFFF)]
    good = sig_list(sigs)
    cases += [(1, good), (1, good + b'\x01\x02'), (1, sig_list(sigs, 5)),
              (1, sig_list(sigs, 3)), (1, sig_list([])), (1, b''),
              (1, b'\x00\x00'), (1, good[:-1]), (1, good[:17]),
              (1, be(0x7fffffff, 4) + b'\x00' * 12)]
    regs = [(0x123456, 0, b'\x01', None),
            (0xabcdef, 255, bytes(range(16)), None),
            (0x000001, 3, b'\xde\xad\xbe\xef\xca\xfe\xba\xbe', None),
            (0x000002, 4, b'\xaa\xbb\xcc', None),
            (0x000003, 1, b'\x11\x22\x33\x44\x55', None)]
    chips = [(0x20DA0020, 1, 0, regs, None),
             (0xAAAA0001, 0xffff, 0xff, regs[:2], None),
             (0xBBBB0002, 2, 1, [], None)]
    good = reg_dump(chips)
    cases += [(2, good), (2, good + b'\xff'), (2, good[:-1]), (2, good[:30]),
              (2, reg_dump(chips, 4)), (2, reg_dump(chips, 2)),
              (2, reg_dump([])), (2, b''), (2, b'\x00'),
              (2, reg_dump([(1, 2, 3, [(5, 6, b'', None)], None)])),
              (2, reg_dump([(1, 2, 3, [(5, 6, b'\x01\x02', 9)], None)])),
              (2, reg_dump([(1, 2, 3, regs[:1], 2)])),
              (2, reg_dump([(0xAAAA0001, 2, 3, [(0xabcdef, i, b'\x01\x02\x03', None)
                                                for i in range(4)], None)]))]
    ffdc = [b'{"Callout List": [{"FRU": "x", "Priority": "H"}]}\x00',
            b'[1, 2, 3]\x00\x00\x00', b'{"a": {"b": [null, true, 1.5]}}',
            b'null\x00', b'"str"', b'{"a": 1} trailing', b'', b'\x00',
            b'{"k": "\xc3\xa9"}\x00', b'{"k": "\xff"}\x00', b'{bad json}\x00',
            b' \x00{"a":1}\x00', b'{"a":1}\x00 ', b'12']
    cases += [(3, d) for d in ffdc]
    full = bytes(range(1, 25))
    cases += [(4, full), (4, full + b'\x99'), (4, full[:23]), (4, full[:8]),
              (4, full[:7]), (4, b''), (4, b'\x00' * 24),
              (4, b'\x01\x02\x03\x04\x05\x06\x07\x08' + b'\x01\x02\x03\x04\x00\x00\x00\x00' * 2)]
    cases += [(5, full[:8]), (5, full[:9]), (5, full[:7]), (5, full[:4]),
              (5, b''), (5, b'\xff' * 8)]
    for st in (0, 6, 7, 255, -1):
        cases += [(st, b''), (st, b'abc')]
    for st in range(0, 7):
        for n in (1, 3, 4, 8, 11, 16, 24, 40, 90):
            cases.append((st, bytes(rnd.getrandbits(8) for _ in range(n))))
        # small counts so that the loops are actually entered
        for n in (13, 16, 28, 40, 64):
            cases.append((st, be(rnd.randint(0, 3), 4) +
                          bytes(rnd.getrandbits(8) for _ in range(n))))
    return cases


def m2c00_inputs(rnd):
    """data blobs for the m2c00 plug-in."""
    blobs = [b'', b'\x00\xDE\xAD', b'\x00', b'\x8A\xDF\x0F\x19\x01\x00\x00\xDE',
             b'\x8A\xDF\x0F\x19\x01\x00\x00\xDE' * 3 + b'\x01',
             b'\x00\x10\x00\x01\xE1\x04\x00\x00' + b'\xff\xff\x00\x02\x01\x04\x00\x00'
             + b'\x00\x20\x00\x03\x01\x01\x12\x41' + b'\x00\x21\x00\x04\xDE\xAD\xBE\xEF',
             bytes(range(1, 200)), b'\xff' * 64, b'\x01' * 130,
             trace_header(), trace_header()[:31], trace_header() + b'\x00' * 5,
             trace_header(size=0), trace_header(comp=b'\xff\xfeAB  ')]
    e1 = trace_entry(100, 1, 0x4654, 32403714, 324, be(5, 4) + be(7, 4))
    e2 = trace_entry(0xFFFF, 2, 0x4644, 38405017, 384, b'\x01\x02\x03\x04\x05')
    e3 = trace_entry(3700, 3, 0x4654, 12345, 99999, b'')
    e4 = trace_entry(59, 4, 0x4654, 41406102, 414,
                     be(1, 4) + be(2, 4) + be(3, 4) + be(4, 4) + be(5, 4) + be(6, 4))
    e5 = trace_entry(60, 5, 0x4654, 45603949, 456, be(1, 4))
    bad_len = trace_entry(1, 1, 0x4654, 1, 1, b'abcd', length=2000)
    bad_size = trace_entry(1, 1, 0x4654, 1, 1, b'abcd', entry_size=7)
    blobs += [trace_buffer([e1]), trace_buffer([e1, e2, e3, e4, e5]),
              trace_buffer([e1, bad_len, e2]), trace_buffer([e2, bad_size]),
              trace_buffer([e1, e2])[:-3], trace_buffer([e3]) + b'zz',
              trace_buffer([e1, e2, e3], comp=b'FANS        ')]
    for n in (2, 7, 8, 9, 16, 31, 32, 33, 48, 100, 300):
        blobs.append(bytes(rnd.getrandbits(8) for _ in range(n)))
    for n in (20, 40):
        blobs.append(trace_header(total=32 + n) +
                     bytes(rnd.getrandbits(8) for _ in range(n)))
    return blobs


def builtin_inputs(rnd):
    """data blobs for the BMC built-in json/cbor/text formats."""
    blobs = [b'', b'\x00', b'\x00\x00\x00', b'{"a": 1}', b'{"a": 1}\x00\x00',
             b'  {"a": [1, 2, {"b": null}]}  \x00', b'[1, 2, 3]', b'"text"',
             b'null', b'null\x00', b'12', b'true', b'{"Data": "x", "Section Version": 9}',
             b'{bad', b'{"a": 1}\x00\x00 ', b'\x00{"a": 1}', b'{"a": "\xc3\xa9\xe2\x82\xac"}',
             b'{"a": "\xff"}', b'\xff\xfe', b'\xc3', b'line one\nline two\n',
             b'line one\nline two', b'\n\n\n', b'a\n\nb\n\n\x00', b'\nleading',
             b'tab\there\x01\x02\x7f~ \x1f', b'cr\r\nlf\rx', b'uni \xc3\xa9\xe2\x82\xac\xf0\x9f\x98\x80 end',
             b'ff\x0cvt\x0bfs\x1cgs\x1drs\x1eus\x1f\nnext', b'\xc2\x85nel\xc2\x85\nx\xc2\xa0',
             b'\xe2\x80\xa8ls\xe2\x80\xa9ps\n', b'a\x00b\nc\x00\x00', b'   \n  x  \n   ',
             b'abc\n\x00', b'abc\n\n\x00', b'\x00\n\x00', b'x' * 100 + b'\n' + b'y' * 3,
             b'a\nb\nc\nd\ne\nf\n\x00\x00\x00\x00', b'\x00abc', b'\n', b' ', b'\t\n\x00']
    for n in (1, 2, 5, 16, 17, 40):
        blobs.append(bytes(rnd.getrandbits(8) for _ in range(n)))
        blobs.append(bytes(rnd.choice(b'ab \n\x00\x01~\x7f\t') for _ in range(n)))
    return blobs


# ---------------------------------------------------------------------------
# PEL builder (for the CLI runs)
# ---------------------------------------------------------------------------

def section(sid, ver, subtype, comp, payload, length=None):
    ln = len(payload) + 8 if length is None else length
    return sid + be(ln & 0xFFFF, 2) + be(ver, 1) + be(subtype, 1) + be(comp, 2) + payload


def ud(ver, subtype, comp, data, length=None):
    return section(b'UD', ver, subtype, comp, data, length)


def ed(creator, ver, subtype, comp, data, length=None):
    payload = creator + b'\x00\x00\x00' + data
    return section(b'ED', ver, subtype, comp, payload, length)


def pel(creator, sections, eid=0x50000001, sev=0x40, flags=0xA000,
        count=None, comp=0x1000):
    ts = bytes.fromhex('2023100112304500')
    ph = ts + ts + creator + b'\x00\x00'
    ph += be(len(sections) + 2 if count is None else count, 1)
    ph += be(eid & 0xFFFF, 4) + be(0x0102030405060708, 8) + be(eid, 4) + be(eid, 4)
    uh = be(0x20, 1) + be(3, 1) + be(sev, 1) + be(0, 1) + be(0, 4)
    uh += be(0, 1) + be(0, 1) + be(flags, 2) + be(0, 4)
    out = section(b'PH', 1, 0, comp, ph) + section(b'UH', 1, 0, comp, uh)
    return out + b''.join(sections)


def build_corpus(rnd):
    """Returns an ordered dict name -> PEL bytes."""
    corpus = {}
    eid = [0x50000100]

    def add(name, creator, sections, **kw):
        eid[0] += 1
        corpus[name] = pel(creator, sections, eid=eid[0], **kw)

    bi = builtin_inputs(random.Random(1))
    add('bmc_json', b'O', [ud(1, 1, 0x2000, b'{"a": 1, "b": [1, 2]}\x00\x00\x00')])
    add('bmc_text', b'O', [ud(1, 3, 0x2000, b'line one\nline \x01two\n\x00\x00'),
                            ud(1, 3, 0x2000, b'abc\n\n\x00'),
                            ud(1, 2, 0x2000, b'\xa1\x61\x01'),
                            ud(1, 4, 0x2000, b'custom'),
                            ud(1, 1, 0x2000, b'not json'),
                            ud(1, 1, 0x2000, b'[1, "x"]'),
                            ud(1, 9, 0x2000, b'\x00')])
    add('bmc_empty_ud', b'O', [ud(1, 3, 0x2000, b'')])
    add('bmc_badutf8', b'O', [ud(1, 1, 0x2000, b'{"a": "\xff"}')])
    add('bmc_badutf8_text', b'O', [ud(1, 3, 0x2000, b'ok\n\xff\xfe')])
    nonempty = [b for b in bi if b]
    for i in range(0, len(nonempty), 6):
        secs = []
        for j, blob in enumerate(nonempty[i:i + 6]):
            secs.append(ud(1, (1, 3, 2)[j % 3], 0x2000, blob))
            secs.append(ed(b'O', 2, (3, 1, 7)[j % 3], 0x2000, blob))
        # decode errors abort the whole PEL, so also keep them separate
        add('bmc_mix_%02d' % i, b'O', secs)
    for i, blob in enumerate(nonempty):
        if i % 3 == 0:
            add('bmc_one_%02d' % i, b'O', [ud(1, 3, 0x2000, blob)])
        elif i % 3 == 1:
            add('bmc_one_%02d' % i, b'O', [ud(1, 1, 0x2000, blob)])
    add('bmc_other_comp', b'O', [ud(1, 1, 0x3000, b'{"a": 1}'), ud(1, 3, 0x2100, b'x\ny')])

    oe = [(st, d) for st, d in oe500_inputs(random.Random(2)) if d]
    for i in range(0, len(oe), 12):
        add('hb_oe500_%03d' % i, b'B',
            [ud(1, st & 0xFF, 0xE500, d) for st, d in oe[i:i + 12]])
    m2 = [d for d in m2c00_inputs(random.Random(3)) if d]
    k = 0
    for i in range(0, len(m2), 5):
        secs = []
        for blob in m2[i:i + 5]:
            blob = blob[:400]
            st = (72, 73, 84, 85, 1)[k % 5]
            ver = (1, 2, 3, 1, 2, 0)[k % 6]
            k += 1
            secs.append(ud(ver, st, 0x2C00, blob))
            secs.append(ed(b'M', (k % 3) + 1, (84, 72, 73)[k % 3], 0x2C00, blob))
        add('drawer_m2c00_%03d' % i, b'M', secs)

    fake = sorted(FAKE_PLUGINS) + ['x00f0']
    for name in fake:
        comp = int(name[1:], 16)
        add('fake_' + name, b'X', [ud(1, 1, comp, b'\x01\x02\x03'),
                                   ud(2, 3, comp, b'abcdefghijklmnopq'),
                                   ed(b'x', 1, 4, comp, b'\xff')])
    add('fake_all_in_one', b'X',
        [ud(1, 1, int(n[1:], 16), b'\x10\x20') for n in fake
         if n not in ('x000c', 'x0016', 'x000d', 'x0018', 'x0019', 'x0011')] * 2)
    add('unknown_creator', b'Z', [ud(1, 1, 0x1234, b'hello'), ud(1, 1, 0x1234, b'\x00')])
    add('phyp', b'H', [ud(1, 1, 0x4142, b'hello'), ed(b'H', 1, 1, 0x0041, b'x')])
    creators = [0, 1, 0x20, 0x2e, 0x2f, 0x30, 0x41, 0x4f, 0x5c, 0x6f, 0x7f,
                0x80, 0xb5, 0xc0, 0xd6, 0xdf, 0xff]
    add('ed_creators', b'B', [ed(bytes([c]), 1, 1, 0x2000, b'{"a": 1}') for c in creators] +
        [ed(bytes([c]), 1, 1, 0xE500, b'\x00\x00\x00\x00') for c in creators])
    add('hidden', b'O', [ud(1, 1, 0x2000, b'{"h": 1}')], flags=0x6000)
    add('info', b'O', [ud(1, 1, 0x2000, b'{"i": 1}')], sev=0x00, flags=0x0000)
    add('no_sections', b'O', [])
    add('count_too_big', b'O', [ud(1, 1, 0x2000, b'{"a": 1}')], count=5)
    add('count_too_small', b'O', [ud(1, 1, 0x2000, b'{"a": 1}'),
                                  ud(1, 1, 0x2000, b'{"b": 1}')], count=3)
    add('ud_len_short', b'O', [ud(1, 1, 0x2000, b'{"a": 1}', length=7)])
    add('ud_len_8', b'O', [ud(1, 1, 0x2000, b'{"a": 1}', length=8)])
    add('ud_len_0', b'B', [ud(1, 1, 0xE500, b'abcd', length=0)])
    add('ud_len_long', b'O', [ud(1, 1, 0x2000, b'{"a": 1}', length=200)])
    add('ud_len_part', b'O', [ud(1, 3, 0x2000, b'hello\nworld', length=13),
                              ud(1, 3, 0x2000, b'x')], count=3)
    add('ed_len_short', b'B', [ed(b'O', 1, 1, 0x2000, b'{"a": 1}', length=11)])
    add('ed_len_12', b'B', [ed(b'O', 1, 1, 0x2000, b'', length=12)])
    add('ed_len_9', b'B', [ed(b'O', 1, 1, 0x2000, b'', length=9)])
    add('ed_len_long', b'B', [ed(b'B', 1, 1, 0xE500, b'\x00\x00\x00\x00', length=999)])

    base = corpus['hb_oe500_000']
    for cut in (0, 5, 47, 48, 60, 72, 75, 80, 81, 90, len(base) - 1):
        corpus['trunc_%03d' % cut] = base[:cut]
    base = corpus['bmc_text']
    for cut in (73, 79, 85, 100, len(base) - 3):
        corpus['trunc_text_%03d' % cut] = base[:cut]
    for name in ('bmc_text', 'hb_oe500_000', 'drawer_m2c00_000', 'fake_all_in_one',
                 'ed_creators'):
        base = corpus[name]
        for i in range(6):
            b = bytearray(base)
            for _ in range(rnd.randint(1, 4)):
                # leave the two mandatory headers mostly alone
                pos = rnd.randrange(60, len(b))
                b[pos] = rnd.getrandbits(8)
            corpus['flip_%s_%d' % (name, i)] = bytes(b)
    for i in range(4):
        corpus['random_%d' % i] = bytes(rnd.getrandbits(8) for _ in range(rnd.randint(10, 300)))
    corpus['empty'] = b''
    return corpus


# ---------------------------------------------------------------------------
# In-process worker
# ---------------------------------------------------------------------------

def worker(root, workdir):
    import udparsers
    udparsers.__path__.append(os.path.join(workdir, 'plugins'))

    results = []
    real_out, real_err = sys.stdout, sys.stderr

    def norm(text):
        return text.replace(workdir, '<WORK>').replace(root, '<ROOT>')

    def show(value):
        if isinstance(value, memoryview):
            return 'memoryview:' + bytes(value).hex()
        if isinstance(value, (str, bytes, int, float, bool, type(None))):
            return repr(value)
        if isinstance(value, dict):
            return type(value).__name__ + '{' + ', '.join(
                show(k) + ': ' + show(v) for k, v in value.items()) + '}'
        if isinstance(value, (list, tuple)):
            return type(value).__name__ + '[' + ', '.join(show(v) for v in value) + ']'
        return '<' + type(value).__name__ + '>'

    def run(label, fn):
        out, err = io.StringIO(), io.StringIO()
        sys.stdout, sys.stderr = out, err
        try:
            try:
                res = ['ok', show(fn())]
            except BaseException as e:  # noqa
                try:
                    msg = str(e)
                except BaseException as e2:  # noqa
                    msg = '<str failed: %s>' % type(e2).__name__
                res = ['exc', type(e).__name__, msg]
        finally:
            sys.stdout, sys.stderr = real_out, real_err
        results.append([label, [norm(x) for x in res], norm(out.getvalue()),
                        norm(err.getvalue())])

    rnd = random.Random(1234)

    # ---- m2c00 plug-in -------------------------------------------------
    from udparsers.m2c00 import m2c00
    for v in (-1, 0, 1, 2, 3, 4, None, '1', 1.0, True, 2.5, [1]):
        run('m2c00._get_drawer_type(%r)' % (v,),
            lambda v=v: m2c00._get_drawer_type(v).name)
    blobs = m2c00_inputs(random.Random(3))
    odd = [None, 'abc', '', 5, 0, bytearray(b'\x01\x02'), [1, 2], [], (300,), 2.5]
    for fn in ('_parse_hlog', '_parse_ilog', '_parse_trace', '_parse_unsupported'):
        for version in (0, 1, 2, 3):
            for i, blob in enumerate(blobs):
                run('m2c00.%s(%d, mv#%d)' % (fn, version, i),
                    lambda: getattr(m2c00, fn)(version, memoryview(blob)))
            for i, blob in enumerate(blobs[:12]):
                run('m2c00.%s(%d, bytes#%d)' % (fn, version, i),
                    lambda: getattr(m2c00, fn)(version, blob))
            for o in odd:
                run('m2c00.%s(%d, %r)' % (fn, version, o),
                    lambda: getattr(m2c00, fn)(version, o))
    for sub_type in (72, 73, 84, 85, 0, 1, -1, 255, None, '72', 72.0, 73.5, True):
        for version in (0, 1, 2, 3, None, 'x'):
            for i, blob in enumerate(blobs):
                run('m2c00.parseUDToJson(%r, %r, mv#%d)' % (sub_type, version, i),
                    lambda: m2c00.parseUDToJson(sub_type, version, memoryview(blob)))
            for o in odd:
                run('m2c00.parseUDToJson(%r, %r, %r)' % (sub_type, version, o),
                    lambda: m2c00.parseUDToJson(sub_type, version, o))
    run('m2c00.parseUDToJson([72], 1, mv)',
        lambda: m2c00.parseUDToJson([72], 1, memoryview(b'\x01')))
    run('m2c00 constants', lambda: (m2c00.SUB_TYPE_HLOG, m2c00.SUB_TYPE_ILOG,
                                    m2c00.SUB_TYPE_TRACE))

    # ---- oe500 plug-in -------------------------------------------------
    from udparsers.oe500 import oe500
    import pel.hwdiags.parserdata as parserdata
    oe = oe500_inputs(random.Random(2))
    private = {1: '_parse_signature_list', 2: '_parse_register_dump',
               3: '_parse_callout_ffdc', 4: '_parse_hb_scratch_regs',
               5: '_parse_scratch_reg_sig'}

    def oe500_pass(tag):
        for i, (st, blob) in enumerate(oe):
            for version in (1, 2):
                run('%s oe500.parseUDToJson(%d, %d, mv#%d)' % (tag, st, version, i),
                    lambda: oe500.parseUDToJson(st, version, memoryview(blob)))
            run('%s oe500.parseUDToJson(%d, 1, bytes#%d)' % (tag, st, i),
                lambda: oe500.parseUDToJson(st, 1, blob))
            for pst, fn in private.items():
                if pst == st or i % 7 == 0:
                    run('%s oe500.%s(mv#%d)' % (tag, fn, i),
                        lambda: getattr(oe500, fn)(1, memoryview(blob)))
        for o in odd:
            for st in range(0, 7):
                run('%s oe500.parseUDToJson(%d, 1, %r)' % (tag, st, o),
                    lambda: oe500.parseUDToJson(st, 1, o))
        run('%s oe500._parse_default' % tag, lambda: oe500._parse_default(1, None))
        for st in (None, '1', 1.0, True, [1]):
            run('%s oe500.parseUDToJson(%r)' % (tag, st),
                lambda: oe500.parseUDToJson(st, 1, memoryview(oe[0][1])))

    oe500_pass('nodata')

    # Same again with chip data being available.
    orig_init = parserdata.ParserData.__init__
    fake_data = {
        '20da0020': {
            'model_ec': {'id': '20da0020', 'type': 'proc', 'desc': 'P10 2.0'},
            'attn_types': {'1': 'CS', '2': 'UCS'},
            'signatures': {'1234': ['SOME_FIR', {'1': 'bit one desc', '5': 'five'}],
                           'abcd': ['OTHER_FIR', {}]},
            'registers': {
                '123456': ['A_VERY_LONG_REGISTER_NAME_EXCEEDING_THE_LIMIT',
                           {'0': '0x00012345', '3': '0xFFFFFFFF'}],
                'abcdef': ['SHORT', {'255': '0x1'}],
                '000001': ['EXACTLY_TWENTY_FIVE_CHARS', {'3': '0x8000000000000001'}],
                '000002': ['', {}],
                '000003': ['NAME WITH {braces} %s %d', {'1': '0x10'}],
            }},
        'aaaa0001': {
            'model_ec': {'id': 'aaaa0001', 'type': 'ocmb'},
            'registers': {'abcdef': ['R\u00e9g_\u00fcnicode', {'0': 'zz', '1': '0x2'}]}},
    }

    def patched_init(self):
        orig_init(self)
        self._data.update(fake_data)

    parserdata.ParserData.__init__ = patched_init
    oe500_pass('withdata')
    parserdata.ParserData.__init__ = orig_init

    # ---- parse_user_data ----------------------------------------------
    from pel.peltool import parse_user_data as pud
    from pel.peltool.config import Config
    from pel.peltool.user_data import UserData
    from pel.peltool.ext_user_data import ExtUserData
    from pel.datastream import DataStream

    def cache_state():
        return sorted((k, None if v is None else getattr(v, '__name__', '?'))
                      for k, v in pud.userDataParsers.items())

    def cfg(allow):
        c = Config()
        c.allow_plugins = allow
        return c

    def parse(creator, comp, st, ver, data, allow):
        value = pud.ParseUserData(creator, comp, st, ver, data).parse(cfg(allow))
        return (value, cache_state())

    def section_json(kind, creator, comp, st, ver, data, allow, length=None):
        if kind == 'UD':
            ln = len(data) + 8 if length is None else length
            sec = UserData(DataStream(data, byte_order='big', is_signed=False),
                           0x5544, ln, ver, st, comp, creator)
        else:
            raw = creator.encode('latin-1') + b'\0\0\0' + data
            ln = len(raw) + 8 if length is None else length
            sec = ExtUserData(DataStream(raw, byte_order='big', is_signed=False),
                              0x4544, ln, ver, st, comp)
        out = sec.toJSON(cfg(allow))
        return (type(out).__name__, json.dumps(out), cache_state())

    run('initial cache', cache_state)
    bi = builtin_inputs(random.Random(1))
    for allow in (True, False):
        for st in (0, 1, 2, 3, 4, 5, 255):
            for i, blob in enumerate(bi):
                run('parse(O,2000,%d,bi#%d,%s)' % (st, i, allow),
                    lambda: parse('O', 0x2000, st, 1, blob, allow))
                run('UD.toJSON(O,2000,%d,bi#%d,%s)' % (st, i, allow),
                    lambda: section_json('UD', 'O', 0x2000, st, 1, blob, allow))
                if st in (1, 3):
                    run('ED.toJSON(O,2000,%d,bi#%d,%s)' % (st, i, allow),
                        lambda: section_json('ED', 'O', 0x2000, st, 2, blob, allow))
                    run('parse(O,2000,%d,mv bi#%d,%s)' % (st, i, allow),
                        lambda: parse('O', 0x2000, st, 1, memoryview(blob), allow))
            for o in (None, 'abc', '', bytearray(b'a\nb'), 5):
                run('parse(O,2000,%d,%r,%s)' % (st, o, allow),
                    lambda: parse('O', 0x2000, st, 1, o, allow))
        for st in (None, '1', 1.0, 3.0, True, [1]):
            run('parse(O,2000,%r,text,%s)' % (st, allow),
                lambda: parse('O', 0x2000, st, 1, b'a\nb', allow))

    # the two real plug-ins through the loader, interleaved so that the
    # module cache is hit in different orders
    for rnd_round in range(2):
        for allow in (True, False):
            for i, (st, blob) in enumerate(oe):
                if (i + rnd_round) % 2 == 0:
                    run('r%d parse(B,E500,%d,oe#%d,%s)' % (rnd_round, st, i, allow),
                        lambda: parse('B', 0xE500, st & 0xFF, 1, blob, allow))
                else:
                    run('r%d UD.toJSON(B,E500,%d,oe#%d,%s)' % (rnd_round, st, i, allow),
                        lambda: section_json('UD', 'B', 0xE500, st & 0xFF, 1, blob, allow))
            for i, blob in enumerate(blobs):
                st = (72, 73, 84, 85)[i % 4]
                ver = (1, 2, 3)[i % 3]
                run('r%d parse(M,2C00,%d,v%d,m2#%d,%s)' % (rnd_round, st, ver, i, allow),
                    lambda: parse('M', 0x2C00, st, ver, blob, allow))
                run('r%d ED.toJSON(m,2C00,%d,v%d,m2#%d,%s)' % (rnd_round, st, ver, i, allow),
                    lambda: section_json('ED', 'm', 0x2C00, st, ver, blob, allow))

    # fake plug-ins, three rounds to observe the module cache
    fake = sorted(FAKE_PLUGINS) + ['x00f0', 'x00f1']
    for rnd_round in range(3):
        for name in fake:
            comp = int(name[1:], 16)
            for creator in ('X', 'x'):
                for allow in (True, False):
                    for data in (b'\x01\x02\x03', b'', b'\x00', bytes(range(40))):
                        run('r%d parse(%s,%04X,%r,%s)' % (rnd_round, creator, comp, data, allow),
                            lambda: parse(creator, comp, 1 + rnd_round, 1, data, allow))
                run('r%d UD.toJSON(%s,%04X)' % (rnd_round, creator, comp),
                    lambda: section_json('UD', creator, comp, 0xAB, 3, b'\xde\xad', True))
                run('r%d ED.toJSON(%s,%04X)' % (rnd_round, creator, comp),
                    lambda: section_json('ED', creator, comp, 0, 0, b'\xbe\xef' * 9, True))
            for o in (None, 'abc', bytearray(b'xy'), 7):
                run('r%d parse(X,%04X,%r)' % (rnd_round, comp, o),
                    lambda: parse('X', comp, 1, 1, o, True))

    # every possible one character creator ID (and some impossible ones)
    for c in range(256):
        creator = chr(c)
        for comp in (0x2000, 0x1234, 0xE500):
            for allow in (True, False):
                run('parse(chr(%d),%04X,%s)' % (c, comp, allow),
                    lambda: parse(creator, comp, 1, 1, b'{"a": 1}', allow))
        run('ED.toJSON(chr(%d))' % c,
            lambda: section_json('ED', creator, 0x2C00, 72, 1, b'\x01\x02', True))
    for creator in ('', 'AB', 'OO', '\u03a3', '\u0130', '\u1e9e', '.', '..', 'B.', None, 5, b'O', ('O',)):
        for comp in (0x2000, 0xE500, 0):
            for data in (b'{"a": 1}', b''):
                for allow in (True, False):
                    run('parse(%r,%04X,%r,%s)' % (creator, comp, data, allow),
                        lambda: parse(creator, comp, 1, 1, data, allow))
    for comp in (0, 1, 0xFFFF, 0x10000, -1, 0xE500, None, '2000', 2.5, True):
        for creator in ('O', 'B'):
            for allow in (True, False):
                run('parse(%s,comp=%r,%s)' % (creator, comp, allow),
                    lambda: parse(creator, comp, 1, 1, b'\x00\x00\x00\x01', allow))
    for st in (0, 1, 255, -1, None, 'a', 2.5):
        for ver in (0, 1, None, 'v'):
            for creator, comp in (('B', 0xE500), ('Z', 0x1), ('X', 6), ('X', 1), ('X', 0xA)):
                run('parse(%s,%X,st=%r,ver=%r)' % (creator, comp, st, ver),
                    lambda: parse(creator, comp, st, ver, b'\x01\x02', True))

    # section lengths that do not fit the data
    for kind in ('UD', 'ED'):
        for length in (-5, 0, 4, 7, 8, 9, 11, 12, 13, 16, 20, 21, 50, 70000):
            for allow in (True, False):
                run('%s length=%d %s' % (kind, length, allow),
                    lambda: section_json(kind, 'O', 0x2000, 3, 1, b'one\ntwo\nthr', allow,
                                         length=length))

    # random decodes in one process
    creators = ['O', 'B', 'M', 'X', 'Z', 'H', 'o', 'b']
    comps = [0x2000, 0xE500, 0x2C00, 1, 2, 3, 4, 6, 7, 8, 9, 0xA, 0xB, 0xE, 0x10,
             0x12, 0x15, 0x17, 0xF0, 0x3000]
    sts = [0, 1, 2, 3, 4, 5, 72, 73, 84, 85]
    for i in range(1500):
        creator = rnd.choice(creators)
        comp = rnd.choice(comps)
        st = rnd.choice(sts)
        ver = rnd.choice((1, 2, 3))
        kind = rnd.choice(('p', 'UD', 'ED'))
        allow = rnd.random() < 0.8
        n = rnd.choice((0, 1, 3, 4, 8, 12, 16, 24, 33, 64))
        mode = rnd.random()
        if mode < 0.4:
            data = bytes(rnd.getrandbits(8) for _ in range(n))
        elif mode < 0.6:
            data = bytes(rnd.choice(b'abc {}[]":,1\n\x00\t~\x7f') for _ in range(n))
        elif mode < 0.8:
            data = rnd.choice(bi)
        elif mode < 0.9:
            data = rnd.choice(oe)[1]
        else:
            data = rnd.choice(blobs)
        if kind == 'p':
            run('rand#%d' % i, lambda: parse(creator, comp, st, ver, data, allow))
        else:
            run('rand#%d' % i,
                lambda: section_json(kind, creator, comp, st, ver, data, allow))

    run('module surface', lambda: sorted(
        n for n in ('userDataParsers', 'UserDataFormat', 'get_value', 'ParseUserData')
        if hasattr(pud, n)) + [m.name + '=' + str(m.value) for m in pud.UserDataFormat]
        + [pud.get_value(memoryview(b'\x01\x02\x03\x04'), 1, 2)])
    run('final cache', cache_state)

    json.dump(results, real_out)


# ---------------------------------------------------------------------------
# Driver
# ---------------------------------------------------------------------------

def snapshot(directory):
    out = {}
    for base, _, files in os.walk(directory):
        for f in files:
            p = os.path.join(base, f)
            with open(p, 'rb') as fd:
                out[os.path.relpath(p, directory)] = hashlib.sha256(fd.read()).hexdigest()
    return sorted(out.items())


def strip_traceback(text):
    """
    Removes the stack frames (file names, line numbers, source lines) of an
    uncaught exception's traceback; the header line and the final
    'ExceptionType: message' line are kept.
    """
    out = []
    in_tb = False
    for line in text.split('\n'):
        if line == 'Traceback (most recent call last):':
            in_tb = True
            out.append(line)
        elif in_tb and line.startswith(' '):
            continue
        else:
            in_tb = False
            out.append(line)
    return '\n'.join(out)


def run_tree(root, tag, pyflags, tmp, corpus):
    """Returns dict case-label -> result for one tree and one set of flags."""
    root = os.path.abspath(root)
    # identical path length / name for both trees so that nothing in the
    # output can depend on it: use a symlink with a fixed name
    workdir = os.path.join(tmp, 'w')
    if os.path.lexists(workdir):
        shutil.rmtree(workdir)
    os.makedirs(workdir)
    link = os.path.join(workdir, 'tree')
    os.symlink(root, link)
    plugins = os.path.join(workdir, 'plugins')
    write_plugins(plugins)
    site = os.path.join(workdir, 'site')
    write_site(site, plugins)
    env = dict(os.environ)
    env['PYTHONPATH'] = os.path.join(link, 'modules') + os.pathsep + site
    env['PYTHONDONTWRITEBYTECODE'] = '1'
    env['PYTHONHASHSEED'] = '0'
    env.pop('PYTHONOPTIMIZE', None)
    results = {}

    # in-process worker
    proc = subprocess.run([PYTHON] + pyflags + [os.path.abspath(__file__), '--worker',
                                                link, workdir],
                          env={**env, 'PYTHONPATH': os.path.join(link, 'modules')},
                          cwd=workdir, stdout=subprocess.PIPE, stderr=subprocess.PIPE)
    if proc.returncode != 0:
        sys.stderr.write(proc.stderr.decode('utf-8', 'replace'))
        raise SystemExit('worker failed for %s %s' % (tag, pyflags))
    results['worker-stderr'] = proc.stderr.decode('utf-8', 'replace')
    for label, res, out, err in json.loads(proc.stdout.decode('utf-8')):
        key = 'W:' + label
        n = 1
        while key in results:
            n += 1
            key = 'W:%s [%d]' % (label, n)
        results[key] = [res, out, err]

    # CLI
    peltool = os.path.join(link, 'modules', 'pel', 'peltool', 'peltool.py')
    pels = os.path.join(workdir, 'pels')
    os.makedirs(pels)
    pels_all = os.path.join(workdir, 'pels_all')
    os.makedirs(pels_all)
    for name, blob in corpus.items():
        # the plug-ins x000c / x0016 end the whole process; keep them out of
        # the directory that most of the multi PEL runs use
        dirs = [pels_all] if name in ('fake_x000c', 'fake_x0016') else [pels, pels_all]
        for d in dirs:
            with open(os.path.join(d, name + '.pel'), 'wb') as f:
                f.write(blob)

    def cli(args, cwd=workdir):
        p = subprocess.run([PYTHON] + pyflags + [peltool] + args, env=env, cwd=cwd,
                           stdout=subprocess.PIPE, stderr=subprocess.PIPE)
        return [p.returncode, p.stdout.decode('utf-8', 'replace'),
                strip_traceback(p.stderr.decode('utf-8', 'replace'))]

    jobs = []
    for name in corpus:
        f = os.path.join('pels_all', name + '.pel')
        jobs.append(('C:-f %s' % name, ['-f', f]))
        jobs.append(('C:-f %s -P' % name, ['-f', f, '-P']))
    for label, args in (('-a', ['-a']), ('-aE', ['-aE']), ('-a -P', ['-a', '-P']),
                        ('-aE -r', ['-aE', '-r']), ('-l', ['-l']), ('-lE', ['-lE']),
                        ('-n', ['-n']), ('-nE', ['-nE']), ('-aH', ['-aH']),
                        ('-aE -x', ['-aE', '-x']), ('-aNO', ['-aNO']),
                        ('-a -S Informational', ['-a', '-S', 'Informational']),
                        ('-aE -e .pel', ['-aE', '-e', '.pel']),
                        ('-aE -e .txt', ['-aE', '-e', '.txt']),
                        ('-i', ['-i', '50000102']), ('--plid', ['--plid', '50000103']),
                        ('--bmc-id', ['--bmc-id', str(0x0104)])):
        jobs.append(('C:-p pels ' + label, ['-p', 'pels'] + args))
    jobs.append(('C:-p pels_all -aE', ['-p', 'pels_all', '-aE']))
    jobs.append(('C:-p pels_all -aE -r', ['-p', 'pels_all', '-aE', '-r']))
    jobs.append(('C:-p pels_all -lE', ['-p', 'pels_all', '-lE']))
    with ThreadPoolExecutor(max_workers=8) as pool:
        for (label, _), res in zip(jobs, pool.map(lambda j: cli(j[1]), jobs)):
            results[label] = res

    # runs that create / remove files (sequential, own directories)
    for label, extra in (('-j -o', []), ('-j -o -P', ['-P']), ('-j -o -E -c', ['-E', '-c'])):
        src = os.path.join(workdir, 'jsrc')
        dst = os.path.join(workdir, 'jdst')
        for d in (src, dst):
            if os.path.exists(d):
                shutil.rmtree(d)
        shutil.copytree(pels, src)
        os.makedirs(dst)
        res = cli(['-p', 'jsrc', '-j', '-o', 'jdst'] + extra)
        results['C:' + label] = res + [snapshot(src), snapshot(dst)]
    src = os.path.join(workdir, 'jsrc')
    shutil.rmtree(src)
    shutil.copytree(pels, src)
    res = cli(['-p', 'jsrc', '-j'])
    results['C:-j in place'] = res + [snapshot(src)]
    for name in ('bmc_text', 'bmc_badutf8', 'fake_x0001', 'trunc_072'):
        res = cli(['-f', os.path.join('jsrc', name + '.pel'), '-c'])
        results['C:-f %s -c' % name] = res + [
            os.path.exists(os.path.join(src, name + '.pel'))]
    return results


def main():
    if len(sys.argv) >= 2 and sys.argv[1] == '--worker':
        worker(sys.argv[2], sys.argv[3])
        return 0
    if len(sys.argv) != 3:
        print(__doc__)
        return 2
    pristine, patched = sys.argv[1], sys.argv[2]
    corpus = build_corpus(random.Random(99))
    tmp = tempfile.mkdtemp(prefix='dc_', dir=HERE)
    total = 0
    bad = 0
    try:
        for pyflags in ([], ['-O']):
            ref = run_tree(pristine, 'pristine', pyflags, tmp, corpus)
            new = run_tree(patched, 'patched', pyflags, tmp, corpus)
            for key in sorted(set(ref) | set(new)):
                total += 1
                if ref.get(key) != new.get(key):
                    bad += 1
                    if bad <= 20:
                        print('DIFF [%s] %s\n  pristine: %.600r\n  patched:  %.600r' % (
                            ' '.join(pyflags) or 'default', key, ref.get(key), new.get(key)))
    finally:
        shutil.rmtree(tmp, ignore_errors=True)
    if bad:
        print('DIFFERENT (%d of %d cases)' % (bad, total))
        return 1
    print('IDENTICAL (%d cases)' % total)
    return 0


if __name__ == '__main__':
    sys.exit(main())
