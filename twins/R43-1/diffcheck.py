#!/usr/bin/env python3
"""
Differential check for refactorings of modules/io_drawer and
modules/udparsers/m2c00.

Usage: diffcheck.py <pristine_root> <patched_root>

Generates a corpus of input files once (header files, trace string files, hex
dump files, binary PELs), then runs the very same driver script in a
subprocess per tree (PYTHONPATH=<root>/modules), with and without `python -O`,
and additionally runs the dump.py and peltool.py command lines.  Every case
produces one record; the records of both trees are compared one by one.

Prints "IDENTICAL (<n> cases)" and exits 0 when all records are identical,
exits 1 otherwise.
"""

import json
import os
import random
import shutil
import struct
import subprocess
import sys
import tempfile

PY = sys.executable

# ---------------------------------------------------------------------------
# Driver: executed inside each tree.  Prints one JSON record per case.
# ---------------------------------------------------------------------------
DRIVER = r'''
import contextlib, io, json, os, random, re, struct, sys

ROOT = sys.argv[1]
CORPUS = sys.argv[2]
os.chdir(CORPUS)

from io_drawer import drawer_type as dt_mod
from io_drawer import utils as utils_mod
from io_drawer import ilog as ilog_mod
from io_drawer import hlog as hlog_mod
from io_drawer import trace as trace_mod
from io_drawer import dump as dump_mod
from udparsers.m2c00 import m2c00 as ud_mod
from pel.datastream import DataStream

CASES = 0


def norm(text):
    return text.replace(ROOT, '<ROOT>')


def ser(obj):
    """Serialises results into JSON friendly, comparable values."""
    if isinstance(obj, (memoryview, bytes, bytearray)):
        return {'__bytes__': bytes(obj).hex(), 'type': type(obj).__name__}
    if isinstance(obj, (list, tuple)):
        return {'__seq__': type(obj).__name__, 'items': [ser(o) for o in obj]}
    if isinstance(obj, dict):
        return {'__dict__': type(obj).__name__,
                'items': [[ser(k), ser(v)] for k, v in obj.items()]}
    if isinstance(obj, re.Pattern):
        return {'__re__': obj.pattern, 'flags': obj.flags}
    if isinstance(obj, str):
        return norm(obj)
    if obj is None or isinstance(obj, (bool, int, float)):
        return {'__scalar__': repr(obj)}
    if isinstance(obj, ilog_mod.PTETableEntry):
        return {'__pte_entry__': [ser(getattr(obj, a, '<missing>')) for a in
                                  ('pte_pattern', 'message_format', 'params',
                                   'file', 'line', 'pte_re')]}
    if isinstance(obj, trace_mod.TraceString):
        return {'__trace_string__': [ser(getattr(obj, a, '<missing>')) for a in
                                     ('hash_value', 'message_format',
                                      'location')]}
    if isinstance(obj, trace_mod.TraceBufferHeader):
        return {'__tbh__': [ser(getattr(obj, a, '<missing>')) for a in
                            ('ver', 'hdr_len', 'time_flg', 'endian_flg',
                             'comp', 'size', 'times_wrap', 'next_free')]}
    if isinstance(obj, trace_mod.TraceEntry):
        return {'__trace_entry__': [ser(getattr(obj, a, '<missing>')) for a in
                                    ('tbh', 'tbl', 'length', 'tag',
                                     'hash_value', 'line', 'data')]}
    if isinstance(obj, trace_mod.TraceBuffer):
        return {'__trace_buffer__': [ser(obj.header), ser(obj.entries)]}
    if isinstance(obj, dt_mod.DrawerType):
        return {'__drawer_type__': [obj.name, obj.header_file_name,
                                    obj.string_file_name,
                                    obj.user_data_version]}
    if isinstance(obj, hlog_mod.HistoryLogField):
        return {'__hlog_field__': [ser(obj.name), ser(obj.size)]}
    return {'__other__': type(obj).__name__, 'repr': norm(repr(obj))}


def case(name, fn):
    """Runs one case, recording result or exception plus captured output."""
    global CASES
    CASES += 1
    out, err = io.StringIO(), io.StringIO()
    rec = {'case': name}
    try:
        with contextlib.redirect_stdout(out), contextlib.redirect_stderr(err):
            rec['result'] = ser(fn())
    except SystemExit as e:
        rec['exit'] = repr(e.code)
    except BaseException as e:
        rec['exception'] = [type(e).__name__, norm(str(e))]
    rec['stdout'] = norm(out.getvalue())
    rec['stderr'] = norm(err.getvalue())
    print(json.dumps(rec, sort_keys=True))


rng = random.Random(20240607)

MEX_H = dt_mod.MEX_DRAWER_TYPE.get_header_file_path()
NIM_H = dt_mod.NIMITZ_DRAWER_TYPE.get_header_file_path()
MEX_S = dt_mod.MEX_DRAWER_TYPE.get_trace_string_file_path()
NIM_S = dt_mod.NIMITZ_DRAWER_TYPE.get_trace_string_file_path()

with open(os.path.join(CORPUS, 'manifest.json')) as f:
    MANIFEST = json.load(f)
HEADER_FILES = [MEX_H, NIM_H] + MANIFEST['headers'] + ['does/not/exist.h']
STRING_FILES = [MEX_S, NIM_S] + MANIFEST['strings'] + ['does/not/exist.str']
DUMP_FILES = MANIFEST['dumps'] + ['does/not/exist.dump']
BLOBS = {k: bytes.fromhex(v) for k, v in MANIFEST['blobs'].items()}

# --- drawer_type -----------------------------------------------------------
case('dt/list', lambda: list(dt_mod.DRAWER_TYPES))
for t in dt_mod.DRAWER_TYPES:
    case('dt/hdr/' + t.name, t.get_header_file_path)
    case('dt/str/' + t.name, t.get_trace_string_file_path)
case('dt/custom', lambda: [
    dt_mod.DrawerType('x', 'a/b.h', 'c', 7).get_header_file_path(),
    dt_mod.DrawerType('x', 'a/b.h', '/abs/c', 7).get_trace_string_file_path()])

# --- utils -----------------------------------------------------------------
TS = list(range(-3, 130)) + list(range(3500, 3700)) + \
    list(range(35990, 36010)) + list(range(65500, 65540)) + \
    [rng.randrange(0, 70000) for _ in range(200)] + [1 << 20, -(1 << 20)]
case('utils/ts', lambda: [utils_mod.format_timestamp(t) for t in TS])
for bad in (None, 'abc', 3.5, 7200.0, [1]):
    case('utils/ts/bad/%r' % (bad,), lambda: utils_mod.format_timestamp(bad))

# --- ilog: PTETableEntry ---------------------------------------------------
PTES = [0, 1, 0x01040000, 0x010000AB, 0x0200C1C2, 0xE2082690, 0xE20C2690,
        0xE30877AE, 0xE30C77AE, 0xE30C7704, 0x15A40000, 0xF0040000,
        0xE0040000, 0xEFFFFFFF, 0xFFFFFFFF, 0x1FFFFFFFF, -1, 0xE00C0000,
        0xE3087704, 0xe30c23ae] + [rng.getrandbits(32) for _ in range(40)] + \
       [0xE0000000 | rng.getrandbits(28) for _ in range(40)]
ENTRY_SPECS = [
    ('01040000', 'Power on complete', (), 'states.cpp', 601),
    ('010000**', 'node type = 0x%02X', (4,), 'states.cpp', 485),
    ('0200****', 'PEROM level = %c%c', (3, 4), 'states.cpp', 254),
    ('E308****', 'Fan %d fault %d', (3, 4), 'fan.cpp', 1),
    ('E30877AE', 'exact', (), 'fan.cpp', 2),
    ('e30823ae', 'lower case pattern', (), 'fan.cpp', 3),
    ('E3******', 'too few %d %d %d', (1,), 'a.cpp', 4),
    ('E*******', 'too many %d', (1, 2, 3, 4), 'a.cpp', 5),
    ('********', 'params out of range %d', (0, 5, 2, -1, 9), 'a.cpp', 6),
    ('1*A4****', '100% done %s', (2,), 'a.cpp', 7),
    ('E00C0000', 'reported only', (), 'a.cpp', 8),
    ('E0080000', 'unreported form %X', (2,), 'a.cpp', 9),
    ('FFFFFFFF', '%(name)s', (1,), 'a.cpp', 10),
    ('.{8}', 'regex chars', (), 'a.cpp', 11),
    ('E30[0-9]7704', 'char class', (), 'a.cpp', 12),
    ('((', 'bad regex', (), 'a.cpp', 13),
    ('', 'empty pattern', (), 'a.cpp', 14),
    ('0104000', 'short pattern', (), 'a.cpp', 15),
    ('010400000', 'long pattern', (), 'a.cpp', 16),
    ('E3*877*4', 'mixed %c', (4, 4, 4, 4, 4), 'a.cpp', 17),
    ('E2082690', 'P1 IO Bay VRM in "N-Mode"', (), 'vrm_monitor.cpp', 145),
    ('15D10000', 'float params %d', (1.5, 2.0, 4.0), 'a.cpp', 18),
]


def entry_case(spec):
    e = ilog_mod.PTETableEntry(*spec)
    res = [ser(e)]
    for pte in PTES:
        row = []
        for meth in (e.get_message, e.matches, e._is_exact_match,
                     e._is_reported_error_pte):
            try:
                row.append(ser(meth(pte)))
            except Exception as ex:
                row.append(['EXC', type(ex).__name__, str(ex)])
        res.append(row)
    return res


for i, spec in enumerate(ENTRY_SPECS):
    case('ilog/entry/%d' % i, lambda: entry_case(spec))

# --- ilog: PTETable --------------------------------------------------------
ADD_FIELDS = [
    ('01040000', 'Power on complete', '', 'states.cpp', '601'),
    ('100100**', 'PS%d - Faults Cleared    ', '4', 'mps.cpp', '759'),
    ('2065****', 'IO Bay %d type = %d', '3, 4', 'a.cpp', '9'),
    ('E2082690', r'P1 IO Bay VRM in \"N-Mode\" ', '', 'vrm.cpp', '145'),
    ('15D10000', 'five', '1,2,3,4,5, 12, 0', 'a.cpp', '007'),
    ('15D10000', 'x', 'a, b, -3', 'a.cpp', ' 12 '),
    ('15D10000', 'x', '3', 'a.cpp', 'notanumber'),
    ('15D10000', 'x', '3', 'a.cpp'),
    ('15D10000', 'x', '3', 'a.cpp', '1', 'extra'),
    (),
    ('((', 'bad', '', 'a.cpp', '1'),
    ('0000000*', '   \\"   ', '\u0663', 'a.cpp', '1' * 5000),
]


def table_case(path):
    t = ilog_mod.PTETable(path)
    res = [t.header_file_path, ser(t.entries)]
    for pte in PTES:
        res.append(ser(t.get_entry(pte)))
    for fields in ADD_FIELDS:
        try:
            res.append(ser(t._add_entry(fields)))
        except Exception as ex:
            res.append(['EXC', type(ex).__name__, str(ex)])
        res.append(len(t.entries))
        if t.entries:
            res.append(ser(t.entries[-1]))
    # parsing again appends to the existing entries
    t._parse_header_file()
    res.append(len(t.entries))
    return res


for path in HEADER_FILES:
    case('ilog/table/' + os.path.basename(path), lambda: table_case(path))

# --- binary data -----------------------------------------------------------


def rand_bytes(n):
    return bytes(rng.getrandbits(8) for _ in range(n))


ILOG_DATA = [b'', b'\x00', rand_bytes(7), bytes(8), bytes(24),
             bytes.fromhex('0001000201040000'),
             bytes.fromhex('00000000000000000001000000000000'),
             bytes.fromhex('FFFF0001E30C7704' 'FFFE0002E3087704'
                           '0E10ABCD0200C1C2' '1234'),
             BLOBS['ilog']] + \
            [rand_bytes(n) for n in (8, 9, 15, 16, 17, 64, 200, 801)]
for hi, path in enumerate(HEADER_FILES):
    for di, data in enumerate(ILOG_DATA):
        case('ilog/parse/%d/%d' % (hi, di),
             lambda: ilog_mod.parse_ilog_data(memoryview(data), path))
case('ilog/parse/bytes',
     lambda: ilog_mod.parse_ilog_data(BLOBS['ilog'], MEX_H))
case('ilog/parse/bytearray',
     lambda: ilog_mod.parse_ilog_data(bytearray(BLOBS['ilog']), NIM_H))

# --- hlog ------------------------------------------------------------------
for path in HEADER_FILES:
    case('hlog/fields/' + os.path.basename(path),
         lambda: hlog_mod.get_hlog_fields(path))
HLOG_DATA = [b'', b'\x00', b'\x00\xde\xad', bytes(40), bytes(400),
             BLOBS['hlog']] + \
            [rand_bytes(n) for n in (1, 2, 3, 5, 16, 17, 63, 130, 131, 400)]
for hi, path in enumerate(HEADER_FILES):
    for di, data in enumerate(HLOG_DATA):
        case('hlog/parse/%d/%d' % (hi, di),
             lambda: hlog_mod.parse_hlog_data(memoryview(data), path))

# --- trace: TraceString / TraceStringFile ----------------------------------
FORMATS = ['plain', 'one %u', 'two 0x%x %d', 'c %c %02X %02u',
           '%04X %08X 0x%.2X %.4X 0x%.8X', '100% broken', '%s and %d',
           '%(k)s', '%%', '%5d|%-5d|%+d', '']
ARGS = [(), (18,), (0xD3, 5), (67, 0xB, 3), (0x2B, 0x1BEEF, 0xD, 0xC0FFE,
                                                    0xC03DF),
        (0xD3), (1, 2, 3), (0x110000,), (-1,), None, 'str', (1.5,)]


def ts_case():
    res = []
    for fmt in FORMATS:
        s = trace_mod.TraceString(32403714, fmt, 'x.cpp(324)')
        res.append(ser(s))
        for a in ARGS:
            res.append(s.get_message(a))
    s = trace_mod.TraceString(32403714, 'x', 'loc')
    for h in (32403714, 32503714, 3714, 103714, 32403715, 0, 4294903714,
              132403714, -96286):
        res.append([s.is_match(h), s.is_partial_match(h)])
    return res


case('trace/string', ts_case)

HASHES = [32403714, 38405017, 48602109, 97802736, 103402736, 103402746, 0, 1,
          2736, 102736, 4294967295, 12345] + MANIFEST['hashes'][:60] + \
         [h + 100000 for h in MANIFEST['hashes'][:40]] + \
         [rng.getrandbits(32) for _ in range(30)]
ADD_TS_FIELDS = [
    ('103402736', 'I> FANS_MGR: mps_fan_spd_tbl = %u', 'fans_mgr.cpp(1034)'),
    ('  48602109  ', '  I> BMP180: UP = %d  ', '  bmp180_sensor.cpp(486)  '),
    ('103402736', 'only two'),
    ('1', '2', '3', '4'),
    ('abc', 'x', 'y'),
    ('', 'x', 'y'),
    ('1' * 5000, 'x', 'y'),
    ('\u0663\u0664', ' x ', '\ty\n'),
]


def tsf_case(path):
    f = trace_mod.TraceStringFile(path)
    res = [f.string_file_path, len(f.trace_strings),
           ser(f.trace_strings[:50]), ser(f.trace_strings[-5:])]
    for h in HASHES:
        res.append(ser(f.get_trace_string(h)))
    for fields in ADD_TS_FIELDS:
        try:
            res.append(ser(f._add_trace_string(fields)))
        except Exception as ex:
            res.append(['EXC', type(ex).__name__, str(ex)])
        res.append(len(f.trace_strings))
        if f.trace_strings:
            res.append(ser(f.trace_strings[-1]))
    return res


for path in STRING_FILES:
    case('trace/file/' + os.path.basename(path), lambda: tsf_case(path))

# --- trace: binary structures ----------------------------------------------


def mk_header(name=b'FANS', size=0x100, ver=2, hdr_len=0x20, time_flg=1,
              endian=0x42, wrap=3, next_free=0x40, rsvd=b'\0\0\0\0',
              pad=b' '):
    comp = name.ljust(12, pad)[:12]
    return struct.pack('>BBBB12s4sIII', ver, hdr_len, time_flg, endian, comp,
                       rsvd, size, wrap, next_free)


def mk_entry(tbh, tbl, tag, hash_value, line, data=b'', length=None,
             pad=None, size=None):
    if length is None:
        length = len(data)
    if pad is None:
        pad = b'\0' * (-len(data) % 4)
    body = struct.pack('>HHHHII', tbh, tbl, length, tag, hash_value, line) + \
        data + pad
    if size is None:
        size = len(body) + 4
    return body + struct.pack('>I', size)


def stream_of(data):
    return DataStream(memoryview(data), byte_order='big', is_signed=False)


HEADERS = [mk_header(), mk_header(b'IICS\0\0  \0 '), mk_header(b'ERRL', pad=b'\0'),
           mk_header(b'\xff\xfeAB\x80 C'), mk_header(b''), mk_header(b'   X'),
           mk_header(size=0xFFFFFFFF, wrap=0xFFFFFFFF, next_free=0x80000000,
                     ver=255, hdr_len=0, time_flg=200, endian=0x4C,
                     rsvd=b'\xde\xad\xbe\xef'),
           rand_bytes(32), rand_bytes(40), rand_bytes(31), b'', mk_header()[:16]]


def header_case(data, offset=0):
    s = stream_of(b'\xAA' * offset + data)
    if offset:
        s.inc_index(offset)
    h = trace_mod.TraceBufferHeader()
    ok = h.read(s)
    return [ok, s.index, ser(h)]


for i, data in enumerate(HEADERS):
    case('trace/header/%d' % i, lambda: header_case(data))
    case('trace/header/off/%d' % i, lambda: header_case(data, 5))
case('trace/header/const', lambda: [trace_mod.TraceBufferHeader.SIZE,
                                    trace_mod.TraceBufferHeader.BUFFER_NAMES,
                                    trace_mod.TraceEntry.FIXED_SIZE,
                                    trace_mod.TraceEntry.MAX_DATA_LEN,
                                    trace_mod.TraceEntry.TYPE_FIELDTRACE,
                                    trace_mod.TraceEntry.TYPE_FIELDBIN,
                                    trace_mod.TraceEntry.MAX_ARGS])

FT = 0x4654
FB = 0x4644
MH = MANIFEST['hashes']
ENTRIES = [
    mk_entry(1, 2, FT, 32403714, 324, struct.pack('>II', 0xD3, 5)),
    mk_entry(0xFFFF, 0xFFFF, FT, 33902203, 339),
    mk_entry(10, 11, FB, 32403714, 324, b'\x01\x02\x03'),
    mk_entry(10, 11, FB, 1, 2, b'\x01\x02\x03\x04\x05'),
    mk_entry(10, 11, FT, 1, 2, b'\x01\x02\x03\x04\x05\x06'),
    mk_entry(10, 11, FT, 1, 2, bytes(range(7))),
    mk_entry(10, 11, FT, 1, 2, bytes(range(24))),
    mk_entry(10, 11, FT, 1, 2, bytes(range(20))),
    mk_entry(10, 11, 0, 1, 2, bytes(range(16))),
    mk_entry(10, 11, FT, 1, 2, bytes(1024)),
    mk_entry(10, 11, FT, 1, 2, bytes(1023)),
    mk_entry(10, 11, FT, 1, 2, bytes(1025)),
    mk_entry(10, 11, FT, 1, 2, bytes(1028)),
    mk_entry(10, 11, FT, 1, 2, b'', length=0xFFFF),
    mk_entry(10, 11, FT, 1, 2, b'abcd', length=8),
    mk_entry(10, 11, FT, 1, 2, b'abcd', length=3),
    mk_entry(10, 11, FT, 1, 2, b'abc', pad=b''),
    mk_entry(10, 11, FT, 1, 2, b'abcde', pad=b'\0'),
    mk_entry(10, 11, FT, 1, 2, b'abcd', size=0),
    mk_entry(10, 11, FT, 1, 2, b'abcd', size=25),
    mk_entry(10, 11, FT, 1, 2, b'abcd', size=23),
    mk_entry(10, 11, FT, 1, 2, b'abcd')[:-1],
    mk_entry(10, 11, FT, 1, 2, b'abcd')[:-4],
    mk_entry(10, 11, FT, 1, 2, b'abcde')[:-5],
    mk_entry(10, 11, FT, 1, 2, b'abcde')[:-7],
    mk_entry(10, 11, FT, 1, 2, b'abcde')[:17],
    mk_entry(10, 11, FT, 1, 2)[:16],
    mk_entry(10, 11, FT, 1, 2)[:15],
    b'', rand_bytes(3), rand_bytes(16), rand_bytes(20), rand_bytes(64),
]
for n in (1, 2, 3, 5, 9, 13, 21, 40):
    ENTRIES.append(mk_entry(rng.getrandbits(16), rng.getrandbits(16),
                            rng.choice((FT, FB, 0x1234)),
                            rng.choice(MH), rng.getrandbits(20),
                            rand_bytes(n)))


def entry_read_case(data, offset=0, trailing=b''):
    s = stream_of(b'\xAA' * offset + data + trailing)
    if offset:
        s.inc_index(offset)
    e = trace_mod.TraceEntry()
    ok = e.read(s)
    res = [ok, s.index, ser(e)]
    try:
        res.append(ser(e.is_binary_trace()))
        res.append(ser(e.get_args()))
    except Exception as ex:
        res.append(['EXC', type(ex).__name__, str(ex)])
    return res


for i, data in enumerate(ENTRIES):
    case('trace/entry/%d' % i, lambda: entry_read_case(data))
    case('trace/entry/off/%d' % i,
         lambda: entry_read_case(data, 3, b'\x11\x22\x33\x44\x55'))


def args_case():
    res = []
    for tag in (FT, FB, 0, None):
        for data in (None, b'', b'\x01', bytes(range(4)), bytes(range(7)),
                     bytes(range(8)), bytes(range(19)), bytes(range(20)),
                     bytes(range(21)), bytes(range(40)), b'\xff' * 12):
            e = trace_mod.TraceEntry()
            e.tag = tag
            e.data = None if data is None else memoryview(data)
            res.append([ser(e.is_binary_trace()), ser(e.get_args())])
            if data is not None:
                e.data = data
                res.append(ser(e.get_args()))
    return res


case('trace/args', args_case)


def mk_buffer(name, entries, size=None, **kw):
    body = b''.join(entries)
    if size is None:
        size = 32 + len(body)
    return mk_header(name, size=size, **kw) + body


GOOD = [mk_entry(i * 977 % 65536, i, FT if i % 3 else FB, MH[i * 7 % len(MH)],
                 i * 13, rand_bytes(i % 23)) for i in range(30)]
BUFFERS = [
    mk_buffer(b'FANS', []),
    mk_buffer(b'FANS', ENTRIES[:9]),
    mk_buffer(b'POWR', GOOD),
    mk_buffer(b'INFO', GOOD, size=32 + 40),
    mk_buffer(b'INFO', GOOD, size=0),
    mk_buffer(b'INFO', GOOD, size=0xFFFFFFFF),
    mk_buffer(b'ERRL', GOOD[:5] + [ENTRIES[13]] + GOOD[5:]),
    mk_buffer(b'ERRL', GOOD[:5] + [ENTRIES[19]] + GOOD[5:]),
    mk_buffer(b'IICM', GOOD)[:300],
    mk_buffer(b'IICM', GOOD)[:33],
    mk_buffer(b'IICM', GOOD)[:32],
    mk_buffer(b'IICM', GOOD)[:31],
    mk_buffer(b'IICS', [mk_entry(5, 6, FT, 32403714, 324,
                                 struct.pack('>II', 0xD3, 5)),
                        mk_entry(5, 7, FT, 32503714, 325,
                                 struct.pack('>II', 0xD3, 5)),
                        mk_entry(5, 8, FT, 38405017, 384,
                                 struct.pack('>I', 0xD3)),
                        mk_entry(5, 9, FB, 38405017, 384, b'binary!'),
                        mk_entry(0xFFFF, 10, FT, 99, 1, b'')]),
    BLOBS['trace'],
    b'', rand_bytes(10), rand_bytes(32), rand_bytes(100), rand_bytes(500),
]
for _ in range(12):
    b = bytearray(BLOBS['trace'])
    for _ in range(rng.randrange(1, 6)):
        b[rng.randrange(len(b))] = rng.getrandbits(8)
    BUFFERS.append(bytes(b))
for _ in range(8):
    BUFFERS.append(BLOBS['trace'][:rng.randrange(len(BLOBS['trace']))])


def buffer_case(data):
    s = stream_of(data)
    b = trace_mod.TraceBuffer()
    ok = b.read(s)
    return [ok, s.index, ser(b)]


for i, data in enumerate(BUFFERS):
    case('trace/buffer/%d' % i, lambda: buffer_case(data))


def format_entry_case(path):
    f = trace_mod.TraceStringFile(path)
    res = []
    lines = ['sentinel']
    for data in ENTRIES + GOOD[:12]:
        e = trace_mod.TraceEntry()
        ok = e.read(stream_of(data))
        try:
            res.append(ser(trace_mod._format_trace_entry(e, f, lines)))
        except Exception as ex:
            res.append(['EXC', ok, type(ex).__name__, str(ex)])
        res.append(len(lines))
    e = trace_mod.TraceEntry()
    e.tbh, e.tbl, e.line, e.hash_value, e.tag = 5, 6, 7, 32503714, FT
    trace_mod._format_trace_entry(e, f, lines)
    e.hash_value = 32403714
    trace_mod._format_trace_entry(e, f, lines)
    e.hash_value = 77
    trace_mod._format_trace_entry(e, f, lines)
    res.append(lines)
    return res


for path in STRING_FILES[:4]:
    case('trace/format_entry/' + os.path.basename(path),
         lambda: format_entry_case(path))

for si, path in enumerate(STRING_FILES):
    for bi, data in enumerate(BUFFERS):
        if si >= 2 and bi % 3:
            continue
        case('trace/parse/%d/%d' % (si, bi),
             lambda: trace_mod.parse_trace_data(memoryview(data), path))
case('trace/parse/bytes',
     lambda: trace_mod.parse_trace_data(BLOBS['trace'], MEX_S))

# --- dump ------------------------------------------------------------------
case('dump/names', dump_mod._get_drawer_type_names)
for name in ('mex', 'nimitz', 'foo', '', 'MEX', None, 1):
    case('dump/type/%r' % (name,), lambda: dump_mod._get_drawer_type(name))
case('dump/const', lambda: [dump_mod.TRACE_BUFFER_HEADER_START,
                            dump_mod.HEX_DUMP_LINE_FORMATS,
                            dump_mod.DIVIDER_LINE])


def fmt_section_case(fn, data, path):
    lines = ['sentinel']
    try:
        res = ser(fn(memoryview(data), lines, path))
    except Exception as ex:
        res = ['EXC', type(ex).__name__, norm(str(ex))]
    return [res, lines]


for hi, path in enumerate(HEADER_FILES):
    for di, data in enumerate(ILOG_DATA[:9]):
        case('dump/fmt_ilog/%d/%d' % (hi, di),
             lambda: fmt_section_case(dump_mod._format_ilog_data, data, path))
for si, path in enumerate(STRING_FILES):
    for bi, data in enumerate(BUFFERS[:16]):
        case('dump/fmt_trace/%d/%d' % (si, bi),
             lambda: fmt_section_case(dump_mod._format_trace_data, data,
                                      path))

V2 = dict(ver=2)
T1 = mk_buffer(b'FANS', GOOD[:6], **V2)
T2 = mk_buffer(b'POWR', GOOD[6:9], **V2)
T3 = mk_buffer(b'ERRL', [], **V2)
T4 = mk_buffer(b'IICS', GOOD[9:20], **V2)
T5 = mk_buffer(b'IICM', GOOD[:2], **V2)
T6 = mk_buffer(b'INFO', GOOD[3:5], **V2)
IL = BLOBS['ilog']
DUMPS = [
    b'', b'\x00', IL, T1, IL + T1, IL + T1 + T2, IL + T2 + T1 + T3,
    IL + T1 + T2 + T3 + T4 + T5 + T6, T3 + T3, IL + T1 + T1 + T2,
    IL[:13] + T4, IL + T1[:20], IL + T1[:40] + T2, IL + T1 + rand_bytes(33),
    IL + mk_buffer(b'FANS', GOOD[:3], ver=1) + T2,
    IL + mk_buffer(b'XXXX', GOOD[:3], ver=2) + T6,
    IL + b'\x02\x20\x01\x42' + T5, b'\x02\x20\x01\x42FANS',
    b'\x02\x20\x01\x42FAN', rand_bytes(200), rand_bytes(2000),
    rand_bytes(50) + T6 + rand_bytes(50) + T5 + rand_bytes(7),
]
for hi, hpath in enumerate(HEADER_FILES[:3] + HEADER_FILES[-1:]):
    for si, spath in enumerate(STRING_FILES[:3] + STRING_FILES[-1:]):
        for di, data in enumerate(DUMPS):
            if (hi or si) and di % 4:
                continue
            case('dump/data/%d/%d/%d' % (hi, si, di),
                 lambda: dump_mod.parse_dump_data(memoryview(data), hpath,
                                                  spath))
case('dump/data/bytearray',
     lambda: dump_mod.parse_dump_data(memoryview(bytearray(DUMPS[7])), MEX_H,
                                      MEX_S))

for di, dpath in enumerate(DUMP_FILES):
    case('dump/file/%d' % di,
         lambda: dump_mod.parse_dump_file(dpath, MEX_H, MEX_S))
    case('dump/file/nim/%d' % di,
         lambda: dump_mod.parse_dump_file(dpath, NIM_H, NIM_S))
    case('dump/file/missing/%d' % di,
         lambda: dump_mod.parse_dump_file(dpath, HEADER_FILES[-1],
                                          STRING_FILES[-1]))
    case('dump/file/custom/%d' % di,
         lambda: dump_mod.parse_dump_file(dpath, MANIFEST['headers'][0],
                                          MANIFEST['strings'][0]))

ARGVS = [
    [], ['-h'], ['d.txt'], ['d.txt', '-t', 'mex'], ['d.txt', '-t', 'nimitz'],
    ['d.txt', '-t', 'foo'], ['-t', 'mex'], ['d.txt', '--drawer-type', 'mex',
                                             '-d', 'h.h'],
    ['d.txt', '-t', 'mex', '-s', 's.s'],
    ['d.txt', '-t', 'nimitz', '--header-file', 'h.h', '--string-file', 's.s'],
    ['d.txt', '-t', 'mex', '-d', '', '-s', ''],
    ['d.txt', 'e.txt', '-t', 'mex'], ['-t', 'mex', '-x', 'd.txt'],
    ['-tmex', '-dh', '-ss', '--', '-d.txt'],
]


def with_argv(argv, fn):
    old = sys.argv
    sys.argv = ['dump.py'] + argv
    try:
        return fn()
    finally:
        sys.argv = old


for i, argv in enumerate(ARGVS):
    case('dump/args/%d' % i, lambda: with_argv(argv, dump_mod.parse_args))
for di, dpath in enumerate(DUMP_FILES):
    for extra in ([], ['-d', MANIFEST['headers'][0]],
                  ['-s', MANIFEST['strings'][1], '-d', HEADER_FILES[-1]],
                  ['-s', STRING_FILES[-1]]):
        for t in ('mex', 'nimitz'):
            case('dump/main/%d/%s/%s' % (di, t, len(extra)),
                 lambda: with_argv([dpath, '-t', t] + extra, dump_mod.main))

# --- m2c00 -----------------------------------------------------------------
for v in (-1, 0, 1, 2, 3, None, '1', 1.0, 2.0):
    case('ud/type/%r' % (v,), lambda: ud_mod._get_drawer_type(v))
case('ud/const', lambda: [ud_mod.SUB_TYPE_HLOG, ud_mod.SUB_TYPE_ILOG,
                          ud_mod.SUB_TYPE_TRACE])
UD_DATA = [b'', b'\x00', b'\x00\xde\xad', IL, BLOBS['hlog'], BLOBS['trace'],
           T1, IL + T1, rand_bytes(9), rand_bytes(64), rand_bytes(333)] + \
          BUFFERS[3:13:3]
for fn in ('_parse_hlog', '_parse_ilog', '_parse_trace',
           '_parse_unsupported'):
    for v in (0, 1, 2, 3):
        for di, data in enumerate(UD_DATA):
            case('ud/%s/%d/%d' % (fn, v, di),
                 lambda: getattr(ud_mod, fn)(v, memoryview(data)))
    case('ud/%s/bytes' % fn, lambda: getattr(ud_mod, fn)(1, IL))
    case('ud/%s/none' % fn, lambda: getattr(ud_mod, fn)(1, None))
for st in (72, 73, 84, 0, 1, 71, 74, 255, 'H', 72.0, None):
    for v in (0, 1, 2, 3, 255, None):
        for di, data in enumerate(UD_DATA):
            if v not in (1, 2) and di % 3:
                continue
            case('ud/json/%r/%r/%d' % (st, v, di),
                 lambda: ud_mod.parseUDToJson(st, v, memoryview(data)))
    case('ud/json/%r/bytes' % (st,),
         lambda: ud_mod.parseUDToJson(st, 1, BLOBS['trace']))
    case('ud/json/%r/none' % (st,), lambda: ud_mod.parseUDToJson(st, 1, None))

# --- repeated decodes in one process ---------------------------------------


def repeat_case():
    res = []
    for _ in range(3):
        res.append(ud_mod.parseUDToJson(73, 1, memoryview(IL)))
        res.append(ud_mod.parseUDToJson(84, 2, memoryview(T1)))
        res.append(ud_mod.parseUDToJson(72, 1, memoryview(BLOBS['hlog'])))
        res.append(ud_mod.parseUDToJson(84, 9, memoryview(T1)))
        res.append(dump_mod.parse_dump_data(memoryview(DUMPS[7]), MEX_H,
                                            MEX_S))
    return res


case('repeat', repeat_case)
print(json.dumps({'total_cases': CASES}))
'''


# ---------------------------------------------------------------------------
# Corpus generation (done once, shared by both trees)
# ---------------------------------------------------------------------------

def build_corpus(corpus: str, pristine_root: str) -> dict:
    rng = random.Random(4711)
    io_dir = os.path.join(pristine_root, 'modules', 'io_drawer')

    def write(name, text=None, data=None):
        path = os.path.join(corpus, name)
        if data is None:
            data = text.encode('utf-8')
        with open(path, 'wb') as f:
            f.write(data)
        return path

    headers = []
    headers.append(write('custom1.h', '\n'.join([
        '#define X 1',
        'static struct pte_entry_struct static_pte_entry_table[PTE_TABLE_SIZE] = {',
        '  { "010000**", "Begin power on, node type = 0x%02X", {4}, "states.cpp", 485 },',
        '  { "0101****", "fan presence = 0x%02X, chip = %c", {4, 3}, "states.cpp", 530 },',
        '  { "01040000", "Power on complete", {}, "states.cpp", 601 },',
        '  { "E2082690", "P1 IO Bay VRM in \\"N-Mode\\"", {}, "vrm_monitor.cpp", 145 },',
        '  { "E308****", "Fan %d fault, data %d %d", {3, 4}, "fan.cpp", 77 },',
        '  { "E3******", "Generic E3 %02X%02X%02X%02X", { 1,2 , 3,4 }, "fan.cpp", 78 },',
        '  { "0200****", "range %d", {0, 9, 12, 3}, "a.cpp", 0009 },',
        '  // comment line',
        '  { "BAD" }',
        '  { "15A4****", "no trailing comma", {}, "a.cpp", 1 }',
        '  { "15A4****", "with trailing comma", {}, "", 1 },   ',
        '  { ""        , "The End" }',
        '};',
        '  { "FFFFFFFF", "outside of table", {}, "a.cpp", 1 },',
        'struct mex_hlog_field mex_hlog_fields[MEX_HLOG_FIELD_COUNT] =',
        '{',
        '  { 1, "hl_one" },',
        '  { 2, "hl_two" }, ',
        '  { 3, "hl_bad_size" },',
        '  { 1, "" },',
        '  {2,"hl_tight"}',
        '  { 1, "hl_three" }  ,  ',
        '};',
        '  { 1, "hl_outside" },',
        ''])))
    headers.append(write('custom2.h', '\n'.join([
        'struct pte_entry_struct static_pte_entry_table[] = ',
        '{',
        '  { "((", "bad regex", {}, "a.cpp", 1 },',
        '  { "01040000", "never reached", {}, "a.cpp", 2 },',
        '  { "", "The End" }',
        '};',
        'static   struct  mex_hlog_field   mex_hlog_fields[] = {',
        '  { 2, "a" },',
        '  { 2, "b" },',
        '  { 1, "c" },',
        '}; // not an end line',
        '  { 1, "d" },',
        '  };  ',
        '  { 1, "e" },',
        ''])))
    headers.append(write('custom3.h', '\n'.join([
        'static struct pte_entry_struct static_pte_entry_table[N] = {',
        '  { "********", "catch all %c%c%c%c", {1,2,3,4}, "a.cpp", 1 },',
        'struct pte_entry_struct static_pte_entry_table[N] =',
        '  { "E*******", "second table", {}, "a.cpp", 2 },',
        '  { "" , "The End" } trailing',
        '  { "00000000", "after end", {}, "a.cpp", 3 },',
        'struct mex_hlog_field mex_hlog_fields[2] = {',
        '  { 2, "only" },'])))        # no newline at the end, no end marker
    headers.append(write('empty.h', ''))
    headers.append(write('binary.h', data=b'struct pte_entry_struct '
                         b'static_pte_entry_table[] = {\n  { "01040000", "x", '
                         b'{}, "a", 1 },\n\xff\xfe\xfd\n' + bytes(range(256))))
    headers.append(write('hugeline.h', '\n'.join([
        'struct pte_entry_struct static_pte_entry_table[] = {',
        '  { "01040000", "ok", {}, "a.cpp", 1 },',
        '  { "0105****", "huge line number", {}, "a.cpp", ' + '9' * 5000 + ' },',
        '  { "0106****", "after", {}, "a.cpp", 1 },',
        ''])))

    strings = []
    strings.append(write('custom1.str', '\n'.join([
        '#FSP_TRACE_v2|||Thu Sep 24 12:55:43 2020|||BUILD:Release',
        '32403714||E> ADT7470: Controller 0x%X: Failure count = %d||adt7470_fan_ctl.cpp(324)',
        '  38405017  || E> I2C read failed: Address 0x%X, rc %d || adt7470_fan_ctl.cpp(384)  ',
        '32503714||E> duplicate low digits %d||other.cpp(325)',
        '32403714||E> duplicate exact||dup.cpp(324)',
        'abc||def',
        '  ',
        '48602109||I> BMP180: Sensor 0x%X: UP = %d||bmp180_sensor.cpp(486)',
        '99||a||b||c||d',
        '100||||',
        '101||100% %d||x'])))
    strings.append(write('custom2.str', '\n'.join(
        ['%d||msg %d %%u||f.cpp(%d)' % (i * 100000 + 2736, i, i)
         for i in range(1, 40)] + ['']))
    )
    strings.append(write('empty.str', ''))
    strings.append(write('binary.str', data=b'1||ok||here\n\xff\xfe||x||y\n'))
    strings.append(write('hugehash.str', '1||ok||here\n' + '7' * 5000 +
                         '||huge||there\n2||after||x\n'))

    # real hashes from the shipped string file
    hashes = []
    spec_counts = {}
    with open(os.path.join(io_dir, 'mexStringFile')) as f:
        for line in f:
            parts = line.split('||')
            head = parts[0].strip()
            if head.isdigit() and len(parts) == 3:
                hashes.append(int(head))
                spec_counts[int(head)] = \
                    parts[1].replace('%%', '').count('%')
    hashes = hashes[::3][:200]

    FT, FB = 0x4654, 0x4644

    def mk_header(name, size, ver=2):
        return struct.pack('>BBBB12s4sIII', ver, 0x20, 1, 0x42,
                           name.ljust(12), b'\0' * 4, size, 2, 0x40)

    def mk_entry(tbh, tbl, tag, hash_value, line, data=b''):
        body = struct.pack('>HHHHII', tbh, tbl, len(data), tag, hash_value,
                           line) + data + b'\0' * (-len(data) % 4)
        return body + struct.pack('>I', len(body) + 4)

    def mk_trace(name, n):
        body = b''
        for i in range(n):
            h = hashes[(i * 5) % len(hashes)]
            if i % 7 == 3:
                h += 100000          # partial match
            if i % 11 == 5:
                h = rng.getrandbits(32)
            nargs = i % 7
            if i % 3 and h in spec_counts:
                nargs = spec_counts[h]       # matching number of arguments
            data = b''.join(struct.pack('>I', rng.choice(
                (0, 1, 65, 0xD3, 0xFFFFFFFF, rng.getrandbits(16))))
                for _ in range(nargs))
            if i % 5 == 4:
                data += bytes(rng.getrandbits(8) for _ in range(i % 4))
            body += mk_entry((i * 4001) % 65536, i, FB if i % 6 == 2 else FT,
                             h, rng.getrandbits(12), data)
        return mk_header(name, 32 + len(body)) + body

    ilog = b''
    ptes = [0x01040000, 0x010000AB, 0x0101C341, 0xE2082690, 0xE20C2690,
            0x00000000, 0xFFFFFFFF, 0x12345678]
    for i in range(60):
        pte = ptes[i % len(ptes)] if i % 3 else rng.getrandbits(32)
        ts = rng.choice((0, 1, 59, 60, 3599, 3600, 0xFFFE, 0xFFFF,
                         rng.getrandbits(16)))
        ilog += struct.pack('>HHI', ts, i if i % 13 else 0, pte)
    ilog += bytes(16) + b'\x01\x02\x03'
    hlog = bytes(rng.choice((0, 0, 0, 1, 0xFF, rng.getrandbits(8)))
                 for _ in range(260))
    trace = mk_trace(b'FANS', 40)

    full_dump = ilog[:480] + mk_trace(b'IICS', 12) + mk_trace(b'POWR', 5) + \
        mk_trace(b'ERRL', 0) + mk_trace(b'INFO', 9)

    def hex_bmc(data, start=0):
        lines = []
        for i in range(0, len(data), 16):
            chunk = data[i:i + 16]
            words = ' '.join(chunk[j:j + 4].hex().upper()
                             for j in range(0, len(chunk), 4))
            text = ''.join(chr(b) if 0x20 <= b < 0x7f else '.' for b in chunk)
            lines.append('%04X:  %s  <%s>' % ((start + i) & 0xFFFF, words,
                                             text))
        return lines

    def hex_old(data):
        lines = []
        for i in range(0, len(data), 16):
            chunk = data[i:i + 16]
            text = ''.join(chr(b) if 0x20 <= b < 0x7f else '.' for b in chunk)
            lines.append(' '.join('%02x' % b for b in chunk) + ' ' + text)
        return lines

    dumps = []
    dumps.append(write('bmc.dump', '\n'.join(
        ['IO drawer dump', ''] + hex_bmc(full_dump) + ['', 'end']) + '\n'))
    dumps.append(write('old.dump', '\n'.join(hex_old(full_dump)) + '\n'))
    dumps.append(write('bmc_ilog_only.dump',
                       '\n'.join(hex_bmc(ilog)) + '\n'))
    dumps.append(write('old_short.dump', '\n'.join(hex_old(full_dump[:777]))))
    dumps.append(write('mixed.dump', '\n'.join(
        hex_old(ilog[:64]) + hex_bmc(trace)) + '\n'))
    dumps.append(write('empty.dump', ''))
    dumps.append(write('garbage.dump', 'hello\nworld\n\n0000: zz\n'))
    dumps.append(write('binary.dump', data=b'\xff\xfe\x00\x01garbage\n'))
    dumps.append(write('truncated.dump', '\n'.join(
        hex_bmc(full_dump)[:25] + [hex_bmc(full_dump)[25][:30]])))
    corrupted = bytearray(full_dump)
    for _ in range(25):
        corrupted[rng.randrange(len(corrupted))] = rng.getrandbits(8)
    dumps.append(write('corrupted.dump',
                       '\n'.join(hex_bmc(bytes(corrupted))) + '\n'))
    dumps.append(write('random.dump', '\n'.join(hex_bmc(bytes(
        rng.getrandbits(8) for _ in range(1500)))) + '\n'))

    manifest = {'headers': headers, 'strings': strings, 'dumps': dumps,
                'hashes': hashes,
                'blobs': {'ilog': ilog.hex(), 'hlog': hlog.hex(),
                          'trace': trace.hex()}}
    with open(os.path.join(corpus, 'manifest.json'), 'w') as f:
        json.dump(manifest, f)

    # --- binary PELs with I/O drawer user data sections -------------------
    def section(sid, ver, sub_type, comp, payload):
        return sid + struct.pack('>HBBH', 8 + len(payload), ver, sub_type,
                                 comp) + payload

    def mk_pel(ud_sections, creator=b'M'):
        ts = bytes.fromhex('2024060712304500')
        ph = section(b'PH', 1, 0, 0x2C00,
                     ts + ts + creator + b'\0\0' +
                     bytes([2 + len(ud_sections)]) +
                     struct.pack('>IQII', 7, 0x3132333400000000, 0x50000001,
                                 0x50000001))
        uh = section(b'UH', 1, 0, 0x2C00,
                     bytes([0x76, 0x03, 0x40, 0x00]) + bytes(4) +
                     bytes([0, 0]) + struct.pack('>HI', 0x8000, 0))
        return ph + uh + b''.join(ud_sections)

    pels = []
    payloads = [(72, hlog), (73, ilog[:200]), (84, trace), (84, trace[:100]),
                (73, b'\x00\x01\x00\x02\x01\x04\x00\x00'), (99, hlog[:40]),
                (84, bytes(rng.getrandbits(8) for _ in range(77))),
                (72, b'\x00\xde\xad\x00')]
    for ver in (1, 2, 3):
        uds = [section(b'UD', ver, st, 0x2C00, p) for st, p in payloads]
        pels.append(write('m_v%d.pel' % ver, data=mk_pel(uds)))
    pels.append(write('m_single.pel', data=mk_pel(
        [section(b'UD', 1, 84, 0x2C00, full_dump[480:])])))
    pels.append(write('m_trunc.pel', data=mk_pel(
        [section(b'UD', 2, 84, 0x2C00, trace),
         section(b'UD', 2, 73, 0x2C00, ilog)])[:-50]))
    pels.append(write('o_creator.pel', data=mk_pel(
        [section(b'UD', 1, 73, 0x2C00, ilog[:64])], creator=b'O')))
    manifest['pels'] = pels
    return manifest


# ---------------------------------------------------------------------------
# Running both trees
# ---------------------------------------------------------------------------

def run(root, argv, cwd, optimize=False, stdin=None):
    env = dict(os.environ)
    env['PYTHONPATH'] = os.path.join(root, 'modules')
    env['PYTHONHASHSEED'] = '0'
    env['PYTHONDONTWRITEBYTECODE'] = '1'
    env['COLUMNS'] = '80'
    cmd = [PY] + (['-O'] if optimize else []) + argv
    p = subprocess.run(cmd, cwd=cwd, env=env, capture_output=True,
                       timeout=1200, input=stdin)
    return p


def normalise(text: bytes, root: str) -> str:
    return text.decode('utf-8', 'replace').replace(root, '<ROOT>')


def collect(root, corpus, manifest, driver_path):
    """Returns an ordered list of (case name, record) for the tree."""
    records = []

    # 1. in-process driver, normal and -O
    for optimize in (False, True):
        p = run(root, [driver_path, root, corpus], corpus, optimize)
        tag = 'driver-O' if optimize else 'driver'
        out = normalise(p.stdout, root)
        records.append((tag + '/rc+stderr',
                        [p.returncode, normalise(p.stderr, root)]))
        for n, line in enumerate(out.splitlines()):
            try:
                name = json.loads(line).get('case', 'line%d' % n)
            except ValueError:
                name = 'line%d' % n
            records.append(('%s/%d/%s' % (tag, n, name), line))

    # 2. dump.py command line
    dump_py = os.path.join(root, 'modules', 'io_drawer', 'dump.py')
    cli = []
    for d in manifest['dumps'] + ['missing.dump']:
        cli.append([d, '-t', 'mex'])
        cli.append([d, '-t', 'nimitz'])
        cli.append([d, '-t', 'mex', '-d', manifest['headers'][0], '-s',
                    manifest['strings'][0]])
        cli.append([d, '-t', 'nimitz', '-d', manifest['headers'][1]])
        cli.append([d, '-t', 'mex', '-s', 'nope.str'])
        cli.append([d, '-t', 'mex', '-d', 'nope.h'])
    cli += [[], ['-h'], ['x'], ['x', '-t', 'bad'], ['-t', 'mex'],
            ['a', 'b', '-t', 'mex']]
    for i, argv in enumerate(cli):
        for optimize in (False, True) if i % 6 == 0 else (False,):
            p = run(root, [dump_py] + argv, corpus, optimize)
            records.append(('cli-dump/%d/%s%s' % (i, ' '.join(
                os.path.basename(a) for a in argv), '/-O' if optimize else ''),
                [p.returncode, normalise(p.stdout, root),
                 normalise(p.stderr, root)]))

    # 3. peltool command line
    peltool = os.path.join(root, 'modules', 'pel', 'peltool', 'peltool.py')
    for pel in manifest['pels']:
        for extra in ([], ['-x'], ['-P']):
            for optimize in (False, True):
                p = run(root, [peltool, '-E', '-f', pel] + extra, corpus, optimize)
                records.append(('cli-peltool/%s/%s%s' % (
                    os.path.basename(pel), ' '.join(extra),
                    '/-O' if optimize else ''),
                    [p.returncode, normalise(p.stdout, root),
                     normalise(p.stderr, root)]))
    return records


def main():
    if len(sys.argv) != 3:
        print(__doc__)
        sys.exit(2)
    pristine = os.path.abspath(sys.argv[1])
    patched = os.path.abspath(sys.argv[2])

    work = tempfile.mkdtemp(prefix='diffcheck_R43_')
    try:
        corpus = os.path.join(work, 'corpus')
        os.mkdir(corpus)
        manifest = build_corpus(corpus, pristine)
        driver_path = os.path.join(work, 'driver.py')
        with open(driver_path, 'w') as f:
            f.write(DRIVER)

        before = sorted(os.listdir(corpus))
        a = collect(pristine, corpus, manifest, driver_path)
        mid = sorted(os.listdir(corpus))
        b = collect(patched, corpus, manifest, driver_path)
        after = sorted(os.listdir(corpus))

        failures = []
        if before != mid or mid != after:
            failures.append('files created/removed in corpus directory')
        if [n for n, _ in a] != [n for n, _ in b]:
            failures.append('case lists differ (%d vs %d)' % (len(a), len(b)))
        for (na, ra), (nb, rb) in zip(a, b):
            if na != nb or ra != rb:
                failures.append('DIFF in %s:\n  pristine: %.600s\n  patched : '
                                '%.600s' % (na, ra, rb))

        # sanity: the driver itself must have run to completion in both trees
        for recs, which in ((a, 'pristine'), (b, 'patched')):
            totals = [r for n, r in recs if isinstance(r, str)
                      and r.startswith('{"total_cases"')]
            if len(totals) != 2:
                failures.append('driver did not complete in %s tree' % which)
            for n, r in recs:
                if n.endswith('rc+stderr') and r[0] != 0:
                    failures.append('driver failed in %s tree: %s'
                                    % (which, r[1][-2000:]))

        if failures:
            for f in failures[:40]:
                print(f)
            print('DIFFERENT (%d of %d cases differ)' % (len(failures),
                                                         len(a)))
            sys.exit(1)
        print('IDENTICAL (%d cases)' % len(a))
        sys.exit(0)
    finally:
        shutil.rmtree(work, ignore_errors=True)


if __name__ == '__main__':
    main()
