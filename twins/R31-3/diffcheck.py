#!/usr/bin/env python3
"""
Differential check for refactorings of modules/pel/peltool/peltool.py.

usage: diffcheck.py <pristine_root> <patched_root>

Builds a directory of binary PELs (well-formed, odd, truncated, corrupted,
random), then
  * runs the peltool CLI of both trees on it with many option combinations
    (fresh copy of the data for every run; stdout, stderr, exit status and the
    resulting file tree are compared), partly also under `python -O`;
  * runs a driver script in one process per tree which calls the functions of
    peltool.py directly (prettyPrint, buildOutput, considerPEL, sectionFun,
    parsePEL, parsePELSummary, getFileList, processId, delete helpers, ...)
    on many inputs, records results / exceptions, and compares the records.
Prints "IDENTICAL (<n> cases)" and exits 0 when everything is the same.
"""
import hashlib
import os
import random
import shutil
import struct
import subprocess
import sys

HERE = os.path.dirname(os.path.abspath(__file__))
WORK = os.path.join(HERE, "work")
TEMPLATE = os.path.join(WORK, "template")
DATA = os.path.join(WORK, "data")
OUTDIR = os.path.join(WORK, "out")
PY = sys.executable

T1 = bytes.fromhex("2024031218402755")
T2 = bytes.fromhex("2024031218402801")


# --------------------------------------------------------------------------
# PEL builders
# --------------------------------------------------------------------------
def hdr(sid, length, ver=1, sub=0, comp=0x2000):
    if isinstance(sid, str):
        sid = sid.encode("latin-1")
    return sid + struct.pack(">HBBH", length & 0xFFFF, ver & 0xFF, sub & 0xFF,
                             comp & 0xFFFF)


def PH(creator=b"O", count=2, obmc=1, plid=0x50000001, eid=0x50000001,
       comp=0x2000, sid="PH", ver=1, cver=0x0102030405060708):
    body = T1 + T2 + creator + b"\0\0" + bytes([count & 0xFF]) + \
        struct.pack(">IQII", obmc, cver, plid, eid)
    return hdr(sid, 48, ver, 0, comp) + body


def UH(sev=0x40, flags=0xA000, subsys=0x10, scope=0x03, etype=0, states=0,
       sid="UH", comp=0x2000):
    body = bytes([subsys, scope, sev, etype]) + b"\0" * 4 + bytes([0, 0]) + \
        struct.pack(">HI", flags, states)
    return hdr(sid, 24, 1, 0, comp) + body


def fru(flags, pn=b"BMC0001\0", ccin=b"ABCD", sn=b"123456789012"):
    b = b""
    if flags & 0x0A:
        b += pn
    if flags & 0x04:
        b += ccin
    if flags & 0x01:
        b += sn
    return b"ID" + bytes([4 + len(b), flags]) + b


def pce(name=b"pcename\0"):
    return b"PE" + bytes([24 + len(name), 0]) + b"9105-22A" + \
        b"SN1234567890" + name


def mru(ids=(0x11, 0x22)):
    b = b"".join(struct.pack(">II", 0x48, i) for i in ids)
    return b"MR" + bytes([8 + len(b), len(ids)]) + b"\0" * 4 + b


def callout(loc=b"U78DA.ND1.1234567-P0\0\0\0\0", prio=0x48, subs=()):
    body = b"".join(subs)
    return bytes([4 + len(loc) + len(body), 0, prio, len(loc)]) + loc + body


def callouts(cs):
    body = b"".join(cs)
    return bytes([0xC0, 0]) + struct.pack(">H", (4 + len(body)) // 4) + body


def SRC(ascii="BD8D1001", flags=0, wordcount=9, words=None, co=b"", sid="PS",
        comp=0x2000, ver=1, sub=1):
    words = words or [0x02000055, 0x2C220010, 0, 0x03000000, 5, 6, 7, 8]
    a = ascii.encode("latin-1") if isinstance(ascii, str) else ascii
    a = a.ljust(32, b" ")
    body = bytes([2, flags, 0, wordcount & 0xFF]) + \
        struct.pack(">HH", 0, (72 + len(co)) & 0xFFFF) + \
        b"".join(struct.pack(">I", w) for w in words) + a + co
    return hdr(sid, 8 + len(body), ver, sub, comp) + body


def EH(sym=b"BD8D1001_2C220010\0\0\0", comp=0x2000):
    body = b"9105-22A" + b"SN1234567890" + b"fw1030.00-1".ljust(16, b"\0") + \
        b"sub-1.2".ljust(16, b"\0") + b"\0" * 4 + T1 + b"\0\0\0" + \
        bytes([len(sym)]) + sym
    return hdr("EH", 8 + len(body), 1, 0, comp) + body


def MT(comp=0x2000):
    return hdr("MT", 28, 1, 0, comp) + b"9105-22A" + b"SN1234567890"


def UD(data, ver=1, sub=1, comp=0x2000, sid="UD", length=None):
    ln = 8 + len(data) if length is None else length
    return hdr(sid, ln, ver, sub, comp) + data


def ED(data, creator=b"O", ver=1, sub=1, comp=0x2000, length=None):
    ln = 12 + len(data) if length is None else length
    return hdr("ED", ln, ver, sub, comp) + creator + b"\0\0\0" + data


def LP(name=b"lpar-one\0\0\0\0", lps=(1, 2, 3), part=7, logid=0x1234):
    body = struct.pack(">HBBI", part, len(name), len(lps), logid) + name + \
        b"".join(struct.pack(">H", x) for x in lps)
    if len(lps) % 2:
        body += b"\0\0"
    return hdr("LP", 8 + len(body), 1, 0, 0x2000) + body


def pel(sections=(), creator=b"O", count=None, ph=None, uh=None, **kw):
    uhkw = {k: kw.pop(k) for k in ("sev", "flags", "subsys", "scope", "etype",
                                   "states") if k in kw}
    n = len(sections) + 2 if count is None else count
    p = PH(creator=creator, count=n, **kw) if ph is None else ph
    u = UH(**uhkw) if uh is None else uh
    return p + u + b"".join(sections)


def jsonud(obj_text, **kw):
    d = obj_text.encode("utf-8")
    d += b"\0" * (-len(d) % 4)
    return UD(d, sub=1, **kw)


TRICKY_JSON = r'''{"plain": 1, "with \" quote": "v", "back\\slash": [1, 2,
 {"in\"ner": "x"}], "colon: inside": "a\": b", "brace{key": "val",
 "val brace": "{", "nested": {"k": {"deep": [], "e": {}}}, "unié": "☃",
 "a very long key that is longer than thirty four characters for sure": true,
 "": null, "tab\tkey": "line\nbreak", "arr": ["\"x\":", "y"]}'''


def build_pels():
    """Return list of (file name, bytes)."""
    co_full = callouts([
        callout(subs=[fru(0x10 | 0x08 | 0x04 | 0x01)]),
        callout(loc=b"", prio=0x4D, subs=[fru(0x30 | 0x02, pn=b"BMC0002\0")]),
        callout(loc=b"Ufcs-P1\0", prio=0x41,
                subs=[fru(0x20 | 0x02, pn=b"NOPROC1\0"), pce(), mru()]),
        callout(loc=b"UX\0\0", prio=0x99, subs=[]),
    ])
    full = [
        SRC(flags=0x01, co=co_full),
        EH(), MT(),
        jsonud('{"Key One": "v1", "Num": 5}'),
        jsonud(TRICKY_JSON),
        UD(b"line one\nline \x01two\n\x00\x00", sub=3),
        UD(b"\x01\x02\x03\x04" * 5, sub=2),
        UD(b"\xde\xad\xbe\xef" * 3, sub=9),
        UD(b"\0\0\0\x01" + b"\x11" * 12, sub=1, comp=0xE500),
        ED(b'{"ext": [1, 2, 3]}\0\0', creator=b"O"),
        ED(b"\x01\x02\x03\x04", creator=b"B", comp=0x0100),
        LP(), LP(name=b"", lps=()),
        SRC(ascii="BD8D2002", sid="SS"),
        SRC(ascii="BC8A1234", sid="SS", flags=0x90),
        UD(b"abcd", sid="DH"), UD(b"efgh", sid="SW"), UD(b"ijkl", sid="ZZ"),
        UD(b"mnop", sid="QQ"), UD(b"qrst", sid="PH"), UD(b"uvwx", sid="EI"),
    ]
    pels = []

    def add(name, data):
        pels.append((name, data))

    add("2024031218402755_50000001", pel(full, eid=0x50000001,
                                         plid=0x50000001, obmc=1))
    add("2024031218402755_50000002.pel",
        pel([SRC()], eid=0x50000002, plid=0x50000001, obmc=2))
    # severities / action flags: serviceable, hidden, informational, ...
    n = 0x50000010
    for sev in (0x00, 0x10, 0x20, 0x40, 0x51, 0x50, 0x71):
        for flags in (0x0000, 0x2000, 0x6000, 0x8000, 0xC000):
            n += 1
            ext = (".pel", ".txt", "")[n % 3]
            add("2024031218402755_%08X%s" % (n, ext),
                pel([SRC(ascii="BD%02X%04X" % (sev, flags)), MT()], sev=sev,
                    flags=flags, eid=n, plid=n - (n % 2), obmc=n & 0xFF))
    # creators
    for i, cr in enumerate((b"B", b"H", b"Z", b"\xff", b"M", b"T")):
        add("creator_%d_5000010%d.pel" % (i, i),
            pel([SRC(ascii="11001234", comp=0x4849), UD(b"wxyz", comp=0x4849),
                 UD(b"\0\0\0\0", comp=0x2C00, sub=1), EH(), MT()],
                creator=cr, eid=0x50000100 + i, plid=0x50000100,
                obmc=0x100 + i, comp=0x4800 if i % 2 else 0x4849))
    # no primary SRC, SRC not first, SRC w/o flags
    add("nosrc_50000200", pel([MT(), EH()], eid=0x50000200, obmc=0x200))
    add("latesrc_50000201", pel([MT(), SRC(ascii="BD123456")], eid=0x50000201,
                                obmc=0x201))
    add("ssfirst_50000202.pel",
        pel([SRC(sid="SS", ascii="BDAAAAAA"), SRC(ascii="BDBBBBBB")],
            eid=0x50000202, obmc=0x202))
    add("wc_50000203", pel([SRC(wordcount=3), SRC(wordcount=1, sid="SS")],
                           eid=0x50000203, obmc=0x203))
    add("wcbig_50000204", pel([SRC(wordcount=12)], eid=0x50000204,
                              obmc=0x204))
    add("asciibad_50000205", pel([SRC(ascii=b"\xff\xfeBAD")], eid=0x50000205))
    # section counts
    add("count0_50000300", pel([SRC()], count=0, eid=0x50000300))
    add("count2_50000301", pel([SRC()], count=2, eid=0x50000301))
    add("countbig_50000302.pel", pel([SRC()], count=9, eid=0x50000302))
    add("countbig2_50000303", pel([MT(), MT()], count=200, eid=0x50000303))
    # bad headers
    add("badph_50000400", pel([SRC()], ph=PH(sid="XX", eid=0x50000400)))
    add("baduh_50000401", pel([SRC()], uh=UH(sid="UX"), eid=0x50000401))
    add("phonly_50000402", PH(eid=0x50000402))
    add("empty_50000403", b"")
    add("short_50000404", b"PH\x00\x30")
    # section length problems
    add("len0_50000500", pel([UD(b"abcd", length=0)], eid=0x50000500))
    add("len8_50000501", pel([UD(b"", length=8), MT()], eid=0x50000501))
    add("len4_50000502", pel([UD(b"abcd", length=4, sid="ZZ")],
                             eid=0x50000502))
    add("lenbig_50000503", pel([UD(b"abcd", length=400)], eid=0x50000503))
    add("edlen_50000504", pel([ED(b"", length=10)], eid=0x50000504))
    add("edlen12_50000505", pel([ED(b"", length=12), MT()], eid=0x50000505))
    add("badjson_50000506", pel([jsonud('{"a": '), jsonud("[1, 2]"),
                                 jsonud('"str"'), jsonud("null"),
                                 UD(b"\xff\xfe\xfd\xfc", sub=1)],
                                eid=0x50000506))
    add("cobad_50000507", pel([SRC(flags=1, co=b"\xC0\x00\x00\x09" +
                                   callout(subs=[b"XY\x08\x00abcd"]))],
                              eid=0x50000507))
    add("cobad2_50000508", pel([SRC(flags=1, co=b"\xC0\x00\x00\x03" +
                                    b"\x08\x00\x48\x10")], eid=0x50000508))
    add("pcesmall_50000509",
        pel([SRC(flags=1, co=callouts([callout(
            subs=[b"PE\x10\x00" + b"A" * 20])]))], eid=0x50000509))
    add("dupnames_5000050A",
        pel([SRC(), UD(b"aaaa", sub=9), UD(b"bbbb", sub=9), UD(b"c" * 4, sid="Z1"),
             UD(b"d" * 4, sid="Z2"), MT(), MT(), UD(b"e" * 4, sid="UH")],
            eid=0x5000050A))
    add("trailing_5000050B", pel([SRC()], eid=0x5000050B) + b"garbage!" * 3)
    add("eid_lower_5000abcd.pel", pel([SRC(ascii="BDCAFE00")], eid=0x5000ABCD,
                                      plid=0x5000ABCD, obmc=43981))
    add("noeidinname.pel", pel([SRC(ascii="BD700001")], eid=0x50000777,
                               plid=0x50000777, obmc=777))

    rnd = random.Random(20240312)
    base = pels[0][1]
    small = pels[1][1]
    for i in range(14):
        cut = rnd.randrange(1, len(base))
        add("trunc_%02d_5000060%X" % (i, i), base[:cut])
    for i in range(8):
        cut = rnd.randrange(1, len(small))
        add("truncs_%02d.pel" % i, small[:cut])
    for i in range(16):
        b = bytearray(base if i % 2 else small)
        for _ in range(rnd.randrange(1, 6)):
            b[rnd.randrange(len(b))] = rnd.randrange(256)
        add("flip_%02d%s" % (i, ".pel" if i % 3 else ""), bytes(b))
    for i in range(6):
        # corrupt only behind the two headers so that more gets decoded
        b = bytearray(base)
        for _ in range(3):
            b[rnd.randrange(72, len(b))] = rnd.randrange(256)
        add("flipbody_%02d" % i, bytes(b))
    for i in range(6):
        add("random_%02d.bin" % i, bytes(rnd.randrange(256)
                                         for _ in range(rnd.randrange(1, 300))))
    for i in range(3):
        add("randhdr_%02d" % i, PH(eid=0x50000700 + i, count=5) + UH() +
            bytes(rnd.randrange(256) for _ in range(120)))
    return pels


def make_template(pels):
    shutil.rmtree(WORK, ignore_errors=True)
    os.makedirs(TEMPLATE)
    for name, data in pels:
        with open(os.path.join(TEMPLATE, name), "wb") as f:
            f.write(data)
    # a sub directory must be ignored by everything
    os.makedirs(os.path.join(TEMPLATE, "archive"))
    with open(os.path.join(TEMPLATE, "archive", "old_50000001.pel"), "wb") as f:
        f.write(pels[1][1])
    small = os.path.join(WORK, "template_small")
    os.makedirs(small)
    for name, data in pels[:4]:
        with open(os.path.join(small, name), "wb") as f:
            f.write(data)
    os.symlink("/nonexistent/target", os.path.join(small, "zz_broken_50000009"))
    os.makedirs(os.path.join(small, "subdir_50000001"))
    os.makedirs(os.path.join(WORK, "template_empty"))
    with open(os.path.join(WORK, "exclude.txt"), "w") as f:
        f.write("BD8D1001\nBD402000 BDCAFE00\n")
    with open(os.path.join(WORK, "exclude_empty.txt"), "w") as f:
        f.write("")


def fresh(template):
    for d in (DATA, OUTDIR):
        if os.path.islink(d):
            os.unlink(d)
        shutil.rmtree(d, ignore_errors=True)
    if template is not None:
        shutil.copytree(os.path.join(WORK, template), DATA, symlinks=True)
    os.makedirs(OUTDIR)


def snapshot():
    out = []
    for top in (DATA, OUTDIR):
        if not os.path.isdir(top):
            out.append("%s: absent" % os.path.basename(top))
            continue
        for root, dirs, files in os.walk(top):
            dirs.sort()
            for d in dirs:
                out.append("D " + os.path.relpath(os.path.join(root, d), WORK))
            for f in sorted(files):
                p = os.path.join(root, f)
                rel = os.path.relpath(p, WORK)
                if os.path.islink(p):
                    out.append("L %s -> %s" % (rel, os.readlink(p)))
                else:
                    with open(p, "rb") as fd:
                        out.append("F %s %s" % (
                            rel, hashlib.sha1(fd.read()).hexdigest()))
    return "\n".join(out)


def norm_err(text, root):
    text = text.replace(root, "<ROOT>")
    if "Traceback (most recent call last):" in text:
        text = "\n".join(l for l in text.split("\n")
                         if not l.startswith("  "))
    return text


def run_cli(root, args, template="template", opt=False, stdin=None):
    fresh(template)
    env = dict(os.environ)
    env["PYTHONPATH"] = os.path.join(root, "modules")
    env["PYTHONDONTWRITEBYTECODE"] = "1"
    env["PYTHONHASHSEED"] = "0"
    env["COLUMNS"] = "80"
    cmd = [PY] + (["-O"] if opt else []) + \
        [os.path.join(root, "modules", "pel", "peltool", "peltool.py")] + args
    p = subprocess.run(cmd, cwd=WORK, env=env, stdout=subprocess.PIPE,
                       stderr=subprocess.PIPE, stdin=subprocess.DEVNULL,
                       timeout=300)
    return "rc=%d\n--stdout--\n%s\n--stderr--\n%s\n--tree--\n%s" % (
        p.returncode, p.stdout.decode("utf-8", "backslashreplace"),
        norm_err(p.stderr.decode("utf-8", "backslashreplace"), root),
        snapshot())


def cli_cases(pels):
    P = ["-p", DATA]
    cases = []

    def c(args, template="template", opt=False):
        cases.append((args, template, opt))

    c(["--help"])
    c(["-h"], opt=True)
    c([])
    c(P)
    c(["-l"])
    c(["-p", os.path.join(DATA, "nonexistent"), "-l"])
    c(["-p", os.path.join(DATA, pels[0][0]), "-l"])
    c(["-S", "Bogus", "-l"] + P)
    c(["-l", "--bogus"] + P)
    filters = [[], ["-E"], ["-s"], ["-N"], ["-H"], ["-t"], ["-O"],
               ["-H", "-O"], ["-s", "-O"], ["-N", "-O"], ["-t", "-O"],
               ["-S", "Informational"], ["-S", "Unrecoverable", "Critical"],
               ["-O", "-S", "Predictive"], ["-O", "-S", "Recovered", "-H"],
               ["-s", "-S", "Informational", "-O"],
               ["-N", "-S", "Diagnostic", "Symptom", "-O"],
               ["-s", "-N", "-H"], ["-E", "-O"], ["-t", "-S", "Critical"],
               ["-P"], ["-x"], ["-r"], ["-e", ".pel"], ["-e", ".txt", "-r"],
               ["-e", "pel"], ["-e", ""], ["-x", "-r", "-E"],
               ["-P", "-E", "-r"]]
    for mode in (["-l"], ["-a"], ["-n"]):
        for f in filters:
            c(P + mode + f)
    for mode in (["-l"], ["-a"], ["-n"]):
        c(P + mode + ["-E"], opt=True)
        c(P + mode + ["-E"], template="template_small")
        c(P + mode + ["-E", "-r"], template="template_small")
        c(P + mode, template="template_empty")
        c(P + mode + ["-x"], template="template_empty")
    # mode precedence
    c(P + ["-l", "-a", "-n", "-E"])
    c(P + ["-a", "-n", "-D"])
    c(P + ["-n", "-d", "50000002"])
    c(P + ["-i", "50000002", "--bmc-id", "2", "-l"])
    c(P + ["-j", "-l", "-E"])
    # by id
    for i in ("50000002", "0x50000002", "0X5000ABCD", "5000abcd", "5000ABCD",
              "50000001", "5000000", "500000011", "", "0x", "99999999",
              "5000050A", "50000506", "50000402", "50000403", "50000400",
              "50000401", "50000302", "_5000010", "5000060", "0x500006",
              "50000011", "50000013"):
        c(P + ["-i", i])
    c(P + ["-i", "50000002", "-x"])
    c(P + ["-i", "50000012", "-E"])
    c(P + ["-i", "50000012", "-O", "-H"])
    c(P + ["-i", "50000001", "-P"], opt=True)
    c(P + ["-i", "50000001"], template="template_small")
    c(P + ["-i", "50000009"], template="template_small")
    c(P + ["-i", "50000001"], template="template_empty")
    for i in ("1", "2", "43981", "777", "0", "999999", "abc", "", "257", "18",
              "20"):
        c(P + ["--bmc-id", i])
    c(P + ["--bmc-id", "2", "-x"])
    c(P + ["--bmc-id", "1", "-P", "-r"])
    c(P + ["--bmc-id", "18", "-O", "-S", "Critical"])
    c(P + ["--bmc-id", "4"], template="template_small")
    c(P + ["--bmc-id", "77"], template="template_small")
    c(P + ["--bmc-id", "1"], template="template_empty")
    for i in ("50000001", "0x50000001", "5000abcd", "50000100", "5000001",
              "", "50000012", "FFFFFFFF", "00000000"):
        c(P + ["--plid", i])
    c(P + ["--plid", "50000001", "-x"])
    c(P + ["--plid", "50000001", "-r", "-e", ".pel"])
    c(P + ["--plid", "50000012", "-O", "-H"])
    c(P + ["--plid", "50000001"], template="template_small")
    c(P + ["--plid", "50000001"], template="template_empty")
    for s in ("BD8D1001", "BD", "BD40", "11001234", "CAFE", "ZZZZ", "", " ",
              "B" * 32, "B" * 33, "bd8d1001"):
        c(P + ["--src", s])
    c(P + ["--src", "BD", "-x"])
    c(P + ["--src", "BD", "-E", "-r"])
    c(P + ["--src", "BD40", "-O", "-S", "Unrecoverable"])
    c(P + ["--src", "BD", "--src-exclude", os.path.join(WORK, "exclude.txt")])
    c(P + ["--src", "BD"], template="template_small")
    for x in ("exclude.txt", "exclude_empty.txt", "nonexistent.txt", "data"):
        c(P + ["--src-exclude", os.path.join(WORK, x)])
        c(P + ["--src-exclude", os.path.join(WORK, x), "-E", "-x"])
    c(P + ["--src-exclude", os.path.join(WORK, "exclude.txt"), "-r", "-E"])
    c(P + ["--src-exclude", os.path.join(WORK, "exclude.txt")],
      template="template_small")
    # json output
    c(P + ["-j"])
    c(P + ["-j", "-E"])
    c(P + ["-j", "-E", "-c"])
    c(P + ["-j", "-c"], opt=True)
    c(P + ["-j", "-o", OUTDIR])
    c(P + ["-j", "-o", OUTDIR, "-c", "-E", "-P"])
    c(P + ["-j", "-o", OUTDIR, "-e", ".pel", "-H", "-O"])
    c(P + ["-j", "-o", os.path.join(OUTDIR, "missing")])
    c(P + ["-j", "-o", os.path.join(DATA, pels[0][0])])
    c(P + ["-o", OUTDIR])
    c(P + ["-c"])
    c(P + ["-j", "-E", "-c"], template="template_small")
    c(P + ["-j", "-o", OUTDIR], template="template_small")
    c(P + ["-j"], template="template_empty")
    c(P + ["-j", "-x", "-E"])
    # deletes
    for i in ("50000002", "0x50000001", "5000abcd", "5000ABCD", "5000060",
              "99999999", "1234", "", "50000401", "_5000010"):
        c(P + ["-d", i])
    c(P + ["-d", "50000001"], template="template_small")
    c(P + ["-d", "50000009"], template="template_small")
    c(P + ["-d", "50000001"], template="template_empty")
    c(P + ["-D"])
    c(P + ["-D"], template="template_small")
    c(P + ["-D"], template="template_empty")
    c(P + ["-D", "-e", ".pel"])
    c(P + ["-d", "50000002", "-D"])
    # single files
    for name, _ in pels:
        c(["-f", os.path.join(DATA, name)])
    for name, _ in pels[:12] + pels[40:60:3]:
        f = os.path.join(DATA, name)
        c(["-f", f, "-E"])
        c(["-f", f, "-E", "-c"])
        c(["-f", f, "-x", "-c"])
    for name, _ in pels[:3]:
        f = os.path.join(DATA, name)
        c(["-f", f, "-P", "-E"], opt=True)
        c(["-f", f, "-H", "-O"])
        c(["-f", f, "-l"] + P)
        c(["-f", f, "-j"] + P)
    c(["-f", os.path.join(DATA, "nonexistent")])
    c(["-f", os.path.join(DATA, "nonexistent"), "-c"])
    c(["-f", DATA])
    c(["-f", os.path.join(DATA, "zz_broken_50000009"), "-c"],
      template="template_small")
    return cases


# --------------------------------------------------------------------------
# Function level driver (run once per tree in its own process)
# --------------------------------------------------------------------------
DRIVER = r'''
import contextlib, io, itertools, json, os, random, shutil, sys
from collections import OrderedDict

root, template, scratch = sys.argv[1:4]
import pel
assert os.path.abspath(pel.__file__).startswith(os.path.abspath(root) + os.sep), pel.__file__
from pel.peltool import peltool as pt
from pel.peltool.config import Config
from pel.peltool.user_header import UserHeader
from pel.datastream import DataStream

NREC = [0]
import re as _re
ADDR = _re.compile(r" at 0x[0-9a-fA-F]+")


def rec(name, text):
    NREC[0] += 1
    text = ADDR.sub(" at 0xADDR", text)
    sys.__stdout__.write("### %s\n%s\n" % (name, text))


def call(name, fn, *a, **kw):
    so, se = io.StringIO(), io.StringIO()
    try:
        with contextlib.redirect_stdout(so), contextlib.redirect_stderr(se):
            r = fn(*a, **kw)
        res = "ret %s %r" % (type(r).__name__, r)
        if isinstance(r, tuple):
            for x in r:
                if hasattr(x, "__dict__"):
                    res += "\n  attrs %r" % sorted((k, v) for k, v in vars(x).items() if k != "stream")
    except SystemExit as e:
        res = "SystemExit %r" % (e.code,)
    except BaseException as e:
        res = "exc %s %s" % (type(e).__name__, e)
    rec(name, "%s\n-out-\n%s\n-err-\n%s" % (res, so.getvalue(), se.getvalue()))


# ---- getSectionName / parseHeader --------------------------------------
for sid in list(range(0, 0x10000, 257)) + [0x5048, 0x5548, 0x5053, 0x5353,
                                             0x4548, 0x4D54, 0x5544, 0x4544,
                                             0x4C50, 0x4448, 0x70000, -1]:
    call("getSectionName %r" % sid, pt.getSectionName, sid)
for n in range(0, 12):
    s = DataStream(bytes(range(65, 65 + n)), byte_order='big', is_signed=False)
    call("parseHeader len %d" % n, pt.parseHeader, s)
    rec("parseHeader index %d" % n, str(s.index))

# ---- prettyPrint --------------------------------------------------------
rnd = random.Random(4711)
ALPHA = ['"', '"', '\\', ':', ':', ' ', ' ', '{', '}', '\n', 'a', 'b', ',',
         '[', '\r', '\t', 'é', '":', '": ', '\\"', '    "']
texts = ["", "\n", '"a": 1', '    "a": 1,', '    "a": {', '"a":{', ' "a":',
         '"a" : 1', '"a\\": 1', '"a\\\\": 1', '"a\\"b": 1', '"": ""',
         '  "x": "{"', '  "x": "}"', 'x "a": 1', '\t"a": 1', '"a": 1\r',
         '"a":\n"b":', '"unterminated', '"a\\', '"a"', '":', '"":', ' ":":":',
         '   "k": "v": "w"', '"a": "b\\": {"', '"' + 'k' * 40 + '": 1',
         '"a": 1\n\n  "b": 2\n}', "{\n    \"k\": [\n        1\n    ]\n}"]
for _ in range(1500):
    texts.append("".join(rnd.choice(ALPHA) for _ in range(rnd.randrange(1, 40))))
objs = [{"a": 1, "b": {"c": [1, {"d": "e\"f"}], "g\\": "h: {"}},
        {"k" * 50: {"x": "y"}}, [], {}, [{"a": "b"}], "s", 5, None,
        {"quote\"key": 1, "colon\": ": 2, "\\": 3, "\\\"": 4, "": 5, "é": 6}]
for o in objs:
    for ind in (4, 2, 0, None):
        texts.append(json.dumps(o, indent=ind))
for i, t in enumerate(texts):
    call("prettyPrint default %d" % i, pt.prettyPrint, t)
    for w in (29, 0, -3, 5, 60):
        call("prettyPrint %d w=%d" % (i, w), pt.prettyPrint, t, w)
    call("prettyPrint %d kw" % i, pt.prettyPrint, Mdata=t, desiredSpace=12)
for bad in (None, 5, b'"a": 1', ["x"]):
    call("prettyPrint bad %r" % (bad,), pt.prettyPrint, bad)
call("prettyPrint badspace", pt.prettyPrint, '"a": 1', "x")
call("prettyPrint badspace nomatch", pt.prettyPrint, 'a', "x")
call("prettyPrint float", pt.prettyPrint, '"a": 1', 5.5)
call("prettyPrint none", pt.prettyPrint, '"a": 1', None)

# ---- buildOutput --------------------------------------------------------
NAMES = ["User Data", "User Data 0", "User Data 1", "Unknown", "Primary SRC",
         "Private Header", "User Header", "", "X", "Unknown 0"]
for i in range(600):
    n = rnd.randrange(0, 9)
    secs = []
    for j in range(n):
        d = OrderedDict()
        for _ in range(rnd.choice((1, 1, 1, 2, 3))):
            d[rnd.choice(NAMES)] = {"v": rnd.randrange(100), "j": j}
        secs.append(d)
    out = OrderedDict()
    for k in rnd.sample(NAMES, rnd.randrange(0, 4)):
        out[k] = "pre-" + k
    before = json.dumps(secs)
    call("buildOutput %d" % i, pt.buildOutput, secs, out)
    rec("buildOutput %d out" % i, json.dumps(out) + "\n" + str(json.dumps(secs) == before))
for i, bad in enumerate(([{}], [{"a": 1}, {}], [{"a": 1}, {}, {"a": 2}], [5],
                         [{"a": 1}, None], None, 5, "ab", [("a",)], [[]],
                         ({"a": 1}, {"a": 2}), [{1: "x"}, {1: "y"}],
                         [{(1, 2): "t"}, {None: "n"}, {None: "m"}],
                         [{1: "x"}, {"1": "y"}, {1: "z"}],
                         iter([{"a": 1}]), {"a": 1}, {0: {"k": 1}}, {0: {"k": 1}, 1: {"k": 2}})):
    out = OrderedDict(a="pre")
    call("buildOutput bad %d" % i, pt.buildOutput, bad, out)
    rec("buildOutput bad %d out" % i, repr(out))
call("buildOutput outlist", pt.buildOutput, [{"a": 1}], [])
call("buildOutput outnone", pt.buildOutput, [{"a": 1}], None)
call("buildOutput outnone empty", pt.buildOutput, [], None)

# ---- considerPEL / considerPELIfSeverityMatches ---------------------------
class FakeStream:
    pass
def mkuh(sev, flags):
    uh = UserHeader(None, 0x5548, 24, 1, 0, 0x2000, "O")
    uh.eventSeverity = sev
    uh.actionFlags = flags
    return uh
UHS = [mkuh(s, f) for s in (0x00, 0x10, 0x20, 0x40, 0x51, 0x50, 0x71)
       for f in (0, 0x2000, 0x4000, 0x6000, 0x8000, 0xC000, 0xE000)]
FLAGS = ["every_pel", "critSysTerm", "serviceable", "non_serviceable",
         "hidden", "only"]
for bits in itertools.product((False, True), repeat=len(FLAGS)):
    for sevs in ([], [4], [1, 5], [0], [2, 7, 4]):
        for idattr in (None, "plid", "src", "bmcID", "pelID"):
            cfg = Config()
            for n, b in zip(FLAGS, bits):
                setattr(cfg, n, b)
            cfg.severities = list(sevs)
            if idattr:
                setattr(cfg, idattr, "50000001")
            res = []
            for uh in UHS:
                try:
                    r = pt.considerPEL(uh, cfg)
                    res.append("T" if r is True else "F" if r is False else repr(r))
                except Exception as e:
                    res.append("<%s %s>" % (type(e).__name__, e))
            rec("considerPEL %s %s %s" % ("".join("01"[b] for b in bits), sevs, idattr),
                "".join(res))
# truthy non-bool config values
for vals in itertools.product((0, 1, "", "x", None, [0]), repeat=3):
    cfg = Config()
    cfg.serviceable, cfg.only, cfg.hidden = vals
    cfg.severities = [4]
    cfg.src = ""
    cfg.plid = 0
    res = []
    for uh in UHS:
        r = pt.considerPEL(uh, cfg)
        res.append("T" if r is True else "F" if r is False else repr(r))
    rec("considerPEL truthy %r" % (vals,), "".join(res))
for sevs in ([], [0], [4], [5, 4], (4,), None, 4, ["4"], [4.0]):
    cfg = Config()
    cfg.severities = sevs
    for uh in UHS[::5]:
        call("sevMatches %r %x" % (sevs, uh.eventSeverity),
             pt.considerPELIfSeverityMatches, uh, cfg)
        cfg.only = True
        cfg.hidden = True
        call("considerPEL sevs %r %x" % (sevs, uh.eventSeverity),
             pt.considerPEL, uh, cfg)
        cfg.only = False
        cfg.hidden = False
        call("considerPEL sevs2 %r %x" % (sevs, uh.eventSeverity),
             pt.considerPEL, uh, cfg)

# ---- sectionFun / generate* on raw streams --------------------------------
def stream(b):
    return DataStream(b, byte_order='big', is_signed=False)
files = sorted(f for f in os.listdir(template)
               if os.path.isfile(os.path.join(template, f)))
blobs = []
for f in files:
    with open(os.path.join(template, f), 'rb') as fd:
        blobs.append((f, fd.read()))
SIDS = [0x5048, 0x5548, 0x5053, 0x5353, 0x4548, 0x4D54, 0x4448, 0x5357, 0x4C50,
        0x4C52, 0x484D, 0x4550, 0x4945, 0x4D49, 0x4348, 0x5544, 0x4549, 0x4544,
        0, 0xFFFF, 0x5A5A, 0x5054]
payload = blobs[0][1][72:]
for sid in SIDS:
    for ln in (0, 4, 8, 9, 12, 20, 28, 80, 100, 0x200, 0xFFFF):
        for cut in (0, 3, 7, 19, 27, 71, 79, 150, len(payload)):
            for cr in ("O", "H"):
                for plugins in (True, False):
                    cfg = Config()
                    cfg.allow_plugins = plugins
                    s = stream(payload[8:8 + cut])
                    out = OrderedDict()
                    call("sectionFun %04X len=%d cut=%d %s %s" % (sid, ln, cut, cr, plugins),
                         pt.sectionFun, s, out, sid, ln, 2, 3, 0x2000, cr, cfg)
                    rec("sectionFun out", json.dumps(out) + " idx=%d" % s.index)
for sid in (float(0x5053), "PS", None):
    s = stream(payload[8:])
    out = OrderedDict()
    call("sectionFun odd id %r" % (sid,), pt.sectionFun, s, out, sid, 28, 1, 0, 0x2000, "O", Config())
    rec("sectionFun odd out", json.dumps(out) + " idx=%d" % s.index)
for f, b in blobs:
    for gen in ("generatePH", "generateUH"):
        s = stream(b)
        out = OrderedDict()
        if gen == "generatePH":
            call("%s %s" % (gen, f), pt.generatePH, s, out)
        else:
            call("%s %s" % (gen, f), pt.generateUH, s, "O", out)
        rec("%s out" % gen, json.dumps(out) + " idx=%d" % s.index)

# ---- parsePEL / parsePELSummary, repeated decodes in one process ----------
def configs():
    for kw in ({}, {"every_pel": True}, {"hidden": True, "only": True},
               {"every_pel": True, "allow_plugins": False},
               {"severities": [4], "only": True}, {"non_serviceable": True},
               {"critSysTerm": True, "only": True}, {"plid": "x", "only": True}):
        cfg = Config()
        for k, v in kw.items():
            setattr(cfg, k, v)
        yield sorted(kw.items()), cfg
for rep in range(2):
    for f, b in blobs:
        for desc, cfg in configs():
            for eoe in (False, True):
                call("parsePEL %s %s eoe=%s rep=%d" % (f, desc, eoe, rep),
                     pt.parsePEL, stream(b), cfg, eoe)
            call("parsePELSummary %s %s rep=%d" % (f, desc, rep),
                 pt.parsePELSummary, stream(b), cfg)

# ---- file based helpers ---------------------------------------------------
def reset(src=template):
    shutil.rmtree(scratch, ignore_errors=True)
    shutil.copytree(src, scratch, symlinks=True)
def tree():
    o = []
    for r, ds, fs in os.walk(scratch):
        ds.sort()
        for x in sorted(ds + fs):
            p = os.path.join(r, x)
            o.append(os.path.relpath(p, scratch) + (" ->" + os.readlink(p) if os.path.islink(p) else
                     "/" if os.path.isdir(p) else " %d" % os.path.getsize(p)))
    return "\n".join(o)
small = os.path.join(os.path.dirname(template), "template_small")
empty = os.path.join(os.path.dirname(template), "template_empty")
for pid in ("50000001", "0x50000001", "0X5000abcd", "5000ABCD", "", "0x", "1234567",
            "123456789", "0x1234567", "x0123456", "0x0x1234", "ßßßßßßßß", "ﬁ234567", "ǰ2345678"[:8]):
    call("processId %r" % pid, pt.processId, pid)
for bad in (None, 5, b"50000001"):
    call("processId bad %r" % (bad,), pt.processId, bad)
for src in (template, small, empty):
    for ext in (None, "", ".pel", ".txt", "pel", ".bin", "."):
        for rev in (False, True):
            reset(src)
            call("getFileList %s %r %r" % (os.path.basename(src), ext, rev),
                 pt.getFileList, scratch, ext, rev)
        reset(src)
        call("getFileList %s %r default" % (os.path.basename(src), ext), pt.getFileList, scratch, ext)
call("getFileList nonexistent", pt.getFileList, os.path.join(scratch, "nope"), None)
call("getFileList file", pt.getFileList, os.path.join(scratch, files[0]), None, True)
call("getFileList kw", pt.getFileList, path=scratch, extension=".pel", rev=True)
for src in (template, small, empty):
    reset(src)
    call("deleteAllPELs %s" % os.path.basename(src), pt.deleteAllPELs, scratch)
    rec("tree", tree())
    call("deleteAllPELs again", pt.deleteAllPELs, scratch)
    rec("tree", tree())
    for pid in ("50000001", "0x50000002", "5000abcd", "5000060", "99999999", "123", "50000009",
                "archive1", "SUBDIR_5"):
        reset(src)
        call("deletePELFromPELId %s %s" % (os.path.basename(src), pid),
             pt.deletePELFromPELId, scratch, pid)
        rec("tree", tree())
        call("deletePELFromPELId again %s" % pid, pt.deletePELFromPELId, scratch, pid)
        rec("tree", tree())
call("deleteAllPELs nonexistent", pt.deleteAllPELs, os.path.join(scratch, "nope"))
call("deletePELFromPELId nonexistent", pt.deletePELFromPELId, os.path.join(scratch, "nope"), "50000001")

def mkcfg(**kw):
    cfg = Config()
    for k, v in kw.items():
        setattr(cfg, k, v)
    return cfg
for src in (template, small, empty):
    reset(src)
    b = os.path.basename(src)
    for kw in ({}, {"every_pel": True}, {"hex": True}, {"every_pel": True, "rev": True, "extension": ".pel"},
               {"hidden": True, "only": True, "allow_plugins": False}):
        call("listOption %s %r" % (b, kw), pt.listOption, scratch, mkcfg(**kw))
        call("extractAllPELsData %s %r" % (b, kw), pt.extractAllPELsData, scratch, mkcfg(**kw))
        call("printPELCount %s %r" % (b, kw), pt.printPELCount, scratch, mkcfg(**kw))
        for pid in ("50000001", "50000002", "5000060", "77777777", "bad"):
            call("parsePelFromID %s %r %s" % (b, kw, pid), pt.parsePelFromID, scratch, mkcfg(pelID=pid, **kw))
            call("parsePelFromPLID %s %r %s" % (b, kw, pid), pt.parsePelFromPLID, scratch, mkcfg(plid=pid, **kw))
        for bid in ("1", "2", "777", "nope", 2):
            call("parsePelFromBmcID %s %r %s" % (b, kw, bid), pt.parsePelFromBmcID, scratch, mkcfg(bmcID=bid, **kw))
        for s in ("BD", "BD8D1001", "", None, "X" * 33):
            call("parsePelFromSRCID %s %r %s" % (b, kw, s), pt.parsePelFromSRCID, scratch, mkcfg(src=s, **kw))
        call("parsePelFromSRCID excl %s %r" % (b, kw), pt.parsePelFromSRCID, scratch,
             mkcfg(srcExcludeFile=os.path.join(os.path.dirname(template), "exclude.txt"), **kw))
        call("parsePelFromSRCID excl+src %s %r" % (b, kw), pt.parsePelFromSRCID, scratch,
             mkcfg(src="BD40", srcExcludeFile=os.path.join(os.path.dirname(template), "exclude.txt"), **kw))
    for f in sorted(os.listdir(scratch))[:30]:
        p = os.path.join(scratch, f)
        for kw in ({}, {"every_pel": True}, {"every_pel": True, "hex": True}):
            call("parseAndPrintPELFile %s %r" % (f, kw), pt.parseAndPrintPELFile, p, mkcfg(**kw), False)
            call("extractAndSummarizePEL %s %r" % (f, kw), pt.extractAndSummarizePEL, p, mkcfg(**kw))
    outd = os.path.join(scratch, "archive") if src == template else scratch
    for f in sorted(os.listdir(scratch))[:40]:
        p = os.path.join(scratch, f)
        call("parseAndWriteOutput %s" % f, pt.parseAndWriteOutput, p, outd, mkcfg(every_pel=True), f.endswith(".pel"))
    rec("tree after parseAndWriteOutput", tree())
call("printPELInHexFormat bytes", pt.printPELInHexFormat, b"abcdefghijklmnopqrstuvwxyz")
call("printPELInHexFormat empty", pt.printPELInHexFormat, b"")
call("printPELInHexFormat bad", pt.printPELInHexFormat, None)
call("printPELInHexFormat str", pt.printPELInHexFormat, "abc")
names = sorted(n for n in dir(pt) if not n.startswith("_"))
KNOWN = ["CustomFormatter", "KEY_PREFIX_RE", "buildOutput", "considerPEL",
         "considerPELIfSeverityMatches", "deleteAllPELs", "deletePELFromPELId",
         "extractAllPELsData", "extractAndSummarizePEL", "generateDefault", "generateED",
         "generateEH", "generateIP", "generateMT", "generatePH", "generateSRC", "generateUD",
         "generateUH", "getFileList", "getSectionName", "listOption", "main", "parseAndPrintPELFile",
         "parseAndWriteOutput", "parseHeader", "parsePEL", "parsePELSummary", "parsePelFromBmcID",
         "parsePelFromID", "parsePelFromPLID", "parsePelFromSRCID", "prettyPrint", "printPELCount",
         "printPELInHexFormat", "processId", "sectionFun", "DataStream", "OrderedDict", "PrivateHeader",
         "UserHeader", "SRC", "SectionID", "SeverityValues", "ExtendedUserHeader", "FailingMTMS",
         "UserData", "ExtUserData", "Default", "ImpactedPartition", "sectionNames", "severityGroupValues",
         "Config", "hexdump", "sys", "os", "json", "argparse", "re"]
rec("public names kept", repr([n for n in KNOWN if n not in names]))
shutil.rmtree(scratch, ignore_errors=True)
sys.__stdout__.write("### END %d\n" % NREC[0])
'''


def run_driver(root, opt=False):
    env = dict(os.environ)
    env["PYTHONPATH"] = os.path.join(root, "modules")
    env["PYTHONDONTWRITEBYTECODE"] = "1"
    env["PYTHONHASHSEED"] = "0"
    env["PYTHONIOENCODING"] = "utf-8:backslashreplace"
    drv = os.path.join(WORK, "driver.py")
    with open(drv, "w") as f:
        f.write(DRIVER)
    cmd = [PY] + (["-O"] if opt else []) + \
        [drv, root, TEMPLATE, os.path.join(WORK, "scratch")]
    p = subprocess.run(cmd, cwd=WORK, env=env, stdout=subprocess.PIPE,
                       stderr=subprocess.PIPE, stdin=subprocess.DEVNULL,
                       timeout=3600)
    text = p.stdout.decode("utf-8", "backslashreplace").replace(root, "<ROOT>")
    recs = text.split("\n### ")
    tail = "driver rc=%d\n%s" % (p.returncode, norm_err(
        p.stderr.decode("utf-8", "backslashreplace"), root))
    return recs, tail


def main():
    if len(sys.argv) != 3:
        sys.exit(__doc__)
    pristine, patched = (os.path.abspath(a) for a in sys.argv[1:3])
    pels = build_pels()
    make_template(pels)
    ncases = 0
    nbad = 0

    def report(name, a, b):
        nonlocal nbad
        nbad += 1
        if nbad <= 15:
            print("DIFFERENT: %s" % name)
            la, lb = a.split("\n"), b.split("\n")
            for i in range(max(len(la), len(lb))):
                x = la[i] if i < len(la) else "<missing>"
                y = lb[i] if i < len(lb) else "<missing>"
                if x != y:
                    print("  pristine: %s\n  patched : %s" % (x[:300], y[:300]))
                    break

    for opt in (False, True):
        ra, ta = run_driver(pristine, opt)
        rb, tb = run_driver(patched, opt)
        if not ra[-1].startswith("END "):
            print("driver did not finish on pristine tree:\n" + ta[-3000:])
            nbad += 1
        if ta != tb:
            report("driver stderr/rc opt=%s" % opt, ta, tb)
        if len(ra) != len(rb):
            report("driver record count opt=%s" % opt, str(len(ra)), str(len(rb)))
        for x, y in zip(ra, rb):
            ncases += 1
            if x != y:
                report("driver opt=%s: %s" % (opt, x.split("\n", 1)[0]), x, y)

    for args, template, opt in cli_cases(pels):
        a = run_cli(pristine, args, template, opt)
        b = run_cli(patched, args, template, opt)
        ncases += 1
        if a != b:
            report("cli %s%s [%s]" % ("-O " if opt else "", " ".join(args),
                                      template), a, b)

    shutil.rmtree(WORK, ignore_errors=True)
    if nbad:
        print("DIFFERENT (%d of %d cases)" % (nbad, ncases))
        sys.exit(1)
    print("IDENTICAL (%d cases)" % ncases)
    sys.exit(0)


if __name__ == "__main__":
    main()
