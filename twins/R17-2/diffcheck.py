#!/usr/bin/env python
"""
Differential check for refactorings of

    modules/srcparsers/osrc/osrc.py
    modules/srcparsers/oe500/oe500.py
    modules/pel/hwdiags/parserdata.py

usage: diffcheck.py <pristine_root> <patched_root>

Both trees are exercised in separate subprocesses (PYTHONPATH points to the
tree under test) and everything observable is compared:

  * API level: return values / exception type + text of every public function
    of the touched modules for a large matrix of well-formed, malformed and
    wrongly typed arguments, with several JSON data sets (good, odd shaped,
    broken), with and without `python -O`, including the content of the
    osrc parser cache after every call (repeated decodes in one process).
  * CLI level: peltool.py on generated binary PELs (well-formed, truncated,
    corrupted, random) with several option combinations; stdout, stderr,
    exit status and the files written by -j are compared.

Prints "IDENTICAL (<n> cases)" and exits 0 if nothing differs, else exits 1.
"""
import concurrent.futures
import hashlib
import json
import os
import random
import shutil
import struct
import subprocess
import sys
import tempfile

PY = sys.executable

# --------------------------------------------------------------------------
# JSON data sets for pel.hwdiags.data
# --------------------------------------------------------------------------

GOOD_P10 = {
    "model_ec": {"id": "20da0010", "type": "proc", "desc": "P10 1.0"},
    "attn_types": {"1": "CHIP_CS", "2": "UNIT_CS", "3": "RECOVERABLE",
                   "68": "HOST_ATTN", "255": ["not", "a", "string"]},
    "signatures": {
        "abcd": ["EQ_CORE_FIR", {"0": "bit zero", "5": "bit five",
                                 "119": "bit 119", "255": None}],
        "5555": ["FIR55", {}],
        "00aa": ["ONLYNAME"],
        "00bb": [],
        "00cc": "string",
        "00dd": [["nested"], ["x", "y"]],
        "00ee": {"0": "d0", "1": {"3": "deep"}},
        "00ff": [None, None],
        "1111": [123, {"17": 456}],
        "2222": [{"a": 1}, "text"],
        "3333": None,
        "4444": 17,
    },
    "registers": {
        "abcdef": ["REG_ABC", {"0": "20010a40", "1": "0x20010A41",
                               "255": "ffffffffffff"}],
        "000001": ["REG_BADADDR", {"0": "zz"}],
        "000002": ["REG_INTADDR", {"0": 5}],
        "000003": ["REG_NOADDR"],
        "000004": [],
        "000005": "str",
        "000006": ["A_VERY_LONG_REGISTER_NAME_THAT_IS_CROPPED_BY_UD",
                   {"0": "1", "7": " 0012 "}],
        "000007": [None, {"0": None}],
        "000008": {"0": "n", "1": {"0": "44"}},
        "000009": [77, ["10", "11"]],
        "00000a": None,
        "00000b": ["REG_NEG", {"0": "-5", "1": "-0x1F", "2": "+7",
                               "3": "123456789abcdef01", "4": "1_0"}],
    },
}

GOOD_OCMB = {"model_ec": {"id": "60d20020", "type": "ocmb"}}

GOOD_ODD = {
    "model_ec": {"id": "160d2000", "desc": "only desc"},
    "attn_types": ["a", "b", "c"],
    "signatures": None,
    "registers": "nope",
}

GOOD_UPPER = {"model_ec": {"id": "ABCD0001", "type": "upper", "desc": "UP"},
              "attn_types": {"1": "X"}}

GOOD_INTID = {"model_ec": {"id": 5, "type": "intid"}}

GOOD_NULLS = {"model_ec": {"id": "0badc0de", "type": None, "desc": None},
              "attn_types": None, "signatures": {"abcd": [None, None]},
              "registers": {"abcdef": [None, None]}}

GOOD_NUMS = {"model_ec": {"id": "12345678", "type": 7, "desc": [1, 2]},
             "attn_types": {"1": 1, "2": {"k": "v"}, "3": True},
             "signatures": {"abcd": ["N", {"1": 1.5}]},
             "registers": {"abcdef": ["R", {"1": "  1f  "}]}}


def _dump(path, obj):
    with open(path, 'w') as f:
        json.dump(obj, f)


def make_datasets(base):
    sets = {}

    def mk(name):
        d = os.path.join(base, name)
        os.makedirs(d)
        # `ParserData` takes the directory of pel.hwdiags.data.__file__
        open(os.path.join(d, '__init__.py'), 'w').close()
        sets[name] = d
        return d

    mk('empty')

    d = mk('good')
    _dump(os.path.join(d, 'p10_10.json'), GOOD_P10)
    _dump(os.path.join(d, 'ocmb.json'), GOOD_OCMB)
    _dump(os.path.join(d, 'odd.json'), GOOD_ODD)
    _dump(os.path.join(d, 'upper.json'), GOOD_UPPER)
    _dump(os.path.join(d, 'intid.json'), GOOD_INTID)
    _dump(os.path.join(d, 'nulls.json'), GOOD_NULLS)
    _dump(os.path.join(d, 'nums.json'), GOOD_NUMS)
    with open(os.path.join(d, 'README.txt'), 'w') as f:
        f.write('{ this is not json and must be ignored')
    with open(os.path.join(d, 'notjson.json.bak'), 'w') as f:
        f.write('{')
    os.makedirs(os.path.join(d, 'sub'))
    with open(os.path.join(d, 'sub', 'nested.json'), 'w') as f:
        f.write('{')

    d = mk('dup')      # same id twice in one directory (later one wins)
    _dump(os.path.join(d, 'a.json'), GOOD_P10)
    _dump(os.path.join(d, 'b.json'),
          {"model_ec": {"id": "20da0010", "type": "dup", "desc": "DUP"}})

    d = mk('badjson')
    _dump(os.path.join(d, 'a.json'), GOOD_OCMB)
    with open(os.path.join(d, 'b.json'), 'w') as f:
        f.write('{"model_ec": ')

    d = mk('nokey')
    _dump(os.path.join(d, 'a.json'), {"signatures": {}})

    d = mk('noid')
    _dump(os.path.join(d, 'a.json'), {"model_ec": {"type": "x"}})

    d = mk('listtop')
    _dump(os.path.join(d, 'a.json'), [1, 2, 3])

    d = mk('strmodel')
    _dump(os.path.join(d, 'a.json'), {"model_ec": "abc"})

    d = mk('idlist')
    _dump(os.path.join(d, 'a.json'), {"model_ec": {"id": [1]}})

    d = mk('nulltop')
    _dump(os.path.join(d, 'a.json'), None)

    d = mk('dirjson')
    os.makedirs(os.path.join(d, 'x.json'))

    d = mk('binary')
    with open(os.path.join(d, 'a.json'), 'wb') as f:
        f.write(b'\xff\xfe\x00{')

    return sets


# --------------------------------------------------------------------------
# Fake component SRC parsers
# --------------------------------------------------------------------------

FAKE_OK = '''
import json
def parseSRCToJson(refcode, word2, word3, word4, word5,
                   word6, word7, word8, word9):
    return json.dumps({"%s": refcode, "words": [word2, word3, word4, word5,
                                                word6, word7, word8, word9]})
'''

FAKES = {
    'bsrc': FAKE_OK % 'hostboot',
    'oaa00': FAKE_OK % 'aa',
    'obb00': 'raise ImportError("boom at import")\n',
    'occ00': 'import this_module_does_not_exist_xyz\n' + FAKE_OK % 'cc',
    'odd00': '''
def parseSRCToJson(*args):
    raise ModuleNotFoundError("late failure %r" % (args[0],))
''',
    'oee00': 'def parseSRCToJson(:\n',
    'off00': 'x = 1\n',
    'o1100': '''
import builtins
builtins._o1100_count = getattr(builtins, '_o1100_count', 0) + 1
if builtins._o1100_count < 3:
    raise RuntimeError("o1100 not ready %d" % builtins._o1100_count)
def parseSRCToJson(*args):
    return '{"o1100": %d}' % builtins._o1100_count
''',
    'o4400': '''
def parseSRCToJson(refcode, *words):
    if refcode[6:8] == '01':
        return None
    if refcode[6:8] == '02':
        return 'null'
    if refcode[6:8] == '03':
        return 'not json {'
    if refcode[6:8] == '04':
        raise KeyError('k04')
    if refcode[6:8] == '05':
        raise SystemExit(7)
    return ''
''',
    'o5500': '''
from srcparsers.osrc import osrc
def parseSRCToJson(refcode, *words):
    inner = osrc.parseSRCToJson('BD8DAA' + refcode[6:8], *words)
    return '{"outer": %s}' % inner
''',
    'o6600': '''
from srcparsers.osrc import osrc
osrc.osrcParsers['srcparsers.o7700.o7700'] = None
def parseSRCToJson(refcode, *words):
    return '"66"'
''',
    'o8800': '''
import sys
def parseSRCToJson(refcode, *words):
    print("noise on stdout", refcode)
    print("noise on stderr", refcode, file=sys.stderr)
    return '{"88": true}'
''',
}


def make_fakes(base, names=None):
    os.makedirs(base, exist_ok=True)
    for name, src in FAKES.items():
        if names is not None and name not in names:
            continue
        d = os.path.join(base, name)
        os.makedirs(d)
        open(os.path.join(d, '__init__.py'), 'w').close()
        with open(os.path.join(d, name + '.py'), 'w') as f:
            f.write(src)
    if names is None:
        # a package without the component module
        d = os.path.join(base, 'o3300')
        os.makedirs(d)
        open(os.path.join(d, '__init__.py'), 'w').close()
        # a package whose __init__ fails with ModuleNotFoundError
        d = os.path.join(base, 'o9900')
        os.makedirs(d)
        with open(os.path.join(d, '__init__.py'), 'w') as f:
            f.write('import another_missing_module_abc\n')
        with open(os.path.join(d, 'o9900.py'), 'w') as f:
            f.write(FAKE_OK % '99')


# --------------------------------------------------------------------------
# In-process API driver (runs in a subprocess for each tree)
# --------------------------------------------------------------------------

DRIVER = r'''
import os, sys, json, random, io, contextlib

root, datadir, fakedir, seed, what = sys.argv[1:6]
seed = int(seed)

import pel.hwdiags.data
import pel.hwdiags.parserdata as parserdata
import srcparsers
import srcparsers.osrc.osrc as osrc
import srcparsers.oe500.oe500 as soe500
import udparsers.oe500.oe500 as uoe500

for m in (pel.hwdiags.data, parserdata, srcparsers, osrc, soe500, uoe500):
    if not os.path.abspath(m.__file__).startswith(os.path.abspath(root) + os.sep):
        print("WRONG TREE", m.__file__)
        sys.exit(3)

pel.hwdiags.data.__file__ = os.path.join(datadir, '__init__.py')
if fakedir != '-':
    srcparsers.__path__.append(fakedir)

ParserData = parserdata.ParserData
count = 0


def show(label, fn, *args, **kw):
    global count
    count += 1
    buf_o, buf_e = io.StringIO(), io.StringIO()
    try:
        with contextlib.redirect_stdout(buf_o), contextlib.redirect_stderr(buf_e):
            res = fn(*args, **kw)
        out = 'OK %s %r' % (type(res).__name__, res)
    except BaseException as e:
        out = 'EXC %s: %s' % (type(e).__name__, e)
    print('%s%r%r => %s | out=%r err=%r' % (label, args, kw, out,
                                          buf_o.getvalue(), buf_e.getvalue()))


class Lowerable:
    """An object that is not a string but has lower()/upper()."""
    def __init__(self, v): self.v = v
    def lower(self): return self.v.lower()
    def upper(self): return self.v.upper()
    def __repr__(self): return 'Lowerable(%r)' % self.v


MODEL_ECS = ['20da0010', '20DA0010', '20Da0010', '60d20020', '160d2000',
             '23ABcdEf', 'abcd0001', 'ABCD0001', '0badc0de', '12345678', '',
             '1234567', '123456789', 'zzzzzzzz', '20da001g', ' 20da0010',
             '20da0010\n', '２０da0010', b'20da0010',
             bytearray(b'20da0010'), None, 5, 0x20da0010, ['2'],
             ('20da0010',), 1.5, True, Lowerable('20DA0010'), '5']
INTS = [0, 1, 2, 3, 5, 7, 17, 68, 119, 255, 256, 65535, 65536, -1, 1.0, 1.5,
        255.5, True, False, None, '5', 2 ** 40, float('nan'), float('inf'),
        [1], b'\x01']
SIG_IDS = ['abcd', 'ABCD', 'aBcD', '5555', '00aa', '00bb', '00cc', '00dd',
           '00ee', '00ff', '1111', '2222', '3333', '4444', '9999', 'zzzz',
           'abc', 'abcde', '', b'abcd', bytearray(b'abcd'), None, 0xabcd,
           Lowerable('ABCD'), ['abcd']]
REG_IDS = ['abcdef', 'ABCDEF', 'AbCdEf', '000001', '000002', '000003',
           '000004', '000005', '000006', '000007', '000008', '000009',
           '00000a', '00000A', '00000b', '00000B', 'ffffff', 'abcde', 'abcdefa', 'zzzzzz', '',
           b'abcdef', bytearray(b'000001'), None, 0xabcdef,
           Lowerable('ABCDEF')]
WORDS_B = ['00010203', 'ffff00ff', '00000044', 'FFFFFFFF', '00000001',
           '00000002', '000000ff', 'zzzzzzzz', '0001020', '000102030', '',
           None, b'00010203', '0x010203', ' 1 2 3 4', '+1+2+3+4', '00_10_01',
           '0_1_0_10', 12345678, ['0'] * 8, bytearray(b'00010203')]
WORDS_C = ['abcd0005', 'ABCD0005', 'abcd0077', 'abcd00ff', 'abcdff00',
           '55550000', '00aa0000', '00bb0000', '00cc0000', '00dd0000',
           '00dd0001', '00ee0001', '00ee0103', '00ff0000', '11110011',
           '22220000', '33330000', '44440000', '99990102', 'abcdzz05',
           'abcd05zz', 'zzzz0005', 'abcd000', 'abcd00055', '', None,
           b'abcd0005', 'abcd_5_5', 'abcd+5-5', 5, ('a',) * 8]


def new_parser():
    try:
        return ParserData()
    except BaseException as e:
        return None


def run_parserdata():
    rng = random.Random(seed)
    show('ctor', lambda: sorted(map(repr, ParserData()._data.keys())))
    show('ctor2', lambda: sorted((repr(k), json.dumps(v, sort_keys=True))
                                 for k, v in ParserData()._data.items()))
    p = new_parser()
    if p is None:
        return
    for m in MODEL_ECS:
        show('query', p.query_model_ec, m)
        for a in INTS + ['1', '68', 'x']:
            show('attn', p.get_attn_desc, m, a)
    for m in MODEL_ECS:
        for n in INTS:
            for c in INTS:
                if rng.random() < 0.35:
                    show('chip', p.get_chip_desc, m, n, c)
    for m in MODEL_ECS:
        for s in SIG_IDS:
            show('sig', p.get_sig_desc, m, s, 0, 0)
            show('sig', p.get_sig_desc, m, s, 1, 5)
            for _ in range(4):
                show('sig', p.get_sig_desc, m, s, rng.choice(INTS),
                     rng.choice(INTS))
        for r in REG_IDS:
            for inst in (0, 1, 2, 3, 4):
                show('reg', p.get_reg_data, m, r, inst)
            for _ in range(3):
                show('reg', p.get_reg_data, m, r, rng.choice(INTS))
    for a in MODEL_ECS:
        for b in WORDS_B:
            for c in WORDS_C:
                if rng.random() < 0.3:
                    show('signature', p.get_signature, a, b, c)
    for _ in range(1500):
        a = rng.choice(MODEL_ECS[:10])
        b = '%08x' % rng.getrandbits(32)
        c = rng.choice(SIG_IDS[:16]) + '%04X' % rng.getrandbits(16)
        show('signature-rnd', p.get_signature, a, b, c)
    # keyword arguments / signatures of the public methods
    show('kw', p.get_chip_desc, model_ec='20da0010', node_pos=1, chip_pos=2)
    show('kw', p.get_sig_desc, model_ec='20da0010', sig_id='abcd', sig_inst=1,
         sig_bit=5)
    show('kw', p.get_attn_desc, model_ec='20da0010', attn_type=1)
    show('kw', p.get_reg_data, model_ec='20da0010', reg_id='abcdef',
         reg_inst=1)
    show('kw', p.get_signature, word_a='20da0010', word_b='00010203',
         word_c='abcd0005')
    show('kw', p.query_model_ec, model_ec='20da0010')
    show('kw', p._check_hex, data='abcd', num_bytes=2)
    show('kw', p._check_int, data=3, num_bytes=1)
    for nb in (0, 1, 2, 3, 4, 5, None, '2'):
        for v in ('', 'ab', 'abcd', 'abcdef', 'abcdef01', 'xy', None, 5, b'ab'):
            show('check_hex', p._check_hex, v, nb)
    for nb in (0, 1, 2, 3, 4, 8, -1, None, '2', 1.5):
        for v in (0, 1, 255, 256, 65535, 65536, -1, None, 'a', 2 ** 70, 1.5):
            show('check_int', p._check_int, v, nb)
    # the user data parser of the same component uses the same class
    for blob in UD_BLOBS:
        for st in (1, 2):
            show('ud %d %s' % (st, blob.hex()),
                 lambda: uoe500.parseUDToJson(st, 1, memoryview(blob)))


def be(n, v):
    return v.to_bytes(n, 'big')


UD_BLOBS = []
def _mk_ud():
    rng = random.Random(seed + 1)
    models = [bytes.fromhex(x) for x in ('20da0010', '60d20020', '160d2000',
                                         '0badc0de', '12345678', 'abcd0001',
                                         '23abcdef')]
    sigs = [bytes.fromhex(x) for x in ('abcd', '5555', '00aa', '00bb', '00cc',
                                       '00dd', '00ee', '00ff', '1111', '2222',
                                       '3333', '4444', '9999')]
    regs = [bytes.fromhex(x) for x in ('abcdef', '000001', '000002', '000003',
                                       '000004', '000005', '000006', '000007',
                                       '000008', '000009', '00000a', 'ffffff')]
    for _ in range(40):
        n = rng.randint(0, 4)
        b = be(4, n)
        for _ in range(n):
            b += rng.choice(models) + be(4, rng.getrandbits(32))
            b += rng.choice(sigs) + be(1, rng.choice([0, 1, 5, 255]))
            b += be(1, rng.choice([0, 1, 3, 5, 17, 119, 255]))
        UD_BLOBS.append(b)
        UD_BLOBS.append(b[:rng.randint(0, len(b))])
    for _ in range(40):
        n = rng.randint(0, 3)
        b = be(4, n)
        for _ in range(n):
            k = rng.randint(0, 4)
            b += rng.choice(models) + be(2, rng.getrandbits(16))
            b += be(1, rng.getrandbits(8)) + be(4, k)
            for _ in range(k):
                sz = rng.choice([1, 4, 8, 8, 16])
                b += rng.choice(regs) + be(1, rng.choice([0, 1, 7, 255]))
                b += be(1, sz) + bytes(rng.getrandbits(8) for _ in range(sz))
        UD_BLOBS.append(b)
        UD_BLOBS.append(b[:rng.randint(0, len(b))])
    for _ in range(20):
        UD_BLOBS.append(bytes(rng.getrandbits(8)
                              for _ in range(rng.randint(0, 60))))
_mk_ud()

REFCODES = ['BD8DE510', 'BD8DE500', 'BD8DE511', 'BD8DE5', 'BD8DE51', '',
            'BD8DE510' + ' ' * 24, 'bd8de510', 'BD8De510', None,
            b'BD8DE510', 5, ['B', 'D', '8', 'D', 'E', '5', '1', '0'],
            ('B', 'D', '8', 'D', 'E', '5', '1', '0'), 'BD8DE5１０',
            'BC8DE510', '11001510']
SRC_WORDS = [
    ('20da0010', '00010203', 'abcd0005'),
    ('20DA0010', '0001FF44', 'ABCD0077'),
    ('60d20020', 'ffffffff', '55550000'),
    ('160d2000', '00000001', 'abcd0000'),
    ('0badc0de', '00000001', 'abcd0000'),
    ('12345678', '00000003', 'abcd0001'),
    ('23abcdef', '12345678', '9abcdef0'),
    ('00000000', '00000000', '00000000'),
    ('zzzzzzzz', '00000000', '00000000'),
    ('20da0010', '0000000', 'abcd0005'),
    ('20da0010', '00010203', 'abcd00055'),
    ('20da0010', '00010203', '00bb0000'),
    ('20da0010', '00010203', '00cc0000'),
    ('20da0010', '00010203', '00dd0001'),
    ('20da0010', '00010203', '00ee0103'),
    ('20da0010', '000102ff', '11110011'),
    (None, '00010203', 'abcd0005'),
    ('20da0010', None, 'abcd0005'),
    ('20da0010', '00010203', None),
    (b'20da0010', b'00010203', b'abcd0005'),
    ('20da0010', '00_10_01', 'abcd_5_5'),
    (5, 6, 7),
]


def cache_state():
    return [(k, None if v is None else getattr(v, '__name__', repr(v)))
            for k, v in osrc.osrcParsers.items()]


def run_soe500():
    for rc in REFCODES:
        for w in SRC_WORDS:
            show('soe500', soe500.parseSRCToJson, rc, 'w2', 'w3', 'w4', 'w5',
                 w[0], w[1], w[2], 'w9')
    show('soe500-kw', soe500.parseSRCToJson, refcode='BD8DE510', word2='2',
         word3='3', word4='4', word5='5', word6='20da0010', word7='00010203',
         word8='abcd0005', word9='9')
    show('soe500-short', soe500.parseSRCToJson, 'BD8DE510')


OSRC_REFCODES = [
    'BD8DE510', 'BD8DE500', 'BD8De511', 'BD8DAA00', 'BD8DAa01', 'BD8Daa02',
    'BD8DBB01', 'BD8DCC00', 'BD8DDD00', 'BD8DEE00', 'BD8DFF00', 'BD8D1100',
    'BD8D3300', 'BD8D4400', 'BD8D4401', 'BD8D4402', 'BD8D4403', 'BD8D4404',
    'BD8D4405', 'BD8D5500', 'BD8D5510', 'BD8D6600', 'BD8D7700', 'BD8D8800',
    'BD8D9900', 'BC8A1234', 'BCxx', 'BC', 'bc8a1234', 'Bc8a1234', 'B', '',
    'BD8D', 'BD8D.', 'BD8D..', 'BD8D/.', 'BD8D\x00\x00', 'BD8D  ', 'BD8D..zz',
    'bd8de510', 'BD8DE510' + ' ' * 24, 'BD8DAA00' + ' ' * 24, None, 5,
    b'BD8DE510', b'BC8DE510', ['B', 'D'], ('B', 'C', '1', '2', 'A', 'A'),
    'BD8D\xc4\xd600', 'BD8Dİx00', 'BD8DOS00', 'BD8D0000', 'BD8Dos00',
    '11002200', '1100AA00', 'BD8DSR00', 'BD8DE5', 'BCAAAA00',
    'BD8D\U0001d400A', 'BD8D__00', 'BD8D-100', 'BD8D 100',
]


def run_osrc():
    rng = random.Random(seed + 2)
    show('osrc-cache0', cache_state)
    seq = list(OSRC_REFCODES) + [rng.choice(OSRC_REFCODES) for _ in range(400)]
    for rc in seq:
        w = rng.choice(SRC_WORDS)
        show('osrc', osrc.parseSRCToJson, rc, 'w2', 'w3', 'w4', 'w5',
             w[0], w[1], w[2], 'w9')
        show('osrc-cache', cache_state)
    show('osrc-kw', osrc.parseSRCToJson, refcode='BD8DAA00', word2='2',
         word3='3', word4='4', word5='5', word6='6', word7='7', word8='8',
         word9='9')
    show('osrc-short', osrc.parseSRCToJson, 'BD8DAA00')
    show('osrc-short-missing', osrc.parseSRCToJson, 'BD8DZZ00')
    # pre-seeded / externally modified cache
    osrc.osrcParsers['srcparsers.oaa00.oaa00'] = None
    show('osrc-poisoned', osrc.parseSRCToJson, 'BD8DAA00', *'23456789')
    osrc.osrcParsers.clear()
    show('osrc-cleared', osrc.parseSRCToJson, 'BD8DAA00', *'23456789')
    show('osrc-cleared', osrc.parseSRCToJson, 'BD8DCC00', *'23456789')
    osrc.osrcParsers['srcparsers.occ00.occ00'] = soe500
    show('osrc-redirected', osrc.parseSRCToJson, 'BD8DCC10', '2', '3', '4',
         '5', '20da0010', '00010203', 'abcd0005', '9')
    show('osrc-cache', cache_state)
    import types

    def public(mod):
        # public names defined by the module itself (imports are no API)
        return sorted(
            n for n, v in vars(mod).items()
            if not n.startswith('_') and not isinstance(v, types.ModuleType)
            and getattr(v, '__module__', mod.__name__) == mod.__name__)
    show('public', lambda: public(osrc))
    show('public', lambda: public(soe500))
    show('public', lambda: public(parserdata))
    show('public', lambda: sorted(n for n in vars(ParserData)
                                  if not n.startswith('_')))
    import inspect
    for fn in (osrc.parseSRCToJson, soe500.parseSRCToJson,
               ParserData.__init__, ParserData.query_model_ec,
               ParserData.get_attn_desc, ParserData.get_chip_desc,
               ParserData.get_sig_desc, ParserData.get_signature,
               ParserData.get_reg_data):
        show('signature-of ' + fn.__qualname__,
             lambda: str(inspect.signature(fn)))


if what == 'parserdata':
    run_parserdata()
elif what == 'soe500':
    run_soe500()
elif what == 'osrc':
    run_osrc()
print('COUNT', count)
'''


# --------------------------------------------------------------------------
# Binary PEL construction
# --------------------------------------------------------------------------

def hdr(sid, length, ver, subtype, comp):
    return struct.pack('>2sHBBH', sid, length & 0xffff, ver, subtype, comp)


def build_src(refcode, words, wordcount=9, flags=0, sid=b'PS', comp=0xE500):
    body = struct.pack('>BBBBHH', 2, flags, 0, wordcount, 0, 72)
    body += b''.join(struct.pack('>I', w) for w in words)
    body += refcode.encode('latin-1').ljust(32, b' ')[:32]
    return hdr(sid, 8 + len(body), 1, 1, comp) + body


def build_ud(comp, subtype, data, ver=1, sid=b'UD'):
    return hdr(sid, 8 + len(data), ver, subtype, comp) + data


def build_pel(creator=b'O', sections=(), sev=0x40, action=0xA000, eid=0x50000001,
              count=None, comp=0xE500):
    ts = bytes.fromhex('2024031412000000')
    if count is None:
        count = 2 + len(sections)
    ph = hdr(b'PH', 48, 1, 0, comp) + ts + ts + creator + b'\0\0' + \
        bytes([count]) + struct.pack('>IQII', 77, 0x1122, eid, eid)
    uh = hdr(b'UH', 24, 1, 0, comp) + bytes([0x10, 0x03, sev, 0x00]) + \
        b'\0' * 4 + b'\0\0' + struct.pack('>HI', action, 0)
    return ph + uh + b''.join(sections)


def W(a, b, c, w2=0x000000E0, w3=0x2A000000, w4=0, w5=0x02000000, w9=0x99):
    return [w2, w3, w4, w5, a, b, c, w9]


def make_pels(base):
    """Returns {dirname: path}; the PEL files are created below `base`."""
    rng = random.Random(4711)
    dirs = {}

    def mkdir(name):
        d = os.path.join(base, name)
        os.makedirs(d)
        dirs[name] = d
        return d

    sig_words = [
        (0x20da0010, 0x00010203, 0xabcd0005), (0x20da0010, 0x0001ff44, 0xabcd0077),
        (0x60d20020, 0xffffffff, 0x55550000), (0x160d2000, 0x00000001, 0xabcd0000),
        (0x0badc0de, 0x00000001, 0xabcd0000), (0x12345678, 0x00000003, 0xabcd0001),
        (0x23abcdef, 0x12345678, 0x9abcdef0), (0, 0, 0),
        (0x20da0010, 0x00010203, 0x00bb0000), (0x20da0010, 0x00010203, 0x00cc0000),
        (0x20da0010, 0x00010203, 0x00dd0001), (0x20da0010, 0x00010203, 0x00ee0103),
        (0x20da0010, 0x000102ff, 0x11110011), (0x20da0010, 0x00010201, 0x22220000),
        (0x20da0010, 0x00010202, 0x33330000), (0x20da0010, 0x00010203, 0x44440000),
    ]
    refcodes = ['BD8DE510', 'BD8DE500', 'BD8DE5FF', 'BD8DAA00', 'BD8DBB01',
                'BD8DCC00', 'BD8DDD00', 'BD8DEE00', 'BD8DFF00', 'BD8D1100',
                'BD8D3300', 'BD8D4400', 'BD8D4401', 'BD8D4402', 'BD8D4403',
                'BD8D4404', 'BD8D5510', 'BD8D6600', 'BD8D7700', 'BD8D8800',
                'BD8D9900', 'BC8A1234', 'BC8AE510', '11002200', '1100E510',
                'BD8D..00', 'BD8D  00', 'bd8de510', 'BD8DZZ00', 'B7001234',
                'BD8D\xc4\xd600']

    # -- well formed PELs -------------------------------------------------
    d = mkdir('wellformed')
    n = 0
    for rc in refcodes:
        for sw in (sig_words if rc.startswith('BD8DE5') else sig_words[:2]):
            for creator in (b'O',) if n % 5 else (b'O', b'B', b'H'):
                pel = build_pel(creator, [build_src(rc, W(*sw))])
                with open(os.path.join(d, 'w%04d.pel' % n), 'wb') as f:
                    f.write(pel)
                n += 1
    # different word counts / flags / secondary SRC / user data
    for wc in (0, 1, 2, 5, 6, 7, 8, 9, 10, 255):
        pel = build_pel(b'O', [build_src('BD8DE510', W(*sig_words[0]), wc)])
        with open(os.path.join(d, 'wc%03d.pel' % wc), 'wb') as f:
            f.write(pel)

    def sig_list(entries):
        b = struct.pack('>I', len(entries))
        for a, bb, c in entries:
            b += struct.pack('>III', a, bb, c)
        return b

    def reg_dump(chips):
        b = struct.pack('>I', len(chips))
        for model, cpos, npos, regs in chips:
            b += struct.pack('>IHBI', model, cpos, npos, len(regs))
            for rid, inst, data in regs:
                b += rid.to_bytes(3, 'big') + bytes([inst, len(data)]) + data
        return b

    regs = [(0xabcdef, 0, b'\x01\x02\x03\x04\x05\x06\x07\x08'),
            (0xabcdef, 1, b'\xff' * 4), (0xabcdef, 255, b'\x00'),
            (0x000003, 0, b'\x11' * 8), (0x000004, 0, b'\x22' * 8),
            (0x000006, 0, b'\x33' * 16), (0x000006, 7, b'\x44' * 3),
            (0xffffff, 9, b'')]
    regs += [(0x00000b, i, bytes([i])) for i in range(6)]
    bad_regs = [(0x000001, 0, b'\x01'), (0x000002, 0, b'\x02'),
                (0x000005, 0, b'\x02'), (0x000007, 0, b'\x02'),
                (0x000008, 0, b'\x02'), (0x000009, 0, b'\x02'),
                (0x00000a, 0, b'\x02')]
    uds = [
        build_ud(0xE500, 1, sig_list(sig_words)),
        build_ud(0xE500, 1, sig_list(sig_words[:3])),
        build_ud(0xE500, 1, sig_list(sig_words)[:-3]),
        build_ud(0xE500, 1, struct.pack('>I', 5) + b'\x20\xda\x00\x10'),
        build_ud(0xE500, 2, reg_dump([(0x20da0010, 3, 1, regs),
                                      (0x60d20020, 0xffff, 0xff, regs[:2]),
                                      (0x23abcdef, 0, 0, regs[:1])])),
        build_ud(0xE500, 3, b'{"Callout List": [1, 2]}\0'),
        build_ud(0xE500, 4, bytes(range(24))),
        build_ud(0xE500, 5, bytes(range(8))),
        build_ud(0xE500, 9, b'whatever'),
        build_ud(0xE500, 1, sig_list(sig_words), sid=b'ED'),
    ]
    uds += [build_ud(0xE500, 2, reg_dump([(0x20da0010, 3, 1, [r])]))
            for r in bad_regs]
    for i, ud in enumerate(uds):
        pel = build_pel(b'O', [build_src('BD8DE510', W(*sig_words[i % 8])), ud])
        with open(os.path.join(d, 'ud%03d.pel' % i), 'wb') as f:
            f.write(pel)
    rich = build_pel(b'O', [build_src('BD8DE510', W(*sig_words[0])),
                            uds[0], uds[4],
                            build_src('BD8DE500', W(*sig_words[1]), sid=b'SS'),
                            build_src('BC8A1234', W(*sig_words[2]), sid=b'SS'),
                            build_src('BD8DAA00', W(*sig_words[3]), sid=b'SS')])
    with open(os.path.join(d, 'rich.pel'), 'wb') as f:
        f.write(rich)
    # hidden / informational PELs (filtered out without -E)
    for i, (sev, act) in enumerate([(0x00, 0x0000), (0x00, 0x8000),
                                    (0x40, 0x6000), (0x51, 0xA000),
                                    (0x10, 0x2000)]):
        pel = build_pel(b'O', [build_src('BD8DE510', W(*sig_words[i]))],
                        sev=sev, action=act, eid=0x50000100 + i)
        with open(os.path.join(d, 'sev%d.pel' % i), 'wb') as f:
            f.write(pel)

    # -- truncated ---------------------------------------------------------
    d = mkdir('truncated')
    for cut in list(range(0, len(rich), 7)) + [len(rich) - 1]:
        with open(os.path.join(d, 't%04d.pel' % cut), 'wb') as f:
            f.write(rich[:cut])
    small = build_pel(b'O', [build_src('BD8DE510', W(*sig_words[1]))])
    for cut in range(60, len(small)):
        with open(os.path.join(d, 's%04d.pel' % cut), 'wb') as f:
            f.write(small[:cut])

    # -- corrupted ---------------------------------------------------------
    d = mkdir('corrupted')
    for i in range(150):
        base_pel = bytearray(rng.choice([rich, small]))
        # concentrate the damage on the SRC section (offset 72..152)
        for _ in range(rng.randint(1, 4)):
            lo, hi = rng.choice([(72, 152), (72, 152), (0, len(base_pel))])
            pos = rng.randrange(lo, min(hi, len(base_pel)))
            base_pel[pos] = rng.getrandbits(8)
        with open(os.path.join(d, 'c%04d.pel' % i), 'wb') as f:
            f.write(bytes(base_pel))
    for i in range(120):
        # random but printable refcodes and random words
        alphabet = '0123456789ABCDEFabcdefE5BDC .Zz'
        rc = ''.join(rng.choice(alphabet) for _ in range(8))
        if rng.random() < 0.7:
            rc = rng.choice(['BD8D', 'BC8D', 'BD70', '1100']) + rc[4:]
        if rng.random() < 0.5:
            rc = rc[:4] + rng.choice(['E5', 'e5', 'AA', 'CC', '44']) + rc[6:]
        words = [rng.getrandbits(32) for _ in range(8)]
        if rng.random() < 0.6:
            words[4:7] = rng.choice(sig_words)
        pel = build_pel(rng.choice([b'O', b'O', b'O', b'B', b'X']),
                        [build_src(rc, words, rng.choice([9, 9, 9, 8, 4]),
                                   flags=rng.choice([0, 0, 0, 0x80, 0x04]))])
        with open(os.path.join(d, 'r%04d.pel' % i), 'wb') as f:
            f.write(pel)

    # -- random ------------------------------------------------------------
    d = mkdir('random')
    for i in range(40):
        blob = bytes(rng.getrandbits(8) for _ in range(rng.randint(0, 300)))
        if i % 2:
            blob = small[:72] + blob
        with open(os.path.join(d, 'x%04d.pel' % i), 'wb') as f:
            f.write(blob)
    with open(os.path.join(d, 'notes.txt'), 'w') as f:
        f.write('not a pel\n')

    return dirs


# --------------------------------------------------------------------------
# Running and comparing
# --------------------------------------------------------------------------

def norm_err(text, root):
    text = text.replace(root, '<ROOT>')
    if 'Traceback (most recent call last)' in text:
        # source line numbers of refactored code legitimately move
        text = '\n'.join(l for l in text.split('\n')
                         if not l.startswith(' '))
    return text


def run(cmd, root, cwd, extra_env=None):
    env = {k: v for k, v in os.environ.items()
           if not k.startswith('PYTHON')}
    env['PYTHONPATH'] = os.path.join(root, 'modules')
    env['PYTHONDONTWRITEBYTECODE'] = '1'
    env['PYTHONHASHSEED'] = '0'
    env['PYTHONIOENCODING'] = 'utf-8'
    if extra_env:
        env.update(extra_env)
    p = subprocess.run(cmd, cwd=cwd, env=env, stdout=subprocess.PIPE,
                       stderr=subprocess.PIPE, timeout=900)
    return (p.returncode, p.stdout.decode('utf-8', 'replace').replace(root, '<ROOT>'),
            norm_err(p.stderr.decode('utf-8', 'replace'), root))


def snapshot(d):
    out = {}
    for r, _, files in os.walk(d):
        for fn in files:
            p = os.path.join(r, fn)
            with open(p, 'rb') as f:
                out[os.path.relpath(p, d)] = hashlib.sha256(f.read()).hexdigest()
    return sorted(out.items())


def main():
    if len(sys.argv) != 3:
        sys.exit(__doc__)
    roots = [os.path.abspath(a) for a in sys.argv[1:3]]
    try:
        # keep the scratch data next to this script if possible
        work = tempfile.mkdtemp(prefix='diffcheck_R17_',
                                dir=os.path.dirname(os.path.abspath(__file__)))
    except OSError:
        work = tempfile.mkdtemp(prefix='diffcheck_R17_')
    failures = []
    cases = 0
    try:
        datasets = make_datasets(os.path.join(work, 'data'))
        fake_all = os.path.join(work, 'fake_all')
        make_fakes(fake_all)
        fake_few = os.path.join(work, 'fake_few')
        make_fakes(fake_few, names=('oaa00',))
        driver = os.path.join(work, 'driver.py')
        with open(driver, 'w', encoding='utf-8') as f:
            f.write(DRIVER)

        # ---- API level jobs ---------------------------------------------
        jobs = []
        for opt in ([], ['-O']):
            for ds in datasets:
                whats = ['parserdata', 'soe500'] if ds in ('good', 'empty', 'dup') \
                    else ['soe500', 'parserdata']
                for what in whats:
                    jobs.append(('api', opt, ds, fake_all, what))
            for fk in (fake_all, fake_few, '-'):
                for ds in ('good', 'empty', 'badjson'):
                    jobs.append(('api', opt, ds, fk, 'osrc'))

        def do_api(job):
            _, opt, ds, fk, what = job
            res = []
            for root in roots:
                cmd = [PY] + opt + [driver, root, datasets[ds], fk, '1234', what]
                res.append(run(cmd, root, work))
            return job, res

        # ---- CLI level jobs ---------------------------------------------
        trees = []
        for i, root in enumerate(roots):
            t = os.path.join(work, 'tree%d' % i)
            shutil.copytree(os.path.join(root, 'modules'),
                            os.path.join(t, 'modules'),
                            ignore=shutil.ignore_patterns('__pycache__'))
            ddir = os.path.join(t, 'modules', 'pel', 'hwdiags', 'data')
            for fn in sorted(os.listdir(datasets['good'])):
                if fn.endswith('.json'):
                    shutil.copy(os.path.join(datasets['good'], fn), ddir)
            sdir = os.path.join(t, 'modules', 'srcparsers')
            for fn in sorted(os.listdir(fake_all)):
                shutil.copytree(os.path.join(fake_all, fn),
                                os.path.join(sdir, fn))
            trees.append(t)
        pels = make_pels(os.path.join(work, 'pels'))

        cli_jobs = []
        for name, d in pels.items():
            for opts in (['-a'], ['-a', '-E'], ['-a', '-E', '-r'],
                         ['-a', '-E', '-P'], ['-l', '-E'], ['-n', '-E'],
                         ['-a', '-E', '-x'], ['-a', '-H', '-S', 'Informational'],
                         ['-a', '-E', '-e', '.pel'], ['--src', 'BD8DE510'],
                         ['--plid', '0x50000001'], ['-i', '0x50000001']):
                cli_jobs.append(('cli', [], ['-p', d] + opts))
            cli_jobs.append(('cli', ['-O'], ['-p', d, '-a', '-E']))
            cli_jobs.append(('cli', ['-O'], ['-p', d, '-a', '-E', '-r']))
            cli_jobs.append(('clij', [], d))
        # single file mode for a subset
        singles = []
        for name, d in pels.items():
            files = sorted(os.listdir(d))
            step = {'wellformed': 1, 'truncated': 6, 'corrupted': 5,
                    'random': 8}[name]
            singles += [os.path.join(d, f) for f in files[::step]]
        for p in singles:
            cli_jobs.append(('cli', [], ['-f', p]))
        for p in singles[::4]:
            cli_jobs.append(('cli', [], ['-f', p, '-P']))
            cli_jobs.append(('cli', ['-O'], ['-f', p]))
            cli_jobs.append(('cli', [], ['-f', p, '-x']))

        def do_cli(job):
            kind, pyopt, args = job
            res = []
            for t in trees:
                tool = os.path.join(t, 'modules', 'pel', 'peltool', 'peltool.py')
                if kind == 'cli':
                    res.append(run([PY] + pyopt + [tool] + args, t, work))
                else:
                    outd = tempfile.mkdtemp(prefix='out', dir=work)
                    r = run([PY, tool, '-p', args, '-j', '-E', '-o', outd],
                            t, work)
                    res.append(r + (snapshot(outd), snapshot(args)))
                    shutil.rmtree(outd)
            return job, res

        with concurrent.futures.ThreadPoolExecutor(max_workers=8) as ex:
            results = list(ex.map(do_api, jobs))
            results += list(ex.map(do_cli, cli_jobs))

        for job, (a, b) in results:
            if job[0] == 'api':
                la, lb = a[1].split('\n'), b[1].split('\n')
                if a[0] != 0 or not a[1].rstrip().split('\n')[-1].startswith('COUNT'):
                    failures.append((job, 'driver failed on pristine: rc=%s %s'
                                     % (a[0], a[2][-2000:])))
                    continue
                cases += len([l for l in la if ' => ' in l])
                if a != b:
                    detail = ''
                    for x, y in zip(la, lb):
                        if x != y:
                            detail = 'pristine: %s\npatched : %s' % (x[:600], y[:600])
                            break
                    if not detail:
                        detail = 'rc %s/%s stderr %r / %r' % (a[0], b[0],
                                                              a[2][-800:], b[2][-800:])
                    failures.append((job, detail))
            else:
                cases += 1
                if a != b:
                    failures.append((job, 'pristine: %r\npatched : %r'
                                     % (tuple(str(x)[-700:] for x in a),
                                        tuple(str(x)[-700:] for x in b))))
    finally:
        if os.environ.get('DIFFCHECK_KEEP'):
            print('work dir kept:', work)
        else:
            shutil.rmtree(work, ignore_errors=True)

    if failures:
        for job, detail in failures[:25]:
            print('DIFFERENT', job)
            print(detail)
        print('DIFFERENT (%d of %d cases/jobs differ)' % (len(failures), cases))
        sys.exit(1)
    print('IDENTICAL (%d cases)' % cases)
    sys.exit(0)


if __name__ == '__main__':
    main()
