#!/usr/bin/env python3
"""
Differential check for refactorings of modules/io_drawer/*.py.

Usage: diffcheck.py <pristine_root> <patched_root>

The script generates fixture files (header files, trace string files, hex
dump files, binary PELs), then exercises both source trees in separate
subprocesses (PYTHONPATH=<root>/modules), with and without `python -O`:

  * an in-process driver that calls the io_drawer API (and the m2c00 user data
    parser that sits on top of it) with many well-formed, truncated, corrupted
    and random inputs and prints a repr of every result / exception / object
    state,
  * the io_drawer/dump.py command line script,
  * the peltool command line with PELs that contain I/O drawer user data.

Exits 0 and prints "IDENTICAL (<n> cases)" if all outputs are identical.
"""

import os
import random
import shutil
import struct
import subprocess
import sys
import tempfile

PYTHON = sys.executable

# --------------------------------------------------------------------------
# Driver that runs inside each source tree
# --------------------------------------------------------------------------

DRIVER = r'''
import io
import json
import os
import random
import struct
import sys

ROOT = sys.argv[1]
FIX = sys.argv[2]

from io_drawer import utils, hlog, ilog, trace, dump, drawer_type
from io_drawer.drawer_type import MEX_DRAWER_TYPE, NIMITZ_DRAWER_TYPE
from pel.datastream import DataStream
from udparsers.m2c00 import m2c00

N = 0


def norm(text):
    return text.replace(ROOT, '<ROOT>')


def emit(name, value):
    global N
    N += 1
    print(norm(f'CASE {N} {name}: {value!r}'))


def call(name, func, *args, **kwargs):
    """Calls func; emits result or exception.  Returns result (or None)."""
    try:
        result = func(*args, **kwargs)
    except BaseException as e:
        emit(name, ('EXC', type(e).__name__, str(e)))
        return None
    emit(name, ('OK', result))
    return result


def mv(b):
    return memoryview(bytes(b))


def state(obj):
    """Returns a printable version of the instance attributes of obj."""
    out = []
    for key in sorted(vars(obj)):
        val = getattr(obj, key)
        if isinstance(val, memoryview):
            val = ('mv', val.tobytes())
        out.append((key, val))
    return out


rnd = random.Random(20240917)


def rbytes(n):
    return bytes(rnd.getrandbits(8) for _ in range(n))


HEADER_FILES = [MEX_DRAWER_TYPE.get_header_file_path(),
                NIMITZ_DRAWER_TYPE.get_header_file_path()]
STRING_FILES = [MEX_DRAWER_TYPE.get_trace_string_file_path(),
                NIMITZ_DRAWER_TYPE.get_trace_string_file_path()]
FIX_HEADERS = sorted(os.path.join(FIX, f) for f in os.listdir(FIX)
                     if f.startswith('hdr_'))
FIX_STRINGS = sorted(os.path.join(FIX, f) for f in os.listdir(FIX)
                     if f.startswith('str_'))
FIX_DUMPS = sorted(os.path.join(FIX, f) for f in os.listdir(FIX)
                   if f.startswith('dump_'))
MISSING = os.path.join(FIX, 'does_not_exist')

# -------------------------------------------------------------------- utils
for rep in range(2):
    vals = list(range(-3, 0x10004))
    emit('format_timestamp.sample',
         '|'.join(utils.format_timestamp(v) for v in vals[::37]))
import hashlib
h = hashlib.sha256()
for v in range(-3, 0x10004):
    h.update(utils.format_timestamp(v).encode())
emit('format_timestamp.sha', h.hexdigest())
for v in (True, False, 10**9, -10**9, 3599, 3600, 3601, 59, 60, 61, 65534,
          65535, 65536):
    call(f'format_timestamp({v!r})', utils.format_timestamp, v)
for v in (1.5, 3600.0, '12', None, b'1'):
    call(f'format_timestamp({v!r})', utils.format_timestamp, v)

# -------------------------------------------------------------- drawer_type
for dt in drawer_type.DRAWER_TYPES:
    emit('drawer_type', state(dt))
    call('get_header_file_path', dt.get_header_file_path)
    call('get_trace_string_file_path', dt.get_trace_string_file_path)
dt = drawer_type.DrawerType('x', 'a/b.h', '../c', 9)
emit('drawer_type.custom', state(dt))
call('custom.get_header_file_path', dt.get_header_file_path)
call('custom.get_trace_string_file_path', dt.get_trace_string_file_path)

# --------------------------------------------------------------------- hlog
for path in HEADER_FILES + FIX_HEADERS + [MISSING, FIX]:
    for rep in range(2):
        call(f'get_hlog_fields({os.path.basename(path)})',
             hlog.get_hlog_fields, path)

hlog_datas = [b'', b'\x00', b'\x01', b'\x00' * 64, b'\xff' * 64,
              bytes(range(256))]
for n in (1, 2, 3, 5, 8, 15, 16, 17, 31, 33, 64, 100, 127, 200, 300):
    hlog_datas.append(rbytes(n))
    sparse = bytearray(n)
    for _ in range(max(1, n // 8)):
        sparse[rnd.randrange(n)] = rnd.getrandbits(8)
    hlog_datas.append(bytes(sparse))
for path in HEADER_FILES + FIX_HEADERS + [MISSING]:
    for d in hlog_datas:
        call(f'parse_hlog_data({os.path.basename(path)},{len(d)})',
             hlog.parse_hlog_data, mv(d), path)
call('parse_hlog_data(bytes)', hlog.parse_hlog_data, b'\x01\x02\x03',
     HEADER_FILES[0])
call('parse_hlog_data(None)', hlog.parse_hlog_data, None, HEADER_FILES[0])
call('parse_hlog_data(str)', hlog.parse_hlog_data, 'abc', HEADER_FILES[0])
emit('HistoryLogField', hlog.HistoryLogField('n', 2))

# --------------------------------------------------------------------- ilog
PTES = [0, 1, 0x01000000, 0x010000DE, 0x01040000, 0x100100AB, 0x0200ABCD,
        0xE2082690, 0xE20C2690, 0xE2042690, 0xE0040000, 0xE0000000,
        0xF0040000, 0xD0040000, 0xE00C0000, 0xFFFFFFFF, 0x7FFFFFFF,
        0x80000000, 0x12345678, 0xE2345678, 0xE2385678, -1, 0x1FFFFFFFF,
        0x41424344, 0x25642564]
for _ in range(40):
    PTES.append(rnd.getrandbits(32))
    PTES.append(0xE0000000 | rnd.getrandbits(28))

ENTRY_SPECS = [
    ('01040000', 'Power on complete', (), 'states.cpp', 601),
    ('100100**', 'PS%d - Faults Cleared', (4,), 'mps.cpp', 759),
    ('0200****', 'This PEROM level = %c%c', (3, 4), 'states.cpp', 254),
    ('E2082690', 'P1 IO Bay VRM in "N-Mode"', (), 'vrm_monitor.cpp', 145),
    ('E20826**', 'Err %02X', (4,), 'a.cpp', 1),
    ('e2******', 'lower %x %x %x', (2, 3, 4), 'a.cpp', 2),
    ('********', 'any %d %d %d %d', (1, 2, 3, 4), 'a.cpp', 3),
    ('********', 'too few %d %d', (1,), 'a.cpp', 4),
    ('********', 'too many %d', (1, 2), 'a.cpp', 5),
    ('********', 'out of range %d %d', (0, 1, 5, 4, -1, 9), 'a.cpp', 6),
    ('*******', 'short pattern', (), 'a.cpp', 7),
    ('*********', 'long pattern', (), 'a.cpp', 8),
    ('E.0[4C]0000', 'regex chars %s', (2,), 'a.cpp', 9),
    ('', 'empty pattern', (), 'a.cpp', 10),
    ('-0000001', 'negative', (), 'a.cpp', 11),
    ('4142****', 'percent %% %c%c', (1, 2), 'a.cpp', 12),
    ('1FFFFFFFF', 'nine digits', (4,), 'a.cpp', 13),
    ('E2*8****', 'bad format %q %d', (3,), 'a.cpp', 14),
    ('E0******', 'list params %d', [4], 'a.cpp', 15),
    ('E0******', None, (), 'a.cpp', 16),
    ('E*******', 7, (1,), 'a.cpp', 17),
    ('E*******', b'bytes %d', (1,), 'a.cpp', 18),
]
for spec in ENTRY_SPECS:
    try:
        e = ilog.PTETableEntry(*spec)
    except BaseException as ex:
        emit(f'PTETableEntry{spec!r}', ('EXC', type(ex).__name__, str(ex)))
        continue
    emit(f'PTETableEntry{spec!r}',
         [(k, v) for (k, v) in state(e) if k != 'pte_re'] +
         [e.pte_re.pattern, e.pte_re.flags])
    for pte in PTES:
        for rep in range(2):
            call(f'get_message({pte:#x})', e.get_message, pte)
        call(f'matches({pte:#x})', e.matches, pte)
        call(f'_is_exact_match({pte:#x})', e._is_exact_match, pte)
        call(f'_is_reported_error_pte({pte:#x})', e._is_reported_error_pte,
             pte)
    for bad in (None, 1.5, 'E2082690'):
        call(f'get_message({bad!r})', e.get_message, bad)
        call(f'matches({bad!r})', e.matches, bad)
for bad_spec in [('(', 'm', (), 'f', 1), ('0*', 'm', (1, 'x'), 'f', 1),
                 (None, 'm', (), 'f', 1), ('0*', 'm', None, 'f', 1),
                 ('0*', 'm', 3, 'f', 1)]:
    call(f'PTETableEntry{bad_spec!r}',
         lambda: state(ilog.PTETableEntry(*bad_spec))[:5])


def table_state(t):
    return [(e.pte_pattern, e.message_format, e.params, e.file, e.line,
             e.pte_re.pattern) for e in t.entries]


tables = {}
for path in HEADER_FILES + FIX_HEADERS + [MISSING, FIX]:
    for rep in range(2):
        try:
            t = ilog.PTETable(path)
        except BaseException as ex:
            emit(f'PTETable({os.path.basename(path)})',
                 ('EXC', type(ex).__name__, str(ex)))
            continue
        emit(f'PTETable({os.path.basename(path)})',
             (norm(t.header_file_path), table_state(t)))
        tables[path] = t
for path, t in sorted(tables.items()):
    for pte in PTES:
        e = t.get_entry(pte)
        emit(f'get_entry({os.path.basename(path)},{pte:#x})',
             None if e is None else (t.entries.index(e), e.get_message(pte)))
    # _parse_header_file again appends entries again
    before = len(t.entries)
    call('_parse_header_file', t._parse_header_file)
    emit('entries after reparse', (before, len(t.entries)))

t = ilog.PTETable(FIX_HEADERS[0])
del t.entries[:]
ADD_FIELDS = [
    ('0200****', ' PEROM level = %c%c  ', '3, 4', 'states.cpp', '254'),
    ('E2082690', r'in \"N-Mode\" ', '', 'vrm.cpp', '145'),
    ('01******', 'x', '1,2,3,4,5,0,12', 'f', '007'),
    ('01******', 'x', ' 4 , 3 ', 'f', ' 7 '),
    ('01******', 'x', '4', 'f', 'abc'),
    ('01******', 'x', '4', 'f', ''),
    ('01******', 'x', '4', 'f'),
    ('01******', 'x', '4', 'f', '1', 'extra'),
    (),
    ('(', 'x', '4', 'f', '1'),
    ('01******', None, '4', 'f', '1'),
    ('01******', 'x', None, 'f', '1'),
    ('01******', 'x', '4', 'f', None),
    ('01******', 'x', ['1', '22', 'x'], 'f', 5),
    ['01******', 'lst', '2', 'f', '8'],
]
for fields in ADD_FIELDS:
    call(f'_add_entry({fields!r})', t._add_entry, fields)
    emit('entries', table_state(t))


def ilog_entry(ts, seq, pte):
    return struct.pack('>HHI', ts & 0xFFFF, seq & 0xFFFF, pte & 0xFFFFFFFF)


ilog_datas = [b'', b'\x00' * 8, b'\x00' * 7, b'\x00' * 9, b'\x00' * 24,
              ilog_entry(0x8ADF, 0x0F19, 0x010000DE) +
              ilog_entry(0x8D47, 0x1024, 0x01040000),
              ilog_entry(0, 0, 1), ilog_entry(0, 1, 0), ilog_entry(1, 0, 0),
              ilog_entry(0xFFFF, 0xFFFF, 0xFFFFFFFF),
              ilog_entry(0xFFFE, 0xFFFF, 0xE2082690),
              ilog_entry(0xFFFE, 0xFFFF, 0xE20C2690)]
big = b''
for i, pte in enumerate(PTES):
    big += ilog_entry(rnd.getrandbits(16), i, pte)
ilog_datas.append(big)
for cut in (1, 3, 4, 7, 8, 9, 15, 17, 100, 101):
    ilog_datas.append(big[:cut])
    ilog_datas.append(big[cut:])
for n in (5, 8, 16, 40, 64, 333):
    ilog_datas.append(rbytes(n))
mixed = bytearray(big)
for i in range(0, len(mixed), 24):
    mixed[i:i + 8] = b'\x00' * 8
ilog_datas.append(bytes(mixed))
for path in HEADER_FILES + FIX_HEADERS + [MISSING]:
    for d in ilog_datas:
        for rep in range(2):
            call(f'parse_ilog_data({os.path.basename(path)},{len(d)})',
                 ilog.parse_ilog_data, mv(d), path)
call('parse_ilog_data(bytes)', ilog.parse_ilog_data, big[:32],
     HEADER_FILES[0])
call('parse_ilog_data(None)', ilog.parse_ilog_data, None, HEADER_FILES[0])
emit('ilog consts', (ilog.ILOG_ENTRY_SIZE, ilog.ERROR_MASK, ilog.ERROR_VALUE,
                     ilog.REPORTED_MASK, ilog.REPORTED_VALUE,
                     ilog.TBL_START_RE.pattern, ilog.TBL_ENTRY_RE.pattern,
                     ilog.TBL_END_RE.pattern))

# -------------------------------------------------------------------- trace
ARGS = [(), (1,), (1, 2), (1, 2, 3), (1, 2, 3, 4), (1, 2, 3, 4, 5),
        (0xFFFFFFFF, 0, 65, 66, 67), ('a',), (None,), [1, 2], 5, None,
        {'a': 1}]
FORMATS = ['plain', 'one %d', 'two %d %x', 'hex 0x%X 0x%02X', 'pct 100%%',
           '%c%c', '%s and %s', '%u.%02u%%', 'bad %q', '%(a)s', '%d %d %d %d %d',
           '', '%', '%5d|%-5d|%05d', None, 7, b'bytes %d']
for fmt in FORMATS:
    ts = trace.TraceString(12345678, fmt, 'file.cpp(123)')
    emit('TraceString', state(ts))
    for a in ARGS:
        call(f'TraceString({fmt!r}).get_message({a!r})', ts.get_message, a)
HASHES = [0, 1, 99999, 100000, 100001, 12345678, 12445678, 12345679, 45678,
          345678, 112345678, 32403714, 32503714, 38405017, 3714, 0xFFFFFFFF,
          -1, -54322, 1.0, 45678.0]
for hv in HASHES:
    for other in HASHES:
        try:
            ts = trace.TraceString(hv, 'm', 'l')
            emit(f'match({hv},{other})',
                 (ts.is_match(other), ts.is_partial_match(other)))
        except BaseException as ex:
            emit(f'match({hv},{other})', ('EXC', type(ex).__name__, str(ex)))
for bad in (None, 'x'):
    ts = trace.TraceString(5, 'm', 'l')
    call(f'is_match({bad!r})', ts.is_match, bad)
    call(f'is_partial_match({bad!r})', ts.is_partial_match, bad)


def sf_state(sf):
    return [(t.hash_value, t.message_format, t.location)
            for t in sf.trace_strings]


string_files = {}
for path in STRING_FILES + FIX_STRINGS + [MISSING, FIX]:
    for rep in range(2):
        try:
            sf = trace.TraceStringFile(path)
        except BaseException as ex:
            emit(f'TraceStringFile({os.path.basename(path)})',
                 ('EXC', type(ex).__name__, str(ex)))
            continue
        emit(f'TraceStringFile({os.path.basename(path)})',
             (norm(sf.string_file_path), sf_state(sf)))
        string_files[path] = sf

LOOKUP = list(HASHES[:-4])
for path, sf in sorted(string_files.items()):
    known = [t.hash_value for t in sf.trace_strings]
    sample = known[:5] + known[-5:] + [k + 100000 for k in known[:5]] + \
        [k + 1 for k in known[:3]] + [k % 100000 for k in known[:5]]
    for hv in LOOKUP + sample:
        ts = sf.get_trace_string(hv)
        emit(f'get_trace_string({os.path.basename(path)},{hv})',
             None if ts is None else
             (sf.trace_strings.index(ts), ts.hash_value, ts.location))
sf = trace.TraceStringFile(FIX_STRINGS[0])
del sf.trace_strings[:]
for fields in [(' 123 ', ' msg %d ', ' loc(1) '), ('123', 'a', 'b', 'c'),
               ('123', 'a'), (), ('abc', 'a', 'b'), ('', 'a', 'b'),
               (None, 'a', 'b'), ('1', None, 'b'), ('1', 'a', None),
               ['77', 'x', 'y'], ('1_0', 'a', 'b'), (5, 'a', 'b')]:
    call(f'_add_trace_string({fields!r})', sf._add_trace_string, fields)
    emit('trace_strings', sf_state(sf))
emit('LINE_RE', trace.TraceStringFile.LINE_RE.pattern)
emit('trace consts', (trace.TraceBufferHeader.SIZE,
                      trace.TraceBufferHeader.BUFFER_NAMES,
                      trace.TraceEntry.FIXED_SIZE,
                      trace.TraceEntry.MAX_DATA_LEN,
                      trace.TraceEntry.TYPE_FIELDTRACE,
                      trace.TraceEntry.TYPE_FIELDBIN,
                      trace.TraceEntry.MAX_ARGS))

FT = 0x4654
FB = 0x4644


def tb_header(comp=b'IICS', size=32, ver=2, hdr_len=32, time_flg=1,
              endian=0x42, wrap=0, next_free=32, rsvd=b'\x00' * 4):
    comp = comp.ljust(12, b'\x00')[:12]
    return struct.pack('>BBBB12s4sIII', ver, hdr_len, time_flg, endian, comp,
                       rsvd, size, wrap, next_free)


def tb_entry(tbh, tbl, tag, hash_value, line, data=b'', length=None,
             pad=None, entry_size=None, trailer=True):
    if length is None:
        length = len(data)
    out = struct.pack('>HHHHII', tbh & 0xFFFF, tbl & 0xFFFF, length & 0xFFFF,
                      tag & 0xFFFF, hash_value & 0xFFFFFFFF,
                      line & 0xFFFFFFFF)
    out += data
    if pad is None:
        pad = (4 - (len(data) % 4)) % 4
    out += b'\x00' * pad
    if trailer:
        if entry_size is None:
            entry_size = len(out) + 4
        out += struct.pack('>I', entry_size & 0xFFFFFFFF)
    return out


def args_data(*vals):
    return b''.join(struct.pack('>I', v & 0xFFFFFFFF) for v in vals)


def stream_for(b, order='big', signed=False):
    return DataStream(mv(b), byte_order=order, is_signed=signed)


def try_read(name, obj, stream):
    try:
        rc = obj.read(stream)
    except BaseException as ex:
        emit(name, ('EXC', type(ex).__name__, str(ex), stream.index,
                    state(obj) if not hasattr(obj, 'entries') else None))
        return None
    emit(name, (rc, stream.index,
                state(obj) if not hasattr(obj, 'entries') else None))
    return rc


# TraceBufferHeader.read
hdr_inputs = [tb_header(), tb_header(b'POWR', 1000, 3, 33, 0, 0x4C, 7, 900),
              tb_header(b'ERRL        '), tb_header(b'AB  \x00\x00 \x00'),
              tb_header(b'\xff\xfeIN\x80FO'), tb_header(b'  lead'),
              tb_header(b'ABCDEFGHIJKL', 0xFFFFFFFF, 255, 255, 255, 255,
                        0xFFFFFFFF, 0xFFFFFFFF, b'\xde\xad\xbe\xef'),
              b'\x00' * 32, b'\xff' * 40]
for _ in range(10):
    hdr_inputs.append(rbytes(32 + rnd.randrange(8)))
for i, b in enumerate(hdr_inputs):
    for cut in (len(b), 32, 31, 16, 1, 0):
        for (order, signed) in (('big', False), ('little', False),
                                ('big', True), (None, None)):
            s = stream_for(b[:cut], order, signed)
            try_read(f'Header.read[{i}][:{cut}]{order}{signed}',
                     trace.TraceBufferHeader(), s)
    # non-zero starting index
    s = stream_for(b'\xAA\xBB\xCC' + b)
    s.inc_index(3)
    try_read(f'Header.read[{i}]+3', trace.TraceBufferHeader(), s)
    # re-read using same object
    h = trace.TraceBufferHeader()
    s = stream_for(b + tb_header(b'FANS', 64))
    try_read(f'Header.reread1[{i}]', h, s)
    try_read(f'Header.reread2[{i}]', h, s)
    try_read(f'Header.reread3[{i}]', h, s)
emit('Header.init', state(trace.TraceBufferHeader()))
emit('Entry.init', state(trace.TraceEntry()))
tbuf = trace.TraceBuffer()
emit('Buffer.init', (tbuf.header, tbuf.entries))

# TraceEntry.read
entry_inputs = [
    tb_entry(0x1234, 1, FT, 32403714, 324, args_data(0x2E, 3)),
    tb_entry(0x1234, 2, FT, 32403714, 324),
    tb_entry(0x1234, 3, FB, 999, 1, b'\x01\x02\x03'),
    tb_entry(0x1234, 4, FB, 999, 1, b'\x01\x02\x03\x04\x05'),
    tb_entry(0x1234, 5, FB, 999, 1, b'\x01\x02\x03\x04\x05\x06'),
    tb_entry(0x1234, 6, FB, 999, 1, b'\x01\x02\x03\x04\x05\x06\x07'),
    tb_entry(0x1234, 7, FB, 999, 1, bytes(range(8))),
    tb_entry(0xFFFF, 0xFFFF, 0xFFFF, 0xFFFFFFFF, 0xFFFFFFFF, rbytes(1024)),
    tb_entry(1, 1, FT, 1, 1, rbytes(1025)),
    tb_entry(1, 1, FT, 1, 1, rbytes(1023)),
    tb_entry(1, 1, FT, 1, 1, rbytes(1022)),
    tb_entry(1, 1, FT, 1, 1, rbytes(1021)),
    tb_entry(1, 1, FT, 1, 1, b'', length=1025),
    tb_entry(1, 1, FT, 1, 1, b'', length=0xFFFF),
    tb_entry(1, 1, FT, 1, 1, b'abcd', length=8),
    tb_entry(1, 1, FT, 1, 1, b'abcdefgh', length=4),
    tb_entry(1, 1, FT, 1, 1, b'abc', pad=0),
    tb_entry(1, 1, FT, 1, 1, b'abc', pad=0, trailer=False),
    tb_entry(1, 1, FT, 1, 1, b'abc', pad=1, trailer=False),
    tb_entry(1, 1, FT, 1, 1, b'abcde', pad=2, trailer=False),
    tb_entry(1, 1, FT, 1, 1, b'abcd', trailer=False),
    tb_entry(1, 1, FT, 1, 1, b'abcd', trailer=False) + b'\x00\x00\x00',
    tb_entry(1, 1, FT, 1, 1, b'', trailer=False),
    tb_entry(1, 1, FT, 1, 1, b'', trailer=False) + b'\x00',
    tb_entry(1, 1, FT, 1, 1, b'abcd', entry_size=0),
    tb_entry(1, 1, FT, 1, 1, b'abcd', entry_size=23),
    tb_entry(1, 1, FT, 1, 1, b'abcd', entry_size=25),
    tb_entry(1, 1, FT, 1, 1, b'', entry_size=16),
    tb_entry(1, 1, FT, 1, 1, args_data(1, 2, 3, 4, 5, 6, 7)),
    tb_entry(1, 1, FT, 1, 1, args_data(1, 2, 3, 4, 5) + b'\x09\x08'),
    b'\x00' * 20, b'\x00' * 16, b'\x00' * 15, b'', b'\xff' * 64,
]
for _ in range(15):
    entry_inputs.append(rbytes(rnd.randrange(10, 60)))
for _ in range(15):
    ln = rnd.randrange(0, 24)
    raw = bytearray(tb_entry(rnd.getrandbits(16), rnd.getrandbits(16),
                             rnd.choice([FT, FB, 0]), rnd.getrandbits(32),
                             rnd.getrandbits(20), rbytes(ln)))
    if rnd.random() < 0.5:
        raw[rnd.randrange(len(raw))] ^= 1 << rnd.randrange(8)
    entry_inputs.append(bytes(raw))
entries_ok = []
for i, b in enumerate(entry_inputs):
    cuts = sorted(set([len(b), len(b) - 1, len(b) - 4, len(b) - 5, 17, 16,
                       15]) & set(range(0, len(b) + 1)), reverse=True)
    for cut in cuts:
        for (order, signed) in (('big', False), ('little', False),
                                ('big', True)):
            e = trace.TraceEntry()
            rc = try_read(f'Entry.read[{i}][:{cut}]{order}{signed}', e,
                          stream_for(b[:cut] , order, signed))
            for rep in range(2):
                call(f'Entry.get_args[{i}][:{cut}]', e.get_args)
            call(f'Entry.is_binary_trace[{i}]', e.is_binary_trace)
            if rc and order == 'big' and not signed and cut == len(b):
                entries_ok.append(e)
    e = trace.TraceEntry()
    s = stream_for(b'\x01\x02' + b + b + b'\x00' * 8)
    s.inc_index(2)
    try_read(f'Entry.read[{i}]+2', e, s)
    try_read(f'Entry.reread[{i}]', e, s)
e = trace.TraceEntry()
call('get_args(unread)', e.get_args)
call('is_binary_trace(unread)', e.is_binary_trace)
for tag in (FT, FB, 0, None):
    for data in (None, b'', b'\x00\x00\x00', b'\x00\x00\x00\x01',
                 args_data(1, 2) + b'\x03', args_data(*range(9))):
        e = trace.TraceEntry()
        e.tag = tag
        e.data = None if data is None else mv(data)
        call(f'get_args(tag={tag},data={data!r})', e.get_args)
        e.data = data
        call(f'get_args(tag={tag},bytes={data!r})', e.get_args)

# TraceBuffer.read / parse_trace_data
KNOWN = {}
for path, sf in sorted(string_files.items()):
    KNOWN[path] = [(t.hash_value, t.message_format) for t in sf.trace_strings]


def build_buffer(path, comp=b'IICS', n=12, size_mode='exact', seed=0):
    r = random.Random(seed)
    known = KNOWN.get(path) or [(1234567, 'x')]
    body = b''
    for i in range(n):
        kind = r.choice(['exact', 'exact', 'exact', 'partial', 'none', 'bin',
                         'bin_known', 'short_args', 'long_args', 'noargs'])
        hv, fmt = r.choice(known)
        nargs = fmt.replace('%%', '').count('%')
        vals = [r.choice([0, 1, 2, 65, 0x7F, 0xFF, 0xFFFF, 0xFFFFFFFF,
                          r.getrandbits(32)]) for _ in range(nargs)]
        tag = FT
        data = args_data(*vals)
        if kind == 'partial':
            hv = (hv + 100000 * r.randrange(1, 50)) & 0xFFFFFFFF
        elif kind == 'none':
            hv = r.getrandbits(32)
        elif kind == 'bin':
            tag = FB
            hv = r.getrandbits(32)
            data = bytes(r.getrandbits(8) for _ in range(r.randrange(0, 40)))
        elif kind == 'bin_known':
            tag = FB
            data = bytes(r.getrandbits(8) for _ in range(r.randrange(0, 40)))
        elif kind == 'short_args':
            data = data[:-4] if data else data
        elif kind == 'long_args':
            data = data + args_data(7, 8, 9)
        elif kind == 'noargs':
            data = b''
        body += tb_entry(r.choice([0, 1, 3599, 3600, 0x8ADF, 0xFFFE, 0xFFFF,
                                   r.getrandbits(16)]), i, tag, hv,
                         r.randrange(0, 120000), data)
    total = 32 + len(body)
    size = {'exact': total, 'small': 32 + len(body) // 2, 'zero': 0,
            'huge': 0xFFFFFFFF, 'hdr': 32, 'plus': total + 3}[size_mode]
    return tb_header(comp, size, wrap=r.randrange(5), next_free=total) + body


trace_datas = []
for si, path in enumerate(sorted(string_files)):
    for j, (comp, mode) in enumerate([(b'IICS', 'exact'), (b'POWR', 'small'),
                                      (b'FANS', 'huge'), (b'INFO', 'zero'),
                                      (b'ERRL', 'hdr'), (b'IICM', 'plus'),
                                      (b'XXXX', 'exact')]):
        trace_datas.append((path, build_buffer(path, comp, 10, mode,
                                               seed=si * 100 + j)))
valid0 = trace_datas[0][1]
valid1 = trace_datas[1][1]
extra = [b'', b'\x00', tb_header(), tb_header()[:31], tb_header(size=0),
         tb_header(size=100) + b'\x00' * 10,
         tb_header(size=100) + tb_entry(1, 2, FT, 32403714, 3,
                                        args_data(1, 2)) + b'junkjunk',
         valid0 + valid1, rbytes(31), rbytes(32), rbytes(64), rbytes(500)]
for cut in (33, 40, 47, 48, 49, 52, 60, 61, 62, 63, 64, 100, 150,
            len(valid0) - 1, len(valid0) - 4, len(valid0) - 5):
    extra.append(valid0[:cut])
for k in range(30):
    raw = bytearray(valid0)
    for _ in range(1 + k % 4):
        raw[rnd.randrange(len(raw))] = rnd.getrandbits(8)
    extra.append(bytes(raw))
for b in extra:
    trace_datas.append((STRING_FILES[0], b))
    trace_datas.append((FIX_STRINGS[0], b))
trace_datas.append((MISSING, valid0))
trace_datas.append((MISSING, b''))

for i, (path, b) in enumerate(trace_datas):
    tbuf = trace.TraceBuffer()
    s = stream_for(b)
    rc = try_read(f'Buffer.read[{i}]', tbuf, s)
    emit(f'Buffer.state[{i}]',
         (None if tbuf.header is None else state(tbuf.header),
          [state(e) for e in tbuf.entries]))
    for rep in range(2):
        call(f'parse_trace_data[{i}]({os.path.basename(path)},{len(b)})',
             trace.parse_trace_data, mv(b), path)
call('parse_trace_data(bytes)', trace.parse_trace_data, valid0,
     STRING_FILES[0])
call('parse_trace_data(None)', trace.parse_trace_data, None, STRING_FILES[0])

# _format_trace_entry with hand-made / successfully read entries
for path in [STRING_FILES[0], FIX_STRINGS[0]]:
    sf = string_files[path]
    for i, e in enumerate(entries_ok):
        lines = ['pre']
        call(f'_format_trace_entry[{i}]', trace._format_trace_entry, e, sf,
             lines)
        emit(f'_format_trace_entry.lines[{i}]', lines)
    known = KNOWN[path]
    for hv, fmt in known[:6] + known[-3:]:
        for tag in (FT, FB):
            for data in (None, b'', args_data(1, 2, 3, 4, 5), b'\x01\x02\x03'):
                for delta in (0, 100000):
                    e = trace.TraceEntry()
                    e.tbh, e.tbl, e.line = 0x8ADF, 0xABC, 42
                    e.tag = tag
                    e.hash_value = hv + delta
                    e.data = None if data is None else mv(data)
                    e.length = 0 if data is None else len(data)
                    lines = []
                    call('_format_trace_entry.syn', trace._format_trace_entry,
                         e, sf, lines)
                    emit('_format_trace_entry.syn.lines', lines)
    e = trace.TraceEntry()
    lines = ['keep']
    call('_format_trace_entry.unread', trace._format_trace_entry, e, sf, lines)
    emit('_format_trace_entry.unread.lines', lines)
    e = trace.TraceEntry()
    e.tbh, e.tbl, e.line, e.hash_value, e.tag = 70000, 70000, -5, -7, FT
    e.data = mv(b'\x00\x01')
    lines = []
    call('_format_trace_entry.odd', trace._format_trace_entry, e, sf, lines)
    emit('_format_trace_entry.odd.lines', lines)

# --------------------------------------------------------------------- dump
call('_get_drawer_type_names', dump._get_drawer_type_names)
for name in ('mex', 'nimitz', 'foo', '', None, 'MEX'):
    r = dump._get_drawer_type(name)
    emit(f'_get_drawer_type({name!r})', None if r is None else r.name)
emit('dump consts', (dump.TRACE_BUFFER_HEADER_START,
                     dump.HEX_DUMP_LINE_FORMATS, dump.DIVIDER_LINE))

for path in [HEADER_FILES[0], FIX_HEADERS[0], MISSING]:
    for d in (b'', big[:40], rbytes(20)):
        lines = ['before']
        call('_format_ilog_data', dump._format_ilog_data, mv(d), lines, path)
        emit('_format_ilog_data.lines', lines)
for path in [STRING_FILES[0], FIX_STRINGS[0], MISSING]:
    for d in (b'', valid0, valid0[:50], rbytes(20)):
        lines = ['before']
        call('_format_trace_data', dump._format_trace_data, mv(d), lines, path)
        emit('_format_trace_data.lines', lines)


def tbuf_for(name, seed, path=STRING_FILES[0], n=4):
    return build_buffer(path, name, n, 'exact', seed)


dump_datas = [b'', b'\x00', big, big[:33], rbytes(100),
              big + tbuf_for(b'IICS', 1),
              big + tbuf_for(b'IICS', 1) + tbuf_for(b'IICM', 2) +
              tbuf_for(b'POWR', 3) + tbuf_for(b'FANS', 4) +
              tbuf_for(b'INFO', 5) + tbuf_for(b'ERRL', 6),
              big[:64] + tbuf_for(b'ERRL', 6) + tbuf_for(b'IICS', 1) +
              tbuf_for(b'FANS', 4),
              tbuf_for(b'POWR', 3),
              tbuf_for(b'POWR', 3) + tbuf_for(b'POWR', 7),
              big[:16] + tbuf_for(b'IICS', 1) + tbuf_for(b'IICS', 8) +
              tbuf_for(b'INFO', 5),
              big[:13] + tbuf_for(b'INFO', 5) + b'\x01\x02\x03',
              big[:16] + tbuf_for(b'ZZZZ', 9) + tbuf_for(b'INFO', 5),
              big[:16] + b'\x02\x20\x01\x42IIC' + tbuf_for(b'INFO', 5),
              big[:16] + b'\x02\x20\x01\x42FANS',
              b'\x02\x20\x01\x42ERRL' + b'\x02\x20\x01\x42IICS',
              b'\x02\x20\x01\x42' * 10]
full = dump_datas[6]
for cut in (len(big) + 5, len(big) + 32, len(big) + 40, len(full) // 2,
            len(full) - 1, len(full) - 7):
    dump_datas.append(full[:cut])
for k in range(25):
    raw = bytearray(full)
    for _ in range(1 + k % 5):
        raw[rnd.randrange(len(raw))] = rnd.getrandbits(8)
    dump_datas.append(bytes(raw))
for i, d in enumerate(dump_datas):
    for (hf, sfp) in ((HEADER_FILES[0], STRING_FILES[0]),
                      (HEADER_FILES[1], STRING_FILES[1]),
                      (FIX_HEADERS[0], FIX_STRINGS[0])):
        for rep in range(2):
            call(f'parse_dump_data[{i}]', dump.parse_dump_data, mv(d), hf,
                 sfp)
    call(f'parse_dump_data[{i}].missing_hdr', dump.parse_dump_data, mv(d),
         MISSING, STRING_FILES[0])
    call(f'parse_dump_data[{i}].missing_str', dump.parse_dump_data, mv(d),
         HEADER_FILES[0], MISSING)
call('parse_dump_data(bytes)', dump.parse_dump_data, full, HEADER_FILES[0],
     STRING_FILES[0])
call('parse_dump_data(bytearray)', dump.parse_dump_data, bytearray(full),
     HEADER_FILES[0], STRING_FILES[0])
call('parse_dump_data(None)', dump.parse_dump_data, None, HEADER_FILES[0],
     STRING_FILES[0])

for path in FIX_DUMPS + [MISSING, FIX]:
    for (hf, sfp) in ((HEADER_FILES[0], STRING_FILES[0]),
                      (HEADER_FILES[1], STRING_FILES[1]),
                      (FIX_HEADERS[0], FIX_STRINGS[0]),
                      (MISSING, STRING_FILES[0]),
                      (HEADER_FILES[0], MISSING)):
        for rep in range(2):
            call(f'parse_dump_file({os.path.basename(path)})',
                 dump.parse_dump_file, path, hf, sfp)

# parse_args / main in-process
import contextlib


def run_with_argv(func, argv):
    out, err = io.StringIO(), io.StringIO()
    old = sys.argv
    sys.argv = ['dump.py'] + argv
    try:
        with contextlib.redirect_stdout(out), contextlib.redirect_stderr(err):
            try:
                res = ('OK', func())
            except SystemExit as ex:
                res = ('EXIT', ex.code)
            except BaseException as ex:
                res = ('EXC', type(ex).__name__, str(ex))
    finally:
        sys.argv = old
    return (res, out.getvalue(), err.getvalue())


ARGVS = [[], ['d'], ['d', '-t', 'mex'], ['d', '-t', 'nimitz'],
         ['d', '-t', 'foo'], ['-t', 'mex'], ['d', '--drawer-type', 'mex',
                                              '-d', 'H', '-s', 'S'],
         ['d', '-t', 'mex', '--header-file', 'H'],
         ['d', '-t', 'nimitz', '--string-file', 'S'],
         ['d', '-t', 'mex', '-d', '', '-s', ''], ['d', 'e', '-t', 'mex'],
         ['-h'], ['d', '-t', 'mex', '-x']]
for argv in ARGVS:
    emit(f'parse_args({argv!r})', run_with_argv(dump.parse_args, argv))
for path in FIX_DUMPS[:4] + [MISSING]:
    for argv in ([path, '-t', 'mex'], [path, '-t', 'nimitz'],
                 [path, '-t', 'mex', '-d', MISSING],
                 [path, '-t', 'mex', '-s', MISSING],
                 [path, '-t', 'mex', '-d', FIX_HEADERS[0], '-s',
                  FIX_STRINGS[0]]):
        emit(f'main({[os.path.basename(a) for a in argv]!r})',
             run_with_argv(dump.main, argv))

# -------------------------------------------------------------------- m2c00
ud_datas = [b'', big[:48], big, valid0, valid0[:70], rbytes(50), b'\x00' * 16,
            hlog_datas[-1], hlog_datas[5]]
for sub_type in (72, 73, 84, 0, 1):
    for version in (1, 2, 3, 0):
        for d in ud_datas:
            for rep in range(2):
                call(f'parseUDToJson({sub_type},{version},{len(d)})',
                     m2c00.parseUDToJson, sub_type, version, mv(d))

print(f'TOTAL {N}')
'''


# --------------------------------------------------------------------------
# Fixture generation
# --------------------------------------------------------------------------

FT = 0x4654
FB = 0x4644


def tb_header(comp=b'IICS', size=32, ver=2, hdr_len=32, time_flg=1,
              endian=0x42, wrap=0, next_free=32):
    comp = comp.ljust(12, b'\x00')[:12]
    return struct.pack('>BBBB12s4sIII', ver, hdr_len, time_flg, endian, comp,
                       b'\x00' * 4, size, wrap, next_free)


def tb_entry(tbh, tbl, tag, hash_value, line, data=b''):
    out = struct.pack('>HHHHII', tbh, tbl, len(data), tag, hash_value, line)
    out += data + b'\x00' * ((4 - (len(data) % 4)) % 4)
    out += struct.pack('>I', len(out) + 4)
    return out


def args_data(*vals):
    return b''.join(struct.pack('>I', v & 0xFFFFFFFF) for v in vals)


def ilog_entry(ts, seq, pte):
    return struct.pack('>HHI', ts, seq, pte)


def hexdump_bmc(data: bytes) -> list:
    lines = []
    for i in range(0, len(data), 16):
        chunk = data[i:i + 16]
        words = [chunk[j:j + 4].hex().upper() for j in range(0, len(chunk), 4)]
        text = ''.join(chr(b) if 0x20 <= b < 0x7f else '.' for b in chunk)
        lines.append(f'{i:04X}:  {" ".join(words)}'.ljust(43) + f' <{text}>')
    return lines


def hexdump_prebmc(data: bytes) -> list:
    lines = []
    for i in range(0, len(data), 16):
        chunk = data[i:i + 16]
        text = ''.join(chr(b) if 0x20 <= b < 0x7f else '.' for b in chunk)
        lines.append(' '.join(f'{b:02x}' for b in chunk) + ' ' + text)
    return lines


def make_dump_bytes(rnd) -> bytes:
    data = b''
    ptes = [0x010000DE, 0x01040000, 0x100100AB, 0x0200ABCD, 0xE2082690,
            0xE20C2690, 0, 0x12345678]
    for i, pte in enumerate(ptes):
        if pte == 0:
            data += ilog_entry(0, 0, 0)
        else:
            data += ilog_entry(rnd.getrandbits(16), i, pte)
    for name in (b'IICS', b'POWR', b'ERRL'):
        body = b''
        body += tb_entry(0x1234, 1, FT, 32403714, 324, args_data(0x2E, 3))
        body += tb_entry(0x1235, 2, FT, 32503714, 325, args_data(0x2E, 3))
        body += tb_entry(0x1236, 3, FB, 777, 1, bytes(range(21)))
        body += tb_entry(0x1237, 4, FT, 888, 2, args_data(1))
        body += tb_entry(0x1238, 5, FT, 1001, 10, args_data(5, 6))
        body += tb_entry(0x1239, 6, FT, 2002, 20)
        data += tb_header(name, 32 + len(body), wrap=2,
                          next_free=32 + len(body)) + body
    return data


HDR_FIXTURES = {
    'hdr_0_basic.h': '''\
// comment
#define PTE_TABLE_SIZE 10
static struct pte_entry_struct static_pte_entry_table[PTE_TABLE_SIZE] =
{
  { "01040000", "Power on complete", {}, "states.cpp", 601 },
  { "100100**", "PS%d - Faults Cleared", {4}, "mps.cpp", 759 },
  { "0200****", "This PEROM level = %c%c", {3, 4}, "states.cpp", 254 },
  { "E2082690", "P1 IO Bay VRM in \\"N-Mode\\"", {}, "vrm_monitor.cpp", 145 },
  { "E2******", "  Generic error %02X %02X  ", {3,4}, "err.cpp", 7 },
  { "010000**", "Begin power on, node type = 0x%X", {4}, "states.cpp", 1 },
  { "4142****", "bad params %d %d", {0, 5, 9, 4}, "x.cpp", 12 },
  { "1234****", "too many params", {1, 2}, "x.cpp", 13 },
  { "2564****", "too few %d %d", {1}, "x.cpp", 14 },
  not an entry
  { "badline", "missing fields" },
  { "99******", "no trailing comma", {}, "x.cpp", 15 }
  { ""        , "The End" }
};
  { "77777777", "after the end", {}, "x.cpp", 16 },

struct mex_hlog_field
{
    int size;
    const char* name;
};

static struct mex_hlog_field mex_hlog_fields[MEX_HLOG_FIELD_COUNT] =
{
  { 1, "hl_one" },
  { 2, "hl_two" },
  { 3, "hl_three_invalid" },
  { 1, "hl_a" }, { 1, "hl_two_on_line" },
  { 2, "hl_last" }
};
  { 1, "hl_after_end" },
''',
    'hdr_1_brace_same_line.h': '''\
struct pte_entry_struct static_pte_entry_table[] = {
  { "E0******", "Err %d", {4}, "a.cpp", 1 },
{"0*******","tight",{1,2,3,4},"b.cpp",2},
  { "The End", "not the end", {}, "c.cpp", 3 },
  { "", "The End" }
struct mex_hlog_field mex_hlog_fields[2] = {
  {1,"a"},
     {   2   ,   "b c"   }   ,
  { 2, "" },
  { 1, "z" }
  }  ;
''',
    'hdr_2_two_tables.h': '''\
static struct pte_entry_struct static_pte_entry_table[2] =
  { "0100****", "first table", {}, "a.cpp", 1 },
  { ""        , "The End" }
  { "0200****", "between tables", {}, "a.cpp", 2 },
static struct pte_entry_struct static_pte_entry_table[2] =
  { "0300****", "second table %d", {12}, "a.cpp", 3 },
static struct mex_hlog_field mex_hlog_fields[2] =
  { 1, "in_both" },
  { "0400****", "after hlog start", {}, "a.cpp", 4 },
};
  { "0500****", "after hlog end", {}, "a.cpp", 5 },
  { 2, "outside" },
struct mex_hlog_field mex_hlog_fields[] =
  { 2, "second_array" },
''',
    'hdr_3_empty.h': '',
    'hdr_4_no_tables.h': 'int x;\n\n{ 1, "x" },\n',
    'hdr_5_unterminated.h': '''\
struct pte_entry_struct static_pte_entry_table[] =
  { "E*******", "err", {}, "a.cpp", 1 },
  { "********", "catch all %d.%d.%d.%d", {1,2,3,4}, "a.cpp", 99999999999 },
struct mex_hlog_field mex_hlog_fields[] =
  { 2, "a" },
  { 2, "b" },
  { 1, "c" },
  { 1, "d" }''',
}

STR_FIXTURES = {
    'str_0_basic': '''\
#FSP_TRACE_v2|||Thu Sep 24 12:55:43 2020|||BUILD:Release
32403714||E> ADT7470: Controller 0x%X: Failure count = %d||adt7470_fan_ctl.cpp(324)
  1001  ||  spaced %d and %u  ||  spaced.cpp(10)
2002||no args||noargs.cpp(20)
3003||string %s||str.cpp(30)
4004||percent %d%%||pct.cpp(40)
5005||five %d %d %d %d %d||five.cpp(50)
6006||six %d %d %d %d %d %d||six.cpp(60)
7007||char %c%c||char.cpp(70)
8008||bad %q||bad.cpp(80)
9009||has || inside||inside.cpp(90)
abc||not a number||x.cpp(1)
123|missing separators
||no hash||x.cpp(2)
100777||dup tail||dup1.cpp(1)
200777||dup tail 2||dup2.cpp(2)
777||short hash||short.cpp(7)
4294967295||max||max.cpp(1)

99||||
''',
    'str_1_empty': '',
    'str_2_no_newline': '42||answer %d||deep.cpp(42)',
    'str_3_garbage': '\x00\x01binary\n||||\n1||a||b||c||d\n 5 || x || y \n',
}


def make_pel(creator: bytes, comp: int, sections: list) -> bytes:
    """
    Builds a minimal PEL.  sections is a list of (sub_type, version, data).
    """
    ph = b'PH' + struct.pack('>HBBH', 48, 1, 0, comp)
    ph += bytes.fromhex('2024091712000000') * 2
    ph += creator + b'\x00\x00' + bytes([2 + len(sections)])
    ph += struct.pack('>IQII', 0x50000001, 0, 0x50000001, 0x50000001)
    uh = b'UH' + struct.pack('>HBBH', 24, 1, 0, comp)
    uh += struct.pack('>BBBBIBBHI', 0x20, 3, 0x40, 0, 0, 0, 0, 0x8000, 0)
    out = ph + uh
    for (sub_type, version, data) in sections:
        out += b'UD' + struct.pack('>HBBH', 8 + len(data), version, sub_type,
                                   comp)
        out += data
    return out


def make_fixtures(fix_dir: str):
    rnd = random.Random(4711)
    for name, text in {**HDR_FIXTURES, **STR_FIXTURES}.items():
        with open(os.path.join(fix_dir, name), 'w') as f:
            f.write(text)

    data = make_dump_bytes(rnd)
    dumps = {
        'dump_00_bmc': hexdump_bmc(data),
        'dump_01_prebmc': hexdump_prebmc(data),
        'dump_02_bmc_trunc': hexdump_bmc(data[:len(data) - 21]),
        'dump_03_prebmc_trunc': hexdump_prebmc(data[:77]),
        'dump_04_empty': [],
        'dump_05_garbage': ['hello world', 'this is not a hex dump', ''],
        'dump_06_mixed': (['IO drawer dump', ''] + hexdump_bmc(data[:64]) +
                          ['junk'] + hexdump_prebmc(data[64:128]) +
                          hexdump_bmc(data[128:])),
        'dump_07_prebmc_then_bmc': hexdump_prebmc(data[:48]) +
        hexdump_bmc(data[48:]),
        'dump_08_ilog_only': hexdump_bmc(data[:64]),
        'dump_09_trace_only': hexdump_bmc(data[64:]),
        'dump_10_random': hexdump_bmc(bytes(rnd.getrandbits(8)
                                            for _ in range(400))),
        'dump_11_lowercase': [ln.lower() for ln in hexdump_bmc(data[:200])],
    }
    corrupted = bytearray(data)
    for _ in range(12):
        corrupted[rnd.randrange(len(corrupted))] = rnd.getrandbits(8)
    dumps['dump_12_corrupted'] = hexdump_bmc(bytes(corrupted))
    for name, lines in dumps.items():
        with open(os.path.join(fix_dir, name), 'w') as f:
            for line in lines:
                f.write(line + '\n')
    with open(os.path.join(fix_dir, 'dump_13_no_final_newline'), 'w') as f:
        f.write('\n'.join(hexdump_bmc(data[:100])))

    # Binary PELs with I/O drawer user data sections
    ilog_data = data[:64]
    trace_data = data[64:64 + 200]
    hlog_data = bytes(rnd.getrandbits(8) if rnd.random() < 0.3 else 0
                      for _ in range(160))
    pels = {
        'pel_0_all': make_pel(b'M', 0x2C00, [(73, 1, ilog_data),
                                             (84, 1, trace_data),
                                             (72, 1, hlog_data),
                                             (5, 1, b'\x01\x02\x03\x04')]),
        'pel_1_v2': make_pel(b'M', 0x2C00, [(73, 2, ilog_data),
                                            (84, 2, trace_data[:90]),
                                            (72, 2, hlog_data[:33])]),
        'pel_2_badver': make_pel(b'M', 0x2C00, [(73, 3, ilog_data),
                                                (84, 0, trace_data),
                                                (72, 9, hlog_data)]),
        'pel_3_random': make_pel(b'M', 0x2C00, [
            (73, 1, bytes(rnd.getrandbits(8) for _ in range(50))),
            (84, 1, bytes(rnd.getrandbits(8) for _ in range(90))),
            (72, 1, bytes(rnd.getrandbits(8) for _ in range(20)))]),
    }
    pels['pel_4_truncated'] = pels['pel_0_all'][:150]
    for name, blob in pels.items():
        with open(os.path.join(fix_dir, name), 'wb') as f:
            f.write(blob)


# --------------------------------------------------------------------------
# Runner
# --------------------------------------------------------------------------

def run(root: str, cmd: list, cwd: str, opt: bool) -> tuple:
    env = dict(os.environ)
    env['PYTHONPATH'] = os.path.join(root, 'modules')
    env['PYTHONDONTWRITEBYTECODE'] = '1'
    env['PYTHONHASHSEED'] = '0'
    env.pop('PYTHONOPTIMIZE', None)
    # Note: the (pre-existing) invalid escape sequences in ilog.py/hlog.py
    # produce compile time SyntaxWarnings that contain source line numbers;
    # those are suppressed since moving code legitimately changes them.
    args = [PYTHON, '-W', 'ignore::SyntaxWarning'] + \
        (['-O'] if opt else []) + cmd
    p = subprocess.run(args, cwd=cwd, env=env, capture_output=True,
                       timeout=1800)
    out = p.stdout.replace(root.encode(), b'<ROOT>')
    err = p.stderr.replace(root.encode(), b'<ROOT>')
    return (p.returncode, out, err)


def cli_cases(fix_dir: str) -> list:
    """
    Returns command lines (relative to <root>) to run; '{root}' is replaced.
    """
    d = lambda n: os.path.join(fix_dir, n)
    dump_py = os.path.join('{root}', 'modules', 'io_drawer', 'dump.py')
    peltool = os.path.join('{root}', 'modules', 'pel', 'peltool', 'peltool.py')
    cases = []
    dumps = sorted(f for f in os.listdir(fix_dir) if f.startswith('dump_'))
    for name in dumps:
        cases.append([dump_py, d(name), '-t', 'mex'])
        cases.append([dump_py, d(name), '-t', 'nimitz'])
        cases.append([dump_py, d(name), '-t', 'mex', '-d', d('hdr_0_basic.h'),
                      '-s', d('str_0_basic')])
    cases.append([dump_py, d('dump_00_bmc'), '-t', 'mex', '-d', d('nope')])
    cases.append([dump_py, d('dump_00_bmc'), '-t', 'mex', '-s', d('nope')])
    cases.append([dump_py, d('dump_00_bmc'), '-t', 'mex', '-d', fix_dir])
    cases.append([dump_py, d('nope'), '-t', 'mex'])
    cases.append([dump_py, d('dump_00_bmc'), '-t', 'bogus'])
    cases.append([dump_py, d('dump_00_bmc')])
    cases.append([dump_py])
    cases.append([dump_py, '-h'])
    cases.append([dump_py, d('dump_00_bmc'), '-t', 'mex', '--bogus'])
    cases.append(['-m', 'io_drawer.dump', d('dump_01_prebmc'), '-t',
                  'nimitz'])
    pels = sorted(f for f in os.listdir(fix_dir) if f.startswith('pel_'))
    for name in pels:
        cases.append([peltool, '-E', '-f', d(name)])
        cases.append([peltool, '-f', d(name)])
    return cases


def main() -> int:
    if len(sys.argv) != 3:
        print(__doc__)
        return 2
    roots = [os.path.abspath(sys.argv[1]), os.path.abspath(sys.argv[2])]
    here = os.path.dirname(os.path.abspath(__file__))
    work = tempfile.mkdtemp(prefix='diffcheck_', dir=here)
    n_cases = 0
    ok = True
    try:
        fix_dir = os.path.join(work, 'fix')
        os.mkdir(fix_dir)
        make_fixtures(fix_dir)
        driver = os.path.join(work, 'driver.py')
        with open(driver, 'w') as f:
            f.write(DRIVER)

        # In-process driver
        for opt in (False, True):
            results = []
            for root in roots:
                results.append(run(root, [driver, root, fix_dir], fix_dir,
                                   opt))
            (rc_a, out_a, err_a), (rc_b, out_b, err_b) = results
            lines_a = out_a.splitlines()
            lines_b = out_b.splitlines()
            if rc_a != 0 or not lines_a or \
                    not lines_a[-1].startswith(b'TOTAL '):
                print(f'driver failed on pristine tree (opt={opt}) rc={rc_a}')
                print(err_a.decode(errors='replace')[-3000:])
                return 1
            n_cases += int(lines_a[-1].split()[1])
            if (rc_a, out_a, err_a) != (rc_b, out_b, err_b):
                ok = False
                print(f'DIFFERENCE in driver output (opt={opt}): '
                      f'rc {rc_a} vs {rc_b}')
                shown = 0
                for i in range(max(len(lines_a), len(lines_b))):
                    la = lines_a[i] if i < len(lines_a) else b'<missing>'
                    lb = lines_b[i] if i < len(lines_b) else b'<missing>'
                    if la != lb:
                        print('  pristine:', la.decode(errors='replace')[:600])
                        print('  patched :', lb.decode(errors='replace')[:600])
                        shown += 1
                        if shown >= 5:
                            break
                if err_a != err_b:
                    print('  stderr pristine:',
                          err_a.decode(errors='replace')[-1500:])
                    print('  stderr patched :',
                          err_b.decode(errors='replace')[-1500:])

        # Command line runs
        for opt in (False, True):
            for case in cli_cases(fix_dir):
                results = []
                for root in roots:
                    cmd = [c.replace('{root}', root) for c in case]
                    results.append(run(root, cmd, fix_dir, opt))
                n_cases += 1
                if results[0] != results[1]:
                    ok = False
                    print(f'DIFFERENCE in CLI case (opt={opt}): {case}')
                    for tag, res in zip(('pristine', 'patched '), results):
                        print(f'  {tag}: rc={res[0]}')
                        print('   stdout:',
                              res[1].decode(errors='replace')[-800:])
                        print('   stderr:',
                              res[2].decode(errors='replace')[-800:])
    finally:
        shutil.rmtree(work, ignore_errors=True)

    if ok:
        print(f'IDENTICAL ({n_cases} cases)')
        return 0
    print(f'DIFFERENT ({n_cases} cases)')
    return 1


if __name__ == '__main__':
    sys.exit(main())
